(* Monitors (the properties C01-C05, C10-C13 as executable predicates over an
   observed run) and correspondence checks for the pipeline model. *)
From Coq Require Import List Bool Arith NArith ZArith.
From CliUtils Require Import Corr.CorrLib Model.ObjSet Model.ActuationTable
     Model.PipelineTypes Model.Pipeline.
Import ListNotations.

(* ---- decidable equalities for traces ------------------------------------ *)
Definition nl_eqb := list_eqb Nat.eqb.
Definition optl_eqb := option_eqb nl_eqb.
Definition prop_eqb (a b : prop) : bool :=
  match a, b with
  | PropBackground, PropBackground | PropForeground, PropForeground | PropOrphan, PropOrphan => true
  | _, _ => false end.
Definition req_eqb (a b : req) : bool :=
  match a, b with
  | RNsCreate i, RNsCreate j => Nat.eqb i j
  | RInvCreate l, RInvCreate m | RInvUpdate l, RInvUpdate m => nl_eqb l m
  | RInvDelete, RInvDelete => true
  | RCreate i d, RCreate j e => Nat.eqb i j && Bool.eqb d e
  | RPatch i s d, RPatch j t e => Nat.eqb i j && Bool.eqb s t && Bool.eqb d e
  | RUpdate i, RUpdate j => Nat.eqb i j
  | RDelete i u p, RDelete j v q => Nat.eqb i j && N.eqb u v && prop_eqb p q
  | _, _ => false
  end.
Definition gk_eqb (a b : gk) : bool :=
  match a, b with
  | GInvAdd, GInvAdd | GApply, GApply | GWait, GWait | GPrune, GPrune | GInvSet, GInvSet => true
  | _, _ => false end.
Definition gn_eqb (a b : gname) : bool := gk_eqb (fst a) (fst b) && Nat.eqb (snd a) (snd b).
Definition ast_eqb (a b : ast) : bool :=
  match a, b with AOk, AOk | ASkip, ASkip | AFail, AFail => true | _, _ => false end.
Definition wst_eqb (a b : wst) : bool :=
  match a, b with
  | WPending, WPending | WOk, WOk | WSkipped, WSkipped | WFailed, WFailed | WTimedOut, WTimedOut => true
  | _, _ => false end.
Definition evt_eqb (a b : evt) : bool :=
  match a, b with
  | EValidation l, EValidation m => nl_eqb l m
  | EInit l, EInit m => list_eqb (fun x y => gn_eqb (fst x) (fst y) && nl_eqb (snd x) (snd y)) l m
  | EStarted g, EStarted h | EFinished g, EFinished h => gn_eqb g h
  | EApply g i s, EApply h j t | EPrune g i s, EPrune h j t => gn_eqb g h && Nat.eqb i j && ast_eqb s t
  | EWait g i s, EWait h j t => gn_eqb g h && Nat.eqb i j && wst_eqb s t
  | EStatus i s, EStatus j t => Nat.eqb i j && kst_eqb s t
  | EError, EError => true
  | _, _ => false
  end.
Definition sobs_eqb (a b : sobs) : bool :=
  Nat.eqb (s_id a) (s_id b) && kst_eqb (s_st a) (s_st b) && Bool.eqb (s_body a) (s_body b)
  && N.eqb (s_uid a) (s_uid b) && Z.eqb (s_gen a) (s_gen b).
Definition item_eqb (a b : item) : bool :=
  match a, b with
  | IReq r ok m s, IReq r' ok' m' s' => req_eqb r r' && Bool.eqb ok ok' && nl_eqb m m' && optl_eqb s s'
  | IDeliv x, IDeliv y => sobs_eqb x y
  | IEv e, IEv f => evt_eqb e f
  | IClosed, IClosed => true
  | _, _ => false
  end.
Definition cobj_eqb (a b : cobj) : bool :=
  Nat.eqb (c_id a) (c_id b) && N.eqb (c_uid a) (c_uid b) && owner_eqb (c_owner a) (c_owner b)
  && Bool.eqb (c_keep a) (c_keep b) && nl_eqb (c_deps a) (c_deps b) && Bool.eqb (c_baddep a) (c_baddep b)
  && Nat.eqb (c_ver a) (c_ver b)
  && option_eqb (fun x y => owner_eqb (la_owner x) (la_owner y) && Bool.eqb (la_keep x) (la_keep y)
                            && nl_eqb (la_deps x) (la_deps y) && Bool.eqb (la_baddep x) (la_baddep y)
                            && Nat.eqb (la_ver x) (la_ver y)) (c_last a) (c_last b).
Definition cluster_eqb (a b : cluster) : bool :=
  list_eqb cobj_eqb (objs a) (objs b) && optl_eqb (inv a) (inv b) && N.eqb (next_uid a) (next_uid b).

(* validation events before the plan event may come in any order: the leading
   block of validation events is sorted before comparison *)
Fixpoint list_leb (a b : list nat) : bool :=
  match a, b with
  | [], _ => true
  | _ :: _, [] => false
  | x :: a', y :: b' => if Nat.ltb x y then true else if Nat.ltb y x then false else list_leb a' b'
  end.
Fixpoint ins_ids (x : list nat) (l : list (list nat)) : list (list nat) :=
  match l with
  | [] => [x]
  | h :: t => if list_leb x h then x :: l else h :: ins_ids x t
  end.
Fixpoint split_validation (t : list item) : list (list nat) * list item :=
  match t with
  | IEv (EValidation l) :: r => let '(v, rest) := split_validation r in (ins_ids l v, rest)
  | _ => ([], t)
  end.
Definition norm_trace (t : list item) : list item :=
  let '(v, rest) := split_validation t in map (fun l => IEv (EValidation l)) v ++ rest.

Definition outcome_eqb (a b : outcome) : bool :=
  list_eqb item_eqb (norm_trace (out_trace a)) (norm_trace (out_trace b))
  && cluster_eqb (out_final a) (out_final b).

(* ---- projections of an observed trace ------------------------------------ *)
Definition events (t : list item) : list evt :=
  flat_map (fun it => match it with IEv e => [e] | _ => [] end) t.
Definition reqs (t : list item) : list (req * bool) :=
  flat_map (fun it => match it with IReq r ok _ _ => [(r, ok)] | _ => [] end) t.
Definition snaps (t : list item) : list (req * bool * list id * option (list id)) :=
  flat_map (fun it => match it with IReq r ok m s => [(r, ok, m, s)] | _ => [] end) t.
Definition has_error (t : list item) : bool :=
  existsb (fun e => match e with EError => true | _ => false end) (events t).
Definition req_target (r : req) : option id :=
  match r with
  | RNsCreate i                    (* the inventory task's create of the inventory namespace: seed C11f *)
  | RCreate i _ | RPatch i _ _ | RUpdate i | RDelete i _ _ => Some i
  | _ => None
  end.
Definition is_apply_req (r : req) (i : id) : bool :=
  match r with RCreate j _ | RPatch j _ _ => Nat.eqb i j | _ => false end.
Definition subsetn (a b : list id) : bool := forallb (fun x => memn x b) a.
Definition local_ids (sc : scenario) : list id :=
  if o_destroy (sc_opts sc) then [] else map l_id (sc_local sc).
Definition prev_of (c0 : cluster) : list id := match inv c0 with Some l => l | None => [] end.

(* the plan as the model computes it: used by the monitors only as the
   DEFINITION of "invalid object" and "dependency" of a scenario *)
Definition plan_of (sc : scenario) (c0 : cluster) : plan :=
  let locals := if o_destroy (sc_opts sc) then [] else sc_local sc in
  let cand := sortn (diffn (prev_of c0) (map l_id locals)) in
  let known := live_crds sc c0 in
  build_plan sc known locals
             (flat_map (fun i => if kind_known sc known i
                                 then match find_obj (objs c0) i with Some c => [c] | None => [] end
                                 else []) cand).

(* ---- C01: no orphans ------------------------------------------------------ *)
(* ids owned by this inventory but not tracked before the run: not applied by a
   run of this history, outside the property *)
Definition exempt0 (c0 : cluster) : list id := diffn (managed c0) (prev_of c0).
Definition snap_ok (sc : scenario) (c0 : cluster) (m : list id) (s : option (list id)) : bool :=
  forallb (fun i => memn i (exempt0 c0) ||
                    match s with
                    | Some l => memn i l
                    | None => match sc_inv_ns sc, inv c0 with
                              | Some n, None => Nat.eqb i n    (* inventory being created for the first time *)
                              | _, _ => false
                              end
                    end) m.
Definition mon_C01 (sc : scenario) (c0 : cluster) (out : outcome) : bool :=
  forallb (fun x => let '(r, ok, m, s) := x in
                    snap_ok sc c0 m s &&
                    match r, ok with
                    | RInvDelete, true => subsetn m (exempt0 c0)
                    | _, _ => true
                    end) (snaps (out_trace out))
  && snap_ok sc c0 (managed (out_final out)) (inv (out_final out)).

(* ---- C02: authorised deletes / applies ------------------------------------ *)
Definition pol_ok (p : policy) (ow : owner) : bool :=
  match ow with
  | ONone => match p with PMustMatch => false | _ => true end
  | OOurs => true
  | OOther => match p with PAdoptAll => true | _ => false end
  end.
(* replay the accepted requests to know which objects exist, with which owner *)
Definition replay_req (sc : scenario) (cur : list (id * owner * N)) (r : req) (ok : bool) : list (id * owner * N) :=
  if negb ok then cur else
  match r with
  | RNsCreate i | RCreate i false => (i, OOurs, 0%N) :: filter (fun x => negb (Nat.eqb (fst (fst x)) i)) cur
  | RPatch i _ false =>
      let u := match find (fun x => Nat.eqb (fst (fst x)) i) cur with Some x => snd x | None => 0%N end in
      (i, OOurs, u) :: filter (fun x => negb (Nat.eqb (fst (fst x)) i)) cur
  | RUpdate i =>
      let u := match find (fun x => Nat.eqb (fst (fst x)) i) cur with Some x => snd x | None => 0%N end in
      (i, ONone, u) :: filter (fun x => negb (Nat.eqb (fst (fst x)) i)) cur
  | RDelete i _ _ => filter (fun x => negb (Nat.eqb (fst (fst x)) i)) cur
  | _ => cur
  end.
Fixpoint c02_walk (sc : scenario) (c0 : cluster) (cur : list (id * owner * N)) (applied : list id)
         (t : list item) : bool :=
  match t with
  | [] => true
  | IReq r ok _ _ :: rest =>
      let o := sc_opts sc in
      let here :=
        match r with
        | RDelete i pre p =>
            match find_obj (objs c0) i with
            | None => false
            | Some c =>
                memn i (prev_of c0) && negb (memn i (local_ids sc)) && pol_ok (o_policy o) (c_owner c)
                && negb (c_keep c)
                && negb (negb (o_destroy o) && match u_kind (uinfo_of sc i) with KNs => ns_in_use sc (sc_local sc) i | _ => false end)
                && negb (existsb (fun j => match find (fun x => Nat.eqb (fst (fst x)) j) cur with
                                           | Some x => N.eqb (snd x) (c_uid c) && negb (N.eqb (c_uid c) 0)
                                           | None => false end) applied)
                && N.eqb pre (c_uid c) && prop_eqb p (o_prop o)
            end
        | RCreate i _ | RPatch i _ _ =>
            match find (fun x => Nat.eqb (fst (fst x)) i) cur with
            | Some x => pol_ok (o_policy o) (snd (fst x))
            | None => true
            end
        | _ => true
        end in
      here && c02_walk sc c0 (replay_req sc cur r ok)
                       (match r with RCreate i _ | RPatch i _ _ => if ok then i :: applied else applied | _ => applied end)
                       rest
  | _ :: rest => c02_walk sc c0 cur applied rest
  end.
Definition spared (t : list item) : list id :=
  flat_map (fun e => match e with EPrune _ i ASkip => [i] | _ => [] end) (events t).
Definition mon_C02 (sc : scenario) (c0 : cluster) (out : outcome) : bool :=
  let t := out_trace out in
  let o := sc_opts sc in
  c02_walk sc c0 (map (fun c => (c_id c, c_owner c, c_uid c)) (objs c0)) [] t
  && (is_dry (o_dry o) || has_error t ||
      forallb (fun i =>
        match find_obj (objs c0) i with
        | None => true
        | Some c =>
            let fin := out_final out in
            if c_keep c then
              negb (memn i (managed fin)) && negb (memn i (prev_of fin))
            else true
        end) (spared t)).

(* ---- C10: dry-run ---------------------------------------------------------- *)
Definition result_events_cover (t : list item) : bool :=
  let evs := events t in
  forallb (fun e =>
    match e with
    | EInit groups =>
        forallb (fun g =>
          match fst (fst g) with
          | GApply => forallb (fun i => Nat.eqb 1 (length (filter (fun e => match e with EApply h j _ => gn_eqb h (fst g) && Nat.eqb i j | _ => false end) evs))) (snd g)
          | GPrune => forallb (fun i => Nat.eqb 1 (length (filter (fun e => match e with EPrune h j _ => gn_eqb h (fst g) && Nat.eqb i j | _ => false end) evs))) (snd g)
          | _ => true
          end) groups
    | _ => true
    end) evs.
Definition mon_C10 (sc : scenario) (c0 : cluster) (out : outcome) : bool :=
  match o_dry (sc_opts sc) with
  | DNone => true
  | DClient =>
      match reqs (out_trace out) with [] => true | _ => false end
      && cluster_eqb (out_final out) (norm_cluster c0)
      && (has_error (out_trace out) || result_events_cover (out_trace out))
  | DServer =>
      forallb (fun x => match fst x with RPatch _ true true => true | _ => false end) (reqs (out_trace out))
      && (has_error (out_trace out) || result_events_cover (out_trace out))
  end.

(* ---- C11: invalid objects -------------------------------------------------- *)
Definition mon_C11 (sc : scenario) (c0 : cluster) (out : outcome) : bool :=
  let pl := plan_of sc c0 in
  let invd := pl_invalid pl in
  let t := out_trace out in
  (* never sent *)
  forallb (fun x => match req_target (fst x) with Some i => negb (memn i invd) | None => true end) (reqs t)
  (* never added to the stored inventory unless already tracked *)
  && forallb (fun x => let '(_, _, _, s) := x in
                       match s with Some l => forallb (fun i => negb (memn i invd) || memn i (prev_of c0)) l | None => true end)
             (snaps t)
  && match invd with
     | [] => true
     | _ =>
         match o_valpol (sc_opts sc) with
         | VExitEarly =>
             (* ends with the error before any mutating request *)
             match reqs t with [] => true | _ => false end && has_error t
         | VSkipInvalid =>
             (* each invalid object is named by a validation event, unless the run stopped before the plan *)
             (negb (existsb (fun e => match e with EInit _ => true | _ => false end) (events t)) ||
              forallb (fun i => existsb (fun e => match e with EValidation l => memn i l | _ => false end) (events t)) invd)
             (* tracked invalid objects stay in the inventory and are not pruned *)
             && (has_error t || is_dry (o_dry (sc_opts sc)) ||
                 forallb (fun i => negb (memn i (prev_of c0)) || memn i (prev_of (out_final out))) invd)
         end
     end.

(* ---- C13: event grammar ---------------------------------------------------- *)
(* validation* ; init ; (started g ; body ; finished g) for a prefix of the plan ; error? ; closed *)
Definition body_ok (g : gname) (e : evt) : bool :=
  match e with
  | EApply h _ _ => gn_eqb g h && gk_eqb (fst g) GApply
  | EPrune h _ _ => gn_eqb g h && gk_eqb (fst g) GPrune
  | EWait h _ _ => gn_eqb g h && gk_eqb (fst g) GWait
  | EStatus _ _ => true
  | _ => false
  end.
Fixpoint take_body (g : gname) (evs : list evt) : list evt * list evt :=
  match evs with
  | e :: r => if body_ok g e then let '(b, rest) := take_body g r in (e :: b, rest) else ([], evs)
  | [] => ([], [])
  end.
Definition group_complete (g : gname) (ids : list id) (body : list evt) : bool :=
  match fst g with
  | GApply => forallb (fun i => Nat.eqb 1 (length (filter (fun e => match e with EApply _ j _ => Nat.eqb i j | _ => false end) body))) ids
              && forallb (fun e => match e with EApply _ j _ => memn j ids | _ => true end) body
  | GPrune => forallb (fun i => Nat.eqb 1 (length (filter (fun e => match e with EPrune _ j _ => Nat.eqb i j | _ => false end) body))) ids
              && forallb (fun e => match e with EPrune _ j _ => memn j ids | _ => true end) body
  | GWait => forallb (fun i => existsb (fun e => match e with EWait _ j _ => Nat.eqb i j | _ => false end) body) ids
             && forallb (fun e => match e with EWait _ j _ => memn j ids | _ => true end) body
  | _ => true
  end.
Fixpoint groups_ok (fuel : nat) (plan : list (gname * list id)) (evs : list evt) : bool :=
  match fuel with
  | 0 => false
  | S f =>
      match evs with
      | [] => true
      | [EError] => true
      | EStatus _ _ :: r => groups_ok f plan r
      | EStarted g :: r =>
          match plan with
          | (g', ids) :: plan' =>
              gn_eqb g g' &&
              let '(body, rest) := take_body g r in
              match rest with
              | EFinished h :: rest' => gn_eqb g h && group_complete g ids body && groups_ok f plan' rest'
              | _ => false
              end
          | [] => false
          end
      | _ => false
      end
  end.
Fixpoint skip_validation (evs : list evt) : list evt :=
  match evs with
  | EValidation _ :: r => skip_validation r
  | _ => evs
  end.
Definition mon_C13_core (t : list item) : bool :=
  let evs := events t in
  (* closed, and closed last *)
  match rev t with IClosed :: r => negb (existsb (fun it => match it with IClosed => true | _ => false end) r) | _ => false end
  && (length (filter (fun e => match e with EError => true | _ => false end) evs) <=? 1)
  && match skip_validation evs with
     | [EError] => true
     | EInit plan :: r => groups_ok (S (length r)) plan r
     | _ => false
     end.
Definition mon_C13 (sc : scenario) (c0 : cluster) (out : outcome) : bool := mon_C13_core (out_trace out).

(* ---- C12: cancellation and timeouts ---------------------------------------- *)
Fixpoint after_started (g : gname) (evs : list evt) : list evt :=
  match evs with
  | [] => []
  | EStarted h :: r => if gn_eqb g h then r else after_started g r
  | _ :: r => after_started g r
  end.
Fixpoint upto_finished (g : gname) (evs : list evt) : list evt * list evt :=
  match evs with
  | [] => ([], [])
  | EFinished h :: r => if gn_eqb g h then ([], r) else let '(a, b) := upto_finished g r in (EFinished h :: a, b)
  | e :: r => let '(a, b) := upto_finished g r in (e :: a, b)
  end.
Definition last_wait_in (body : list evt) (i : id) : option wst :=
  match rev (flat_map (fun e => match e with EWait _ j s => if Nat.eqb i j then [s] else [] | _ => [] end) body) with
  | s :: _ => Some s
  | [] => None
  end.
Fixpoint before_first_timeout (body : list evt) : list evt :=
  match body with
  | [] => []
  | EWait _ _ WTimedOut :: _ => []
  | e :: r => e :: before_first_timeout r
  end.
Fixpoint no_started_after (seen : bool) (t : list item) (trigger : item -> bool) : bool :=
  match t with
  | [] => true
  | it :: r =>
      (negb seen || match it with IEv (EStarted _) => false | _ => true end)
      && no_started_after (seen || trigger it) r trigger
  end.
Definition mon_C12 (sc : scenario) (c0 : cluster) (out : outcome) : bool :=
  let t := out_trace out in
  let evs := events t in
  let o := sc_opts sc in
  let plan := flat_map (fun e => match e with EInit p => p | _ => [] end) evs in
  (* every wait phase: Timeout exactly for what was pending, only with a timeout
     configured; a phase that ends with pending objects and no Timeout was
     cancelled, so the error event follows at once *)
  forallb (fun g =>
    match fst (fst g) with
    | GWait =>
        let '(body, rest) := upto_finished (fst g) (after_started (fst g) evs) in
        let timed := flat_map (fun e => match e with EWait _ i WTimedOut => [i] | _ => [] end) body in
        let pre := before_first_timeout body in
        let pend_at_fire := filter (fun i => match last_wait_in pre i with Some WPending => true | _ => false end) (snd g) in
        match timed with
        | [] =>
            negb (existsb (fun e => match e with EStarted h => gn_eqb h (fst g) | _ => false end) evs)
            || negb (existsb (fun e => match e with EFinished h => gn_eqb h (fst g) | _ => false end) evs)
            || negb (existsb (fun i => match last_wait_in body i with Some WPending => true | _ => false end) (snd g))
            || match rest with EError :: _ => true | _ => false end
        | _ =>
            nl_eqb (sortn timed) (sortn pend_at_fire)
            && (o_rec_timeout o || o_prune_timeout o)
            (* nothing but status events after the first Timeout event of the phase *)
            && forallb (fun e => match e with EWait _ _ WTimedOut | EStatus _ _ => true | _ => false end)
                       (skipn (length pre) body)
        end
    | _ => true
    end) plan
  (* cancellation: nothing is started after the cancellation point, one error event, closed *)
  && match e_cancel (sc_env sc) with
     | CNever => true
     | CBeforeSync => negb (existsb (fun e => match e with EStarted _ => true | _ => false end) evs)
                      && (has_error t)
     | CDuringReq i =>
         let hit it := match it with
                       | IReq (RCreate j _) _ _ _ | IReq (RPatch j _ _) _ _ _ | IReq (RDelete j _ _) _ _ _ => Nat.eqb i j
                       | _ => false end in
         no_started_after false t hit && (negb (existsb hit t) || has_error t)
     end
  && mon_C13_core t
  && mon_C01 sc c0 out.

(* ---- C04 / C05: ordering ---------------------------------------------------- *)
(* position-indexed view of the trace *)
Fixpoint index_from {A} (n : nat) (l : list A) : list (nat * A) :=
  match l with [] => [] | x :: t => (n, x) :: index_from (S n) t end.
Definition mon_C04 (sc : scenario) (c0 : cluster) (out : outcome) : bool :=
  let pl := plan_of sc c0 in
  let t := index_from 0 (out_trace out) in
  let dryrun := is_dry (o_dry (sc_opts sc)) in
  let apply_ids := map p_id (pl_apply pl) in
  forallb (fun pit =>
    match snd pit with
    | IReq r _ _ _ =>
        match r with
        | RCreate d _ | RPatch d _ _ =>
            forallb (fun e =>
              (* the dependency's apply succeeded earlier ... *)
              existsb (fun q => match snd q with
                                | IEv (EApply _ e' AOk) => Nat.eqb e e' && Nat.ltb (fst q) (fst pit)
                                | _ => false end) t
              (* ... and, outside dry-run, its last wait event before this request is Successful *)
              && (dryrun ||
                  match rev (filter (fun q => Nat.ltb (fst q) (fst pit) &&
                                              match snd q with IEv (EWait _ e' _) => Nat.eqb e e' | _ => false end) t) with
                  | (_, IEv (EWait _ _ WOk)) :: _ => true
                  | _ => false
                  end))
              (g_deps (pl_graph pl) d)
        | _ => true
        end
    | _ => true
    end) t
  (* blocked dependents are never sent *)
  && forallb (fun d =>
       forallb (fun e =>
         let bad :=
           memn e (pl_invalid pl) || negb (memn e apply_ids)
           || existsb (fun it => match it with
                                 | IEv (EApply _ e' AFail) | IEv (EApply _ e' ASkip) => Nat.eqb e e'
                                 | _ => false end) (out_trace out)
           || (negb dryrun &&
               match rev (filter (fun it => match it with IEv (EWait _ e' _) => Nat.eqb e e' | _ => false end) (out_trace out)) with
               | IEv (EWait _ _ WFailed) :: _ | IEv (EWait _ _ WTimedOut) :: _ | IEv (EWait _ _ WSkipped) :: _ => true
               | _ => false
               end) in
         negb bad || negb (existsb (fun x => is_apply_req (fst x) d) (reqs (out_trace out))))
       (g_deps (pl_graph pl) d)) apply_ids.

(* observation-level strengthening of C04 (not part of mon_C04, whose model
   theorem is C04_monitor): the Successful wait event that licenses the apply of
   a dependent must itself rest on an observation of the dependency that is
   Current, carries a body, at a generation not older than the applied one (2
   in the harness) and with the applied UID *)
Definition obs_current_ok (fin : cluster) (e : id) (o : sobs) : bool :=
  kst_eqb (s_st o) SCurrent && s_body o && Z.leb 2 (s_gen o) &&
  negb (negb (N.eqb (s_uid o) 0) &&
        match find_obj (objs fin) e with
        | Some c => negb (N.eqb (c_uid c) 0) && negb (N.eqb (c_uid c) (s_uid o))
        | None => false
        end).
Definition mon_C04_obs (sc : scenario) (c0 : cluster) (out : outcome) : bool :=
  let pl := plan_of sc c0 in
  let t := index_from 0 (out_trace out) in
  is_dry (o_dry (sc_opts sc)) ||
  forallb (fun pit =>
    match snd pit with
    | IReq (RCreate d _) _ _ _ | IReq (RPatch d _ _) _ _ _ =>
        forallb (fun e =>
          match rev (filter (fun q => Nat.ltb (fst q) (fst pit) &&
                                      match snd q with IEv (EWait _ e' _) => Nat.eqb e e' | _ => false end) t) with
          | (qpos, IEv (EWait _ _ WOk)) :: _ =>
              match rev (filter (fun q => Nat.ltb (fst q) qpos &&
                                          match snd q with IDeliv o => Nat.eqb (s_id o) e | _ => false end) t) with
              | (_, IDeliv o) :: _ => obs_current_ok (out_final out) e o
              | _ => false
              end
          | _ => true      (* the wait-event conjunct of mon_C04 reports this case *)
          end) (g_deps (pl_graph pl) d)
    | _ => true
    end) t.

Definition mon_C05 (sc : scenario) (c0 : cluster) (out : outcome) : bool :=
  let pl := plan_of sc c0 in
  let t := index_from 0 (out_trace out) in
  let dryrun := is_dry (o_dry (sc_opts sc)) in
  let prune_ids := map p_id (pl_prune pl) in
  forallb (fun pit =>
    match snd pit with
    | IReq (RDelete e _ _) _ _ _ =>
        forallb (fun d =>
          (* every dependent of the run was deleted earlier and observed gone *)
          memn d prune_ids
          && existsb (fun q => match snd q with
                               | IEv (EPrune _ d' AOk) => Nat.eqb d d' && Nat.ltb (fst q) (fst pit)
                               | _ => false end) t
          && (dryrun ||
              match rev (filter (fun q => Nat.ltb (fst q) (fst pit) &&
                                          match snd q with IEv (EWait _ d' _) => Nat.eqb d d' | _ => false end) t) with
              | (_, IEv (EWait _ _ WOk)) :: _ => true
              | _ => false
              end))
          (g_dependents (pl_graph pl) e)
    | _ => true
    end) t
  (* a dependency that was not deleted stays in the inventory *)
  && (has_error (out_trace out) || dryrun ||
      forallb (fun e =>
        existsb (fun x => match fst x with RDelete e' _ _ => Nat.eqb e e' | _ => false end) (reqs (out_trace out))
        || existsb (fun it => match it with IEv (EPrune _ e' AOk) => Nat.eqb e e' | _ => false end) (out_trace out)
        || negb (o_prune (sc_opts sc))
        || memn e (prev_of (out_final out))
        || (match find_obj (objs c0) e with Some c => c_keep c | None => false end)
        (* spared as the same object (UID) as one just applied: it loses the annotation and leaves the
           inventory (C02); any other skipped object must stay — seed C05f *)
        || existsb (fun it => match it with IEv (EPrune _ e' ASkip) => Nat.eqb e e' | _ => false end) (out_trace out)
           && negb (memn e (managed (out_final out)))
           && match find_obj (objs c0) e with
              | Some c =>
                  existsb (fun it => match it with
                                     | IEv (EApply _ j AOk) =>
                                         match find_obj (objs (out_final out)) j with
                                         | Some c' => N.eqb (c_uid c') (c_uid c) | None => false end
                                     | _ => false end) (out_trace out)
              | None => false
              end) prune_ids).

(* ---- C03: convergence -------------------------------------------------------- *)
Definition last_wait (t : list item) (i : id) : option wst :=
  match rev (flat_map (fun it => match it with IEv (EWait _ j s) => if Nat.eqb i j then [s] else [] | _ => [] end) t) with
  | s :: _ => Some s
  | [] => None
  end.
Definition mon_C03 (sc : scenario) (c0 : cluster) (out : outcome) : bool :=
  let t := out_trace out in
  let o := sc_opts sc in
  if has_error t || is_dry (o_dry o) then true else
  let pl := plan_of sc c0 in
  let prev := prev_of c0 in
  let evs := events t in
  let ok_applied := flat_map (fun e => match e with EApply _ i AOk => [i] | _ => [] end) evs in
  let bad_act := flat_map (fun e => match e with EApply _ i AFail | EApply _ i ASkip | EPrune _ i AFail | EPrune _ i ASkip => [i] | _ => [] end) evs in
  let unrec := filter (fun i => match last_wait t i with Some WFailed | Some WTimedOut => true | _ => false end)
                      (map p_id (pl_apply pl) ++ map p_id (pl_prune pl)) in
  let unpruned := if o_prune o then [] else map p_id (pl_prune_all pl) in
  let detached := filter (fun i => negb (memn i (managed (out_final out)))
                                   && match find_obj (objs c0) i with Some c => c_keep c | None => false end)
                         (spared t) in
  let aliased := filter (fun i => match find_obj (objs c0) i with
                                  | Some c => negb (c_keep c) && pol_ok (o_policy o) (c_owner c)
                                              (* the filters that run before the UID filter let it through: the
                                                 namespace is not in use, every dependent was deleted and observed gone *)
                                              && negb (negb (o_destroy o) && match u_kind (uinfo_of sc i) with KNs => ns_in_use sc (sc_local sc) i | _ => false end)
                                              && forallb (fun d => existsb (fun e => match e with EPrune _ d' AOk => Nat.eqb d d' | _ => false end) evs
                                                                   && match last_wait t d with Some WOk => true | _ => false end)
                                                         (g_dependents (pl_graph pl) i)
                                              && existsb (fun j => match find_obj (objs (out_final out)) j with
                                                                   | Some c' => N.eqb (c_uid c') (c_uid c) | None => false end) ok_applied
                                  | None => false end) (spared t) in
  let expect := diffn (unionn ok_applied (intern prev (bad_act ++ unrec ++ pl_invalid pl ++ unpruned)))
                      (detached ++ aliased) in
  let fin := out_final out in
  match inv fin with
  | None => o_destroy o && match managed fin with [] => true | l => subsetn l (exempt0 c0) end
  | Some l =>
      set_eqn l expect
      (* every successfully applied object is live with our annotation *)
      && forallb (fun i => memn i (managed fin)) ok_applied
      (* objects whose delete succeeded are gone, unless a finalizer holds them *)
      && forallb (fun e => match e with
                           | EPrune _ i AOk => match find_obj (objs fin) i with None => true | Some _ => u_fin (uinfo_of sc i) end
                           | _ => true end) evs
  end.

(* ---- the correspondence checks ---------------------------------------------- *)
Definition history := (cluster * list (scenario * outcome))%type.

Fixpoint check_runs (mon : scenario -> cluster -> outcome -> bool) (c : cluster)
         (runs : list (scenario * outcome)) : bool * bool :=
  match runs with
  | [] => (true, true)
  | (sc, obs) :: rest =>
      let agree := outcome_eqb (run sc c) obs in
      let m := mon sc c obs in
      let '(a', m') := check_runs mon (out_final obs) rest in
      (agree && a', m && m')
  end.

Definition check_with (mon : scenario -> cluster -> outcome -> bool) (h : history) : nat :=
  let '(c0, runs) := h in
  let '(a, m) := check_runs mon c0 runs in code a m.

(* fixpoint part of C03: an identical clean second apply sends no create/delete
   and leaves the inventory unchanged; checked across consecutive runs *)
Fixpoint c03_fixpoint (c : cluster) (runs : list (scenario * outcome)) : bool :=
  match runs with
  | (sc1, o1) :: (((sc2, o2) :: _) as rest) =>
      let clean t := negb (has_error t)
                     && negb (existsb (fun e => match e with
                                                | EApply _ _ AFail | EApply _ _ ASkip | EPrune _ _ AFail | EPrune _ _ ASkip
                                                | EWait _ _ WFailed | EWait _ _ WTimedOut | EWait _ _ WSkipped => true
                                                | _ => false end) (events t)) in
      let same := negb (o_destroy (sc_opts sc1)) && negb (o_destroy (sc_opts sc2))
                  && nl_eqb (map l_id (sc_local sc1)) (map l_id (sc_local sc2))
                  && list_eqb (fun a b => Nat.eqb (l_ver a) (l_ver b) && Bool.eqb (l_keep a) (l_keep b) && nl_eqb (l_deps a) (l_deps b)
                                          && Bool.eqb (l_baddep a) (l_baddep b) && Bool.eqb (l_finv a) (l_finv b)
                                          && Bool.eqb (l_mut a) (l_mut b))
                              (sc_local sc1) (sc_local sc2)
                  (* a second run that prunes what the first one was told to leave is not "the same apply" *)
                  && (negb (o_prune (sc_opts sc2)) || o_prune (sc_opts sc1))
                  && negb (is_dry (o_dry (sc_opts sc1))) && negb (is_dry (o_dry (sc_opts sc2)))
                  && negb (o_ssa (sc_opts sc2)) && negb (o_status_policy_all (sc_opts sc2)) in
      (negb (same && clean (out_trace o1) && clean (out_trace o2))
       || (forallb (fun x => match fst x with
                             | RCreate _ _ | RDelete _ _ _ | RInvCreate _ | RInvDelete => false
                             | RNsCreate _ => negb (snd x)            (* AlreadyExists *)
                             | RInvUpdate l => optl_eqb (Some l) (inv (out_final o1))   (* rewritten with the same keys *)
                             | _ => true end) (reqs (out_trace o2))
           && optl_eqb (inv (out_final o1)) (inv (out_final o2))))
      && c03_fixpoint (out_final o1) rest
  | _ => true
  end.

Definition check_C01 := check_with mon_C01.
Definition check_C02 := check_with mon_C02.
(* "a destroy in which every object is deleted leaves neither managed objects nor the inventory object":
   with mon_C03 (stored keys = the retained set) this is: after an error-free real destroy the stored
   inventory is never an EMPTY object — it is deleted, or it retains something (seed C03e). Executable
   check on the implementation's outcome; for the model see C03_destroy_never_leaves_empty_inventory. *)
Definition c03_destroy_done (sc : scenario) (out : outcome) : bool :=
  let o := sc_opts sc in
  if has_error (out_trace out) || is_dry (o_dry o) || negb (o_destroy o) then true
  else match inv (out_final out) with
       | Some [] => false
       | _ => true
       end.
Definition check_C03 (h : history) : nat :=
  let '(c0, runs) := h in
  let '(a, m) := check_runs mon_C03 c0 runs in
  code a (m && c03_fixpoint c0 runs && forallb (fun x => c03_destroy_done (fst x) (snd x)) runs).
Definition check_C04 := check_with (fun sc c0 out => mon_C04 sc c0 out && mon_C04_obs sc c0 out).
Definition check_C05 := check_with mon_C05.
Definition check_C10 := check_with mon_C10.
Definition check_C11 := check_with mon_C11.
Definition check_C12 := check_with mon_C12.
Definition check_C13 := check_with mon_C13.

(* all monitors at once (used by the theorems' non-vacuity examples and by
   the harness during development) *)
Definition mon_all (sc : scenario) (c0 : cluster) (out : outcome) : list bool :=
  [mon_C01 sc c0 out; mon_C02 sc c0 out; mon_C03 sc c0 out; mon_C04 sc c0 out; mon_C05 sc c0 out;
   mon_C10 sc c0 out; mon_C11 sc c0 out; mon_C12 sc c0 out; mon_C13 sc c0 out; mon_C04_obs sc c0 out].

(* ---- boolean well-formedness of a scenario / initial cluster ------------------ *)
(* The hypothesis WF of Proofs/PipelineOrphansRun.v as an executable predicate (reflection lemmas
   wf_fin_b_spec / wf_b_spec there), so that harnesses and fuzzers can evaluate it on generated cases.
   fin_obs_ok: a status delivery does not lie about an object held by a finalizer (never NotFound,
   no UID other than the one the object has in the cluster). *)
Definition fin_obs_ok (sc : scenario) (c0 : cluster) (o : sobs) : bool :=
  negb (u_fin (uinfo_of sc (s_id o))) ||
  (negb (kst_eqb (s_st o) SNotFound) &&
   (negb (s_body o) || N.eqb (s_uid o) 0 ||
    forallb (fun c => negb (Nat.eqb (c_id c) (s_id o)) || N.eqb (s_uid o) (c_uid c)) (objs c0))).
Definition wf_fin_b (sc : scenario) (c0 : cluster) : bool :=
  forallb (fun w => forallb (fin_obs_ok sc c0) (w_deliv w)) (e_waits (sc_env sc)).
Fixpoint nodupb (l : list nat) : bool :=
  match l with [] => true | x :: t => negb (memn x t) && nodupb t end.
(* a tracked custom resource of the cluster has its CRD in the cluster (its kind is known to a freshly reset mapper) *)
Definition wf_crd_b (sc : scenario) (c0 : cluster) : bool :=
  forallb (fun c => negb (memn (c_id c) (prev_of c0)) || kind_known sc (live_crds sc c0) (c_id c)) (objs c0).
Definition wf_b (sc : scenario) (c0 : cluster) : bool :=
  (o_destroy (sc_opts sc) || nodupb (map l_id (sc_local sc)))
  && nodupb (map c_id (objs c0))
  && forallb (fun c => N.ltb (c_uid c) (next_uid c0)) (objs c0)
  && forallb (fun c => forallb (fun c' => negb (N.eqb (c_uid c) (c_uid c')) || Nat.eqb (c_id c) (c_id c')) (objs c0)) (objs c0)
  && match sc_inv_ns sc, inv c0 with
     | Some n, Some l => memn n (map c_id (objs c0)) || memn n l
     | _, _ => true
     end
  && (negb (o_destroy (sc_opts sc)) || o_prune (sc_opts sc))
  && wf_fin_b sc c0
  && wf_crd_b sc c0.

(* ---- C06 seen through the pipeline -------------------------------------------------
   The C06 check proper drives WaitTask and the runner directly (Model/WaitTask.v).  This
   monitor states two of C06's clauses on whole runs, where the actuation records come from
   the real apply / prune tasks: (1) an object is reported Skipped by its wait group exactly
   when its actuation in this run failed or was skipped; (2) after a Skipped or a timed-out
   wait event no further wait event is emitted for the object (terminal), and a Successful
   one is only ever followed by a change, and Pending is never repeated.  (Failed may be
   repeated: an object reported Failed whose UID is then seen replaced is reported Failed again
   by the AllCurrent wait - the behaviour of the repaired code, C06_witness_failed_then_replaced;
   a first version of this monitor forbade it and was refuted on the model by a WF witness.) *)
Definition last_act (pre : list item) (i : id) : option ast :=
  match rev (flat_map (fun it => match it with
                                 | IEv (EApply _ j s) | IEv (EPrune _ j s) => if Nat.eqb i j then [s] else []
                                 | _ => [] end) pre) with
  | s :: _ => Some s
  | [] => None
  end.
Fixpoint c06_walk (pre : list item) (t : list item) : bool :=
  match t with
  | [] => true
  | it :: rest =>
      (match it with
       | IEv (EWait _ i s) =>
           let bad_act := match last_act pre i with Some AFail | Some ASkip => true | _ => false end in
           Bool.eqb (match s with WSkipped => true | _ => false end) bad_act
           && match last_wait pre i, s with
              | Some WSkipped, _ | Some WTimedOut, _ => false
              | Some WOk, WOk | Some WPending, WPending => false
              | _, _ => true
              end
       | _ => true
       end) && c06_walk (pre ++ [it]) rest
  end.
Definition mon_C06p (sc : scenario) (c0 : cluster) (out : outcome) : bool := c06_walk [] (out_trace out).
Definition check_C06p := check_with mon_C06p.

Definition mon_all_ext (sc : scenario) (c0 : cluster) (out : outcome) : list bool :=
  mon_all sc c0 out ++ [mon_C06p sc c0 out].

(* ---- monitor-only checks (no model run) ---------------------------------------
   For streams whose environment is outside the model (a RESTMapper that learns a custom
   kind only when its CRD is in the cluster at the last reset: apply of a custom resource
   whose CRD failed to apply ends in ApplyFailed(unknown type) before any filter runs).
   The property monitors that only read the trace are evaluated on the implementation's
   own trace; agreement with the model is not claimed for these cases. *)
Definition check_C13_monly (h : history) : nat :=
  let '(c0, runs) := h in
  code true (forallb (fun x => mon_C13_core (out_trace (snd x)) && mon_C06p (fst x) c0 (snd x)) runs).
