(* C09 correspondence: model = implementation on the observation of
   status.Compute; monitor = the property on the observation alone (no panic,
   well-formed result, input untouched, same answer twice). *)
From Coq Require Import List Bool ZArith String.
From CliUtils Require Import Corr.CorrLib Base.Json Model.KStatus Corr.CorrKStatus.
Import ListNotations.

Definition mon_C09 (c : kcase) : bool :=
  let '(KC _ _ o unchanged same) := c in obs_wellformed o && unchanged && same.

Definition check_C09 (c : kcase) : nat := code (agree_compute c) (mon_C09 c).
