(* C09 correspondence: model = implementation on the observation of
   status.Compute; monitor = the property on the observation alone (no panic,
   well-formed result, input untouched, same answer twice). *)
From Coq Require Import List Bool ZArith String.
From CliUtils Require Import Corr.CorrLib Base.Json Model.KStatus Corr.CorrKStatus.
Import ListNotations.

Definition mon_C09 (c : kcase) : bool :=
  let '(KC _ _ o unchanged same) := c in obs_wellformed o && unchanged && same.

Definition check_C09 (c : kcase) : nat := code (agree_compute c) (mon_C09 c).

(* ---- converter probe: status.GetObjectWithConditions (the real
   runtime.DefaultUnstructuredConverter) against Base.Json's model of its
   acceptance set and result.  out = None: it returned an error. *)
Inductive pcase := PC (input : jv) (out : option (list (string * string * string * string))) (panicked : bool).

Definition quad_of (c : bcond) : string * string * string * string :=
  (c_type c, c_status c, c_reason c, c_message c).
Definition quad_eqb (a b : string * string * string * string) : bool :=
  let '(a1, a2, a3, a4) := a in
  let '(b1, b2, b3, b4) := b in
  String.eqb a1 b1 && String.eqb a2 b2 && String.eqb a3 b3 && String.eqb a4 b4.

Definition check_probe (c : pcase) : nat :=
  let '(PC input out panicked) := c in
  code (option_eqb (list_eqb quad_eqb) (option_map (map quad_of) (get_object_with_conditions input)) out)
       (negb panicked).
