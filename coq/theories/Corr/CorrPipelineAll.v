(* Every pipeline monitor at once on one history: used by the mutation campaign
   (tools/mutpipe.py), which runs a few generator profiles against a mutated tree and wants
   to know whether ANY property monitor objects. Not used by the registered checks. *)
From Coq Require Import List Bool.
From CliUtils Require Import Corr.CorrLib Model.PipelineTypes Corr.CorrPipeline.
Import ListNotations.

(* Outside the boolean well-formedness of the theorems (UID aliases: two identifiers that are one
   object; the fake keeps them as two) the inventory monitors C01 / C05 / C12 are not claimed. *)
Definition mon_every (sc : scenario) (c0 : cluster) (out : outcome) : bool :=
  if wf_b sc c0 then forallb (fun b => b) (mon_all_ext sc c0 out)
  else mon_C02 sc c0 out && mon_C03 sc c0 out && mon_C04 sc c0 out && mon_C10 sc c0 out
       && mon_C11 sc c0 out && mon_C13 sc c0 out && mon_C04_obs sc c0 out && mon_C06p sc c0 out.

Definition check_all (h : history) : nat :=
  let '(c0, runs) := h in
  let '(a, m) := check_runs mon_every c0 runs in code a (m && c03_fixpoint c0 runs).
