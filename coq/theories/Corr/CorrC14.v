(* Correspondence and monitors for C14.  Vertices are nat indices into a table
   of ids (`tab`); ordering.less on a vertex is id_ltb on its table entry. *)
From Coq Require Import List Bool Arith String Ascii.
From CliUtils Require Import Corr.CorrLib Model.ObjSet Model.ObjId Model.Graph Model.DepGraph.
Import ListNotations.
Local Open Scope string_scope.
Local Open Scope list_scope.

Definition tab_id (tab : list id) (n : nat) : id := nth n tab (mkId "" "" "" "").
Definition tab_ltb (tab : list id) (a b : nat) : bool := id_ltb (tab_id tab a) (tab_id tab b).

Definition inb (x : nat) (l : list nat) : bool := existsb (Nat.eqb x) l.
Definition nl_eqb := list_eqb Nat.eqb.
Definition pair_eqb (p q : nat * nat) : bool := Nat.eqb (fst p) (fst q) && Nat.eqb (snd p) (snd q).
Definition inpb (p : nat * nat) (l : list (nat * nat)) : bool := existsb (pair_eqb p) l.
Definition set_eq_pairs (a b : list (nat * nat)) : bool :=
  forallb (fun p => inpb p b) a && forallb (fun p => inpb p a) b.
Definition str_opt_eqb (a b : option (string * string)) : bool :=
  match a, b with
  | None, None => true
  | Some (g, k), Some (g', k') => String.eqb g g' && String.eqb k k'
  | _, _ => false
  end.

(* ---- the documented order, written independently of the transcription ----
   kind rank first (position in the documented list; unlisted kinds between
   the "first" block and the "last" block), then group, kind, namespace, name,
   each compared bytewise. *)
Definition spec_rank (g k : string) : nat :=
  let fix pos (l : list (string * string)) (i : nat) : option nat :=
      match l with
      | [] => None
      | p :: t => if String.eqb (fst p) g && String.eqb (snd p) k then Some i else pos t (S i)
      end in
  match pos (order_first ++ [("<unlisted>", "<unlisted>")] ++ order_last)%list 0 with
  | Some i => i
  | None => List.length order_first
  end.

Definition lex (c1 c2 : comparison) : comparison :=
  match c1 with Eq => c2 | _ => c1 end.

Definition spec_cmp (a b : id) : comparison :=
  lex (Nat.compare (spec_rank (grp a) (knd a)) (spec_rank (grp b) (knd b)))
  (lex (String.compare (grp a) (grp b))
  (lex (String.compare (knd a) (knd b))
  (lex (String.compare (ns a) (ns b)) (String.compare (nm a) (nm b))))).

Definition spec_lt (a b : id) : bool := match spec_cmp a b with Lt => true | _ => false end.

(* every earlier element strictly below every later one *)
Fixpoint strictly_sorted {A} (lt : A -> A -> bool) (l : list A) : bool :=
  match l with
  | [] => true
  | x :: t => forallb (lt x) t && strictly_sorted lt t
  end.
Fixpoint weakly_sorted {A} (lt : A -> A -> bool) (l : list A) : bool :=
  match l with
  | [] => true
  | x :: t => forallb (fun y => negb (lt y x)) t && weakly_sorted lt t
  end.

(* ---- independent reachability ------------------------------------------ *)
Definition succs (es : list (nat * nat)) (v : nat) : list nat :=
  map snd (filter (fun e => Nat.eqb (fst e) v) es).
Definition add_new (s : list nat) (x : nat) : list nat := if inb x s then s else s ++ [x].
Definition grow (es : list (nat * nat)) (s : list nat) : list nat :=
  fold_left add_new (flat_map (succs es) s) s.
Fixpoint iter_grow (n : nat) (es : list (nat * nat)) (s : list nat) : list nat :=
  match n with O => s | S k => iter_grow k es (grow es s) end.
(* vertices reachable from v by one or more edges *)
Definition reach_plus_set (n : nat) (es : list (nat * nat)) (v : nat) : list nat :=
  iter_grow n es (fold_left add_new (succs es v) []).
(* the vertices that lie on a cycle or reach one *)
Definition cyclic_closure (verts : list nat) (es : list (nat * nat)) : list nat :=
  let n := List.length verts in
  let rt := map (fun v => (v, reach_plus_set n es v)) verts in
  let on_cycle := map fst (filter (fun p => inb (fst p) (snd p)) rt) in
  map fst (filter (fun p => inb (fst p) on_cycle || existsb (fun u => inb u on_cycle) (snd p)) rt).

(* ---- the layering property, on an observed result ------------------------ *)
Fixpoint layers_ok (es : list (nat * nat)) (earlier : list nat) (prev : option (list nat))
         (layers : list (list nat)) : bool :=
  match layers with
  | [] => true
  | l :: t =>
      negb (is_nil l)
      (* every dependency of a member lies in a strictly earlier layer *)
      && forallb (fun v => forallb (fun w => inb w earlier) (succs es v)) l
      (* earliest possible layer: a dependency in the layer just before *)
      && match prev with
         | None => true
         | Some p => forallb (fun v => existsb (fun w => inb w p) (succs es v)) l
         end
      && layers_ok es (earlier ++ l) (Some l) t
  end.

Definition dedup_nat (l : list nat) : list nat := fold_left add_new l [].

(* verts: all vertices; es: all edges; layers: the ordered part; rest: the ids
   named by the cyclic dependency error (empty when there is no error) *)
Definition mon_layering (verts : list nat) (es : list (nat * nat))
           (layers : list (list nat)) (rest : list nat) : bool :=
  let all := List.concat layers ++ rest in
  nodup_nat all && set_eq_nat all verts
  && layers_ok es [] None layers
  && set_eq_nat rest (cyclic_closure verts es).

(* ---- Graph.Sort --------------------------------------------------------- *)
Record grun := mkGRun {
  gr_vs : list nat;                     (* AddVertex calls, in order *)
  gr_es : list (nat * nat);             (* AddEdge calls, in order *)
  gr_layers : list (list nat);          (* Sort result, as returned *)
  gr_cyc : option (list nat * list (nat * nat)); (* error: Identifiers(), Edges *)
  gr_panic : bool
}.

(* one graph presented in several orders *)
Inductive gcase := GCase (tab : list id) (runs : list grun).

Definition gverts (r : grun) : list nat :=
  dedup_nat (gr_vs r ++ flat_map (fun e => [fst e; snd e]) (gr_es r)).

Definition layers_sim (a b : list (list nat)) : bool :=
  list_eqb (fun x y => nodup_nat y && set_eq_nat x y) a b.

Definition g_agree (tab : list id) (r : grun) : bool :=
  match sort Nat.eqb (tab_ltb tab) (build Nat.eqb (gr_vs r) (gr_es r)) with
  | None => false
  | Some (layers, err) =>
      layers_sim layers (gr_layers r)
      && match err, gr_cyc r with
         | None, None => true
         | Some (ids, es), Some (ids', es') => nl_eqb ids ids' && set_eq_pairs es es'
         | _, _ => false
         end
  end.

Definition g_monitor (tab : list id) (r : grun) : bool :=
  let rest := match gr_cyc r with Some (ids, _) => ids | None => [] end in
  negb (gr_panic r)
  && mon_layering (gverts r) (gr_es r) (gr_layers r) rest
  && match gr_cyc r with
     | None => true
     | Some (ids, es) =>
         negb (is_nil ids)
         (* the error lists its ids in the documented order *)
         && strictly_sorted (fun a b => spec_lt (tab_id tab a) (tab_id tab b)) ids
         (* and exactly the edges among them *)
         && set_eq_pairs es (filter (fun e => inb (fst e) ids && inb (snd e) ids) (gr_es r))
         && nodup_nat (map (fun e => fst e * 1000 + snd e) es)
     end.

(* same graph, same answer: compared with the first run *)
Definition g_same (r0 r : grun) : bool :=
  set_eq_nat (gverts r0) (gverts r) && set_eq_pairs (gr_es r0) (gr_es r)
  && layers_sim (gr_layers r0) (gr_layers r)
  && option_eqb (fun a b => nl_eqb (fst a) (fst b) && set_eq_pairs (snd a) (snd b)) (gr_cyc r0) (gr_cyc r).

Definition check_graph (c : gcase) : nat :=
  match c with
  | GCase tab runs =>
      code (forallb (g_agree tab) runs)
           (forallb (g_monitor tab) runs
            && match runs with [] => true | r0 :: t => forallb (g_same r0) t end)
  end.

(* ---- SortObjs ----------------------------------------------------------- *)
Record orun := mkORun {
  or_objs : list (obj nat);
  or_sets : list (list nat);      (* apply sets, as ids, exact order *)
  or_cyc : option (list nat);     (* ids of the cyclic dependency error *)
  or_bad : list nat;              (* ids of the other validation errors, in order *)
  (* graph.DependencyGraph on the same objects: Dependencies(id) of every table
     id as (from, to) pairs, and the ids named by its error, in order *)
  or_edges : list (nat * nat);
  or_dgbad : list nat;
  or_panic : bool
}.

Inductive ocase := OCase (tab : list id) (runs : list orun).

Definition o_agree (tab : list id) (r : orun) : bool :=
  match sort_objs Nat.eqb (tab_ltb tab) (tab_id tab) (or_objs r) with
  | None => false
  | Some s =>
      list_eqb nl_eqb (s_sets s) (or_sets r)
      && option_eqb nl_eqb (s_cyc s) (or_cyc r)
      && nl_eqb (s_bad s) (or_bad r)
      (* DependencyGraph: the edge relation, and the error ids pass by pass *)
      && set_eq_pairs (all_edges Nat.eqb (tab_id tab) (or_objs r)) (or_edges r)
      (* every adjacency list in insertion order: this is what pins the ORDER
         of the four edge passes (CRD, namespace, depends-on, mutation) *)
      && (let g := dependency_graph Nat.eqb (tab_id tab) (or_objs r) in
          forallb (fun v => nl_eqb (adj_of Nat.eqb g v)
                                   (map snd (filter (fun e => Nat.eqb (fst e) v) (or_edges r))))
                  (seq 0 (List.length tab)))
      && nl_eqb (dep_errors Nat.eqb (or_objs r)) (or_dgbad r)
  end.

(* the dependency relation an object list denotes, stated directly: explicit
   depends-on references that are part of the set, apply-time-mutation sources
   that are part of the set, the Namespace object of the object's namespace,
   the CRD object defining the object's group/kind *)
Definition spec_edges (tab : list id) (objs : list (obj nat)) : list (nat * nat) :=
  let ids := map oid objs in
  flat_map (fun o =>
    let i := tab_id tab (oid o) in
    (match odeps o with
     | Deps l => map (fun d => (oid o, d)) (filter (fun d => inb d ids) l)
     | _ => []
     end)
    ++ (match omuts o with
        | Muts l => map (fun d => (oid o, d)) (filter (fun d => inb d ids) l)
        | _ => []
        end)
    ++ flat_map (fun o' =>
         let i' := tab_id tab (oid o') in
         (if negb (String.eqb (ns i) "") && String.eqb (grp i') "" && String.eqb (knd i') "Namespace"
             && String.eqb (nm i') (ns i)
          then [(oid o, oid o')] else [])
         ++ (if String.eqb (grp i') "apiextensions.k8s.io" && String.eqb (knd i') "CustomResourceDefinition"
             then match ocrd o' with
                  | Some (g, k) => if String.eqb (gk_string g k) (gk_string (grp i) (knd i))
                                   then [(oid o, oid o')] else []
                  | None => []
                  end
             else [])) objs) objs.

(* the objects that must be reported invalid, stated directly: first those
   whose depends-on annotation is unparseable, repeats a reference or leaves
   the set; then those whose apply-time-mutation annotation is unparseable or
   has a source outside the set (a repeated source is fine) *)
Definition spec_dep_bad (ids : list nat) (o : obj nat) : bool :=
  match odeps o with
  | NoAnnot => false
  | BadAnnot => true
  | Deps l => negb (nodup_nat l) || negb (forallb (fun d => inb d ids) l)
  end.
Definition spec_mut_bad (ids : list nat) (o : obj nat) : bool :=
  match omuts o with
  | NoMut => false
  | BadMut => true
  | Muts l => negb (forallb (fun d => inb d ids) l)
  end.
Definition spec_bad (objs : list (obj nat)) : list nat :=
  let ids := map oid objs in
  map oid (filter (spec_dep_bad ids) objs) ++ map oid (filter (spec_mut_bad ids) objs).

Definition o_monitor (tab : list id) (r : orun) : bool :=
  let verts := dedup_nat (map oid (or_objs r)) in
  let es := spec_edges tab (or_objs r) in
  let rest := match or_cyc r with Some ids => ids | None => [] end in
  negb (or_panic r)
  && mon_layering verts es (or_sets r) rest
  && forallb (strictly_sorted (fun a b => spec_lt (tab_id tab a) (tab_id tab b))) (or_sets r)
  && strictly_sorted (fun a b => spec_lt (tab_id tab a) (tab_id tab b)) rest
  && match or_cyc r with Some [] => false | _ => true end
  (* exactly the objects with a rejected annotation are reported, depends-on
     pass first, by SortObjs and by DependencyGraph *)
  && nl_eqb (or_bad r) (spec_bad (or_objs r))
  && nl_eqb (or_dgbad r) (spec_bad (or_objs r))
  (* the graph has exactly the edges of the relation *)
  && set_eq_pairs (or_edges r) es.

Definition o_same (r0 r : orun) : bool :=
  list_eqb nl_eqb (or_sets r0) (or_sets r)
  && option_eqb nl_eqb (or_cyc r0) (or_cyc r)
  && set_eq_nat (or_bad r0) (or_bad r).

Definition check_objs (c : ocase) : nat :=
  match c with
  | OCase tab runs =>
      code (forallb (o_agree tab) runs)
           (forallb (o_monitor tab) runs
            && match runs with [] => true | r0 :: t => forallb (o_same r0) t end)
  end.

(* ---- ReverseSortObjs, HydrateSetList, ReverseSetList, ordering ---------- *)
Inductive mcase :=
(* ReverseSortObjs next to SortObjs on the same objects *)
| RevObjs (tab : list id) (objs : list (obj nat))
          (apply : list (list nat)) (apply_err : bool)
          (rev_sets : list (list nat)) (rev_err : bool) (panicked : bool)
(* HydrateSetList(layers, objects with these ids) *)
| Hydrate (tab : list id) (layers : list (list nat)) (ids : list nat)
          (out : list (list nat)) (panicked : bool)
(* ReverseSetList in place *)
| RevList (l out : list (list nat)) (panicked : bool)
(* SortableMetas{a,b}.Less(0,1) and {b,a}.Less(0,1) *)
| Less (a b : id) (ab ba : bool)
(* sort.Sort(SortableMetas(l)) *)
| SortIds (l out : list id).

Definition lln_eqb := list_eqb nl_eqb.
Definition idl_eqb := list_eqb id_eqb.

Fixpoint count_id (x : id) (l : list id) : nat :=
  match l with [] => 0 | h :: t => (if id_eqb h x then 1 else 0) + count_id x t end.

Definition check_misc (c : mcase) : nat :=
  match c with
  | RevObjs tab objs apply aerr rsets rerr p =>
      let lt := tab_ltb tab in
      code (match sort_objs Nat.eqb lt (tab_id tab) objs, reverse_sort_objs Nat.eqb lt (tab_id tab) objs with
            | Some s, Some s' =>
                lln_eqb (s_sets s) apply && Bool.eqb (has_error s) aerr
                && lln_eqb (s_sets s') rsets && Bool.eqb (has_error s') rerr
            | _, _ => false
            end)
           (* the delete order is the exact reverse of the apply order *)
           (negb p && Bool.eqb aerr rerr && lln_eqb rsets (rev (map (@rev nat) apply)))
  | Hydrate tab layers ids out p =>
      code (lln_eqb (hydrate Nat.eqb (tab_ltb tab) layers ids) out)
           (negb p
            && forallb (fun l => negb (is_nil l)
                                 && strictly_sorted (fun a b => spec_lt (tab_id tab a) (tab_id tab b)) l) out
            && list_eqb set_eq_nat
                 (filter (fun l => negb (is_nil l)) (map (filter (fun v => inb v ids)) layers)) out)
  | RevList l out p =>
      code (lln_eqb (reverse_set_list l) out) (negb p && lln_eqb out (rev (map (@rev nat) l)))
  | Less a b ab ba =>
      code (Bool.eqb (id_ltb a b) ab && Bool.eqb (id_ltb b a) ba)
           (Bool.eqb ab (spec_lt a b) && Bool.eqb ba (spec_lt b a)
            (* strict and total: exactly one of a<b, b<a, a=b *)
            && negb (ab && ba) && Bool.eqb (negb (ab || ba)) (id_eqb a b))
  | SortIds l out =>
      code (idl_eqb (isort id_ltb l) out)
           (weakly_sorted spec_lt out
            && Nat.eqb (List.length l) (List.length out)
            && forallb (fun x => Nat.eqb (count_id x l) (count_id x out)) (l ++ out))
  end.
