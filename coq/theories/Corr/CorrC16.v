(* Correspondence and monitors for C16.

   (a) funnel: a case is an op script executed against the real eventFunnel
   together with the result observed for each op.  Real goroutines interleave
   freely, so the check is MEMBERSHIP: the set of model states that some
   schedule can have reached is tracked through the script (subset
   construction over [Funnel.step]); an observed result that no state in the
   set can produce is a disagreement.  The monitor states the property on the
   observation alone.
   (b) reporter: see the second half of this file. *)
From Coq Require Import List Bool Arith ZArith String.
From CliUtils Require Import Corr.CorrLib Model.Funnel Model.Reporter.
Import ListNotations.

(* ---------------------------------------------------------------------- *)
(* (a) funnel                                                              *)

Inductive fop :=
| ONew | OAdd (k : nat) | OSend (k : nat) (e : ev) | OClose (k : nat)
| OCancel | ORecv | OWaitDone | ONop.
Inductive fres := RNone | ROk | RErr | REv (e : ev) | RClosed | RDone | RHang.

Record fcase := mkFCase {
  fc_script : list (fop * fres);
  fc_cleanup_ok : bool;   (* after the script: cancel, close all, drain -> out and done closed within 5 s *)
  fc_leak : nat           (* goroutines above the baseline after the script *)
}.

(* --- equality on the part of the state that determines future behaviour -- *)
Definition dpc_eqb (a b : dpc) : bool :=
  match a, b with
  | DRecv, DRecv | DExit, DExit | DDone, DDone => true
  | DSend x, DSend y => Nat.eqb x y
  | _, _ => false
  end.
Definition mpc_eqb (a b : mpc) : bool :=
  match a, b with
  | MLoop, MLoop | MBreak, MBreak | MOutClosed, MOutClosed | MDone, MDone => true
  | _, _ => false
  end.
Definition input_eqb (a b : input) : bool :=
  Bool.eqb (i_closed a) (i_closed b) && list_eqb Nat.eqb (i_queue a) (i_queue b).
Definition drain_eqb (a b : drain) : bool :=
  Nat.eqb (d_in a) (d_in b) && dpc_eqb (d_pc a) (d_pc b).

(* simulation state: model state + the close commands producers still have to execute *)
Definition sim := (state * list nat)%type.

Definition sim_eqb (a b : sim) : bool :=
  let '(s, p) := a in let '(t, q) := b in
  Bool.eqb (ctx_done s) (ctx_done t) && mpc_eqb (m_pc s) (m_pc t) &&
  Bool.eqb (m_seen s) (m_seen t) && Z.eqb (m_inputs s) (m_inputs t) &&
  list_eqb input_eqb (inputs s) (inputs t) && list_eqb drain_eqb (drains s) (drains t) &&
  list_eqb Nat.eqb (delivered s) (delivered t) && Bool.eqb (panicked s) (panicked t) &&
  list_eqb Nat.eqb p q.

Definition sim_mem (x : sim) (l : list sim) : bool := existsb (sim_eqb x) l.
Fixpoint sim_dedup (l acc : list sim) : list sim :=
  match l with
  | [] => rev acc
  | x :: t => if sim_mem x acc then sim_dedup t acc else sim_dedup t (x :: acc)
  end.

(* --- steps that no op can observe directly are taken eagerly ------------- *)
(* producer close once its sends are consumed; drain receive; the two closes
   of the main goroutine's deferred function *)
Fixpoint try_closes (s : state) (pend : list nat) : state * list nat :=
  match pend with
  | [] => (s, [])
  | k :: t =>
      match step s (AClose k) with
      | Some s' => let '(s2, p2) := try_closes s' t in (s2, p2)
      | None => let '(s2, p2) := try_closes s t in (s2, k :: p2)
      end
  end.

Definition eager_actions (s : state) : list action :=
  AMainClose :: map ADrainRecv (seq 0 (List.length (drains s))).

Fixpoint norm (fuel : nat) (x : sim) : sim :=
  match fuel with
  | O => x
  | S f =>
      let '(s, p) := x in
      let '(s1, p1) := try_closes s p in
      match first_enabled s1 (eager_actions s1) with
      | Some a => norm f (step_skip s1 a, p1)
      | None => (s1, p1)
      end
  end.
Definition norm_fuel := 200.

(* --- steps whose timing an op can observe: explored as a set ------------- *)
Definition lazy_actions (s : state) : list action :=
  AMainCtx :: map ADrainExit (seq 0 (List.length (drains s))).

Definition succs (x : sim) : list sim :=
  let '(s, p) := x in
  flat_map (fun a => match step s a with Some s' => [norm norm_fuel (s', p)] | None => [] end)
           (lazy_actions s).

Fixpoint closure (fuel : nat) (frontier all : list sim) : list sim :=
  match fuel with
  | O => all
  | S f =>
      let new := sim_dedup (filter (fun x => negb (sim_mem x all)) (flat_map succs frontier)) [] in
      match new with
      | [] => all
      | _ => closure f new (all ++ new)
      end
  end.
Definition close_set (l : list sim) : list sim :=
  let l' := sim_dedup (map (norm norm_fuel) l) [] in closure 64 l' l'.

Definition apply_all (a : action) (l : list sim) : list sim :=
  flat_map (fun x : sim => let '(s, p) := x in
            match step s a with Some s' => [(s', p)] | None => [] end) l.

Definition holding (e : ev) (s : state) : option nat :=
  let fix go (i : nat) (l : list drain) : option nat :=
    match l with
    | [] => None
    | d :: t => match d_pc d with
                | DSend x => if Nat.eqb x e then Some i else go (S i) t
                | _ => go (S i) t
                end
    end in go 0 (drains s).

Definition sim_op (l : list sim) (o : fop * fres) : list sim :=
  close_set
  match o with
  | (ONew, RNone) => apply_all ANew l
  | (OAdd k, ROk) => apply_all (AAdd k) l
  | (OAdd k, RErr) => apply_all (AAddErr k) l
  | (OSend k e, RNone) =>
      (* a producer that was told to close sends nothing more *)
      apply_all (ASend k e) (filter (fun x : sim => negb (existsb (Nat.eqb k) (snd x))) l)
  | (OClose k, RNone) => map (fun x : sim => (fst x, snd x ++ [k])) l
  | (OCancel, RNone) => apply_all ACancel l
  | (ORecv, REv e) =>
      flat_map (fun x : sim => let '(s, p) := x in
                match holding e s with
                | Some d => match step s (ADeliver d) with Some s' => [(s', p)] | None => [] end
                | None => []
                end) l
  | (ORecv, RClosed) => filter (fun x : sim => out_closed (fst x)) l
  | (OWaitDone, RDone) => filter (fun x : sim => done_closed (fst x)) l
  | (ONop, RNone) => l
  | _ => []      (* hang, or a result of the wrong kind: nothing the model produces *)
  end.

Definition sim_run (script : list (fop * fres)) : list sim :=
  fold_left sim_op script (close_set [(init, [])]).

Definition funnel_agree (c : fcase) : bool :=
  match sim_run (fc_script c) with
  | [] => false
  | l => forallb (fun x : sim => negb (panicked (fst x))) l
  end.

(* --- monitor: the property on the observation alone ---------------------- *)
Record mstate := mkM {
  ms_cancelled : bool;
  ms_added : list nat;            (* inputs whose AddInputChannel returned nil *)
  ms_closecmd : list nat;         (* inputs whose producer was told to close *)
  ms_sent : list (nat * ev);      (* (input, event) in send order *)
  ms_recv : list ev;
  ms_seen_closed : bool
}.

Definition memn (x : nat) (l : list nat) := existsb (Nat.eqb x) l.

(* events of added inputs that were sent but not yet received *)
Definition outstanding (m : mstate) : list (nat * ev) :=
  filter (fun ke => memn (fst ke) (ms_added m) && negb (memn (snd ke) (ms_recv m))) (ms_sent m).

Definition mon_op (m : mstate) (o : fop * fres) : mstate * bool :=
  let '(mkM c ad cl sent rc sc) := m in
  match o with
  | (OAdd k, ROk) => (mkM c (k :: ad) cl sent rc sc, negb sc)           (* never accepted after shutdown *)
  | (OAdd k, RErr) => (m, c)                                            (* refused only when cancelled *)
  | (OSend k e, _) => (mkM c ad cl (sent ++ [(k, e)]) rc sc, true)
  | (OClose k, _) => (mkM c ad (k :: cl) sent rc sc, true)
  | (OCancel, _) => (mkM true ad cl sent rc sc, true)
  | (ORecv, REv e) =>
      (* e was sent on an added input, is new, and is the oldest outstanding
         event of that input; nothing arrives after the close *)
      let ok :=
        negb sc && negb (memn e rc) &&
        match filter (fun ke => Nat.eqb (snd ke) e) sent with
        | (k, _) :: _ =>
            memn k ad &&
            match filter (fun ke => Nat.eqb (fst ke) k) (outstanding m) with
            | (_, e0) :: _ => Nat.eqb e0 e
            | [] => false
            end
        | [] => false
        end in
      (mkM c ad cl sent (rc ++ [e]) sc, ok)
  | (ORecv, RClosed) | (OWaitDone, RDone) =>
      (* closed only after cancel, with every added input closed and nothing lost *)
      (mkM c ad cl sent rc true,
       c && forallb (fun k => memn k cl) ad &&
       match outstanding m with [] => true | _ => false end)
  | (_, RHang) => (m, false)
  | (ONew, RNone) | (ONop, RNone) => (m, true)
  | _ => (m, false)
  end.

Fixpoint mon_script (m : mstate) (l : list (fop * fres)) : bool :=
  match l with
  | [] => true
  | o :: t => let '(m', ok) := mon_op m o in ok && mon_script m' t
  end.

Definition funnel_monitor (c : fcase) : bool :=
  mon_script (mkM false [] [] [] [] false) (fc_script c) &&
  fc_cleanup_ok c && Nat.eqb (fc_leak c) 0.

Definition check_funnel (c : fcase) : nat := code (funnel_agree c) (funnel_monitor c).

(* ---------------------------------------------------------------------- *)
(* (b) reporter: a mutation script executed against the real
   DefaultStatusWatcher over client-go's fake dynamic client, with the events
   it produced.  Events of different objects come from different informer
   goroutines, so the comparison is per object: the sequence of statuses
   reported for each id, the number of sync and error events, closure. *)

Record rcase := mkRCase {
  rc_cfg : config;
  rc_pre : list (oid * payload);
  rc_steps : list rstep;
  rc_events : list event;   (* observed, in channel order *)
  rc_closed : bool;         (* channel closed within 5 s of the cancel *)
  rc_unknown : nat;         (* update events whose id is outside the universe *)
  rc_marks : list nat;      (* number of events received when the i-th step after the sync began *)
  rc_selfclosed : bool;     (* the channel closed BEFORE the harness cancelled the context *)
  (* The delayed re-check of an unschedulable Pod (taskManager, 15 s
     status.ScheduleWindow) is NOT part of Reporter.v: what the library computes
     for such a pod depends on the wall clock (creationTimestamp vs time.Now),
     while the model's premise is that the status is a function of the version.
     It is checked by the monitor only: [rc_tick] = number of events received
     when the script began to wait out the window (= all events if it never
     did), [rc_late] = the statuses the re-check must report after that, per id. *)
  rc_tick : nat;
  rc_late : list (oid * list status)
}.

Definition omem (id : oid) (l : list oid) : bool := existsb (oid_eqb id) l.
Fixpoint odedup (l : list oid) : list oid :=
  match l with [] => [] | x :: t => if omem x t then odedup t else x :: odedup t end.

Definition step_ids (s : rstep) : list oid :=
  match s with SMut m => [mut_id m] | _ => [] end.
Definition event_ids (e : event) : list oid :=
  match e with EUpdate id _ => [id] | _ => [] end.

Definition case_ids (c : rcase) : list oid :=
  odedup (c_watched (rc_cfg c) ++ map fst (rc_pre c) ++ flat_map step_ids (rc_steps c)
          ++ flat_map event_ids (rc_events c)).

Fixpoint late_for (id : oid) (l : list (oid * list status)) : list status :=
  match l with
  | [] => []
  | (k, ss) :: t => if oid_eqb k id then ss else late_for id t
  end.

(* the model is compared with what was observed before the timed wait *)
Definition reporter_agree (c : rcase) : bool :=
  let st := Reporter.run (rc_cfg c) (rc_pre c) (rc_steps c) in
  let evs := firstn (rc_tick c) (rc_events c) in
  forallb (fun id => list_eqb status_eqb (statuses_for id (r_events st)) (statuses_for id evs))
          (case_ids c) &&
  Nat.eqb (count_syncs (r_events st)) (count_syncs evs) &&
  Nat.eqb (count_errors (r_events st)) (count_errors evs).

(* --- monitor: written from the property, not from the reporter model ----- *)
Definition has_fail (steps : list rstep) : bool :=
  existsb (fun s => match s with SFail => true | _ => false end) steps.

Fixpoint fail_before_sync (steps : list rstep) : bool :=
  match steps with
  | [] => false
  | SFail :: _ => true
  | SSync :: _ => false
  | _ :: t => fail_before_sync t
  end.

(* Statuses an always-running watch must report for [id]: its state when the
   watch starts, then one per mutation (NotFound for a delete) -- except inside
   a watch gap of its kind (between [SBreak g] and [SRelist g]), where nothing is
   reported until the re-list, which must report the FINAL state once: the
   status of the final version if the object exists (unchanged objects are
   reported again within the first resync period), NotFound if it is gone and
   was known at the break, nothing if it neither was known nor exists.  Stops at the first cancel /
   fatal failure.  Written from the property, independently of Reporter.v. *)
Record xstate := mkX {
  x_cur : option status;     (* current state of id in the cluster *)
  x_gap : bool;              (* the watch of its kind is broken *)
  x_touched : bool;          (* id changed since the break *)
  x_known : bool;            (* id existed at the break *)
  x_out : list status
}.

Fixpoint expect_steps (id : oid) (x : xstate) (steps : list rstep) : list status :=
  match steps with
  | [] => x_out x
  | SCancel :: _ | SFail :: _ => x_out x
  | SBreak g :: t =>
      if Nat.eqb g (o_gk id) && negb (x_gap x)
      then expect_steps id (mkX (x_cur x) true false (match x_cur x with Some _ => true | None => false end) (x_out x)) t
      else expect_steps id x t
  | SRelist g :: t =>
      if Nat.eqb g (o_gk id) && x_gap x
      then let out := match x_cur x with
                      | Some s => x_out x ++ [s]     (* listed: reported (again) with its final version *)
                      | None => if x_touched x && x_known x then x_out x ++ [SNotFound] else x_out x
                      end in
           expect_steps id (mkX (x_cur x) false false false out) t
      else expect_steps id x t
  | SMut m :: t =>
      if oid_eqb (mut_id m) id
      then match m with
           | MAdd _ p | MUpdate _ p =>
               if x_gap x then expect_steps id (mkX (Some (p_status p)) true true (x_known x) (x_out x)) t
               else expect_steps id (mkX (Some (p_status p)) false false false
                                         (if p_slow p then x_out x else x_out x ++ [p_status p])) t
           | MDelete _ =>
               match x_cur x with
               | None => expect_steps id x t
               | Some _ =>
                   if x_gap x then expect_steps id (mkX None true true (x_known x) (x_out x)) t
                   else expect_steps id (mkX None false false false (x_out x ++ [SNotFound])) t
               end
           end
      else expect_steps id x t
  | _ :: t => expect_steps id x t
  end.

Definition expected_statuses (c : rcase) (id : oid) : list status :=
  match lookup (cluster_of (rc_pre c)) id with
  | Some p => expect_steps id (mkX (Some (p_status p)) false false false [p_status p]) (rc_steps c)
  | None => expect_steps id (mkX None false false false []) (rc_steps c)
  end.

(* ids whose watch provably runs from start to cancel: a kind served without a
   CRD, and -- in namespace scope -- a namespace whose Namespace object is not
   itself watched (so nothing ever stops the watch) *)
Definition steady (c : rcase) (id : oid) : bool :=
  let cfg := rc_cfg c in
  existsb (Nat.eqb (o_gk id)) (c_builtin cfg) &&
  match c_scope cfg with
  | ScopeRoot => true
  | ScopeNamespace => Nat.eqb (o_ns id) 0 || negb (omem (mkOid GK_NS 0 (o_ns id)) (c_watched cfg))
  end.

(* "Namespaces and CRDs disappearing stop the corresponding watches": a
   mutation of an object issued while the watched Namespace object of its
   namespace (namespace scope) or the watched CRD of its kind is deleted must
   not be reported.  Decided from the script alone; the events received while
   that step was executing are [rc_marks]-delimited. *)
Fixpoint last_mut_is_delete (prev : list rstep) (id : oid) (acc : bool) : bool :=
  match prev with
  | [] => acc
  | SMut (MDelete k) :: t => last_mut_is_delete t id (if oid_eqb k id then true else acc)
  | SMut (MAdd k _) :: t | SMut (MUpdate k _) :: t =>
      last_mut_is_delete t id (if oid_eqb k id then false else acc)
  | _ :: t => last_mut_is_delete t id acc
  end.

Definition watch_stopped (cfg : config) (prev : list rstep) (id : oid) : bool :=
  let nsobj := mkOid GK_NS 0 (o_ns id) in
  let crdobj := mkOid GK_CRD 0 1 in
  (match c_scope cfg with
   | ScopeRoot => false
   | ScopeNamespace => negb (Nat.eqb (o_ns id) 0) && omem nsobj (c_watched cfg) &&
                       last_mut_is_delete prev nsobj false
   end) ||
  (negb (existsb (Nat.eqb (o_gk id)) (c_builtin cfg)) && omem crdobj (c_watched cfg) &&
   last_mut_is_delete prev crdobj false).

Fixpoint drop_to_sync (steps : list rstep) : list rstep :=
  match steps with
  | [] => []
  | SSync :: t => t
  | _ :: t => drop_to_sync t
  end.

Definition window (evs : list event) (a b : nat) : list event := firstn (b - a) (skipn a evs).

Fixpoint mon_stopped (cfg : config) (evs : list event) (prev script : list rstep) (marks : list nat) : bool :=
  match script, marks with
  | s :: script', a :: marks' =>
      let b := match marks' with b :: _ => b | [] => List.length evs end in
      (match s with
       | SMut m =>
           let id := mut_id m in
           if negb (is_ns id) && negb (is_crd id) && watch_stopped cfg prev id
           then match statuses_for id (window evs a b) with [] => true | _ => false end
           else true
       | _ => true
       end) && mon_stopped cfg evs (prev ++ [s]) script' marks'
  | _, _ => true
  end.

(* "Namespaces and CRDs appearing start the corresponding watches" -- the dual of
   [mon_stopped], for the objects whose watch is gated by a watched Namespace
   (namespace scope) or by the watched CRD of their kind, which [steady] leaves
   out: a mutation of a watched object issued while its gate is open -- the
   Namespace object was not deleted last, and the kind is served: built in, or the
   watched CRD's latest version defines it -- must be reported in the window of
   that step by exactly one event carrying the status of the new version
   (NotFound for the delete of an existing object).  Decided from the script alone.
   Scripts with watch gaps are left to [expected_statuses] (a re-list step with a
   refused re-watch stands for several model steps, so the marks no longer align). *)
Definition crdobj0 := mkOid GK_CRD 0 1.

Fixpoint crd_state (prev : list rstep) (acc : option (option nat)) : option (option nat) :=
  match prev with
  | [] => acc
  | SMut (MAdd k p) :: t | SMut (MUpdate k p) :: t =>
      crd_state t (if oid_eqb k crdobj0 then Some (p_defines p) else acc)
  | SMut (MDelete k) :: t => crd_state t (if oid_eqb k crdobj0 then None else acc)
  | _ :: t => crd_state t acc
  end.

Definition crd_state0 (pre : list (oid * payload)) : option (option nat) :=
  match lookup (cluster_of pre) crdobj0 with Some p => Some (p_defines p) | None => None end.

Fixpoint exists_now (prev : list rstep) (id : oid) (acc : bool) : bool :=
  match prev with
  | [] => acc
  | SMut (MAdd k _) :: t | SMut (MUpdate k _) :: t => exists_now t id (if oid_eqb k id then true else acc)
  | SMut (MDelete k) :: t => exists_now t id (if oid_eqb k id then false else acc)
  | _ :: t => exists_now t id acc
  end.

Definition gate_open (c : rcase) (prev : list rstep) (id : oid) : bool :=
  let cfg := rc_cfg c in
  negb (watch_stopped cfg prev id) &&
  (existsb (Nat.eqb (o_gk id)) (c_builtin cfg) ||
   (omem crdobj0 (c_watched cfg) &&
    match crd_state prev (crd_state0 (rc_pre c)) with
    | Some (Some g) => Nat.eqb g (o_gk id)
    | _ => false
    end)).

Definition has_break (steps : list rstep) : bool :=
  existsb (fun s => match s with SBreak _ => true | _ => false end) steps.

Fixpoint mon_started (c : rcase) (evs : list event) (prev script : list rstep) (marks : list nat) : bool :=
  match script, marks with
  | SCancel :: _, _ | SFail :: _, _ => true
  | s :: script', a :: marks' =>
      let b := match marks' with b :: _ => b | [] => List.length evs end in
      (match s with
       | SMut m =>
           let id := mut_id m in
           if negb (is_ns id) && negb (is_crd id) && omem id (c_watched (rc_cfg c)) && gate_open c prev id
           then match m with
                | MAdd _ p | MUpdate _ p =>
                    p_slow p || list_eqb status_eqb (statuses_for id (window evs a b)) [p_status p]
                | MDelete _ =>
                    negb (exists_now prev id (match lookup (cluster_of (rc_pre c)) id with Some _ => true | None => false end))
                    || list_eqb status_eqb (statuses_for id (window evs a b)) [SNotFound]
                end
           else true
       | _ => true
       end) && mon_started c evs (prev ++ [s]) script' marks'
  | _, _ => true
  end.

(* The one error event reports the FATAL failure, not an earlier benign
   cancellation: no error event has been received when the step that triggers the
   failure (the one right before the script's [SFail]) begins. *)
Fixpoint fail_pos (steps : list rstep) (n : nat) : option nat :=
  match steps with
  | [] => None
  | SFail :: _ => Some n
  | _ :: t => fail_pos t (S n)
  end.

Definition error_not_early (c : rcase) : bool :=
  has_break (rc_steps c) ||
  match fail_pos (drop_to_sync (rc_steps c)) 0 with
  | Some (S k) =>
      match nth_error (rc_marks c) k with
      | Some a => Nat.eqb (count_errors (firstn a (rc_events c))) 0
      | None => true
      end
  | _ => true
  end.

Definition reporter_monitor (c : rcase) : bool :=
  let cfg := rc_cfg c in
  let evs := rc_events c in
  rc_closed c && Nat.eqb (rc_unknown c) 0 &&
  (* objects outside the watched set never produce events *)
  forallb (fun e => match e with EUpdate id _ => omem id (c_watched cfg) | _ => true end) evs &&
  Nat.leb (count_syncs evs) 1 && Nat.leb (count_errors evs) 1 &&
  if has_fail (rc_steps c)
  then
    (* a fatal failure happened: exactly one error event is reported and the
       watcher stops by itself, whatever benign cancellations came before; no
       sync event if the failure precedes the sync *)
    Nat.eqb (count_errors evs) 1 && rc_selfclosed c && error_not_early c &&
    (negb (fail_before_sync (rc_steps c)) || Nat.eqb (count_syncs evs) 0)
  else
    Nat.eqb (count_errors evs) 0 && Nat.eqb (count_syncs evs) 1 &&
    mon_stopped cfg evs [] (drop_to_sync (rc_steps c)) (rc_marks c) &&
    (has_break (rc_steps c) ||
     mon_started c (firstn (rc_tick c) evs) [] (drop_to_sync (rc_steps c)) (rc_marks c)) &&
    (* one event per version, the last one being the final state *)
    forallb (fun id => negb (steady c id) ||
                       list_eqb status_eqb (statuses_for id evs)
                                (expected_statuses c id ++ late_for id (rc_late c)))
            (c_watched cfg) &&
    (* after the grace window of an unschedulable pod: exactly the re-check's
       report (Failed), and nothing for a pod that was scheduled or deleted in
       time or whose watcher was cancelled *)
    forallb (fun id => list_eqb status_eqb (statuses_for id (skipn (rc_tick c) evs))
                                (late_for id (rc_late c)))
            (case_ids c).

Definition check_reporter (c : rcase) : nat := code (reporter_agree c) (reporter_monitor c).
