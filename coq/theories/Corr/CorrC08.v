(* C08 correspondence: model = implementation on status.Compute and on the
   kubectl rollout viewers; monitor = the declarative per-kind description
   (Model/KStatusSpec.v), the no-lag rule and the kubectl implication, all on
   the implementation's observations. *)
From Coq Require Import List Bool ZArith String.
From CliUtils Require Import Corr.CorrLib Base.Json Model.KStatus Model.KStatusSpec Model.KubectlRollout
     Corr.CorrKStatus.
Import ListNotations.
Local Open Scope string_scope.

(* input, window, Compute observation, unchanged, same twice, what the real
   kubectl viewer said (None = not a viewer kind / not convertible) *)
Inductive c8case := K8 (input : jv) (w : bool) (o : obs) (unchanged same : bool) (kubectl : option kres).

Definition kres_eqb (a b : kres) : bool :=
  match a, b with KDone, KDone | KWaiting, KWaiting | KError, KError => true | _, _ => false end.

(* no generic signal, decided without the model's check_generic:
   Some cs = quiet, with the converted conditions *)
Definition true_std8 (c : bcond) : bool :=
  ((c_type c =? "Reconciling") || (c_type c =? "Stalled")) && (c_status c =? "True").
Definition quiet_conds (j : jv) : option (list bcond) :=
  match get_object_with_conditions j with
  | None => None
  | Some cs => if existsb true_std8 cs then None else Some cs
  end.
Definition quiet_gen (j : jv) : option (list bcond) :=
  match nested_int64 j p_generation with
  | AErr => None
  | Absent => quiet_conds j
  | Found g =>
      match nested_int64 j p_observed with
      | AErr => None
      | Absent => quiet_conds j
      | Found o => if Z.eqb g o then quiet_conds j else None
      end
  end.
Definition quiet (j : jv) : option (list bcond) :=
  match nested_string j p_deletion with
  | AErr => None
  | Absent => quiet_gen j
  | Found s => if s =? "" then quiet_gen j else None
  end.

(* None = not a C08 kind; Some None = an error is expected *)
Definition expected (j : jv) (cs : list bcond) (w : bool) : option (option status) :=
  match legacy_of_key (kind_key j) with
  | None => None
  | Some LDeployment => Some (Some (deploy_expected (deploy_fields j) cs))
  | Some LReplicaSet => Some (Some (rs_expected (rs_fields j) cs))
  | Some LSts => Some (Some (sts_expected (sts_fields j)))
  | Some LDaemonSet => Some (Some (ds_expected j (ds_fields j)))
  | Some LPod => Some (pod_expected j cs w)
  | Some LJob => Some (Some (job_expected j cs))
  | Some LPvc => Some (Some (pvc_expected j))
  | Some LService => Some (Some (service_expected j))
  | Some LCrd => Some (Some (crd_expected cs))
  | Some LPdb => Some (Some Current)
  | Some LAlwaysReady => Some (Some Current)
  end.

Definition mon_spec (input : jv) (w : bool) (o : obs) : bool :=
  match quiet input with
  | None => true
  | Some cs =>
      match expected input cs w with
      | None => true
      | Some None => obs_eqb o OErr
      | Some (Some st) => obs_eqb o (obs_of_outcome (outcome_of st))
      end
  end.

Definition is_current (o : obs) : bool := match o with OOk st _ => st =? "Current" | _ => false end.

(* a workload is never Current while a replica count lags its desired count *)
Definition no_lag_ok (input : jv) (o : obs) : bool :=
  if negb (is_current o) then true
  else
    match legacy_of_key (kind_key input) with
    | Some LDeployment =>
        let f := deploy_fields input in
        (d_spec f <=? d_status f)%Z && (d_spec f <=? d_updated f)%Z &&
        (d_spec f <=? d_ready f)%Z && (d_spec f <=? d_available f)%Z
    | Some LReplicaSet =>
        let f := rs_fields input in
        (r_spec f <=? r_status f)%Z && (r_spec f <=? r_labelled f)%Z &&
        (r_spec f <=? r_ready f)%Z && (r_spec f <=? r_available f)%Z
    | Some LSts =>
        let f := sts_fields input in
        (s_strategy f =? "OnDelete") ||
        ((s_spec f <=? s_status f)%Z && (s_spec f <=? s_ready f)%Z &&
         (if (s_partition f =? -1)%Z then (s_spec f <=? s_current f)%Z
          else (sub64 (s_spec f) (s_partition f) <=? s_updated f)%Z))
    | Some LDaemonSet =>
        let f := ds_fields input in
        (ds_desired f <=? ds_current f)%Z && (ds_desired f <=? ds_updated f)%Z &&
        (ds_desired f <=? ds_available f)%Z && (ds_desired f <=? ds_ready f)%Z
    | _ => true
    end.

(* generation fields present (observed non-zero: the typed zero value means
   unset), rolling-update strategy, API-valid replicas / partition *)
Definition nonneg_or_absent (j : jv) (p : list string) : bool :=
  match nested_field j p with
  | Found (JInt z) => (0 <=? z)%Z
  | Found _ => false
  | Absent => true
  | AErr => false
  end.
Definition kubectl_applies (input : jv) : bool :=
  match nested_int64 input p_generation, nested_int64 input p_observed with
  | Found _, Found ob =>
      match legacy_of_key (kind_key input) with
      | Some LDeployment => true
      | Some LDaemonSet => get_string_field input ["spec"; "updateStrategy"; "type"] "" =? "RollingUpdate"
      | Some LSts =>
          (get_string_field input ["spec"; "updateStrategy"; "type"] "" =? "RollingUpdate") &&
          negb (ob =? 0)%Z &&
          nonneg_or_absent input ["spec"; "replicas"] &&
          nonneg_or_absent input ["spec"; "updateStrategy"; "rollingUpdate"; "partition"]
      | _ => false
      end
  | _, _ => false
  end.
Definition mon_kubectl (input : jv) (o : obs) (k : option kres) : bool :=
  match k with
  | Some KWaiting | Some KError => if kubectl_applies input then negb (is_current o) else true
  | _ => true
  end.

Definition mon_C08 (c : c8case) : bool :=
  let '(K8 input w o unchanged same k) := c in
  obs_wellformed o && mon_spec input w o && no_lag_ok input o && mon_kubectl input o k.

Definition kubectl_model (input : jv) : option kres :=
  let cs := match get_object_with_conditions input with Some cs => cs | None => [] end in
  match legacy_of_key (kind_key input) with
  | Some LDeployment => Some (kubectl_deployment input cs)
  | Some LDaemonSet => Some (kubectl_daemonset input)
  | Some LSts => Some (kubectl_statefulset input)
  | _ => None
  end.

Definition agree_C08 (c : c8case) : bool :=
  let '(K8 input w o unchanged same k) := c in
  agree_compute (KC input w o unchanged same) &&
  match k with
  | None => true
  | Some kr => option_eqb kres_eqb (kubectl_model input) (Some kr)
  end.

Definition check_C08 (c : c8case) : nat := code (agree_C08 c) (mon_C08 c).
