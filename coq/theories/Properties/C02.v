(* C02 — every delete/apply request is authorised by ownership policy and
   lifecycle rules.  Only statements, about the model `run`, for every
   scenario (object sets, annotations, policies, prune and destroy mode, fault
   sets, schedules) and every initial cluster.  `run_plan sc c0` is the plan
   the run computes (None when a read before planning was rejected — then no
   request is sent at all, first theorem). *)
From Coq Require Import List NArith ZArith.
From CliUtils Require Import Model.PipelineTypes Model.Pipeline Proofs.PipelineBase Proofs.PipelineAuth Proofs.PipelinePolicy.
Import ListNotations.

Theorem C02_no_plan_no_request : forall sc c0, run_plan sc c0 = None ->
  forall r ok m st, ~ In (IReq r ok m st) (out_trace (run sc c0)).
Proof.
  intros sc c0 E. pose proof (auth_run sc c0) as H. rewrite E in H. exact H.
Qed.

(* a delete is sent only for an object that was in the inventory before the
   run, is absent from the apply set, whose owning-inventory annotation (as
   read at planning time) is acceptable under the policy, that carries no
   deletion-prevention annotation, is not a namespace still in use (apply runs),
   and is not the same object (UID) as one just applied (`uids` = the UIDs
   recorded for successful applies when its prune task started); the request
   carries the plan-time UID as precondition and the configured propagation policy *)
Theorem C02_delete_authorised : forall sc c0 pl locals, run_plan sc c0 = Some (pl, locals) ->
  forall i pre p ok m st, In (IReq (RDelete i pre p) ok m st) (out_trace (run sc c0)) ->
  exists c uids,
    find_obj (objs c0) i = Some c /\ In i (inv0 c0) /\ ~ In i (map l_id locals) /\
    c_keep c = false /\ can_prune sc (c_owner c) = true /\
    (o_destroy (sc_opts sc) = false -> u_kind (uinfo_of sc i) = KNs -> ns_in_use sc locals i = false) /\
    ~ In (c_uid c) uids /\ pre = c_uid c /\ p = o_prop (sc_opts sc).
Proof.
  intros sc c0 pl locals RP i pre p ok m st Hin.
  pose proof (auth_run sc c0) as H. rewrite RP in H. rewrite Forall_forall in H. specialize (H _ Hin).
  cbn in H. destruct H as [c [uids [Hc [<- [[K [CP [NS AL]]] [-> ->]]]]]].
  destruct (run_plan_prune sc c0 pl locals c RP Hc) as [F [I0 [NL _]]].
  exists c, uids. repeat split; assumption.
Qed.

(* the owning-inventory annotation is removed (annotation-removal update) only
   from tracked prune objects that carry a deletion-prevention annotation *)
Theorem C02_detach_only_prevented : forall sc c0 pl locals, run_plan sc c0 = Some (pl, locals) ->
  forall i ok m st, In (IReq (RUpdate i) ok m st) (out_trace (run sc c0)) ->
  exists c, find_obj (objs c0) i = Some c /\ In i (inv0 c0) /\ ~ In i (map l_id locals) /\ c_keep c = true.
Proof.
  intros sc c0 pl locals RP i ok m st Hin.
  pose proof (auth_run sc c0) as H. rewrite RP in H. rewrite Forall_forall in H. specialize (H _ Hin).
  cbn in H. destruct H as [c [Hc [<- K]]].
  destruct (run_plan_prune sc c0 pl locals c RP Hc) as [F [I0 [NL _]]].
  exists c. repeat split; assumption.
Qed.

(* apply requests (and the inventory-namespace create) only for valid objects of the apply set *)
Theorem C02_apply_only_declared : forall sc c0 pl locals, run_plan sc c0 = Some (pl, locals) ->
  forall r ok m st i, In (IReq r ok m st) (out_trace (run sc c0)) ->
  (r = RNsCreate i \/ (exists d, r = RCreate i d) \/ (exists s d, r = RPatch i s d)) ->
  In i (map l_id locals) /\ ~ In i (pl_invalid pl).
Proof.
  intros sc c0 pl locals RP r ok m st i Hin Hr.
  pose proof (auth_run sc c0) as H. rewrite RP in H. rewrite Forall_forall in H. specialize (H _ Hin).
  destruct Hr as [->|[[d ->]|[s [d ->]]]]; cbn in H;
    destruct (run_plan_apply_valid sc c0 pl locals i RP H); split; assumption.
Qed.

(* the filter chain itself: what `PDelete` implies (used above), stated for
   every table and UID set *)
Theorem C02_filter_chain : forall sc pl locals tbl uids c,
  prune_filters sc pl locals tbl uids c = PDelete -> delete_ok sc locals c uids.
Proof. exact prune_filters_delete_ok. Qed.

(* apply side: the apply task sends a request for an object only if the
   inventory-policy apply filter passed, and it passes exactly when the policy
   adopts everything, or the object does not exist yet, or the live object's
   owning-inventory annotation is acceptable under the policy (CanApply) *)
Theorem C02_apply_gate : forall sc pl g s p,
  snd (policy_apply_filter sc s (p_id p)) <> FPass ->
  forall r ok m st, In (IReq r ok m st) (r_tr (apply_one sc pl g s p)) -> In (IReq r ok m st) (r_tr s).
Proof. exact apply_one_gate. Qed.

Theorem C02_apply_policy : forall sc s i,
  snd (policy_apply_filter sc s i) = FPass <->
  o_policy (sc_opts sc) = PAdoptAll \/
  (faulted sc (FGet i (count_n i (r_gets s))) = false /\
   match find_obj (objs (r_cl s)) i with
   | None => True
   | Some c => can_apply sc (c_owner c) = true
   end).
Proof. exact policy_apply_filter_spec. Qed.

Theorem C02_policy_matrix : forall sc ow,
  can_apply sc ow = match ow, o_policy (sc_opts sc) with
                    | OOurs, _ => true
                    | ONone, PMustMatch => false
                    | ONone, _ => true
                    | OOther, PAdoptAll => true
                    | OOther, _ => false
                    end.
Proof. exact can_apply_matrix. Qed.

(* non-vacuity: a prune run that deletes one object and spares a keep-annotated one *)
Example C02_nonvacuous :
  let univ := [mkU KPlain None None; mkU KPlain None None; mkU KPlain None None] in
  let o := mkO false true PMustMatch DNone VSkipInvalid false false false false PropForeground false in
  let sc := mkSc univ None [mkL 0 [] false false false 1] o (mkE [] [mkW [mkS 0 SCurrent true 5%N 2%Z] WCancel] CNever None) in
  let c0 := mkCl [mkC 0 5%N OOurs false [] false 1 None; mkC 1 6%N OOurs false [] false 1 None;
                  mkC 2 7%N OOurs true [] false 1 None] (Some [0; 1; 2]) 8%N in
  filter (fun r => match r with RDelete _ _ _ | RUpdate _ => true | _ => false end)
         (reqs_of (out_trace (run sc c0))) = [RUpdate 2; RDelete 1 6%N PropForeground].
Proof. vm_compute. reflexivity. Qed.

Print Assumptions C02_no_plan_no_request.
Print Assumptions C02_delete_authorised.
Print Assumptions C02_detach_only_prevented.
Print Assumptions C02_apply_only_declared.
Print Assumptions C02_filter_chain.
Print Assumptions C02_apply_gate.
Print Assumptions C02_apply_policy.
Print Assumptions C02_policy_matrix.

(* ---- the monitor of the correspondence harness, as a theorem about the model -----------------
   `mon_C02` (Corr/CorrPipeline.v) = `c02_walk` (replays the accepted requests of the trace to
   know which objects exist, with which owner and UID, and checks at every delete request: the
   object was tracked, is absent from the apply set, its plan-time owner is acceptable under the
   policy, no deletion-prevention annotation, not a namespace in use, not the same UID as an
   object applied by this run, plan-time UID as precondition, configured propagation policy; at
   every apply request: the current owner is acceptable under the policy) && (outside dry-run and
   without error event: every spared object that carried a deletion-prevention annotation is no
   longer owned and has left the inventory).  Both conjuncts hold of every run of the model.
   Hypothesis: `WF sc c0` of Properties/C01.v, of which only the first two clauses are used (an
   apply set names each object once; the initial cluster names each object once).
   `C02_monitor_uids` is the variant whose hypothesis is about the initial cluster only
   (distinct ids, one UID per object: then the alias clause is vacuous). *)
From CliUtils Require Import Corr.CorrPipeline Proofs.PipelineOrphansRun Proofs.PipelineMonBase
     Proofs.PipelineMonC02a Proofs.PipelineMonC02.

Theorem C02_monitor : forall sc c0, WF sc c0 -> mon_C02 sc c0 (run sc c0) = true.
Proof. exact monitor_C02. Qed.

Theorem C02_monitor_nodup : forall sc c0, NoDup (map c_id (objs c0)) -> locals_nodup sc ->
  mon_C02 sc c0 (run sc c0) = true.
Proof. exact monitor_C02_strong. Qed.

Theorem C02_monitor_uids : forall sc c0, NoDup (map c_id (objs c0)) -> uid_inj c0 ->
  mon_C02 sc c0 (run sc c0) = true.
Proof. exact monitor_C02_min. Qed.

Print Assumptions C02_monitor.
Print Assumptions C02_monitor_nodup.
Print Assumptions C02_monitor_uids.

(* ---- the ownership-policy decision, tied to the source by translation ---------------------------
   `harness/cmd/gentables` re-translates pkg/inventory/policy.go (IDMatch, CanApply, CanPrune and the
   two iota constant blocks) from the Go AST on every run into Generated/SourceTables.v; the functions
   the theorems above are about (`can_apply`, `can_prune`, the three owner classes) are what that
   source says, for every owner class and every policy.  A change of a guard, label, returned pair or
   constant order in the source breaks this obligation. *)
From Coq Require Import String.
From CliUtils Require Generated.SourceTables Proofs.PolicySrcAgree.
Theorem C02_policy_source_translation_agrees : forall sc ow,
  PolicySrcAgree.eval_fn SourceTables.src_can_apply (PolicySrcAgree.status_name ow) (o_policy (sc_opts sc))
    = Some (can_apply sc ow, can_apply sc ow) /\
  PolicySrcAgree.eval_fn SourceTables.src_can_prune (PolicySrcAgree.status_name ow) (o_policy (sc_opts sc))
    = Some (can_prune sc ow, can_prune sc ow).
Proof. intros sc ow. exact (conj (PolicySrcAgree.src_can_apply_agrees sc ow) (PolicySrcAgree.src_can_prune_agrees sc ow)). Qed.
Theorem C02_policy_source_constants :
  map PolicySrcAgree.policy_of_name SourceTables.src_policy_iota = [Some PMustMatch; Some PAdoptIfNoInventory; Some PAdoptAll] /\
  SourceTables.src_idmatch_iota = map PolicySrcAgree.status_name [ONone; OOurs; OOther] /\
  SourceTables.src_idmatch = [("let", "annotations := obj.GetAnnotations()");
                 ("let", "value, found := annotations[OwningInventoryKey]");
                 ("!found", PolicySrcAgree.status_name ONone);
                 ("value == inv.ID()", PolicySrcAgree.status_name OOurs);
                 ("", PolicySrcAgree.status_name OOther)]%string /\
  SourceTables.src_owning_inventory_key = "config.k8s.io/owning-inventory"%string.
Proof.
  exact (conj (proj1 PolicySrcAgree.src_policy_constants)
        (conj (proj1 PolicySrcAgree.src_idmatch_constants) PolicySrcAgree.src_idmatch_agrees)).
Qed.
Print Assumptions C02_policy_source_translation_agrees.
Print Assumptions C02_policy_source_constants.

(* The two filters that consult the policy, translated from pkg/apply/filter on every run as guarded statement lists
   and interpreted by `PolicySrcAgree.exec_filter` (stuck on any condition, assignment or returned expression other
   than the ones the pinned source uses): the apply filter sends no GET under AdoptAll; otherwise it reads the live
   object once, a failed read ends the run whatever the error, NotFound passes, a found object is judged by the
   translated CanApply on its owner.  The prune filter is the translated CanPrune on the object read at plan time. *)
Theorem C02_policy_filters_source_translation_agree :
  (forall sc s i,
     policy_apply_filter sc s i =
       match PolicySrcAgree.exec_filter (o_policy (sc_opts sc)) None None PolicySrcAgree.ENil SourceTables.src_policy_apply_filter with
       | PolicySrcAgree.FDone r => (s, r)
       | _ => let '(s1, g) := get_obj sc s i in
              (s1, match PolicySrcAgree.exec_filter (o_policy (sc_opts sc)) (Some g) None PolicySrcAgree.ENil SourceTables.src_policy_apply_filter with
                   | PolicySrcAgree.FDone r => r
                   | _ => FFatal
                   end)
       end) /\
  (forall pol g, exists r,
     PolicySrcAgree.exec_filter pol (Some g) None PolicySrcAgree.ENil SourceTables.src_policy_apply_filter = PolicySrcAgree.FDone r) /\
  (forall sc (c : cobj),
     PolicySrcAgree.exec_filter (o_policy (sc_opts sc)) None (Some (c_owner c)) PolicySrcAgree.ENil SourceTables.src_policy_prune_filter
       = PolicySrcAgree.FDone (if can_prune sc (c_owner c) then FPass else FSkip)).
Proof.
  exact (conj PolicySrcAgree.src_policy_apply_filter_agrees
        (conj PolicySrcAgree.src_policy_apply_filter_total PolicySrcAgree.src_policy_prune_filter_agrees)).
Qed.
Print Assumptions C02_policy_filters_source_translation_agree.

(* The spelling of "carries a deletion-prevention annotation" (c_keep / l_keep), from pkg/common/common.go on every run:
   NoDeletion holds of exactly the two documented key/value pairs; the dependency / mutation annotation keys and the
   inventory label are the documented ones.  (The harness writes these annotations with the library's own constants, so
   only this obligation notices a changed constant.) *)
Theorem C02_deletion_prevention_annotations_from_source :
  (forall key value,
     PolicySrcAgree.src_no_deletion key value =
       orb (andb (String.eqb key "client.lifecycle.config.k8s.io/deletion") (String.eqb value "detach"))
           (andb (String.eqb key "cli-utils.sigs.k8s.io/on-remove") (String.eqb value "keep"))) /\
  SourceTables.src_no_deletion_tail = ["if val, found := m[key]; found { return val == value }"; "return false"]%string /\
  SourceTables.src_depends_on_annotation = "config.kubernetes.io/depends-on"%string /\
  SourceTables.src_mutation_annotation = "config.kubernetes.io/apply-time-mutation"%string.
Proof.
  exact (conj PolicySrcAgree.src_no_deletion_agrees
        (conj (proj1 PolicySrcAgree.src_no_deletion_shape)
        (conj (proj1 PolicySrcAgree.src_annotation_keys) (proj1 (proj2 PolicySrcAgree.src_annotation_keys))))).
Qed.
Print Assumptions C02_deletion_prevention_annotations_from_source.
