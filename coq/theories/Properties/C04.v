(* C04 — an object is applied only after its dependencies were applied and
   reconciled.  Only statements, about the model `run`, for every scenario and
   every initial cluster.  `run_plan sc c0 = Some (pl, locals)` is the plan the
   run computes; `g_deps (pl_graph pl) d` are the dependencies of d in the
   plan's graph (explicit depends-on, namespace and CRD edges among the planned
   objects, see `edges_of`).  `out_trace (run sc c0)` is chronological; "before
   the request" = the prefix `pre`. *)
From Coq Require Import List NArith ZArith.
From CliUtils Require Import Model.ActuationTable Model.PipelineTypes Model.Pipeline
     Proofs.PipelineBase Proofs.PipelineAuth Proofs.PipelineOrder Proofs.PipelineOrphansRun Proofs.PipelineOrderPlan
     Corr.CorrPipeline Proofs.PipelineOrderMon Proofs.PipelineMonC04obs.
Import ListNotations.

(* when an apply request (create or patch) for d reaches the server, every
   dependency e of d has a successful apply event earlier in the trace and,
   outside dry-run, the last wait event of e before the request is Successful *)
Theorem C04_order : forall sc c0 pl locals, run_plan sc c0 = Some (pl, locals) ->
  forall pre r ok m st post d, out_trace (run sc c0) = pre ++ IReq r ok m st :: post ->
  ((exists f, r = RCreate d f) \/ (exists a f, r = RPatch d a f)) ->
  forall e, In e (g_deps (pl_graph pl) d) ->
    (exists g, In (IEv (EApply g e AOk)) pre) /\
    (o_dry (sc_opts sc) = DNone ->
     exists g p1 p2, pre = p1 ++ IEv (EWait g e WOk) :: p2 /\ forall g' w', ~ In (IEv (EWait g' e w')) p2).
Proof. exact order_apply. Qed.

(* the dependency filter: it passes only if every related object is valid and
   has a table record (strategy, actuation Succeeded and, outside dry-run,
   reconcile Succeeded) *)
Theorem C04_filter_pass : forall sc pl tbl strat rel, dep_filter sc pl tbl strat rel = FPass ->
  forall b, In b rel ->
    ~ In b (pl_invalid pl) /\
    exists r, lookup Nat.eqb tbl b = Some r /\ r_str r = strat /\ r_act r = ASucceeded /\
              (is_dry (o_dry (sc_opts sc)) = true \/ r_rec r = RSucceeded).
Proof. exact dep_filter_pass. Qed.

(* blocked dependents, the part carried by the filter: an apply request for d
   is sent only at a moment when the dependency filter passes on the actuation
   table `tbl` of that moment; then every dependency e is valid, is an apply
   object of the plan, has the record (Apply, Succeeded, and outside dry-run
   reconcile Succeeded), its LAST apply result event before the request is
   Successful and, outside dry-run, its last wait event before the request is
   Successful *)
Theorem C04_blocked_partial : forall sc c0 pl locals, run_plan sc c0 = Some (pl, locals) ->
  forall pre r ok m st post d, out_trace (run sc c0) = pre ++ IReq r ok m st :: post ->
  ((exists f, r = RCreate d f) \/ (exists a f, r = RPatch d a f)) ->
  exists tbl, dep_filter sc pl tbl SApply (g_deps (pl_graph pl) d) = FPass /\
    forall e, In e (g_deps (pl_graph pl) d) ->
      ~ In e (pl_invalid pl) /\ In e (map p_id (pl_apply pl)) /\
      (exists rc, lookup Nat.eqb tbl e = Some rc /\ r_str rc = SApply /\ r_act rc = ASucceeded /\
                  (o_dry (sc_opts sc) = DNone -> r_rec rc = RSucceeded)) /\
      last_apply_is pre e AOk /\ (o_dry (sc_opts sc) = DNone -> last_wait_is pre e WOk).
Proof. exact order_apply_filter. Qed.

(* hence at the moment of the request no dependency is in a bad state: whatever
   its last apply result / wait event before the request is, it is Successful *)
Theorem C04_blocked_at_request_partial : forall sc c0 pl locals, run_plan sc c0 = Some (pl, locals) ->
  forall pre r ok m st post d, out_trace (run sc c0) = pre ++ IReq r ok m st :: post ->
  ((exists f, r = RCreate d f) \/ (exists a f, r = RPatch d a f)) ->
  forall e, In e (g_deps (pl_graph pl) d) ->
    ~ In e (pl_invalid pl) /\ In e (map p_id (pl_apply pl)) /\
    (forall a, last_apply_is pre e a -> a = AOk) /\
    (o_dry (sc_opts sc) = DNone -> forall w, last_wait_is pre e w -> w = WOk).
Proof. exact apply_blocked_at_request. Qed.

(* the two static kinds of bad dependency block the dependent for the whole
   run: an invalid dependency, or one that is not an apply object of the plan *)
Theorem C04_blocked_static : forall sc c0 pl locals, run_plan sc c0 = Some (pl, locals) ->
  forall d e, In e (g_deps (pl_graph pl) d) -> (In e (pl_invalid pl) \/ ~ In e (map p_id (pl_apply pl))) ->
  forall r ok m st, In (IReq r ok m st) (out_trace (run sc c0)) ->
  ~ ((exists f, r = RCreate d f) \/ (exists a f, r = RPatch d a f)).
Proof. exact apply_blocked_static. Qed.

(* the end-of-run form of the monitor ("e is bad at the end of the run => no
   apply request for d anywhere in the trace"), conditional on exactly the two
   trace facts that are not proved here: U1 every object has at most one apply
   result event in the trace; U2 no wait event of a dependency occurs after an
   apply request of its dependent *)
Theorem C04_blocked_end_of_run_partial : forall sc c0 pl locals, run_plan sc c0 = Some (pl, locals) ->
  let t := out_trace (run sc c0) in
  (forall e g1 a1 g2 a2, In (IEv (EApply g1 e a1)) t -> In (IEv (EApply g2 e a2)) t -> a1 = a2) ->
  (forall pre r ok m st post d e, t = pre ++ IReq r ok m st :: post ->
     ((exists f, r = RCreate d f) \/ (exists a f, r = RPatch d a f)) -> In e (g_deps (pl_graph pl) d) ->
     forall g w, ~ In (IEv (EWait g e w)) post) ->
  forall d e, In e (g_deps (pl_graph pl) d) ->
  (In e (pl_invalid pl) \/ ~ In e (map p_id (pl_apply pl)) \/
   (exists g, In (IEv (EApply g e AFail)) t \/ In (IEv (EApply g e ASkip)) t) \/
   (o_dry (sc_opts sc) = DNone /\
    exists w, last_wait_is t e w /\ (w = WFailed \/ w = WTimedOut \/ w = WSkipped))) ->
  forall r ok m st, In (IReq r ok m st) t -> ~ ((exists f, r = RCreate d f) \/ (exists a f, r = RPatch d a f)).
Proof. exact apply_blocked_end_of_run. Qed.

(* blocked dependents, end-of-run form, for well-formed scenarios (`WF`: the
   manifest names each object once, ... see Proofs/PipelineOrphansRun.v; only its
   first clause is used): if a dependency e of d is bad at the END of the run --
   invalid, or not an apply object, or some Failed / Skipped apply event of e
   occurs anywhere in the trace, or (outside dry-run) the last wait event of e in
   the whole trace is Failed / Timeout / Skipped -- then no apply request for d
   occurs anywhere in the trace *)
Theorem C04_blocked : forall sc c0 pl locals, WF sc c0 -> run_plan sc c0 = Some (pl, locals) ->
  forall d e, In e (g_deps (pl_graph pl) d) ->
  (In e (pl_invalid pl) \/ ~ In e (map p_id (pl_apply pl)) \/
   (exists g, In (IEv (EApply g e AFail)) (out_trace (run sc c0)) \/ In (IEv (EApply g e ASkip)) (out_trace (run sc c0))) \/
   (o_dry (sc_opts sc) = DNone /\
    exists w, last_wait_is (out_trace (run sc c0)) e w /\ (w = WFailed \/ w = WTimedOut \/ w = WSkipped))) ->
  forall r ok m st, In (IReq r ok m st) (out_trace (run sc c0)) ->
  ~ ((exists f, r = RCreate d f) \/ (exists a f, r = RPatch d a f)).
Proof. exact apply_blocked. Qed.

(* the two trace facts behind it *)
Theorem C04_one_result_event_per_object : forall sc c0 pl locals,
  (o_destroy (sc_opts sc) = false -> NoDup (map l_id (sc_local sc))) -> run_plan sc c0 = Some (pl, locals) ->
  forall x y e, In x (out_trace (run sc c0)) -> In y (out_trace (run sc c0)) ->
    res_of x = Some e -> res_of y = Some e -> x = y.
Proof. exact run_unique_result. Qed.

(* the executable monitor that the correspondence harness evaluates on the real
   implementation's traces (Corr/CorrPipeline.v) holds on the model's run *)
Theorem C04_monitor : forall sc c0, WF sc c0 -> mon_C04 sc c0 (run sc c0) = true.
Proof. exact mon_C04_holds. Qed.
(* observation level: the Successful wait event that licenses the apply of a dependent
   rests on a delivered observation of the dependency that is Current, carries a body, at a
   generation not older than the applied one, and with the applied UID *)
Theorem C04_monitor_obs : forall sc c0, WF sc c0 -> mon_C04_obs sc c0 (run sc c0) = true.
Proof. exact monitor_C04_obs. Qed.

(* the hypotheses are satisfiable: the blocked run of the example below is well-formed *)
Example C04_wf_nonvacuous :
  WF (mkSc [mkU KNs None None; mkU KPlain None None; mkU KPlain (Some 0) None] None
           [mkL 0 [] false false false 1; mkL 2 [] false false false 1]
           (mkO false true PAdoptAll DNone VSkipInvalid false true true false PropBackground false)
           (mkE [FApply 0] [] CNever None))
     (mkCl [] None 5%N).
Proof.
  unfold WF. cbn. repeat split; try (intros; contradiction); try discriminate.
  - intros _. repeat constructor; cbn; intuition discriminate.
  - constructor.
Qed.

(* U1 needs distinct manifest ids: with the same id twice in the manifest the
   first attempt can fail and the second succeed, and the unconditional
   end-of-run form is false for the model *)
Example C04_blocked_end_of_run_refuted_on_duplicate_ids :
  exists sc c0,
    match run_plan sc c0 with Some (pl, _) => In 0 (g_deps (pl_graph pl) 2) | None => False end /\
    In (IEv (EApply (GApply, 0) 0 AFail)) (out_trace (run sc c0)) /\
    In (IReq (RPatch 2 true true) true [] None) (out_trace (run sc c0)).
Proof.
  exists (mkSc [mkU KNs None None; mkU KPlain None None; mkU KPlain (Some 0) None] None
            [mkL 0 [] false false false 1; mkL 0 [] false false false 1; mkL 2 [] false false false 1]
            (mkO false true PMustMatch DServer VSkipInvalid false true true false PropBackground false)
            (mkE [FGet 0 0] [] CNever None)),
         (mkCl [] None 5%N).
  vm_compute. repeat split; repeat (first [left; reflexivity | right]).
Qed.

(* non-vacuity: namespace 0 and an object 2 inside it; 2 is created after 0 was
   applied and reconciled; with the apply of 0 rejected, 2 is never sent *)
Definition C04_items (t : list item) : list item :=
  filter (fun it => match it with
                    | IReq (RCreate _ _) _ _ _ | IEv (EApply _ _ _) | IEv (EWait _ _ _) => true
                    | _ => false end) t.
Example C04_nonvacuous :
  let univ := [mkU KNs None None; mkU KPlain None None; mkU KPlain (Some 0) None] in
  let o := mkO false true PAdoptAll DNone VSkipInvalid false true true false PropBackground false in
  let waits := [mkW [mkS 0 SCurrent true 0%N 2%Z] WTimeout; mkW [mkS 2 SCurrent true 0%N 2%Z] WTimeout] in
  let locals := [mkL 0 [] false false false 1; mkL 2 [] false false false 1] in
  let sc := mkSc univ None locals o (mkE [] waits CNever None) in
  let sc' := mkSc univ None locals o (mkE [FApply 0] waits CNever None) in
  let c0 := mkCl [] None 5%N in
  option_map (fun p => g_deps (pl_graph (fst p)) 2) (run_plan sc c0) = Some [0] /\
  C04_items (out_trace (run sc c0)) =
    [IReq (RCreate 0 false) true [0] (Some [0; 2]); IEv (EApply (GApply, 0) 0 AOk);
     IEv (EWait (GWait, 0) 0 WPending); IEv (EWait (GWait, 0) 0 WOk);
     IReq (RCreate 2 false) true [0; 2] (Some [0; 2]); IEv (EApply (GApply, 1) 2 AOk);
     IEv (EWait (GWait, 1) 2 WPending); IEv (EWait (GWait, 1) 2 WOk)] /\
  C04_items (out_trace (run sc' c0)) =
    [IReq (RCreate 0 false) false [] (Some [0; 2]); IEv (EApply (GApply, 0) 0 AFail);
     IEv (EWait (GWait, 0) 0 WSkipped); IEv (EApply (GApply, 1) 2 ASkip); IEv (EWait (GWait, 1) 2 WSkipped)].
Proof. vm_compute. repeat split; reflexivity. Qed.

(* dynamic type knowledge: object 0 is a CRD, object 1 a custom resource of its kind (implicit dependency
   1 -> 0); the cluster is empty.  The CRD is created and reconciled, the RESTMapper is reset at the end of
   its wait task, then the custom resource is created.  With the create of the CRD rejected the mapper is
   not reset and the custom resource is reported ApplyFailed (unknown type: the info helper fails before the
   dependency filter would have skipped it) — in both readings no request is sent for it, which is what
   C04_blocked_* and the monitor (`bad` accepts AFail and ASkip of the dependency) state. *)
Example C04_nonvacuous_crd :
  let univ := [mkU KCrd None None; mkU KPlain None (Some 0)] in
  let o := mkO false true PAdoptAll DNone VSkipInvalid false true true false PropBackground false in
  let waits := [mkW [mkS 0 SCurrent true 0%N 2%Z] WTimeout; mkW [mkS 1 SCurrent true 0%N 2%Z] WTimeout] in
  let locals := [mkL 0 [] false false false 1; mkL 1 [] false false false 1] in
  let sc := mkSc univ None locals o (mkE [] waits CNever None) in
  let sc' := mkSc univ None locals o (mkE [FApply 0] waits CNever None) in
  let c0 := mkCl [] None 5%N in
  option_map (fun p => g_deps (pl_graph (fst p)) 1) (run_plan sc c0) = Some [0] /\
  C04_items (out_trace (run sc c0)) =
    [IReq (RCreate 0 false) true [0] (Some [0; 1]); IEv (EApply (GApply, 0) 0 AOk);
     IEv (EWait (GWait, 0) 0 WPending); IEv (EWait (GWait, 0) 0 WOk);
     IReq (RCreate 1 false) true [0; 1] (Some [0; 1]); IEv (EApply (GApply, 1) 1 AOk);
     IEv (EWait (GWait, 1) 1 WPending); IEv (EWait (GWait, 1) 1 WOk)] /\
  C04_items (out_trace (run sc' c0)) =
    [IReq (RCreate 0 false) false [] (Some [0; 1]); IEv (EApply (GApply, 0) 0 AFail);
     IEv (EWait (GWait, 0) 0 WSkipped); IEv (EApply (GApply, 1) 1 AFail); IEv (EWait (GWait, 1) 1 WSkipped)] /\
  mon_C04 sc c0 (run sc c0) = true /\ mon_C04 sc' c0 (run sc' c0) = true /\
  mon_C04_obs sc c0 (run sc c0) = true.
Proof. vm_compute. repeat split; reflexivity. Qed.

(* ---- dependencies spelled as apply-time-mutation sources ------------------------------------------
   `l_deps` is the dependency attribute whatever its spelling: C04_order, C04_blocked_* and the monitor
   speak of `g_deps (pl_graph pl)`, which holds the references of a manifest whether they are depends-on
   targets or (`l_mut`) sources of substitutions.  A mutation-spelled object is, in addition, subject to
   the source lookup of the mutator, which can only make it fail (no request): it never lets an apply
   through that the dependency filter would have held back.
   Three layers: 0; 1 depends on 0; 2 (mutation-spelled) has the sources 1 and 0.  While 1 is waited
   for, the watcher reports 0 - reconciled long ago - as InProgress.  The dependency filter of 2 still
   passes (the actuation table is only written for the objects of the current wait group), but the
   cache entry of 0 is no longer "Current with a body": the mutator reads 0 from the cluster (its second
   GET: kubectl read it when it applied it).  Found: 2 is created.  That GET rejected: the apply of 2
   fails, no request. *)
Definition C04_mut_sc (extra : list sobs) (f : list faddr) : scenario :=
  mkSc [mkU KPlain None None; mkU KPlain None None; mkU KPlain None None] None
       [mkL 0 [] false false false 1; mkL 1 [0] false false false 1; mkLM 2 [1; 0] false false false 1 true]
       (mkO false true PAdoptAll DNone VSkipInvalid false true true false PropBackground false)
       (mkE f [mkW [mkS 0 SCurrent true 5%N 2%Z] WTimeout;
               mkW (extra ++ [mkS 1 SCurrent true 6%N 2%Z]) WTimeout;
               mkW [mkS 2 SCurrent true 7%N 2%Z] WTimeout] CNever None).
Definition apply_ok_count (t : list item) : nat :=
  length (filter (fun it => match it with IEv (EApply _ _ AOk) => true | _ => false end) t).
Definition C04_mut_items (t : list item) : list item :=
  filter (fun it => match it with
                    | IReq (RCreate _ _) _ _ _ | IEv (EApply _ _ _) | IDeliv _ => true
                    | _ => false end) t.
Example C04_mutation_source_reread :
  let c0 := mkCl [] None 5%N in
  let again := [mkS 0 SInProgress true 5%N 2%Z] in
  option_map (fun p => g_deps (pl_graph (fst p)) 2) (run_plan (C04_mut_sc again []) c0) = Some [1; 0] /\
  (* the cache serves the source: a fault on what would be the mutator's GET hits nothing *)
  C04_mut_items (out_trace (run (C04_mut_sc [] [FGet 0 1]) c0)) =
    [IReq (RCreate 0 false) true [0] (Some [0; 1; 2]); IEv (EApply (GApply, 0) 0 AOk);
     IDeliv (mkS 0 SCurrent true 5%N 2%Z);
     IReq (RCreate 1 false) true [0; 1] (Some [0; 1; 2]); IEv (EApply (GApply, 1) 1 AOk);
     IDeliv (mkS 1 SCurrent true 6%N 2%Z);
     IReq (RCreate 2 false) true [0; 1; 2] (Some [0; 1; 2]); IEv (EApply (GApply, 2) 2 AOk);
     IDeliv (mkS 2 SCurrent true 7%N 2%Z)] /\
  (* the source reported InProgress again: read from the cluster; rejected: the target fails *)
  C04_mut_items (out_trace (run (C04_mut_sc again [FGet 0 1]) c0)) =
    [IReq (RCreate 0 false) true [0] (Some [0; 1; 2]); IEv (EApply (GApply, 0) 0 AOk);
     IDeliv (mkS 0 SCurrent true 5%N 2%Z);
     IReq (RCreate 1 false) true [0; 1] (Some [0; 1; 2]); IEv (EApply (GApply, 1) 1 AOk);
     IDeliv (mkS 0 SInProgress true 5%N 2%Z); IDeliv (mkS 1 SCurrent true 6%N 2%Z);
     IEv (EApply (GApply, 2) 2 AFail)] /\
  apply_ok_count (out_trace (run (C04_mut_sc again []) c0)) = 3 /\
  mon_C04 (C04_mut_sc again [FGet 0 1]) c0 (run (C04_mut_sc again [FGet 0 1]) c0) = true /\
  mon_C04_obs (C04_mut_sc again [FGet 0 1]) c0 (run (C04_mut_sc again [FGet 0 1]) c0) = true /\
  mon_C04 (C04_mut_sc again []) c0 (run (C04_mut_sc again []) c0) = true /\
  mon_C04_obs (C04_mut_sc again []) c0 (run (C04_mut_sc again []) c0) = true /\
  wf_b (C04_mut_sc again [FGet 0 1]) c0 = true.
Proof. vm_compute. repeat split; reflexivity. Qed.

(* the first dry-run of a mutation-spelled pair: the source does not exist, the target fails without a request;
   the order theorem has nothing to say (no request for the dependent), the blocked-dependents theorems hold *)
Example C04_mutation_dry_run_source_missing :
  let sc := mkSc [mkU KPlain None None; mkU KPlain None None] None
                 [mkL 0 [] false false false 1; mkLM 1 [0] false false false 1 true]
                 (mkO false true PMustMatch DClient VSkipInvalid false true false false PropBackground false)
                 (mkE [] [] CNever None) in
  let c0 := mkCl [] None 5%N in
  C04_mut_items (out_trace (run sc c0)) = [IEv (EApply (GApply, 0) 0 AOk); IEv (EApply (GApply, 1) 1 AFail)] /\
  mon_C04 sc c0 (run sc c0) = true /\ mon_C04_obs sc c0 (run sc c0) = true.
Proof. vm_compute. repeat split; reflexivity. Qed.

Print Assumptions C04_order.
Print Assumptions C04_filter_pass.
Print Assumptions C04_blocked_partial.
Print Assumptions C04_blocked_at_request_partial.
Print Assumptions C04_blocked_static.
Print Assumptions C04_blocked_end_of_run_partial.
Print Assumptions C04_blocked.
Print Assumptions C04_one_result_event_per_object.
Print Assumptions C04_monitor.
Print Assumptions C04_monitor_obs.
