(* C05 — objects are deleted in reverse dependency order; dependencies outlive
   their dependents.  Only statements, about the model `run`, for every
   scenario and every initial cluster (prune phase of apply runs and destroy
   runs).  `g_dependents (pl_graph pl) e` are the planned objects that depend
   on e (explicit depends-on, namespace and CRD edges, see `edges_of`). *)
From Coq Require Import List Bool NArith ZArith.
From CliUtils Require Import Model.ActuationTable Model.PipelineTypes Model.Pipeline
     Proofs.PipelineBase Proofs.PipelineAuth Proofs.PipelineOrder Proofs.PipelineOrphansRun Proofs.PipelineOrderPlan
     Corr.CorrPipeline Proofs.PipelineOrderMon Proofs.PipelineMonC05.
Import ListNotations.

(* when a delete request for e reaches the server, every dependent d of e has
   a successful delete event earlier in the trace and, outside dry-run, the
   last wait event of d before the request is Successful (d was observed gone) *)
Theorem C05_order : forall sc c0 pl locals, run_plan sc c0 = Some (pl, locals) ->
  forall pre e u p ok m st post, out_trace (run sc c0) = pre ++ IReq (RDelete e u p) ok m st :: post ->
  forall d, In d (g_dependents (pl_graph pl) e) ->
    (exists g, In (IEv (EPrune g d AOk)) pre) /\
    (o_dry (sc_opts sc) = DNone ->
     exists g p1 p2, pre = p1 ++ IEv (EWait g d WOk) :: p2 /\ forall g' w', ~ In (IEv (EWait g' d w')) p2).
Proof. exact order_delete. Qed.

(* a delete for e is sent only at a moment when the dependency filter passes
   on the actuation table `tbl` of that moment over the dependents of e; then
   every dependent d is valid, is a prune object of the plan, has the record
   (Delete, Succeeded, and outside dry-run reconcile Succeeded), its LAST delete
   result event before the request is Successful and, outside dry-run, its last
   wait event before the request is Successful *)
Theorem C05_blocked_partial : forall sc c0 pl locals, run_plan sc c0 = Some (pl, locals) ->
  forall pre e u p ok m st post, out_trace (run sc c0) = pre ++ IReq (RDelete e u p) ok m st :: post ->
  exists tbl, dep_filter sc pl tbl SDelete (g_dependents (pl_graph pl) e) = FPass /\
    forall d, In d (g_dependents (pl_graph pl) e) ->
      ~ In d (pl_invalid pl) /\ In d (map p_id (pl_prune pl)) /\
      (exists rc, lookup Nat.eqb tbl d = Some rc /\ r_str rc = SDelete /\ r_act rc = ASucceeded /\
                  (o_dry (sc_opts sc) = DNone -> r_rec rc = RSucceeded)) /\
      last_prune_is pre d AOk /\ (o_dry (sc_opts sc) = DNone -> last_wait_is pre d WOk).
Proof. exact order_delete_filter. Qed.

(* hence at the moment of the request no dependent is in a bad state: whatever
   its last delete result / wait event before the request is, it is Successful
   (a dependent whose delete failed or was skipped, or that failed to
   disappear, keeps e alive) *)
Theorem C05_blocked_at_request_partial : forall sc c0 pl locals, run_plan sc c0 = Some (pl, locals) ->
  forall pre e u p ok m st post, out_trace (run sc c0) = pre ++ IReq (RDelete e u p) ok m st :: post ->
  forall d, In d (g_dependents (pl_graph pl) e) ->
    ~ In d (pl_invalid pl) /\ In d (map p_id (pl_prune pl)) /\
    (forall a, last_prune_is pre d a -> a = AOk) /\
    (o_dry (sc_opts sc) = DNone -> forall w, last_wait_is pre d w -> w = WOk).
Proof. exact delete_blocked_at_request. Qed.

(* static blockers, for the whole run: e is never deleted while one of its
   dependents is invalid, is an apply object of the run (strategy mismatch:
   the dependent stays), or is no prune object of the plan *)
Theorem C05_blocked_static : forall sc c0 pl locals, run_plan sc c0 = Some (pl, locals) ->
  forall e d, In d (g_dependents (pl_graph pl) e) ->
  (In d (pl_invalid pl) \/ In d (map p_id (pl_apply pl)) \/ ~ In d (map p_id (pl_prune pl))) ->
  forall u p ok m st, ~ In (IReq (RDelete e u p) ok m st) (out_trace (run sc c0)).
Proof. exact delete_blocked_static. Qed.

(* the end-of-run form, conditional on exactly the two trace facts that are
   not proved here: U1 every object has at most one delete result event in the
   trace; U2 no wait event of a dependent occurs after the delete request of
   its dependency *)
Theorem C05_blocked_end_of_run_partial : forall sc c0 pl locals, run_plan sc c0 = Some (pl, locals) ->
  let t := out_trace (run sc c0) in
  (forall d g1 a1 g2 a2, In (IEv (EPrune g1 d a1)) t -> In (IEv (EPrune g2 d a2)) t -> a1 = a2) ->
  (forall pre e u p ok m st post d, t = pre ++ IReq (RDelete e u p) ok m st :: post ->
     In d (g_dependents (pl_graph pl) e) -> forall g w, ~ In (IEv (EWait g d w)) post) ->
  forall e d, In d (g_dependents (pl_graph pl) e) ->
  (In d (pl_invalid pl) \/ In d (map p_id (pl_apply pl)) \/ ~ In d (map p_id (pl_prune pl)) \/
   (exists g, In (IEv (EPrune g d AFail)) t \/ In (IEv (EPrune g d ASkip)) t) \/
   (o_dry (sc_opts sc) = DNone /\
    exists w, last_wait_is t d w /\ (w = WFailed \/ w = WTimedOut \/ w = WSkipped))) ->
  forall u p ok m st, ~ In (IReq (RDelete e u p) ok m st) t.
Proof. exact delete_blocked_end_of_run. Qed.

(* end-of-run form for well-formed scenarios: if a dependent d of e is bad at
   the END of the run -- invalid, or an apply object of the run, or no prune
   object of the plan, or some Failed / Skipped delete event of d occurs
   anywhere in the trace, or (outside dry-run) the last wait event of d in the
   whole trace is Failed / Timeout / Skipped -- then e is never deleted *)
Theorem C05_blocked : forall sc c0 pl locals, WF sc c0 -> run_plan sc c0 = Some (pl, locals) ->
  forall e d, In d (g_dependents (pl_graph pl) e) ->
  (In d (pl_invalid pl) \/ In d (map p_id (pl_apply pl)) \/ ~ In d (map p_id (pl_prune pl)) \/
   (exists g, In (IEv (EPrune g d AFail)) (out_trace (run sc c0)) \/ In (IEv (EPrune g d ASkip)) (out_trace (run sc c0))) \/
   (o_dry (sc_opts sc) = DNone /\
    exists w, last_wait_is (out_trace (run sc c0)) d w /\ (w = WFailed \/ w = WTimedOut \/ w = WSkipped))) ->
  forall u p ok m st, ~ In (IReq (RDelete e u p) ok m st) (out_trace (run sc c0)).
Proof. exact delete_blocked. Qed.

(* the executable monitor of the correspondence harness: mon_C05 is the
   conjunction of an ordering part and an inventory part ("a dependency that was
   not deleted stays in the inventory"); the ordering part holds on the model's
   run, for every scenario; the inventory part is a statement about the final
   inventory (retention table of the inventory-set task), C05_monitor below *)
Theorem C05_monitor_split : forall sc c0 out,
  mon_C05 sc c0 out = mon_C05_order sc c0 out && mon_C05_inventory sc c0 out.
Proof. exact mon_C05_split. Qed.
Theorem C05_monitor_order : forall sc c0, mon_C05_order sc c0 (run sc c0) = true.
Proof. exact mon_C05_order_holds. Qed.
(* the whole monitor, inventory conjunct included: a prune object of the plan that was
   not deleted (no delete request, no successful prune event) stays in the stored
   inventory, unless it is detached by a keep annotation or pruning is off *)
Theorem C05_monitor : forall sc c0, WF sc c0 -> mon_C05 sc c0 (run sc c0) = true.
Proof. exact monitor_C05. Qed.
(* the UID clause of WF is needed: with an applied object and a prune object sharing a
   UID (every other clause of WF holding) the alias filter spares and abandons the prune
   object, which leaves the inventory while still live and owned *)
Theorem C05_monitor_needs_uid_inj : exists sc c0,
  (o_destroy (sc_opts sc) = false -> NoDup (map l_id (sc_local sc))) /\
  NoDup (map c_id (objs c0)) /\
  (forall c, In c (objs c0) -> (c_uid c < next_uid c0)%N) /\
  (forall n l, sc_inv_ns sc = Some n -> inv c0 = Some l -> In n (map c_id (objs c0)) \/ In n l) /\
  (o_destroy (sc_opts sc) = true -> o_prune (sc_opts sc) = true) /\
  wf_fin_b sc c0 = true /\
  mon_C05_order sc c0 (run sc c0) = true /\ mon_C05 sc c0 (run sc c0) = false.
Proof. exact monitor_C05_needs_uid_inj. Qed.

(* non-vacuity: a destroy run over namespace 0 and object 2 inside it: 2 is
   deleted and observed gone before 0 is deleted; with the delete of 2
   rejected, 0 is never deleted; an apply run whose manifest keeps 2 with a
   depends-on reference to 1 and drops 1 does not delete 1 (its dependent is
   an apply object: strategy mismatch) *)
Definition C05_items (t : list item) : list item :=
  filter (fun it => match it with
                    | IReq (RDelete _ _ _) _ _ _ | IEv (EPrune _ _ _) | IEv (EWait _ _ _) => true
                    | _ => false end) t.
Example C05_nonvacuous :
  let univ := [mkU KNs None None; mkU KPlain None None; mkU KPlain (Some 0) None] in
  let od := mkO true true PAdoptAll DNone VSkipInvalid false true true false PropBackground false in
  let oa := mkO false true PAdoptAll DNone VSkipInvalid false true true false PropBackground false in
  let waits := [mkW [mkS 2 SNotFound false 0%N 0%Z] WTimeout; mkW [mkS 0 SNotFound false 0%N 0%Z] WTimeout] in
  let sc := mkSc univ None [] od (mkE [] waits CNever None) in
  let sc' := mkSc univ None [] od (mkE [FDelete 2] waits CNever None) in
  let sc'' := mkSc univ None [mkL 2 [1] false false false 1] oa
                   (mkE [] [mkW [mkS 2 SCurrent true 0%N 2%Z] WTimeout] CNever None) in
  let c0 := mkCl [mkC 0 5%N OOurs false [] false 1 None; mkC 2 6%N OOurs false [] false 1 None] (Some [0; 2]) 8%N in
  let c1 := mkCl [mkC 1 5%N OOurs false [] false 1 None; mkC 2 6%N OOurs false [] false 1 None] (Some [1; 2]) 8%N in
  option_map (fun p => g_dependents (pl_graph (fst p)) 0) (run_plan sc c0) = Some [2] /\
  C05_items (out_trace (run sc c0)) =
    [IReq (RDelete 2 6%N PropBackground) true [0] (Some [0; 2]); IEv (EPrune (GPrune, 0) 2 AOk);
     IEv (EWait (GWait, 0) 2 WPending); IEv (EWait (GWait, 0) 2 WOk);
     IReq (RDelete 0 5%N PropBackground) true [] (Some [0; 2]); IEv (EPrune (GPrune, 1) 0 AOk);
     IEv (EWait (GWait, 1) 0 WPending); IEv (EWait (GWait, 1) 0 WOk)] /\
  C05_items (out_trace (run sc' c0)) =
    [IReq (RDelete 2 6%N PropBackground) false [0; 2] (Some [0; 2]); IEv (EPrune (GPrune, 0) 2 AFail);
     IEv (EWait (GWait, 0) 2 WSkipped); IEv (EPrune (GPrune, 1) 0 ASkip); IEv (EWait (GWait, 1) 0 WSkipped)] /\
  option_map (fun p => g_dependents (pl_graph (fst p)) 1) (run_plan sc'' c1) = Some [2] /\
  C05_items (out_trace (run sc'' c1)) =
    [IEv (EWait (GWait, 0) 2 WSkipped); IEv (EPrune (GPrune, 0) 1 ASkip); IEv (EWait (GWait, 1) 1 WSkipped)].
Proof. vm_compute. repeat split; reflexivity. Qed.

(* a dependent held by a finalizer: object 2 lives in namespace 0 and carries a finalizer.  The destroyer
   deletes 2 first; the request is accepted but the object lingers, its wait times out; the namespace 0
   (its dependency) is then NOT deleted (dependency filter: the dependent is not reconciled), both stay
   tracked and the inventory object is not deleted *)
Example C05_nonvacuous_finalizer :
  let univ := [mkU KNs None None; mkU KPlain None None; mkUF KPlain (Some 0) None true true] in
  let od := mkO true true PAdoptAll DNone VSkipInvalid false true true false PropBackground false in
  let waits := [mkW [mkS 2 STerminating true 6%N 2%Z] WTimeout; mkW [mkS 0 SNotFound false 0%N 0%Z] WTimeout] in
  let sc := mkSc univ None [] od (mkE [] waits CNever None) in
  let c0 := mkCl [mkC 0 5%N OOurs false [] false 1 None; mkC 2 6%N OOurs false [] false 1 None] (Some [0; 2]) 8%N in
  option_map (fun p => g_dependents (pl_graph (fst p)) 0) (run_plan sc c0) = Some [2] /\
  C05_items (out_trace (run sc c0)) =
    [IReq (RDelete 2 6%N PropBackground) true [0; 2] (Some [0; 2]); IEv (EPrune (GPrune, 0) 2 AOk);
     IEv (EWait (GWait, 0) 2 WPending); IEv (EWait (GWait, 0) 2 WTimedOut);
     IEv (EPrune (GPrune, 1) 0 ASkip); IEv (EWait (GWait, 1) 0 WSkipped)] /\
  reqs_of (out_trace (run sc c0)) = [RDelete 2 6%N PropBackground] /\
  out_final (run sc c0) = c0 /\
  mon_C05 sc c0 (run sc c0) = true.
Proof. vm_compute. repeat split; reflexivity. Qed.

Print Assumptions C05_order.
Print Assumptions C05_blocked_partial.
Print Assumptions C05_blocked_at_request_partial.
Print Assumptions C05_blocked_static.
Print Assumptions C05_blocked_end_of_run_partial.
Print Assumptions C05_blocked.
Print Assumptions C05_monitor_split.
Print Assumptions C05_monitor_order.
Print Assumptions C05_monitor.
Print Assumptions C05_monitor_needs_uid_inj.

(* the check of this property evaluates `mon_C05` and one more conjunct on every trace (Corr/CorrC05x.v: a delete the
   API server rejected is never reported as successful); imported here so that it is built with this property *)
From CliUtils Require Corr.CorrC05x.
