(* C03 — repeated apply/destroy runs converge to the declared set.

   PROVED over the executable pipeline model (Model/Pipeline.v), all theorems
   `Closed under the global context`:

   * the convergence monitor `mon_C03` (Corr/CorrPipeline.v), which the
     correspondence evaluates on every run of the real implementation, holds of
     EVERY run of the model from a well-formed start state (`C03_monitor`,
     hypothesis `WF` only): after a run without error event
       - the stored inventory equals the successfully applied objects plus the previously
         tracked objects whose apply or delete failed or was skipped, whose reconcile failed or
         timed out, which were invalid, or which pruning was told to leave, minus detached
         objects (`C03_monitor_inventory`; `expect_of` is the formula, evaluated from the
         events of the run only);
       - every successfully applied object is live with the owning annotation
         (`C03_monitor_applied`);
       - no object whose delete succeeded is left (`C03_monitor_deleted`);
       - a destroy that deleted the inventory object leaves no tracked object managed
         (`C03_monitor_destroy`).
     The known finding of C01 (inventory namespace created, its apply fails) does not
     falsify this monitor (`C03_monitor_kf_example`); the first clause of WF (a manifest
     names each object once) is necessary (`C03_monitor_needs_nodup`).
   * the retention table itself (`C03_inventory_equation_partial`: an equivalence at the level
     of the actuation table, kept under its historical name), the final write and
     the departure of detached objects.
   * the fixpoint: after a clean run (no error, no failed / skipped / timed-out event; not
     destroy, not dry-run) of a plan without invalid object, from a WF cluster whose stored
     key list is duplicate-free, applying again (client-side) from the final cluster sends no
     create / delete / inventory-create / inventory-delete request, rewrites the inventory only
     with the same keys, and leaves the stored inventory unchanged — whatever happens in the
     second run (faults, wait schedule, cancellation, even an error): `C03_fixpoint_model`,
     `C03_fixpoint_model_exit_early` (under ExitEarly validation the invalid set is empty by
     cleanness), `C03_fixpoint_two` (second scenario sharing only the manifest ids),
     `C03_fixpoint_requests` (the plain reading), `C03_fixpoint_monitor` (the executable
     `c03_fixpoint` accepts the model's own two-run history) and `C03_stable_bool` (no first
     run at all: a run from any cluster satisfying the decidable predicate `stableb`).

   STILL PARTIAL (not theorems; checked on every history of the correspondence by
   `c03_fixpoint`, and no counterexample in 24 000 model-fuzz cases): the same-scenario
   fixpoint when the first plan has invalid objects under the SkipInvalid policy (the
   invalid set of the second plan must be related to the first through the graph sort),
   and when the stored key list has duplicates. *)
From Coq Require Import List NArith ZArith.
From CliUtils Require Import Model.ActuationTable Model.PipelineTypes Model.Pipeline Corr.CorrPipeline
     Proofs.PipelineBase Proofs.PipelineAuth Proofs.PipelineMisc Proofs.PipelineMonBase
     Proofs.PipelineOrphansRun Proofs.PipelineMonC02
     Proofs.PipelineMonC03d Proofs.PipelineMonC03 Proofs.PipelineMonC03FixA Proofs.PipelineMonC03Fix
     Proofs.PipelineMonC03Destroy.
Import ListNotations.

(* ---- the retention table ------------------------------------------------------------------ *)
(* the stored inventory after a run = successfully applied objects, plus the
   previously tracked objects whose apply or delete failed or was skipped or
   whose reconcile failed or timed out, minus detached (abandoned) objects,
   plus previously tracked invalid objects *)
Theorem C03_inventory_equation_partial : forall pl prev s i,
  In i (final_inventory pl prev s) <->
  ((In i (with_actuation (r_tbl s) SApply ASucceeded) \/
    (In i prev /\ (In i (with_actuation (r_tbl s) SApply AFailed) \/ In i (with_actuation (r_tbl s) SApply ASkipped) \/
                   In i (with_actuation (r_tbl s) SDelete AFailed) \/ In i (with_actuation (r_tbl s) SDelete ASkipped) \/
                   In i (with_reconcile (r_tbl s) RFailed) \/ In i (with_reconcile (r_tbl s) RTimeout))))
   /\ ~ In i (r_aband s))
  \/ (In i prev /\ In i (pl_invalid pl)).
Proof. exact final_inventory_spec. Qed.

(* when the final replace writes, the stored inventory is exactly that set *)
Theorem C03_final_write : forall sc s ids s',
  inv_update sc s ids = (s', true) -> inv (r_cl s') = Some (sortn ids).
Proof. exact inv_update_writes. Qed.

(* detached objects leave the inventory *)
Theorem C03_detached_leave : forall pl prev s i,
  ~ In i (pl_invalid pl) -> In i (r_aband s) -> ~ In i (final_inventory pl prev s).
Proof. exact final_inventory_drops. Qed.

(* ---- the convergence monitor holds of every run of the model ------------------------------- *)
Theorem C03_monitor : forall sc c0, WF sc c0 -> mon_C03 sc c0 (run sc c0) = true.
Proof. exact monitor_C03. Qed.

(* its conjuncts, for a non-dry run without error event *)
Theorem C03_monitor_inventory : forall sc c0,
  WF sc c0 -> is_dry (o_dry (sc_opts sc)) = false -> has_error (out_trace (run sc c0)) = false ->
  forall l, inv (out_final (run sc c0)) = Some l -> set_eqn l (expect_of sc c0 (run sc c0)) = true.
Proof. exact monitor_C03_inventory. Qed.

Theorem C03_monitor_applied : forall sc c0,
  WF sc c0 -> is_dry (o_dry (sc_opts sc)) = false -> has_error (out_trace (run sc c0)) = false ->
  forallb (fun i => memn i (managed (out_final (run sc c0)))) (ok_applied_of (events (out_trace (run sc c0)))) = true.
Proof. exact monitor_C03_applied. Qed.

Theorem C03_monitor_deleted : forall sc c0,
  WF sc c0 -> is_dry (o_dry (sc_opts sc)) = false -> has_error (out_trace (run sc c0)) = false ->
  forallb (gone_ok sc (out_final (run sc c0))) (events (out_trace (run sc c0))) = true.
Proof. exact monitor_C03_deleted. Qed.

Theorem C03_monitor_destroy : forall sc c0,
  WF sc c0 -> is_dry (o_dry (sc_opts sc)) = false -> has_error (out_trace (run sc c0)) = false ->
  inv (out_final (run sc c0)) = None ->
  o_destroy (sc_opts sc) = true /\ forall i, In i (managed (out_final (run sc c0))) -> In i (exempt0 c0).
Proof. exact monitor_C03_destroy. Qed.

(* the named components are the monitor's own *)
Theorem C03_monitor_unfold : forall sc c0 out,
  mon_C03 sc c0 out =
  if (has_error (out_trace out) || is_dry (o_dry (sc_opts sc)))%bool then true else
  match inv (out_final out) with
  | None => (o_destroy (sc_opts sc) && match managed (out_final out) with [] => true | l => subsetn l (exempt0 c0) end)%bool
  | Some l =>
      (set_eqn l (expect_of sc c0 out)
       && forallb (fun i => memn i (managed (out_final out))) (ok_applied_of (events (out_trace out)))
       && forallb (gone_ok sc (out_final out)) (events (out_trace out)))%bool
  end.
Proof. exact mon_C03_unfold. Qed.

(* a manifest must name each object once: otherwise the model (like the implementation) records the
   LAST outcome of the object only, and a successful apply followed by a failed one of the same object
   leaves it live, owned and untracked *)
Theorem C03_monitor_needs_nodup :
  exists sc c0, ~ locals_nodup sc /\ has_error (out_trace (run sc c0)) = false /\
                inv (out_final (run sc c0)) = Some [] /\ managed (out_final (run sc c0)) = [0] /\
                mon_C03 sc c0 (run sc c0) = false.
Proof. exact monitor_C03_needs_nodup. Qed.

(* ---- the fixpoint ---------------------------------------------------------------------------- *)
Theorem C03_fixpoint_model : forall sc c0,
  WF sc c0 ->
  clean_run sc (run sc c0) = true ->
  o_ssa (sc_opts sc) = false ->
  pl_invalid (plan_of sc c0) = [] ->
  NoDup (prev_of c0) ->
  fix_ok (out_final (run sc c0)) (run sc (out_final (run sc c0))) = true.
Proof. exact (fixpoint_model monitor_C03). Qed.

Theorem C03_fixpoint_model_exit_early : forall sc c0,
  WF sc c0 ->
  clean_run sc (run sc c0) = true ->
  o_ssa (sc_opts sc) = false ->
  o_valpol (sc_opts sc) = VExitEarly ->
  NoDup (prev_of c0) ->
  fix_ok (out_final (run sc c0)) (run sc (out_final (run sc c0))) = true.
Proof. exact (fixpoint_model_exit_early monitor_C03). Qed.

Theorem C03_fixpoint_two : forall sc1 sc2 c0,
  WF sc1 c0 ->
  clean_run sc1 (run sc1 c0) = true ->
  pl_invalid (plan_of sc1 c0) = [] ->
  NoDup (prev_of c0) ->
  fix_opts sc2 = true ->
  map l_id (sc_local sc2) = map l_id (sc_local sc1) ->
  (o_prune (sc_opts sc2) = true -> o_prune (sc_opts sc1) = true) ->
  sc_univ sc2 = sc_univ sc1 ->
  fix_ok (out_final (run sc1 c0)) (run sc2 (out_final (run sc1 c0))) = true.
Proof. exact (fixpoint_two monitor_C03). Qed.

Theorem C03_fixpoint_requests : forall sc c0,
  WF sc c0 -> clean_run sc (run sc c0) = true -> o_ssa (sc_opts sc) = false ->
  pl_invalid (plan_of sc c0) = [] -> NoDup (prev_of c0) ->
  let c1 := out_final (run sc c0) in
  (forall r ok, In (r, ok) (reqs (out_trace (run sc c1))) ->
     match r with RCreate _ _ | RDelete _ _ _ | RInvCreate _ | RInvDelete => False | _ => True end) /\
  inv (out_final (run sc c1)) = inv c1.
Proof. exact (fixpoint_no_create_delete monitor_C03). Qed.

(* the executable check of the correspondence accepts the model's own two-run history *)
Theorem C03_fixpoint_monitor : forall sc1 sc2 c0,
  WF sc1 c0 -> pl_invalid (plan_of sc1 c0) = [] -> NoDup (prev_of c0) -> sc_univ sc2 = sc_univ sc1 ->
  c03_fixpoint c0 [(sc1, run sc1 c0); (sc2, run sc2 (out_final (run sc1 c0)))] = true.
Proof. exact (fixpoint_monitor monitor_C03). Qed.

(* no first run: a client-side apply from a cluster satisfying the decidable predicate `stableb`
   (sorted duplicate-free stored keys, every planned apply object tracked and live, every other
   tracked object live, no valid prune object when pruning) *)
Theorem C03_stable_bool : forall sc c1, stableb sc c1 = true -> fix_ok c1 (run sc c1) = true.
Proof. exact PipelineMonC03Fix.C03_stable_bool. Qed.

(* in the two-scenario form the side conditions are necessary for `fix_ok` (the executable
   `c03_fixpoint` accepts these histories: its `same` test compares pruning options and the validity
   attributes of the manifests) *)
Theorem C03_fixpoint_two_needs_prune_agree : exists sc1 sc2 c0,
  WF sc1 c0 /\ fix_hyps sc1 c0 = true /\ fix_opts sc2 = true /\
  map l_id (sc_local sc2) = map l_id (sc_local sc1) /\
  fix_ok (out_final (run sc1 c0)) (run sc2 (out_final (run sc1 c0))) = false /\
  c03_fixpoint c0 [(sc1, run sc1 c0); (sc2, run sc2 (out_final (run sc1 c0)))] = true.
Proof. exact fix_two_needs_prune_agree. Qed.

(* dynamic type knowledge: the two scenarios must describe the same universe (kinds, CRD of each custom
   resource); otherwise the second run may not know the kind of a tracked object, skip it unread and drop it
   from the inventory.  The executable check rejects that history as well. *)
Theorem C03_fixpoint_two_needs_same_universe : exists sc1 sc2 c0,
  WF sc1 c0 /\ fix_hyps sc1 c0 = true /\ fix_second sc1 sc2 = true /\ sc_univ sc2 <> sc_univ sc1 /\
  fix_ok (out_final (run sc1 c0)) (run sc2 (out_final (run sc1 c0))) = false /\
  c03_fixpoint c0 [(sc1, run sc1 c0); (sc2, run sc2 (out_final (run sc1 c0)))] = false /\
  wf_b sc2 (out_final (run sc1 c0)) = false /\
  fix_ok (out_final (run sc1 c0)) (run sc1 (out_final (run sc1 c0))) = true.
Proof. exact fix_two_needs_same_universe. Qed.

Theorem C03_fixpoint_two_needs_nodup : exists sc1 sc2 c0,
  WF sc1 c0 /\ clean_run sc1 (run sc1 c0) = true /\ pl_invalid (plan_of sc1 c0) = [] /\
  fix_second sc1 sc2 = true /\ ~ NoDup (prev_of c0) /\
  fix_ok (out_final (run sc1 c0)) (run sc2 (out_final (run sc1 c0))) = false /\
  fix_ok (out_final (run sc1 c0)) (run sc1 (out_final (run sc1 c0))) = true.
Proof. exact fix_two_needs_nodup. Qed.

(* ---- non-vacuity -------------------------------------------------------------------------------- *)
(* a clean apply followed by the identical apply sends no request at all and leaves the cluster unchanged *)
Example C03_fixpoint_example :
  let univ := [mkU KPlain None None; mkU KPlain None None] in
  let o := mkO false true PMustMatch DNone VSkipInvalid false false false false PropBackground false in
  let w i u := mkW [mkS i SCurrent true u 2%Z] WCancel in
  let sc := mkSc univ None [mkL 0 [] false false false 1; mkL 1 [0] false false false 1] o
                 (mkE [] [w 0 1%N; w 1 2%N] CNever None) in
  let r1 := run sc (mkCl [] None 1%N) in
  let r2 := run sc (out_final r1) in
  inv (out_final r1) = Some [0; 1] /\ reqs_of (out_trace r2) = [] /\ out_final r2 = out_final r1.
Proof. vm_compute. repeat split; reflexivity. Qed.

(* an object held by a finalizer: the delete of object 1 is accepted, the object stays (terminating);
   the delete wait times out, so object 1 is RETAINED in the inventory (reconcile Timeout clause of the
   equation) while object 2 (no finalizer) leaves it; an identical second run finds object 1 still
   tracked and live, deletes it again, and leaves cluster and inventory unchanged.  The executable
   monitor of the correspondence (mon_C03, with its clause "objects whose delete succeeded are gone,
   unless a finalizer holds them") and the fixpoint check accept the history.  The first run is NOT
   clean (its delete wait timed out: under WF no run that deletes a held object can be clean), so the
   fixpoint theorems say nothing about the second run, which indeed repeats the delete. *)
Example C03_finalizer_history :
  let univ := [mkU KNs None None; mkUF KPlain None None true true; mkU KPlain None None] in
  let o := mkO false true PMustMatch DNone VSkipInvalid false false true false PropBackground false in
  let sc := mkSc univ None [] o
                 (mkE [] [mkW [mkS 2 SNotFound false 0%N 0%Z; mkS 1 STerminating true 5%N 2%Z] WTimeout] CNever None) in
  let obj i u := mkC i u OOurs false [] false 1 None in
  let c0 := mkCl [obj 1 5%N; obj 2 6%N] (Some [1; 2]) 9%N in
  let r1 := run sc c0 in
  let r2 := run sc (out_final r1) in
  reqs_of (out_trace r1) = [RInvUpdate [1; 2]; RDelete 2 6%N PropBackground; RDelete 1 5%N PropBackground; RInvUpdate [1]] /\
  In (IEv (EWait (GWait, 0) 1 WTimedOut)) (out_trace r1) /\
  out_final r1 = mkCl [obj 1 5%N] (Some [1]) 9%N /\
  reqs_of (out_trace r2) = [RInvUpdate [1]; RDelete 1 5%N PropBackground] /\
  out_final r2 = out_final r1 /\
  mon_C03 sc c0 r1 = true /\ mon_C03 sc (out_final r1) r2 = true /\ c03_fixpoint c0 [(sc, r1); (sc, r2)] = true /\
  wf_b sc c0 = true /\ wf_b sc (out_final r1) = true /\ clean_run sc r1 = false.
Proof. vm_compute. repeat split; try reflexivity. tauto. Qed.
(* create 1, delete 2, detach the deletion-prevented 0, no error: the stored inventory ends as [1] *)
Example C03_monitor_example1 :
  WF c02_ex_sc c02_ex_c0 /\
  has_error (out_trace (run c02_ex_sc c02_ex_c0)) = false /\
  inv (out_final (run c02_ex_sc c02_ex_c0)) = Some [1] /\
  expect_of c02_ex_sc c02_ex_c0 (run c02_ex_sc c02_ex_c0) = [1] /\
  mon_C03 c02_ex_sc c02_ex_c0 (run c02_ex_sc c02_ex_c0) = true.
Proof. exact monitor_C03_ex1. Qed.

(* retention: a rejected patch (0), a rejected delete (3), two reconcile timeouts (4 applied, 2 deleted):
   the inventory ends as [0;1;2;3;4] although only 1 and 4 were applied successfully *)
Example C03_monitor_example2 :
  WF c03_ex_sc c03_ex_c0 /\
  has_error (out_trace (run c03_ex_sc c03_ex_c0)) = false /\
  ok_applied_of (events (out_trace (run c03_ex_sc c03_ex_c0))) = [1; 4] /\
  bad_act_of (events (out_trace (run c03_ex_sc c03_ex_c0))) = [0; 3] /\
  unrec_of (plan_of c03_ex_sc c03_ex_c0) (out_trace (run c03_ex_sc c03_ex_c0)) = [4; 2] /\
  inv (out_final (run c03_ex_sc c03_ex_c0)) = Some [0; 1; 2; 3; 4] /\
  mon_C03 c03_ex_sc c03_ex_c0 (run c03_ex_sc c03_ex_c0) = true.
Proof. split; [exact c03_ex_WF|exact monitor_C03_ex2]. Qed.

(* the C01 known finding is not a C03 violation *)
Example C03_monitor_kf_example :
  WF kf_witness_sc kf_witness_c0 /\
  mon_C01 kf_witness_sc kf_witness_c0 (run kf_witness_sc kf_witness_c0) = false /\
  has_error (out_trace (run kf_witness_sc kf_witness_c0)) = false /\
  mon_C03 kf_witness_sc kf_witness_c0 (run kf_witness_sc kf_witness_c0) = true.
Proof. split; [exact kf_witness_WF|exact monitor_C03_kf_witness]. Qed.

(* the hypotheses of the fixpoint theorems hold together on a history whose first run patches 0,
   creates 1 and prunes 2; the conclusion recomputed *)
Example C03_fixpoint_nonvacuous :
  WF (fix_ex_sc true) fix_ex_c0 /\
  clean_run (fix_ex_sc true) (run (fix_ex_sc true) fix_ex_c0) = true /\
  o_ssa (sc_opts (fix_ex_sc true)) = false /\
  pl_invalid (plan_of (fix_ex_sc true) fix_ex_c0) = [] /\
  nodupb (prev_of fix_ex_c0) = true /\
  In (RCreate 1 false, true) (reqs (out_trace (run (fix_ex_sc true) fix_ex_c0))) /\
  In (RDelete 2 11%N PropBackground, true) (reqs (out_trace (run (fix_ex_sc true) fix_ex_c0))) /\
  fix_ok (out_final (run (fix_ex_sc true) fix_ex_c0))
         (run (fix_ex_sc true) (out_final (run (fix_ex_sc true) fix_ex_c0))) = true.
Proof. split; [apply fix_ex_WF|]. vm_compute. repeat split; auto 10. Qed.

(* ---- destroy: the inventory object is deleted or keeps something ------------------------------- *)
(* the executable check `c03_destroy_done` of the correspondence holds of the model's own run: after an
   error-free, non-dry-run destroy the stored inventory is never an EMPTY object -- the inventory-set
   task deletes the inventory object, or rewrites it with a non-empty retained set (a failed delete, a
   skipped delete that was not detached, a tracked invalid id, an object whose reconcile failed or
   timed out) *)
Theorem C03_destroy_never_leaves_empty_inventory : forall sc c0,
  WF sc c0 -> c03_destroy_done sc (run sc c0) = true.
Proof. exact destroy_never_leaves_empty_inventory. Qed.

Print Assumptions C03_inventory_equation_partial.
Print Assumptions C03_final_write.
Print Assumptions C03_detached_leave.
Print Assumptions C03_monitor.
Print Assumptions C03_monitor_inventory.
Print Assumptions C03_monitor_applied.
Print Assumptions C03_monitor_deleted.
Print Assumptions C03_monitor_destroy.
Print Assumptions C03_monitor_unfold.
Print Assumptions C03_monitor_needs_nodup.
Print Assumptions C03_fixpoint_model.
Print Assumptions C03_fixpoint_model_exit_early.
Print Assumptions C03_fixpoint_two.
Print Assumptions C03_fixpoint_requests.
Print Assumptions C03_fixpoint_monitor.
Print Assumptions C03_stable_bool.
Print Assumptions C03_fixpoint_two_needs_prune_agree.
Print Assumptions C03_fixpoint_two_needs_nodup.
Print Assumptions C03_fixpoint_two_needs_same_universe.
Print Assumptions C03_destroy_never_leaves_empty_inventory.
