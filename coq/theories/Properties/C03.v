(* C03 — repeated apply/destroy runs converge to the declared set.
   PARTIAL: what is proved here is the inventory equation at the level of the
   actuation table (the retention table of the final inventory task is exactly
   the formula of the property), that this set is what the final replace
   writes, and that abandoned / successfully deleted objects leave it.  The
   link "table = last recorded outcome per object" is C19_latest; "every
   successfully applied object is live with our annotation", the fixpoint of
   an identical re-apply and the clean destroy are checked on every run of the
   correspondence (monitor mon_C03 / c03_fixpoint evaluated on the real
   implementation's histories) but are not yet theorems. *)
From Coq Require Import List NArith ZArith.
From CliUtils Require Import Model.ActuationTable Model.PipelineTypes Model.Pipeline Proofs.PipelineBase
     Proofs.PipelineAuth Proofs.PipelineMisc.
Import ListNotations.

(* the stored inventory after a run = successfully applied objects, plus the
   previously tracked objects whose apply or delete failed or was skipped or
   whose reconcile failed or timed out, minus detached (abandoned) objects,
   plus previously tracked invalid objects *)
Theorem C03_inventory_equation_partial : forall pl prev s i,
  In i (final_inventory pl prev s) <->
  ((In i (with_actuation (r_tbl s) SApply ASucceeded) \/
    (In i prev /\ (In i (with_actuation (r_tbl s) SApply AFailed) \/ In i (with_actuation (r_tbl s) SApply ASkipped) \/
                   In i (with_actuation (r_tbl s) SDelete AFailed) \/ In i (with_actuation (r_tbl s) SDelete ASkipped) \/
                   In i (with_reconcile (r_tbl s) RFailed) \/ In i (with_reconcile (r_tbl s) RTimeout))))
   /\ ~ In i (r_aband s))
  \/ (In i prev /\ In i (pl_invalid pl)).
Proof. exact final_inventory_spec. Qed.

(* when the final replace writes, the stored inventory is exactly that set *)
Theorem C03_final_write : forall sc s ids s',
  inv_update sc s ids = (s', true) -> inv (r_cl s') = Some (sortn ids).
Proof. exact inv_update_writes. Qed.

(* detached objects leave the inventory *)
Theorem C03_detached_leave : forall pl prev s i,
  ~ In i (pl_invalid pl) -> In i (r_aband s) -> ~ In i (final_inventory pl prev s).
Proof. exact final_inventory_drops. Qed.

(* non-vacuity and the fixpoint on a concrete history: a clean apply followed by
   the identical apply sends no create/delete and leaves the inventory unchanged *)
Example C03_fixpoint_example :
  let univ := [mkU KPlain None None; mkU KPlain None None] in
  let o := mkO false true PMustMatch DNone VSkipInvalid false false false false PropBackground false in
  let w i u := mkW [mkS i SCurrent true u 2%Z] WCancel in
  let sc := mkSc univ None [mkL 0 [] false false false 1; mkL 1 [0] false false false 1] o
                 (mkE [] [w 0 1%N; w 1 2%N] CNever None) in
  let r1 := run sc (mkCl [] None 1%N) in
  let r2 := run sc (out_final r1) in
  inv (out_final r1) = Some [0; 1] /\ reqs_of (out_trace r2) = [] /\ out_final r2 = out_final r1.
Proof. vm_compute. repeat split; reflexivity. Qed.

(* an object held by a finalizer: the delete of object 1 is accepted, the object stays (terminating);
   the delete wait times out, so object 1 is RETAINED in the inventory (reconcile Timeout clause of the
   equation) while object 2 (no finalizer) leaves it; an identical second run finds object 1 still
   tracked and live, deletes it again, and leaves cluster and inventory unchanged.  The executable
   monitor of the correspondence (mon_C03, with its clause "objects whose delete succeeded are gone,
   unless a finalizer holds them") and the fixpoint check accept the history. *)
From CliUtils Require Import Corr.CorrPipeline.
Example C03_finalizer_history :
  let univ := [mkU KNs None None; mkUF KPlain None None true; mkU KPlain None None] in
  let o := mkO false true PMustMatch DNone VSkipInvalid false false true false PropBackground false in
  let sc := mkSc univ None [] o
                 (mkE [] [mkW [mkS 2 SNotFound false 0%N 0%Z; mkS 1 STerminating true 5%N 2%Z] WTimeout] CNever None) in
  let obj i u := mkC i u OOurs false [] false 1 None in
  let c0 := mkCl [obj 1 5%N; obj 2 6%N] (Some [1; 2]) 9%N in
  let r1 := run sc c0 in
  let r2 := run sc (out_final r1) in
  reqs_of (out_trace r1) = [RInvUpdate [1; 2]; RDelete 2 6%N PropBackground; RDelete 1 5%N PropBackground; RInvUpdate [1]] /\
  In (IEv (EWait (GWait, 0) 1 WTimedOut)) (out_trace r1) /\
  out_final r1 = mkCl [obj 1 5%N] (Some [1]) 9%N /\
  reqs_of (out_trace r2) = [RInvUpdate [1]; RDelete 1 5%N PropBackground] /\
  out_final r2 = out_final r1 /\
  mon_C03 sc c0 r1 = true /\ mon_C03 sc (out_final r1) r2 = true /\ c03_fixpoint c0 [(sc, r1); (sc, r2)] = true.
Proof. vm_compute. repeat split; try reflexivity. tauto. Qed.

Print Assumptions C03_inventory_equation_partial.
Print Assumptions C03_final_write.
Print Assumptions C03_detached_leave.
