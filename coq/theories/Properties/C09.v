(* C09 — status computation is total, pure and well-formed.
   Only statements; every proof is `exact <lemma>`.

   `compute : jv -> bool -> outcome` is the model of status.Compute over every
   JSON-shaped tree; `outcome` is `Ok status conditions | Err`.  It has no
   panic constructor because no path of the current code can panic on a
   JSON-shaped tree (every type assertion is checked; see Model/KStatus.v), so
   "never panics" is: compute is a total Gallina function whose value is an
   error or a result of the stated shape.  Purity and determinism hold of the
   model by construction (it is a function of the tree and of the window
   boolean `w`, the only clock input); for the Go code they are observations of
   the correspondence harness (deep copy before / compare after, call twice,
   recover()). *)
From Coq Require Import List Bool ZArith String.
From CliUtils Require Import Base.Json Model.KStatus Proofs.KStatusProofs.
From CliUtils Require Import Generated.SourceTables Proofs.SourceTablesAgree.
Import ListNotations.
Local Open Scope string_scope.

(* a result's status is one of the four, with exactly the stated conditions *)
Theorem C09_wellformed : forall (j : jv) (w : bool) (s : status) (cs : list rcond),
  compute j w = Ok s cs ->
  (s = InProgress \/ s = Failed \/ s = Current \/ s = Terminating) /\
  (s = InProgress -> cs = [("Reconciling", "True")]) /\
  (s = Failed -> cs = [("Stalled", "True")]) /\
  (s = Current \/ s = Terminating -> cs = []).
Proof. exact compute_wellformed. Qed.

(* every tree yields an error or a result (never NotFound / Unknown) *)
Theorem C09_total : forall (j : jv) (w : bool),
  compute j w = Err \/
  exists s cs, compute j w = Ok s cs /\ s <> NotFound /\ s <> Unknown.
Proof. exact compute_total. Qed.

(* equal inputs give equal answers; the clock matters to Pods only, and there
   only inside the documented grace-window rule *)
Theorem C09_clock_only_pods : forall (j : jv),
  legacy_of_key (kind_key j) <> Some LPod -> compute j true = compute j false.
Proof. exact compute_clock. Qed.

Theorem C09_clock_only_unschedulable : forall (j : jv),
  pod_conditions j true <> pod_conditions j false ->
  get_string_field j ["status"; "phase"] "" = "Pending" /\
  exists cs c, get_object_with_conditions j = Some cs /\
               get_cond_with_status cs "PodScheduled" "False" = Some c /\
               c_reason c = "Unschedulable".
Proof. exact pod_clock. Qed.

(* the kind dispatch of the model is the legacyTypes table extracted from
   pkg/kstatus/status/core.go on this run (harness/cmd/gentables) *)
Theorem C09_dispatch_from_source : forall key,
  KStatus.legacy_of_key key =
  match assoc key src_legacy_types with Some fn => legacy_of_fn fn | None => None end.
Proof. exact legacy_dispatch_from_source. Qed.

Print Assumptions C09_wellformed.
Print Assumptions C09_total.
Print Assumptions C09_clock_only_pods.
Print Assumptions C09_clock_only_unschedulable.

(* non-vacuity: concrete trees reach every status, the error outcome, and the
   former panic witness is now an ordinary InProgress result *)
Definition ex_pod_witness : jv :=
  JObj [("apiVersion", JStr "v1"); ("kind", JStr "Pod");
        ("status", JObj [("phase", JStr "Running"); ("containerStatuses", JArr [JStr "x"])])].
Definition ex_pod_crash : jv :=
  JObj [("apiVersion", JStr "v1"); ("kind", JStr "Pod");
        ("status", JObj [("phase", JStr "Running");
                         ("containerStatuses",
                          JArr [JObj [("name", JStr "c");
                                      ("state", JObj [("waiting", JObj [("reason", JStr "CrashLoopBackOff")])])]])])].
Definition ex_deleting : jv :=
  JObj [("kind", JStr "Widget"); ("metadata", JObj [("deletionTimestamp", JStr "2020-01-01T00:00:00Z")])].
Definition ex_bad_status : jv :=
  JObj [("kind", JStr "Widget"); ("status", JStr "oops")].

Example C09_ex_witness : compute ex_pod_witness false = Ok InProgress [("Reconciling", "True")].
Proof. vm_compute. reflexivity. Qed.
Example C09_ex_failed : compute ex_pod_crash false = Ok Failed [("Stalled", "True")].
Proof. vm_compute. reflexivity. Qed.
Example C09_ex_terminating : compute ex_deleting true = Ok Terminating [].
Proof. vm_compute. reflexivity. Qed.
Example C09_ex_current : compute (JObj [("kind", JStr "Widget")]) true = Ok Current [].
Proof. vm_compute. reflexivity. Qed.
Example C09_ex_error : compute ex_bad_status true = Err.
Proof. vm_compute. reflexivity. Qed.
Print Assumptions C09_dispatch_from_source.

(* the model is additionally tied to the source by TRANSLATION: the Gallina
   Compute that harness/cmd/genkstatus generates on this run from the Go
   sources (Generated/KStatusSrc.v; syntax-directed, and the translator rejects
   every construct that can panic: unchecked type assertions, slice indexing,
   nil dereference) is a total function that yields, on every tree and for both
   clock values, exactly the model's outcome - in particular never the pair
   (nil, nil); the container scan of Pods (the former panic site) agrees with
   the model's.  `to_outcome` maps a ( *Result, error ) pair to the model's
   outcome.  So C09_wellformed / C09_total hold of the generated Compute. *)
From CliUtils Require Model.KStatusSrcLib Generated.KStatusSrc Proofs.KStatusSrcAgree.

Theorem C09_source_translation_agrees : forall (j : jv) (w : bool),
  KStatusSrcLib.to_outcome (KStatusSrc.Compute j w) = Some (compute j w) /\
  (let '(_, b, e) := KStatusSrc.getCrashLoopingContainers j in if e then None else Some b) = get_crash_looping j /\
  KStatusSrcLib.to_outcome (KStatusSrc.podConditions j w) = Some (pod_conditions j w).
Proof. exact KStatusSrcAgree.src_total_agrees. Qed.
Print Assumptions C09_source_translation_agrees.

(* ==== At the status readers ===================================================
   statusreaders.NewDefaultStatusReader (Model/KStatusReader.v) wraps Compute.
   A reader call returns a ResourceStatus (`Some r`) or (nil, err) (`None`);
   the model has no panic constructor because the only pointer the readers
   dereference is Compute's *Result, and each reader returns through
   errResourceToResourceStatus first when Compute's error is non-nil.  Status
   range as the code has it: the four statuses of Compute, plus Unknown
   (exactly when the Error field is set: Compute error, unusable selector,
   failed list call) and NotFound (only when the list call of a listing reader
   answers IsNotFound; the Error field is then empty).  (nil, err) happens only
   for a context error of a list call, at the object or below it. *)
From CliUtils Require Import Model.KStatusReader Proofs.KStatusReaderProofs.

Theorem C09_reader_total_shape : forall (j : jv) (w sel : bool) (lst : lerr) (kids : list node),
  let n := Node j w sel lst kids in
  (read_top n = None -> ctx_in n = true) /\
  (forall r, read_top n = Some r ->
     wf_rres r = true /\
     (rr_error r = true <-> rr_status r = Unknown) /\
     rr_id r = id_of j /\
     (rr_status r = NotFound -> reader_of j <> RGeneric /\ sel = true /\ lst = LNotFound) /\
     (reader_of j = RGeneric \/ (sel = true /\ lst = LOk) ->
        (compute j w = Err -> rr_status r = Unknown /\ rr_error r = true) /\
        (reader_of j = RGeneric -> rr_gen r = []) /\
        (reader_of j <> RGeneric ->
           all_some (map (read (child_kind (reader_of j))) kids) = Some (rr_gen r)))).
Proof. exact reader_total_shape. Qed.

(* ReadStatus by identifier: the lookup's error classes, else the reader's own result *)
Theorem C09_reader_by_id_shape : forall (lk : lerr) (id : rid) (r : option rres) (out : rres),
  by_id lk id r = Some out ->
  (lk = LOk /\ r = Some out) \/
  (lk = LNotFound /\ out = RRes id NotFound false MsgNotFound []) \/
  (lk = LErr /\ out = RRes id Unknown true MsgEmpty []).
Proof. exact by_id_shape. Qed.

Print Assumptions C09_reader_total_shape.
Print Assumptions C09_reader_by_id_shape.

(* non-vacuity: a ReplicaSet whose status.conditions is a string (Compute
   errs) with a crash-looping pod is Unknown with the error, the pod listed
   as generated resource (the input on which a reader that looks at the pods
   before it looks at Compute's error dereferences nil) *)
Definition exr_rs_bad : jv :=
  JObj [("apiVersion", JStr "apps/v1"); ("kind", JStr "ReplicaSet");
        ("metadata", JObj [("name", JStr "rs"); ("namespace", JStr "ns")]);
        ("spec", JObj [("replicas", JInt 1)]);
        ("status", JObj [("conditions", JStr "x")])].
Example C09_ex_reader_compute_error :
  compute exr_rs_bad false = Err /\
  read_top (Node exr_rs_bad false true LOk [Node ex_pod_crash false true LOk []])
  = Some (RRes ("ns", "apps", "ReplicaSet", "rs") Unknown true MsgEmpty
               [RRes ("", "", "Pod", "") Failed false MsgCompute []]).
Proof. split; vm_compute; reflexivity. Qed.
Example C09_ex_reader_ctx :
  read_top (Node exr_rs_bad false true LCtx []) = None /\ ctx_in (Node exr_rs_bad false true LCtx []) = true.
Proof. split; reflexivity. Qed.
