(* C01 — the inventory never loses track of a live managed object.
   Only statements, about the model `run` (Model/Pipeline.v), for every scenario
   (object sets, annotations, policies, prune / destroy mode, dry-run, fault
   sets, status schedules, cancellation points) and every initial cluster.

   Vocabulary (Corr/CorrPipeline.v, the same definitions the correspondence
   harness evaluates on the real implementation):
     IReq r ok m st   a mutating request reached the server; m = the live objects
                      annotated as owned by this inventory right after it, st = the
                      stored inventory keys right after it (every crash point);
     exempt0 c0       objects owned but not tracked before the run (outside the property);
     snap_ok sc c0 m st = every id of m is exempt, or a key of st, or (st absent,
                      no inventory before the run) the inventory's own namespace;
     mon_C01          snap_ok for every snapshot and for the final state, and an
                      accepted delete of the inventory object leaves only exempt objects.

   Assumptions of the theorems (defined in Proofs/PipelineOrphansRun.v):
     WF sc c0      the apply set names each object once; the cluster is a map;
                   UIDs are below the server's counter and pairwise distinct; an
                   existing inventory object lives in an existing (or tracked)
                   namespace; the destroyer prunes; no status delivery reports an
                   object held by a finalizer (u_fin) as NotFound or with a UID
                   other than the one it has in the cluster (such a delivery would
                   be a lie of the status watcher: the API server accepts the DELETE
                   of such an object, the object stays); every tracked live object has a
                   kind the RESTMapper knows after a reset (a tracked custom resource in
                   the cluster has its CRD in the cluster).  wf_b (Corr/CorrPipeline.v)
                   is the same predicate as a boolean (C01_WF_decide).
     kf_free sc c0 the run does not show the KNOWN FINDING C01-invns-apply-failed
                   (known_findings.json; reproduced on the implementation): the
                   inventory namespace n, not tracked before the run, is created by
                   the inventory-add task, the inventory-set task is started, and the
                   apply of n itself failed or was skipped.  Then the retention table
                   drops n (not in the previous inventory) although the Namespace is
                   live and annotated.  `C01_invns_refuted` shows that the statement
                   without this hypothesis is FALSE for the model (as for the code).
   Status: all theorems below are proved (no partial result left open); the
   theorems named `_partial` carry the excluding hypothesis kf_free, the
   destroyer (`C01_destroy`) needs none. *)
From Coq Require Import List NArith ZArith Bool.
From CliUtils Require Import Model.PipelineTypes Model.Pipeline Corr.CorrPipeline
     Proofs.PipelineBase Proofs.PipelineAuth Proofs.PipelineOrphansRun.
Import ListNotations.

(* every crash point and the final state *)
Theorem C01_no_orphans_partial : forall sc c0, WF sc c0 -> kf_free sc c0 ->
  (forall r ok m st, In (IReq r ok m st) (out_trace (run sc c0)) -> snap_ok sc c0 m st = true) /\
  snap_ok sc c0 (managed (out_final (run sc c0))) (inv (out_final (run sc c0))) = true.
Proof.
  intros sc c0 W K. split; [intros r ok m st H; exact (proj1 (orphans_trace sc c0 W K r ok m st H))|exact (orphans_final sc c0 W K)].
Qed.

(* the inventory object is deleted only when nothing it should track is left *)
Theorem C01_inventory_deleted_only_when_empty_partial : forall sc c0, WF sc c0 -> kf_free sc c0 ->
  forall m st, In (IReq RInvDelete true m st) (out_trace (run sc c0)) ->
  forall i, In i m -> In i (exempt0 c0).
Proof.
  intros sc c0 W K m st H. exact (proj2 (orphans_trace sc c0 W K RInvDelete true m st H) eq_refl eq_refl).
Qed.

(* the monitor of the correspondence harness, as a theorem about the model *)
Theorem C01_monitor_partial : forall sc c0, WF sc c0 -> kf_free sc c0 -> mon_C01 sc c0 (run sc c0) = true.
Proof. exact orphans_monitor. Qed.

(* Destroyer.Run: no excluding hypothesis *)
Theorem C01_destroy : forall sc c0, WF sc c0 -> o_destroy (sc_opts sc) = true ->
  mon_C01 sc c0 (run sc c0) = true.
Proof. exact orphans_destroy. Qed.

(* sufficient conditions for kf_free that do not mention the apply of the namespace *)
Theorem C01_kf_free_no_namespace_created : forall sc c0,
  (forall n m st, ~ In (IReq (RNsCreate n) true m st) (out_trace (run sc c0))) -> kf_free sc c0.
Proof. exact kf_free_no_nscreate. Qed.
Theorem C01_kf_free_inventory_set_not_reached : forall sc c0,
  ~ In (IEv (EStarted (GInvSet, 0))) (out_trace (run sc c0)) -> kf_free sc c0.
Proof. exact kf_free_no_inv_set. Qed.
Theorem C01_kf_free_destroy : forall sc c0, o_destroy (sc_opts sc) = true -> kf_free sc c0.
Proof. exact kf_free_destroy. Qed.
(* kf_free is decidable on a concrete run *)
Theorem C01_kf_free_decide : forall sc c0, kf_freeb sc c0 = true -> kf_free sc c0.
Proof. exact kf_freeb_sound. Qed.

(* WF is decidable: the boolean the harness / fuzzers evaluate *)
Theorem C01_WF_decide : forall sc c0, wf_b sc c0 = true <-> WF sc c0.
Proof. exact wf_b_spec. Qed.

(* the known finding: without kf_free the statement is false (first apply, the
   inventory namespace 0 is in the apply set, its own apply is rejected) *)
Theorem C01_invns_refuted : exists sc c0, WF sc c0 /\ mon_C01 sc c0 (run sc c0) = false.
Proof. exact invns_refuted. Qed.

(* ---- non-vacuity --------------------------------------------------------------------- *)
Definition ex_univ : list uinfo :=
  [mkU KNs None None; mkU KPlain (Some 0) None; mkU KPlain (Some 0) None; mkU KPlain (Some 0) None].
Definition ex_opts : opts :=
  mkO false true PAdoptIfNoInventory DNone VSkipInvalid false true true false PropBackground false.
(* first apply: the inventory namespace 0 is created by the inventory-add task and
   applied, object 1 is created, the create of object 2 is rejected *)
Definition ex_sc1 : scenario :=
  mkSc ex_univ (Some 0)
       [mkL 0 [] false false false 1; mkL 1 [] false false false 1; mkL 2 [] false false false 1] ex_opts
       (mkE [FApply 2] [mkW [mkS 0 SCurrent true 1%N 2%Z] WTimeout; mkW [mkS 1 SCurrent true 2%N 2%Z] WTimeout] CNever None).
Definition ex_c1 : cluster := mkCl [] None 1%N.
(* second apply: object 1 left the apply set and is pruned, object 2 is created *)
Definition ex_c2 : cluster :=
  mkCl [mkC 0 1%N OOurs false [] false 1 (Some (mkLA OOurs false [] false 1));
        mkC 1 2%N OOurs false [] false 1 (Some (mkLA OOurs false [] false 1))] (Some [0; 1]) 3%N.
Definition ex_sc2 : scenario :=
  mkSc ex_univ (Some 0) [mkL 0 [] false false false 1; mkL 2 [] false false false 1] ex_opts
       (mkE [] [mkW [mkS 0 SCurrent true 1%N 2%Z; mkS 2 SCurrent true 3%N 2%Z] WTimeout;
                mkW [mkS 1 SNotFound false 0%N 0%Z] WTimeout] CNever None).

Example C01_nonvacuous_first_apply :
  WF ex_sc1 ex_c1 /\ kf_free ex_sc1 ex_c1 /\
  reqs_of (out_trace (run ex_sc1 ex_c1)) =
    [RNsCreate 0; RInvCreate [0; 1; 2]; RCreate 1 false; RCreate 2 false; RInvUpdate [0; 1]] /\
  out_final (run ex_sc1 ex_c1) = ex_c2.
Proof.
  split; [|split; [apply kf_freeb_sound; vm_compute; reflexivity|split; vm_compute; reflexivity]].
  apply wf_b_spec. vm_compute. reflexivity.
Qed.

Example C01_nonvacuous_prune :
  WF ex_sc2 ex_c2 /\ kf_free ex_sc2 ex_c2 /\
  reqs_of (out_trace (run ex_sc2 ex_c2)) =
    [RNsCreate 0; RInvUpdate [0; 1; 2]; RCreate 2 false; RDelete 1 2%N PropBackground; RInvUpdate [0; 2]].
Proof.
  split; [|split; [apply kf_freeb_sound; vm_compute; reflexivity|vm_compute; reflexivity]].
  apply wf_b_spec. vm_compute. reflexivity.
Qed.

(* ---- objects held by a finalizer ------------------------------------------------------------------
   Object 1 carries a finalizer, object 2 does not; both are tracked and owned.  The destroyer deletes
   both; the API server accepts both requests, object 2 disappears, object 1 is only marked as
   terminating and stays, annotations and all. *)
Definition fin_univ : list uinfo := [mkU KNs None None; mkUF KPlain None None true true; mkU KPlain None None].
Definition fin_c0 : cluster :=
  mkCl [mkC 1 5%N OOurs false [] false 1 None; mkC 2 6%N OOurs false [] false 1 None] (Some [1; 2]) 9%N.
Definition fin_opts (destroy ptimeout : bool) : opts :=
  mkO destroy true PMustMatch DNone VSkipInvalid false false ptimeout false PropBackground false.
Definition fin_sc (destroy ptimeout : bool) (ds : list sobs) (e : wend) : scenario :=
  mkSc fin_univ None [] (fin_opts destroy ptimeout) (mkE [] [mkW ds e] CNever None).
Definition fin_left : cluster := mkCl [mkC 1 5%N OOurs false [] false 1 None] (Some [1]) 9%N.

(* destroy, the delete wait runs into its timeout with object 1 still terminating: the wait event is
   Timeout, object 1 is RETAINED in the inventory and the inventory object is NOT deleted *)
Example C01_nonvacuous_finalizer_destroy_timeout :
  let sc := fin_sc true true [mkS 2 SNotFound false 0%N 0%Z; mkS 1 STerminating true 5%N 2%Z] WTimeout in
  WF sc fin_c0 /\ kf_free sc fin_c0 /\
  reqs_of (out_trace (run sc fin_c0)) = [RDelete 2 6%N PropBackground; RDelete 1 5%N PropBackground; RInvUpdate [1]] /\
  In (IEv (EWait (GWait, 0) 1 WTimedOut)) (out_trace (run sc fin_c0)) /\
  out_final (run sc fin_c0) = fin_left /\ mon_C01 sc fin_c0 (run sc fin_c0) = true.
Proof.
  cbv zeta. split; [apply wf_b_spec; vm_compute; reflexivity|].
  split; [apply kf_freeb_sound; vm_compute; reflexivity|].
  split; [vm_compute; reflexivity|]. split; [vm_compute; tauto|]. split; vm_compute; reflexivity.
Qed.

(* the same as a prune of an apply run (empty apply set), the status watcher reporting object 1 as Failed:
   retained through the Failed reconcile status *)
Example C01_nonvacuous_finalizer_prune_failed :
  let sc := fin_sc false false [mkS 2 SNotFound false 0%N 0%Z; mkS 1 SFailed true 5%N 2%Z] WTimeout in
  WF sc fin_c0 /\ kf_free sc fin_c0 /\
  reqs_of (out_trace (run sc fin_c0)) = [RInvUpdate [1; 2]; RDelete 2 6%N PropBackground; RDelete 1 5%N PropBackground; RInvUpdate [1]] /\
  out_final (run sc fin_c0) = fin_left.
Proof.
  cbv zeta. split; [apply wf_b_spec; vm_compute; reflexivity|].
  split; [apply kf_freeb_sound; vm_compute; reflexivity|]. split; vm_compute; reflexivity.
Qed.

(* no timeout configured, or the caller cancels while object 1 terminates: the wait never completes, the run
   ends with the error event BEFORE the inventory-set task, the stored inventory is untouched.  (These are
   the only ways a lingering object can still be reconcile-Pending when its wait task ends; the
   inventory-set task, which would drop a Pending successful delete, is then never reached.) *)
Example C01_nonvacuous_finalizer_no_timeout :
  let sc := fin_sc true false [mkS 2 SNotFound false 0%N 0%Z; mkS 1 STerminating true 5%N 2%Z] WTimeout in
  WF sc fin_c0 /\
  reqs_of (out_trace (run sc fin_c0)) = [RDelete 2 6%N PropBackground; RDelete 1 5%N PropBackground] /\
  ~ In (IEv (EStarted (GInvSet, 0))) (out_trace (run sc fin_c0)) /\
  out_final (run sc fin_c0) = mkCl [mkC 1 5%N OOurs false [] false 1 None] (Some [1; 2]) 9%N.
Proof.
  cbv zeta. split; [apply wf_b_spec; vm_compute; reflexivity|]. split; [vm_compute; reflexivity|].
  split; [vm_compute; intuition discriminate|vm_compute; reflexivity].
Qed.

(* ---- every clause of WF is needed: dropping it admits a run of the model that
   violates the monitor although kf_free holds (the other clauses hold in each witness) *)
Definition nx_univ : list uinfo := [mkU KNs None None; mkU KPlain None None; mkU KPlain None None].
Definition nx_opts (d p : bool) : opts :=
  mkO d p PAdoptAll DNone VSkipInvalid false true true false PropBackground false.
Definition nx_obj (i : id) (u : N) : cobj := mkC i u OOurs false [] false 1 None.
Definition nx_waits : list wsched :=
  [mkW [mkS 1 SCurrent true 0%N 2%Z; mkS 0 SCurrent true 0%N 2%Z] WTimeout; mkW [mkS 2 SNotFound false 0%N 0%Z] WTimeout].
Definition nx_env (f : list faddr) : env := mkE f nx_waits CNever None.
Definition nx_bad (sc : scenario) (c0 : cluster) : Prop :=
  kf_freeb sc c0 = true /\ mon_C01 sc c0 (run sc c0) = false.

(* 1: an apply set naming object 1 twice (the second copy's read is rejected after the first created it) *)
Example C01_WF_needed_distinct_apply_ids :
  nx_bad (mkSc nx_univ None [mkL 1 [] false false false 1; mkL 1 [] false false false 1] (nx_opts false true) (nx_env [FGet 1 3]))
         (mkCl [] None 1%N).
Proof. split; vm_compute; reflexivity. Qed.
(* 2: two cluster entries for identifier 1 *)
Example C01_WF_needed_cluster_is_map :
  nx_bad (mkSc nx_univ None [] (nx_opts false true) (nx_env []))
         (mkCl [mkC 1 5%N ONone true [] false 1 None; nx_obj 1 6%N] (Some [1]) 9%N).
Proof. split; vm_compute; reflexivity. Qed.
(* 3: an object whose UID is not below the server's counter: the next created object gets the same UID *)
Example C01_WF_needed_uid_below_counter :
  nx_bad (mkSc nx_univ None [mkL 1 [] false false false 2] (nx_opts false true) (nx_env []))
         (mkCl [nx_obj 2 7%N] (Some [2]) 7%N).
Proof. split; vm_compute; reflexivity. Qed.
(* 4: two objects with one UID: the prune candidate is taken for the object just applied *)
Example C01_WF_needed_uid_distinct :
  nx_bad (mkSc nx_univ None [mkL 1 [] false false false 2] (nx_opts false true) (nx_env []))
         (mkCl [nx_obj 1 5%N; nx_obj 2 5%N] (Some [1; 2]) 9%N).
Proof. split; vm_compute; reflexivity. Qed.
(* 5: an inventory object whose namespace does not exist *)
Example C01_WF_needed_inventory_namespace :
  nx_bad (mkSc nx_univ (Some 0) [mkL 0 [] false false false 1] (nx_opts false true) (nx_env []))
         (mkCl [] (Some []) 1%N).
Proof. split; vm_compute; reflexivity. Qed.
(* 6: a destroy run with pruning disabled *)
Example C01_WF_needed_destroy_prunes :
  nx_bad (mkSc nx_univ None [] (nx_opts true false) (nx_env []))
         (mkCl [nx_obj 1 5%N] (Some [1]) 9%N).
Proof. split; vm_compute; reflexivity. Qed.

(* 7: a status watcher that lies about a finalizer-held object.  (a) it reports the lingering object 1 as
   NotFound: the delete wait succeeds, the destroy counts as successful, the inventory object is deleted
   although object 1 is live and annotated; (b) it reports object 1 with a foreign UID ("replaced"): same.
   All other clauses hold (the scenario without its deliveries satisfies wf_b). *)
Definition nx_bad7 (sc : scenario) (c0 : cluster) : Prop :=
  wf_b (mkSc (sc_univ sc) (sc_inv_ns sc) (sc_local sc) (sc_opts sc) (mkE [] [] CNever None)) c0 = true /\
  wf_fin_b sc c0 = false /\ kf_freeb sc c0 = true /\ mon_C01 sc c0 (run sc c0) = false.
Example C01_WF_needed_no_notfound_for_finalizer :
  nx_bad7 (fin_sc true true [mkS 2 SNotFound false 0%N 0%Z; mkS 1 SNotFound false 0%N 0%Z] WTimeout) fin_c0.
Proof. repeat split; vm_compute; reflexivity. Qed.
Example C01_WF_needed_no_foreign_uid_for_finalizer :
  nx_bad7 (fin_sc true true [mkS 2 SNotFound false 0%N 0%Z; mkS 1 SCurrent true 77%N 2%Z] WTimeout) fin_c0.
Proof. repeat split; vm_compute; reflexivity. Qed.

(* 8: a tracked, live, owned custom resource whose CRD is not in the cluster (impossible on a real API server).
   The RESTMapper does not know its kind: the pruner skips the inventory entry without reading it
   (GetPruneObjs, NoMatch), it gets no status, and the final inventory drops it although the object is live
   and annotated.  Object 0 is the CRD, object 1 the custom resource; the apply set is empty.  With the CRD
   object in the cluster the same scenario is well-formed (and object 1 is pruned). *)
Example C01_WF_needed_tracked_kind_known :
  let univ := [mkU KCrd None None; mkU KPlain None (Some 0)] in
  let sc := mkSc univ None [] (nx_opts false true) (mkE [] [mkW [mkS 1 SNotFound false 0%N 0%Z] WTimeout] CNever None) in
  let c0 := mkCl [nx_obj 1 5%N] (Some [1]) 9%N in
  let c0' := mkCl [mkC 0 4%N ONone false [] false 1 None; nx_obj 1 5%N] (Some [1]) 9%N in
  wf_crd_b sc c0 = false /\ wf_b sc c0' = true /\ nx_bad sc c0 /\
  inv (out_final (run sc c0)) = Some [] /\ managed (out_final (run sc c0)) = [1] /\
  mon_C01 sc c0' (run sc c0') = true.
Proof. vm_compute. repeat split; reflexivity. Qed.

(* ---- the APIService fallback ------------------------------------------------------------------------
   Object 0 is a plain object, object 1 an apiregistration.k8s.io APIService (KApiSvc); first apply with the
   server-side option on.  The apply PATCH of the APIService dies with an HTTP/2 stream error (FStream 1 0) and
   ApplyTask applies it client-side instead: GET (NotFound), POST.  The outcome of that second attempt is the
   outcome of the apply: exactly one apply result event for object 1. *)
Definition as_univ : list uinfo := [mkU KPlain None None; mkU KApiSvc None None].
Definition as_opts (d : dry) (ssa : bool) : opts :=
  mkO false true PMustMatch d VSkipInvalid ssa true true false PropBackground false.
Definition as_sc (u : list uinfo) (d : dry) (ssa : bool) (f : list faddr) : scenario :=
  mkSc u None [mkL 0 [] false false false 1; mkL 1 [] false false false 1] (as_opts d ssa)
       (mkE f [mkW [mkS 0 SCurrent true 1%N 2%Z; mkS 1 SCurrent true 2%N 2%Z] WTimeout] CNever None).
Definition as_c0 : cluster := mkCl [] None 1%N.
Definition as_results (sc : scenario) : list ast :=
  flat_map (fun e => match e with EApply _ 1 s => [s] | _ => [] end) (events (out_trace (run sc as_c0))).
Definition as_obj0 : cobj := mkC 0 1%N OOurs false [] false 1 None.

(* the fallback fires and succeeds: the object it created is live, annotated, tracked (the rejected PATCH is
   logged while only object 0 is managed, the POST with both: the two snapshots of one apply differ) *)
Example C01_nonvacuous_apiservice_fallback_succeeds :
  let sc := as_sc as_univ DNone true [FStream 1 0] in
  WF sc as_c0 /\ kf_free sc as_c0 /\
  reqs (out_trace (run sc as_c0)) =
    [(RInvCreate [0; 1], true); (RPatch 0 true false, true); (RPatch 1 true false, false); (RCreate 1 false, true)] /\
  In (IReq (RPatch 1 true false) false [0] (Some [0; 1])) (out_trace (run sc as_c0)) /\
  In (IReq (RCreate 1 false) true [0; 1] (Some [0; 1])) (out_trace (run sc as_c0)) /\
  as_results sc = [AOk] /\
  out_final (run sc as_c0) =
    mkCl [as_obj0; mkC 1 2%N OOurs false [] false 1 (Some (mkLA OOurs false [] false 1))] (Some [0; 1]) 3%N /\
  mon_C01 sc as_c0 (run sc as_c0) = true.
Proof.
  cbv zeta. split; [apply wf_b_spec; vm_compute; reflexivity|].
  split; [apply kf_freeb_sound; vm_compute; reflexivity|].
  split; [vm_compute; reflexivity|]. split; [vm_compute; tauto|]. split; [vm_compute; tauto|].
  split; [vm_compute; reflexivity|]. split; vm_compute; reflexivity.
Qed.

(* the fallback fires and fails (its POST is rejected; its read is rejected): the apply failed, nothing was
   created, the final inventory drops the id that the inventory-add task had merged in *)
Example C01_nonvacuous_apiservice_fallback_fails :
  let sc := as_sc as_univ DNone true [FStream 1 0; FApply 1] in
  let sc' := as_sc as_univ DNone true [FStream 1 0; FGet 1 1] in
  WF sc as_c0 /\ kf_free sc as_c0 /\ WF sc' as_c0 /\ kf_free sc' as_c0 /\
  reqs (out_trace (run sc as_c0)) =
    [(RInvCreate [0; 1], true); (RPatch 0 true false, true); (RPatch 1 true false, false); (RCreate 1 false, false);
     (RInvUpdate [0], true)] /\
  reqs (out_trace (run sc' as_c0)) =
    [(RInvCreate [0; 1], true); (RPatch 0 true false, true); (RPatch 1 true false, false); (RInvUpdate [0], true)] /\
  as_results sc = [AFail] /\ as_results sc' = [AFail] /\
  out_final (run sc as_c0) = mkCl [as_obj0] (Some [0]) 2%N /\ out_final (run sc' as_c0) = mkCl [as_obj0] (Some [0]) 2%N /\
  mon_C01 sc as_c0 (run sc as_c0) = true /\ mon_C01 sc' as_c0 (run sc' as_c0) = true.
Proof.
  cbv zeta. split; [apply wf_b_spec; vm_compute; reflexivity|].
  split; [apply kf_freeb_sound; vm_compute; reflexivity|].
  split; [apply wf_b_spec; vm_compute; reflexivity|].
  split; [apply kf_freeb_sound; vm_compute; reflexivity|].
  repeat split; vm_compute; reflexivity.
Qed.

(* no fallback: for another kind, or without the server-side option (server dry-run sends an apply PATCH
   all the same), the stream error is a failure like any other; with client-side apply the address matches
   no request.  Under server dry-run WITH the option the second attempt is another dry-run apply PATCH. *)
Example C01_nonvacuous_apiservice_no_fallback :
  reqs (out_trace (run (as_sc [mkU KPlain None None; mkU KPlain None None] DNone true [FStream 1 0]) as_c0)) =
    [(RInvCreate [0; 1], true); (RPatch 0 true false, true); (RPatch 1 true false, false); (RInvUpdate [0], true)] /\
  reqs (out_trace (run (as_sc as_univ DServer false [FStream 1 0]) as_c0)) =
    [(RPatch 0 true true, true); (RPatch 1 true true, false)] /\
  reqs (out_trace (run (as_sc as_univ DNone false [FStream 1 0]) as_c0)) =
    [(RInvCreate [0; 1], true); (RCreate 0 false, true); (RCreate 1 false, true)] /\
  reqs (out_trace (run (as_sc as_univ DServer true [FStream 1 0]) as_c0)) =
    [(RPatch 0 true true, true); (RPatch 1 true true, false); (RPatch 1 true true, true)] /\
  as_results (as_sc as_univ DServer true [FStream 1 0]) = [AOk] /\
  as_results (as_sc as_univ DServer true [FStream 1 0; FStream 1 1]) = [AFail].
Proof. repeat split; vm_compute; reflexivity. Qed.

Print Assumptions C01_no_orphans_partial.
Print Assumptions C01_inventory_deleted_only_when_empty_partial.
Print Assumptions C01_monitor_partial.
Print Assumptions C01_destroy.
Print Assumptions C01_kf_free_no_namespace_created.
Print Assumptions C01_kf_free_inventory_set_not_reached.
Print Assumptions C01_kf_free_destroy.
Print Assumptions C01_kf_free_decide.
Print Assumptions C01_invns_refuted.
Print Assumptions C01_WF_decide.
