(* C16 — the status watcher reports every change of watched objects only and
   stops cleanly.  PARTIAL by design: the funnel protocol (a) and the
   reporter's event function (b) are proved on the models for all schedules /
   mutation sequences; data races, goroutine leaks, deadlock freedom of the
   real goroutines and client-go informer internals are runtime facts that the
   harness validates (watchdog, goroutine baseline, race detector) and are NOT
   claimed here.  Only statements; every proof is `exact <lemma>`. *)
From Coq Require Import List Bool Arith ZArith.
From CliUtils Require Import Model.Funnel Proofs.FunnelProofs Model.Reporter Proofs.ReporterProofs.
Import ListNotations.

(* ---- (a) event funnel: for every schedule ------------------------------- *)

(* Once the output channel is closed no drain goroutine is at (or can reach) its
   send: sending on a closed channel -- a Go panic -- is unreachable. *)
Theorem C16_no_send_on_closed : forall s, reachable s ->
  panicked s = false /\
  (out_closed s = true -> forall d, In d (drains s) -> d_pc d = DDone).
Proof. intros s R. split; [exact (never_panics s R) | exact (no_send_on_closed s R)]. Qed.

(* The output closes only when the context is done AND no input is open; the
   done channel closes after the output channel. *)
Theorem C16_close_condition : forall s, reachable s -> out_closed s = true ->
  ctx_done s = true /\ live (drains s) = 0 /\ m_inputs s = 0%Z.
Proof. exact close_condition. Qed.

Theorem C16_done_after_out : forall s, done_closed s = true -> out_closed s = true.
Proof. exact done_after_out. Qed.

(* After the main loop has exited (in particular after the output is closed)
   AddInputChannel can only take its ctx.Done case: it returns the closed error
   and starts nothing.  The closed error is never returned before cancellation. *)
Theorem C16_add_after_close : forall s, reachable s -> out_closed s = true -> forall k,
  step s (AAdd k) = None /\
  exists s', step s (AAddErr k) = Some s' /\ drains s' = drains s /\ inputs s' = inputs s /\
             m_inputs s' = m_inputs s /\ m_pc s' = m_pc s /\ adds s' = adds s ++ [(k, AddClosedErr)].
Proof. intros s R H. exact (add_after_close s R (out_closed_not_loop s H)). Qed.

Theorem C16_add_error_only_after_cancel : forall s, reachable s -> forall k,
  In (k, AddClosedErr) (adds s) -> ctx_done s = true.
Proof. exact add_err_only_after_cancel. Qed.

(* Conservation: as multisets, accepted = held by drains + delivered, and
   offered = still queued in inputs + accepted; at shutdown nothing is held. *)
Theorem C16_no_loss : forall s, reachable s -> forall x,
  count x (accepted s) = held_count x (drains s) + count x (delivered s) /\
  count x (offered s) = queued_count x (inputs s) + count x (accepted s).
Proof. exact no_loss. Qed.

Theorem C16_no_loss_at_close : forall s, reachable s -> out_closed s = true -> forall x,
  count x (delivered s) = count x (accepted s).
Proof. exact no_loss_at_close. Qed.

(* Progress: once the context is done and every input a live drain reads from
   is closed, then -- with the consumer receiving and no new AddInputChannel --
   EVERY sequence of enabled funnel/consumer steps has length at most [bound s]
   (2 per queued event, at most 3 per drain, at most 3 for the main goroutine),
   a state without enabled step has both channels closed, and the round-robin
   scheduler reaches that state within [bound s] steps. *)
Theorem C16_progress : forall s, reachable s -> ctx_done s = true -> drained_inputs_closed s ->
  done_closed (auto (bound s) s) = true /\
  forall acts s', forallb internal acts = true -> run_strict s acts = Some s' ->
    length acts <= bound s /\ (~ some_enabled s' -> done_closed s' = true).
Proof. exact progress. Qed.

(* non-vacuity: a schedule with two inputs, a cancellation in the middle and a
   complete shutdown; every hypothesis above is met on the way *)
Example C16_funnel_nonvacuous :
  let sched := [ANew; ANew; AAdd 0; AAdd 1; ASend 0 7; ASend 1 8; ADrainRecv 1; ADrainRecv 0;
                ADeliver 1; ACancel; AMainCtx; ADeliver 0; AClose 0; AClose 1;
                ADrainRecv 0; ADrainRecv 1; ADrainExit 0] in
  let s := Funnel.run init sched in
  run_strict init sched = Some s /\ delivered s = [8; 7] /\ out_closed s = false /\
  ctx_done s = true /\ bound s = 3 /\
  done_closed (auto (bound s) s) = true /\ adds (step_skip (auto 3 s) (AAddErr 0)) = [(0, AddOk); (1, AddOk); (0, AddClosedErr)].
Proof. vm_compute. repeat split. Qed.

(* ---- (b) reporter: for every watched set, both scopes, every initial cluster
   and every sequence of mutations / sync / cancel / informer failures ------- *)

(* Objects outside the watched set never produce events. *)
Theorem C16_unwatched_silent : forall c pre steps id s,
  In (EUpdate id s) (r_events (Reporter.run c pre steps)) -> In id (c_watched c).
Proof. exact unwatched_silent. Qed.

(* OUTSIDE a watch gap ([in_gap st (o_gk id) = false], where the step [SMut m] is
   [mutate c st m]): a create/update of a watched object whose watch is running (and whose status
   computation returns: [p_slow = false]) yields exactly one
   update event carrying that version's status (for a Namespace/CRD object it
   may be followed by the listing of watches the hook starts); otherwise none. *)
Theorem C16_one_event_per_mutation : forall c st id p m, (m = MAdd id p \/ m = MUpdate id p) ->
  (r_stopped st = false -> allowed c id = true -> covered st id = true -> p_slow p = false ->
     exists extra, r_events (mutate c st m) = r_events st ++ EUpdate id (p_status p) :: extra /\
                   Forall (upd_ok c) extra /\ (plain id -> extra = [])) /\
  ((r_stopped st = true \/ allowed c id = false \/ covered st id = false \/ p_slow p = true) ->
     r_events (mutate c st m) = r_events st).
Proof. exact one_event_upsert. Qed.

(* A delete yields exactly one NotFound event. *)
Theorem C16_one_event_per_delete : forall c st id p, lookup (r_cluster st) id = Some p ->
  (r_stopped st = false -> allowed c id = true -> covered st id = true ->
     r_events (mutate c st (MDelete id)) = r_events st ++ [EUpdate id SNotFound]) /\
  ((r_stopped st = true \/ allowed c id = false \/ covered st id = false) ->
     r_events (mutate c st (MDelete id)) = r_events st).
Proof. exact one_event_delete. Qed.

(* If the last mutation of an object was observed (its watch running, reporter
   not stopped), the last event about the object is its final cluster state --
   NotFound if it was deleted -- whatever happens to other objects, namespaces
   and CRDs afterwards. *)
Theorem C16_last_event_final : forall c pre steps1 m steps2,
  let st1 := Reporter.run c pre steps1 in
  r_stopped st1 = false -> allowed c (mut_id m) = true -> covered st1 (mut_id m) = true ->
  (forall id, m = MDelete id -> lookup (r_cluster st1) id <> None) ->
  (forall id p, m = MAdd id p \/ m = MUpdate id p -> p_slow p = false) ->
  in_gap st1 (o_gk (mut_id m)) = false ->
  Forall (not_about (mut_id m)) steps2 ->
  let st := Reporter.run c pre (steps1 ++ SMut m :: steps2) in
  last_for (mut_id m) (r_events st) = Some (final_status st (mut_id m)).
Proof. exact last_event_final. Qed.

(* INSIDE a watch gap (the watch connection of the kind is broken; the informer
   learns of changes only from the re-list after a 410 Expired) "one event per
   mutation" does NOT hold and is not claimed: the mutation produces no event
   when it happens ...                                                        *)
Theorem C16_gap_mutation_deferred : forall c st m, in_gap st (o_gk (mut_id m)) = true ->
  r_events (rstep_apply c st (SMut m)) = r_events st.
Proof. exact gap_mutation_deferred. Qed.

(* ... its first occurrence records the object's state at the break (what the
   informer's store still holds) ...                                           *)
Theorem C16_gap_mutation_recorded : forall c st m l0,
  gap_of (r_gaps st) (o_gk (mut_id m)) = Some l0 ->
  existsb (fun x => oid_eqb (fst x) (mut_id m)) l0 = false ->
  (forall id, m = MDelete id -> lookup (r_cluster st) id <> None) ->
  gap_of (r_gaps (rstep_apply c st (SMut m))) (o_gk (mut_id m)) =
    Some (l0 ++ [(mut_id m, lookup (r_cluster st) (mut_id m))]).
Proof. exact gap_first_mutation_recorded. Qed.

(* ... and the re-list reports AT LEAST THE FINAL STATE: afterwards the last
   event about every watched object of the kind that exists is the status of its
   final version (also after delete + re-create: one update, as the real
   informer delivers it), and about every object that was known at the break and
   is gone it is NotFound (tombstone) -- and stays so while the object is not
   mutated again.  Intermediate versions inside the gap are never reported;
   unchanged objects are reported again (first resync period).  Stated for kinds
   other than Namespace/CRD (no hook runs during the re-list); re-lists of the
   Namespace/CRD kinds are covered by the correspondence only. *)
Theorem C16_last_event_final_gap : forall c pre steps1 g l id steps2,
  let st1 := Reporter.run c pre steps1 in
  g <> GK_NS -> g <> GK_CRD ->
  gap_of (r_gaps st1) g = Some l -> o_gk id = g ->
  r_stopped st1 = false -> allowed c id = true -> covered st1 id = true ->
  match lookup (r_cluster st1) id with
  | Some p => p_slow p = false
  | None => exists o, In (id, Some o) l
  end ->
  Forall (not_about id) steps2 ->
  let st := Reporter.run c pre (steps1 ++ SRelist g :: steps2) in
  last_for id (r_events st) = Some (final_status st id).
Proof. exact last_event_final_gap. Qed.

(* Namespaces and CRDs appearing or disappearing never produce an error event:
   without a failing informer there is none; start/stop bookkeeping is total
   (plain functions) and idempotent. *)
Theorem C16_ns_crd_no_error : forall c pre steps, (forall s, In s steps -> s <> SFail) ->
  count_errors (r_events (Reporter.run c pre steps)) = 0 /\ r_errsent (Reporter.run c pre steps) = false.
Proof. exact ns_crd_no_error. Qed.

Theorem C16_bookkeeping_idempotent : forall c st t,
  start_leaf c (start_leaf c st t) t = start_leaf c st t /\
  stop_target (stop_target st t) t = stop_target st t /\
  tmem t (r_started (stop_target st t)) = false.
Proof.
  intros c st t. split; [exact (start_leaf_idem c st t)|].
  split; [exact (stop_target_idem st t) | exact (stop_then_not_started st t)].
Qed.

(* Any number of failing informers: at most one error event; it stops the
   reporter and no event follows it.  At most one sync event. *)
Theorem C16_at_most_one_error : forall c pre steps,
  count_errors (r_events (Reporter.run c pre steps)) <= 1 /\
  (r_errsent (Reporter.run c pre steps) = true ->
     count_errors (r_events (Reporter.run c pre steps)) = 1 /\ r_stopped (Reporter.run c pre steps) = true /\
     forall more, r_events (Reporter.run c pre (steps ++ more)) = r_events (Reporter.run c pre steps)).
Proof. exact at_most_one_error. Qed.

Theorem C16_at_most_one_sync : forall c pre steps, count_syncs (r_events (Reporter.run c pre steps)) <= 1.
Proof. exact at_most_one_sync. Qed.

(* non-vacuity: namespace scope, a watched namespace that is deleted and
   re-created, an unwatched object, then four failing informers *)
Example C16_reporter_nonvacuous :
  let ns1 := mkOid GK_NS 0 1 in
  let cm := mkOid 2 1 1 in let other := mkOid 2 1 2 in
  let c := mkConfig ScopeNamespace [ns1; cm] [0; 1; 2] in
  let cur := mkPayload SCurrent None false in let prog := mkPayload SInProgress None false in
  let steps := [SSync; SMut (MAdd cm prog); SMut (MAdd other cur); SMut (MDelete ns1);
                SMut (MUpdate cm cur); SMut (MAdd ns1 cur); SMut (MDelete cm);
                SFail; SFail; SFail; SFail; SMut (MAdd cm cur)] in
  r_events (Reporter.run c [(ns1, cur)] steps) =
    [EUpdate ns1 SCurrent; ESync; EUpdate cm SInProgress; EUpdate ns1 SNotFound;
     EUpdate ns1 SCurrent; EUpdate cm SCurrent; EUpdate cm SNotFound; EError] /\
  covered (Reporter.run c [(ns1, cur)] [SSync; SMut (MAdd cm prog)]) cm = true /\
  covered (Reporter.run c [(ns1, cur)] [SSync; SMut (MAdd cm prog); SMut (MDelete ns1)]) cm = false.
Proof. vm_compute. repeat split. Qed.

(* a status read cancelled by a namespace deletion (no event, no error), then a
   genuine fatal error when the watch is restarted: exactly one error event *)
Example C16_benign_then_fatal :
  let ns1 := mkOid GK_NS 0 1 in let sec := mkOid 3 1 1 in
  let c := mkConfig ScopeNamespace [ns1; sec] [0; 1; 3] in
  let cur := mkPayload SCurrent None false in let slow := mkPayload SCurrent None true in
  let steps := [SSync; SMut (MUpdate sec slow); SMut (MDelete ns1); SMut (MDelete sec);
                SMut (MAdd ns1 cur); SFail; SMut (MAdd sec cur)] in
  r_events (Reporter.run c [(ns1, cur); (sec, cur)] steps) =
    [EUpdate ns1 SCurrent; EUpdate sec SCurrent; ESync; EUpdate ns1 SNotFound; EUpdate ns1 SCurrent; EError] /\
  r_stopped (Reporter.run c [(ns1, cur); (sec, cur)] steps) = true.
Proof. vm_compute. repeat split. Qed.

(* a watch gap: delete, update, create and delete+re-create while the Secret
   watch is broken; the re-list reports one event per changed object with its
   final state (the unchanged object is reported again), nothing for the object
   created and deleted inside the gap *)
Example C16_gap_nonvacuous :
  let a := mkOid 3 1 1 in let b := mkOid 3 1 2 in let d := mkOid 3 2 1 in let e := mkOid 3 2 2 in
  let x := mkOid 3 1 3 in let u := mkOid 3 2 3 in
  let c := mkConfig ScopeRoot [a; b; d; e; x; u] [0; 1; 3] in
  let cur := mkPayload SCurrent None false in let prog := mkPayload SInProgress None false in
  let fl := mkPayload SFailed None false in
  let steps := [SSync; SBreak 3; SMut (MDelete a); SMut (MUpdate b prog); SMut (MUpdate b fl);
                SMut (MAdd d cur); SMut (MDelete e); SMut (MAdd e prog);
                SMut (MAdd x cur); SMut (MDelete x); SRelist 3; SMut (MUpdate b cur)] in
  let st := Reporter.run c [(a, cur); (b, cur); (e, cur); (u, fl)] steps in
  r_events st =
    [EUpdate u SFailed; EUpdate e SCurrent; EUpdate b SCurrent; EUpdate a SCurrent; ESync;
     EUpdate e SInProgress; EUpdate d SCurrent; EUpdate b SFailed; EUpdate u SFailed;
     EUpdate a SNotFound; EUpdate b SCurrent] /\
  in_gap (Reporter.run c [(a, cur)] [SSync; SBreak 3]) 3 = true /\ in_gap st 3 = false.
Proof. vm_compute. repeat split. Qed.

Print Assumptions C16_no_send_on_closed.
Print Assumptions C16_close_condition.
Print Assumptions C16_done_after_out.
Print Assumptions C16_add_after_close.
Print Assumptions C16_add_error_only_after_cancel.
Print Assumptions C16_no_loss.
Print Assumptions C16_no_loss_at_close.
Print Assumptions C16_progress.
Print Assumptions C16_unwatched_silent.
Print Assumptions C16_one_event_per_mutation.
Print Assumptions C16_one_event_per_delete.
Print Assumptions C16_last_event_final.
Print Assumptions C16_ns_crd_no_error.
Print Assumptions C16_bookkeeping_idempotent.
Print Assumptions C16_at_most_one_error.
Print Assumptions C16_at_most_one_sync.
Print Assumptions C16_gap_mutation_deferred.
Print Assumptions C16_gap_mutation_recorded.
Print Assumptions C16_last_event_final_gap.
