(* C13 — the event stream is well-formed, terminal and always closed.
   Only statements; proofs are `exact <lemma>`.  The theorems are about the
   executable model `run` (Model/Pipeline.v), for every scenario: any object
   set, dependency annotations, options, fault set, status-delivery schedule,
   cancellation point — and every initial cluster. *)
From Coq Require Import List NArith ZArith.
From CliUtils Require Import Model.PipelineTypes Model.Pipeline Proofs.PipelineBase Proofs.PipelineEvents.
Import ListNotations.

(* The grammar (Proofs/PipelineEvents.v):
     run_events  ::= [Error]                                   a fatal error before the plan, or exit-early validation
                   | validation* ++ [Init plan; Error]         cancelled before the first task
                   | validation* ++ Init plan :: tasks_trace (tasks of the plan)
     tasks_trace ::= []  |  block(t) ++ [Error]  |  block(t) ++ tasks_trace(rest)
     block(t)    ::= Started t ; body(t) ; Finished t
     body(apply/prune task) = exactly one result event per object, in task order
     body(wait task)        = wait events of the task's objects and status events, at least one wait event per object
     body(inventory task)   = nothing
   and Init's plan is exactly the task list with its identifiers. *)
Theorem C13_grammar : forall sc c0, run_events sc (evs (out_trace (run sc c0))).
Proof. exact run_grammar. Qed.

(* an error event occurs at most once and only as the last event *)
Theorem C13_error_last_once : forall sc c0, error_last_once (evs (out_trace (run sc c0))).
Proof. exact run_error_last_once. Qed.

(* the stream is closed: the trace always ends with the close marker and
   nothing is recorded after it (termination of `run` is the termination of a
   total function; that the real goroutines reach close is a harness observation) *)
Theorem C13_closed : forall sc c0,
  out_trace (run sc c0) = rev (r_tr (run_state sc c0)) ++ [IClosed].
Proof. exact run_trace. Qed.

(* non-vacuity: a concrete two-layer apply reaches the task-trace clause *)
Example C13_nonvacuous :
  let univ := [mkU KNs None None; mkU KPlain (Some 0) None] in
  let o := mkO false true PMustMatch DNone VSkipInvalid false true false false PropBackground false in
  let env := mkE [] [mkW [mkS 0 SCurrent true 100%N 2%Z] WTimeout; mkW [] WTimeout] CNever None in
  let sc := mkSc univ None [mkL 0 [] false false false 1; mkL 1 [] false false false 1] o env in
  evs (out_trace (run sc (mkCl [] None 100%N))) =
  [EInit [(GInvAdd, 0, [0; 1]); (GApply, 0, [0]); (GWait, 0, [0]); (GApply, 1, [1]); (GWait, 1, [1]); (GInvSet, 0, [])];
   EStarted (GInvAdd, 0); EFinished (GInvAdd, 0);
   EStarted (GApply, 0); EApply (GApply, 0) 0 AOk; EFinished (GApply, 0);
   EStarted (GWait, 0); EWait (GWait, 0) 0 WPending; EWait (GWait, 0) 0 WOk; EFinished (GWait, 0);
   EStarted (GApply, 1); EApply (GApply, 1) 1 AOk; EFinished (GApply, 1);
   EStarted (GWait, 1); EWait (GWait, 1) 1 WPending; EWait (GWait, 1) 1 WTimedOut; EFinished (GWait, 1);
   EStarted (GInvSet, 0); EFinished (GInvSet, 0)].
Proof. vm_compute. reflexivity. Qed.

Print Assumptions C13_grammar.
Print Assumptions C13_error_last_once.
Print Assumptions C13_closed.

(* ---- the monitor of the correspondence harness, as a theorem about the model -----------------
   `mon_C13` (Corr/CorrPipeline.v) is the executable grammar checker the harness evaluates on the
   implementation's event streams: closed last and once, at most one error event, validation* ;
   init ; complete task blocks for a prefix of the plan ; error?.  It accepts every run of the
   model.  Hypothesis: `WF sc c0` of Properties/C01.v, of which only the first clause is used
   (`locals_nodup sc`: an apply set names each object once); `C13_monitor_needs_nodup` shows the
   clause is needed (a manifest id given twice is reported twice by its apply task). *)
From CliUtils Require Import Corr.CorrPipeline Proofs.PipelineOrphansRun Proofs.PipelineMonBase
     Proofs.PipelineMonC13 Proofs.PipelineMonPack.

Theorem C13_monitor : forall sc c0, WF sc c0 -> mon_C13 sc c0 (run sc c0) = true.
Proof. intros sc c0 W. exact (monitor_C13 sc c0 (WF_locals_nodup sc c0 W)). Qed.

Theorem C13_monitor_nodup : forall sc c0, locals_nodup sc -> mon_C13 sc c0 (run sc c0) = true.
Proof. exact monitor_C13. Qed.

Theorem C13_monitor_needs_nodup : exists sc c0, ~ locals_nodup sc /\ mon_C13 sc c0 (run sc c0) = false.
Proof. exists dup_sc, dup_c0. split; [exact (proj1 monitor_dup_refuted)|exact (proj1 (proj2 monitor_dup_refuted))]. Qed.

Print Assumptions C13_monitor.
Print Assumptions C13_monitor_nodup.
Print Assumptions C13_monitor_needs_nodup.
