(* C10 — dry-run never changes the cluster.  Only statements. *)
From Coq Require Import List NArith ZArith.
From CliUtils Require Import Model.PipelineTypes Model.Pipeline Proofs.PipelineBase Proofs.PipelineDry.
Import ListNotations.

(* client dry-run: no mutating request at all, for every scenario and cluster *)
Theorem C10_client : forall sc c0, o_dry (sc_opts sc) = DClient ->
  forall r ok m st, ~ In (IReq r ok m st) (out_trace (run sc c0)).
Proof.
  intros sc c0 D. exact (dry_client_no_request sc (is_dry_client sc D) c0 D).
Qed.

(* server dry-run: the only mutating requests are server-side apply patches
   carrying the dry-run directive; in particular no delete, no inventory write *)
Theorem C10_server : forall sc c0, o_dry (sc_opts sc) = DServer ->
  forall r ok m st, In (IReq r ok m st) (out_trace (run sc c0)) -> exists i, r = RPatch i true true.
Proof.
  intros sc c0 D r ok m st H.
  exact (proj2 (dry_requests sc (is_dry_server sc D) c0 r ok m st H)).
Qed.

(* in both modes every object and the stored inventory are unchanged *)
Theorem C10_unchanged : forall sc c0, is_dry (o_dry (sc_opts sc)) = true ->
  out_final (run sc c0) = norm_cluster c0.
Proof. intros sc c0 H. exact (dry_cluster_unchanged sc H c0). Qed.

Example C10_nonvacuous :
  let univ := [mkU KPlain None None; mkU KPlain None None] in
  let o := mkO false true PMustMatch DServer VSkipInvalid false false false false PropBackground false in
  let sc := mkSc univ None [mkL 0 [] false false false 1] o (mkE [] [] CNever None) in
  let c0 := mkCl [mkC 1 7%N OOurs false [] false 1 None] (Some [1]) 8%N in
  reqs_of (out_trace (run sc c0)) = [RPatch 0 true true] /\ out_final (run sc c0) = norm_cluster c0.
Proof. vm_compute. split; reflexivity. Qed.

Print Assumptions C10_client.
Print Assumptions C10_server.
Print Assumptions C10_unchanged.

(* ---- the monitor of the correspondence harness, as a theorem about the model -----------------
   `mon_C10` (Corr/CorrPipeline.v): client dry-run sends no request and leaves the cluster equal
   to the initial one; server dry-run sends only server-side-apply patches with the dry-run
   directive; in both, unless the stream holds an error event, every object of every apply/prune
   group of the plan has exactly one result event.  Hypothesis: `WF sc c0` of Properties/C01.v,
   of which only the first clause (`locals_nodup sc`) is used - needed for "exactly one". *)
From CliUtils Require Import Corr.CorrPipeline Proofs.PipelineOrphansRun Proofs.PipelineMonBase
     Proofs.PipelineMonC10 Proofs.PipelineMonPack.

Theorem C10_monitor : forall sc c0, WF sc c0 -> mon_C10 sc c0 (run sc c0) = true.
Proof. intros sc c0 W. exact (monitor_C10 sc c0 (WF_locals_nodup sc c0 W)). Qed.

Theorem C10_monitor_nodup : forall sc c0, locals_nodup sc -> mon_C10 sc c0 (run sc c0) = true.
Proof. exact monitor_C10. Qed.

Theorem C10_monitor_needs_nodup : exists sc c0, ~ locals_nodup sc /\ mon_C10 sc c0 (run sc c0) = false.
Proof. exists dup_sc, dup_c0. split; [exact (proj1 monitor_dup_refuted)|exact (proj2 (proj2 monitor_dup_refuted))]. Qed.

Print Assumptions C10_monitor.
Print Assumptions C10_monitor_nodup.
Print Assumptions C10_monitor_needs_nodup.
