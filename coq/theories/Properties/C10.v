(* C10 — dry-run never changes the cluster.  Only statements. *)
From Coq Require Import List NArith ZArith.
From CliUtils Require Import Model.PipelineTypes Model.Pipeline Proofs.PipelineBase Proofs.PipelineDry.
Import ListNotations.

(* client dry-run: no mutating request at all, for every scenario and cluster *)
Theorem C10_client : forall sc c0, o_dry (sc_opts sc) = DClient ->
  forall r ok m st, ~ In (IReq r ok m st) (out_trace (run sc c0)).
Proof.
  intros sc c0 D. exact (dry_client_no_request sc (is_dry_client sc D) c0 D).
Qed.

(* server dry-run: the only mutating requests are server-side apply patches
   carrying the dry-run directive; in particular no delete, no inventory write *)
Theorem C10_server : forall sc c0, o_dry (sc_opts sc) = DServer ->
  forall r ok m st, In (IReq r ok m st) (out_trace (run sc c0)) -> exists i, r = RPatch i true true.
Proof.
  intros sc c0 D r ok m st H.
  exact (proj2 (dry_requests sc (is_dry_server sc D) c0 r ok m st H)).
Qed.

(* in both modes every object and the stored inventory are unchanged *)
Theorem C10_unchanged : forall sc c0, is_dry (o_dry (sc_opts sc)) = true ->
  out_final (run sc c0) = norm_cluster c0.
Proof. intros sc c0 H. exact (dry_cluster_unchanged sc H c0). Qed.

Example C10_nonvacuous :
  let univ := [mkU KPlain None None; mkU KPlain None None] in
  let o := mkO false true PMustMatch DServer VSkipInvalid false false false false PropBackground false in
  let sc := mkSc univ None [mkL 0 [] false false false 1] o (mkE [] [] CNever None) in
  let c0 := mkCl [mkC 1 7%N OOurs false [] false 1 None] (Some [1]) 8%N in
  reqs_of (out_trace (run sc c0)) = [RPatch 0 true true] /\ out_final (run sc c0) = norm_cluster c0.
Proof. vm_compute. split; reflexivity. Qed.

Print Assumptions C10_client.
Print Assumptions C10_server.
Print Assumptions C10_unchanged.

(* ---- the monitor of the correspondence harness, as a theorem about the model -----------------
   `mon_C10` (Corr/CorrPipeline.v): client dry-run sends no request and leaves the cluster equal
   to the initial one; server dry-run sends only server-side-apply patches with the dry-run
   directive; in both, unless the stream holds an error event, every object of every apply/prune
   group of the plan has exactly one result event.  Hypothesis: `WF sc c0` of Properties/C01.v,
   of which only the first clause (`locals_nodup sc`) is used - needed for "exactly one". *)
From CliUtils Require Import Corr.CorrPipeline Proofs.PipelineOrphansRun Proofs.PipelineMonBase
     Proofs.PipelineMonC10 Proofs.PipelineMonPack.

Theorem C10_monitor : forall sc c0, WF sc c0 -> mon_C10 sc c0 (run sc c0) = true.
Proof. intros sc c0 W. exact (monitor_C10 sc c0 (WF_locals_nodup sc c0 W)). Qed.

Theorem C10_monitor_nodup : forall sc c0, locals_nodup sc -> mon_C10 sc c0 (run sc c0) = true.
Proof. exact monitor_C10. Qed.

Theorem C10_monitor_needs_nodup : exists sc c0, ~ locals_nodup sc /\ mon_C10 sc c0 (run sc c0) = false.
Proof. exists dup_sc, dup_c0. split; [exact (proj1 monitor_dup_refuted)|exact (proj2 (proj2 monitor_dup_refuted))]. Qed.

(* ---- apply-time mutation under dry-run: the source lookup -------------------------------------
   Object 1 carries an apply-time-mutation substitution whose source is object 0 (`l_mut`); both are
   in the apply set.  FIRST dry-run on an empty cluster: object 0 "applies" (nothing is created), the
   mutator of object 1 finds no entry in the resource cache (dry-run has no status watcher), reads
   object 0 from the cluster, gets NotFound: the apply of object 1 FAILS with one ApplyFailed event
   and NO request for it (client dry-run: no request at all; server dry-run: only the dry-run PATCH
   of object 0).  The cluster is unchanged and the monitor holds: seed C10f (the failure reported as
   "skipped" without an event) breaks exactly this. *)
Definition mut_univ : list uinfo := [mkU KPlain None None; mkU KPlain None None].
Definition mut_opts (d : dry) : opts := mkO false true PMustMatch d VSkipInvalid false true false false PropBackground false.
Definition mut_locals : list lobj := [mkL 0 [] false false false 1; mkLM 1 [0] false false false 1 true].
Definition mut_sc (d : dry) (f : list faddr) : scenario := mkSc mut_univ None mut_locals (mut_opts d) (mkE f [] CNever None).
Definition mut_c0 : cluster := mkCl [] None 5%N.
Definition apply_results (t : list item) : list (id * ast) :=
  flat_map (fun it => match it with IEv (EApply _ i s) => [(i, s)] | _ => [] end) t.

Example C10_mutation_source_missing :
  reqs_of (out_trace (run (mut_sc DClient []) mut_c0)) = [] /\
  apply_results (out_trace (run (mut_sc DClient []) mut_c0)) = [(0, AOk); (1, AFail)] /\
  reqs_of (out_trace (run (mut_sc DServer []) mut_c0)) = [RPatch 0 true true] /\
  apply_results (out_trace (run (mut_sc DServer []) mut_c0)) = [(0, AOk); (1, AFail)] /\
  out_final (run (mut_sc DClient []) mut_c0) = norm_cluster mut_c0 /\
  mon_C10 (mut_sc DClient []) mut_c0 (run (mut_sc DClient []) mut_c0) = true /\
  mon_C10 (mut_sc DServer []) mut_c0 (run (mut_sc DServer []) mut_c0) = true /\
  wf_b (mut_sc DClient []) mut_c0 = true.
Proof. vm_compute. repeat split; reflexivity. Qed.

(* The same manifests AFTER a real run (both objects created, reconciled): the dry-run mutator still has
   an empty cache, reads the source from the cluster - a GET, the third GET of object 0 under client
   dry-run (policy filter, kubectl, mutator), the second under server dry-run - finds it, and the dry-run
   apply of object 1 goes through.  With exactly that GET rejected the apply of object 1 fails again,
   without a request. *)
Definition mut_real : scenario :=
  mkSc mut_univ None mut_locals (mut_opts DNone)
       (mkE [] [mkW [mkS 0 SCurrent true 5%N 2%Z] WTimeout; mkW [mkS 1 SCurrent true 6%N 2%Z] WTimeout] CNever None).
Definition mut_c1 : cluster := out_final (run mut_real mut_c0).

Example C10_mutation_source_read_from_cluster :
  reqs_of (out_trace (run mut_real mut_c0)) = [RInvCreate [0; 1]; RCreate 0 false; RCreate 1 false] /\
  apply_results (out_trace (run mut_real mut_c0)) = [(0, AOk); (1, AOk)] /\
  (* dry-run over the result: the source is found by a GET *)
  reqs_of (out_trace (run (mut_sc DClient []) mut_c1)) = [] /\
  apply_results (out_trace (run (mut_sc DClient []) mut_c1)) = [(0, AOk); (1, AOk)] /\
  reqs_of (out_trace (run (mut_sc DServer []) mut_c1)) = [RPatch 0 true true; RPatch 1 true true] /\
  apply_results (out_trace (run (mut_sc DServer []) mut_c1)) = [(0, AOk); (1, AOk)] /\
  (* that GET rejected *)
  reqs_of (out_trace (run (mut_sc DClient [FGet 0 2]) mut_c1)) = [] /\
  apply_results (out_trace (run (mut_sc DClient [FGet 0 2]) mut_c1)) = [(0, AOk); (1, AFail)] /\
  reqs_of (out_trace (run (mut_sc DServer [FGet 0 1]) mut_c1)) = [RPatch 0 true true] /\
  apply_results (out_trace (run (mut_sc DServer [FGet 0 1]) mut_c1)) = [(0, AOk); (1, AFail)] /\
  mon_C10 (mut_sc DServer [FGet 0 1]) mut_c1 (run (mut_sc DServer [FGet 0 1]) mut_c1) = true /\
  out_final (run (mut_sc DServer [FGet 0 1]) mut_c1) = norm_cluster mut_c1.
Proof. vm_compute. repeat split; reflexivity. Qed.

Print Assumptions C10_monitor.
Print Assumptions C10_monitor_nodup.
Print Assumptions C10_monitor_needs_nodup.
