(* C15 — identifier encodings round-trip; a stored inventory is always
   readable.  Only statements; every proof is `exact <lemma>` or a one-line
   combination.  Models: Model/IdCodec.v (inventory keys, ConfigMap wrapper),
   Model/DependsOnCodec.v (depends-on references), Model/InvClientStore.v (the
   inventory client that calls Store/Load), over Base/Strings.v. *)
From Coq Require Import List Bool Arith String Ascii.
From CliUtils Require Import Base.Strings Model.IdCodec Model.DependsOnCodec
     Proofs.StringsProofs Proofs.IdCodecProofs Proofs.DependsOnProofs Proofs.C15Domain.
From CliUtils Require Import Model.InvClientStore Proofs.InvClientStoreProofs.
From CliUtils Require Import Generated.SourceTables Proofs.SourceTablesAgree.
Import ListNotations.
Local Open Scope string_scope.

(* ======================= inventory keys ====================================== *)

(* String then ParseObjMetadata is the identity on identifiers none of whose
   fields contains '_' (`id_wf`).  ':' in an RBAC name is transcoded to "__" and
   back; ':' in any other name passes through. *)
Theorem C15_roundtrip : forall i, id_wf i = true -> parse_id (string_of_id i) = Ok i.
Proof. exact parse_string_of_id. Qed.

(* for the identifiers the property quantifies over (namespace, group, kind
   valid Kubernetes names, name any path-segment name) `id_wf` says exactly:
   no '_' in the name *)
Theorem C15_roundtrip_domain : forall i, in_domain i = true -> no_sep (o_name i) = true ->
  parse_id (string_of_id i) = Ok i.
Proof. intros i Hd Hn. apply parse_string_of_id. now rewrite (domain_id_wf i Hd). Qed.

(* EVERY identifier, no hypothesis: Store rejects the whole set and changes
   nothing, or every key of the set parses back to exactly its identifier *)
Theorem C15_store_rejects_or_roundtrips : forall c ids st,
  (cm_store c ids st = (c, true))
  \/ (snd (cm_store c ids st) = false /\ forall i, In i ids -> parse_id (string_of_id i) = Ok i).
Proof.
  intros c ids st. destruct (cm_store_cases c ids st) as [[E _]|[E _]]; [left; exact E | right].
  split; [now rewrite E | exact (store_accepts_only_roundtripping c ids st _ E)].
Qed.

(* two identifiers Store accepts never share a key *)
Theorem C15_injective : forall i j, storable i = true -> storable j = true ->
  string_of_id i = string_of_id j -> i = j.
Proof. exact storable_injective. Qed.

(* what one run stores, the next run loads: the same set, without repeats,
   one key per identifier *)
Theorem C15_store_load : forall c ids st c', cm_store c ids st = (c', false) ->
  exists l, cm_load (wrap (cm_get_object c')) = Ok l
    /\ (forall i, In i l <-> In i ids) /\ NoDup l
    /\ (forall i j, In i ids -> In j ids -> string_of_id i = string_of_id j -> i = j).
Proof. exact store_load. Qed.

(* a rejected Store writes nothing: the wrapper, hence what GetObject
   returns, is unchanged, and some identifier of the set is not storable *)
Theorem C15_store_error_writes_nothing : forall c ids st c', cm_store c ids st = (c', true) ->
  c' = c /\ exists i, In i ids /\ storable i = false.
Proof. exact store_error_unchanged. Qed.

(* Store rejects nothing it could encode: it accepts exactly the identifiers
   without '_' in any field *)
Theorem C15_storable_iff : forall i, storable i = true <-> id_wf i = true.
Proof. exact storable_iff_wf. Qed.

Theorem C15_store_accepts : forall c ids st, forallb id_wf ids = true ->
  cm_store c ids st = (mkCm (cm_data c) ids st, false).
Proof. exact store_accepts_wf. Qed.

(* reading is never a misread: whatever ParseObjMetadata returns is an
   identifier that is storable and reads back as itself; an unreadable key
   makes the whole Load an error, not a partial set *)
Theorem C15_parse_output_storable : forall s i, parse_id s = Ok i ->
  id_wf i = true /\ parse_id (string_of_id i) = Ok i.
Proof. intros s i H. pose proof (parse_id_wf s i H) as W. split; [exact W | now apply parse_string_of_id]. Qed.

Theorem C15_load_error_not_partial : forall m k, In k (map_keys m) -> parse_id k = Err ->
  cm_load (wrap (DMap m)) = Err.
Proof. intros m k. exact (parse_keys_err (map_keys m) k). Qed.

(* the key written for an identifier of an RBAC kind carries no ':' (the character is legal in
   RBAC names and illegal in a ConfigMap key; this is what the "__" transcoding is for) *)
Theorem C15_rbac_key_no_colon : forall i, is_rbac (o_grp i) (o_knd i) = true ->
  contains ":" (o_ns i) = false -> contains ":" (string_of_id i) = false.
Proof. exact rbac_key_no_colon. Qed.

(* ToStringMap / FromStringMap (which validate nothing) on '_'-free ids *)
Theorem C15_string_map_roundtrip : forall ids, forallb id_wf ids = true ->
  exists l, from_string_map (to_string_map ids) = Ok l /\ (forall i, In i l <-> In i ids) /\ NoDup l.
Proof. exact string_map_roundtrip. Qed.

(* FromStringMap on ANY map: one identifier per key, each the reading of its key, or an
   error for the whole map (a key that cannot be read is never dropped silently) *)
Theorem C15_string_map_not_partial : forall m l, from_string_map m = Ok l ->
  Forall2 (fun k i => parse_id k = Ok i) (map_keys m) l.
Proof. intros m l. exact (parse_keys_ok_all (map_keys m) l). Qed.

Theorem C15_string_map_error_not_partial : forall m k, In k (map_keys m) -> parse_id k = Err ->
  from_string_map m = Err.
Proof. intros m k. exact (parse_keys_err (map_keys m) k). Qed.

(* ======================= depends-on references ================================ *)

(* Format then Parse, for EVERY identifier: Format rejects, or the string it
   returns parses back to exactly that identifier (and is its layout) *)
Theorem C15_dep_roundtrip : forall i s, format_dep i = Ok s -> parse_dep s = Ok i /\ s = dep_string i.
Proof. intros i s H. split; [exact (dep_roundtrip i s H) | now apply format_dep_inv in H]. Qed.

(* Format rejects nothing it could encode: it accepts exactly the references
   with non-empty kind and name, no '/' in any field (`dep_fields_ok`), no ','
   in any field, and a layout that TrimSpace leaves alone *)
Theorem C15_dep_format_iff : forall i,
  format_dep i = Ok (dep_string i) <->
  dep_fields_ok i = true /\ dep_no_comma i = true /\ trim_space (dep_string i) = dep_string i.
Proof. exact format_dep_iff. Qed.

(* in terms of the fields: the group does not start with a white-space byte
   and the name does not end with a white-space rune *)
Theorem C15_dep_trimmed : forall i, head_ok (o_grp i) = true -> last_ok (o_name i) = true ->
  trim_space (dep_string i) = dep_string i.
Proof. exact dep_string_trimmed. Qed.

(* for the identifiers the property quantifies over, Format accepts unless
   the name ends with a white-space rune or contains ',' *)
Theorem C15_dep_format_accepts_domain : forall i, in_domain i = true ->
  last_ok (o_name i) = true -> no_comma (o_name i) = true -> format_dep i = Ok (dep_string i).
Proof. exact domain_format_accepts. Qed.

(* never a misread: the fields Parse returns are literally the '/'-separated
   segments of the trimmed string, kind and name are not empty *)
Theorem C15_dep_parse_sound : forall s i, parse_dep s = Ok i ->
  no_slash (o_grp i) = true /\ no_slash (o_ns i) = true /\ no_slash (o_knd i) = true /\ no_slash (o_name i) = true
  /\ o_knd i <> "" /\ o_name i <> "" /\ trim_space s = dep_string i.
Proof. exact parse_dep_sound. Qed.

(* Parse then Format gives back the trimmed input; two strings that read as
   one reference are equal up to trimming *)
Theorem C15_dep_no_misread : forall s i s', parse_dep s = Ok i -> format_dep i = Ok s' -> s' = trim_space s.
Proof. exact dep_no_misread. Qed.

Theorem C15_dep_parse_injective : forall s1 s2 i, parse_dep s1 = Ok i -> parse_dep s2 = Ok i ->
  trim_space s1 = trim_space s2.
Proof. exact parse_dep_injective. Qed.

(* malformed references are errors: Parse errors exactly on a wrong field
   count, a wrong second segment of five, or an empty kind / name / namespace
   segment ... *)
Theorem C15_dep_malformed : forall s,
  parse_dep s = Err <->
  ~ ((List.length (split "/" (trim_space s)) = 3
      /\ nth 1 (split "/" (trim_space s)) "" <> "" /\ nth 2 (split "/" (trim_space s)) "" <> "")
     \/ (List.length (split "/" (trim_space s)) = 5 /\ nth 1 (split "/" (trim_space s)) "" = "namespaces"
         /\ nth 2 (split "/" (trim_space s)) "" <> "" /\ nth 3 (split "/" (trim_space s)) "" <> ""
         /\ nth 4 (split "/" (trim_space s)) "" <> "")).
Proof. exact parse_dep_err_iff. Qed.

(* ... and what Parse accepts, Format accepts (',' is the set separator, so a
   single reference containing it is not writable) *)
Theorem C15_dep_parse_then_format : forall s i, parse_dep s = Ok i ->
  contains "," (trim_space s) = false -> format_dep i = Ok (trim_space s).
Proof. exact parse_then_format. Qed.

(* sets: FormatDependencySet then ParseDependencySet, for EVERY non-empty list *)
Theorem C15_depset_roundtrip : forall l s, l <> [] -> format_dep_set l = Ok s -> parse_dep_set s = Ok l.
Proof. exact depset_roundtrip. Qed.

(* WriteAnnotation then ReadAnnotation, for EVERY list (the empty one is refused) *)
Theorem C15_annotation_roundtrip : forall l s, write_annotation l = Ok s -> read_annotation (Some s) = Ok l.
Proof. exact annotation_roundtrip. Qed.

Theorem C15_annotation_empty_refused : write_annotation [] = Err /\ read_annotation None = Ok [].
Proof. split; reflexivity. Qed.

(* white-space trimming: comma separated references, each possibly surrounded
   by ASCII white space (a hand-written annotation), parse back in order *)
Theorem C15_depset_padded : forall l, l <> [] -> forallb item_ok l = true ->
  parse_dep_set (join "," (map item_string l)) = Ok (map item_id l).
Proof. exact depset_padded. Qed.

Theorem C15_depset_format_accepts : forall l, forallb ref_ok l = true ->
  format_dep_set l = Ok (join "," (map dep_string l)).
Proof. exact format_dep_set_ok. Qed.

Theorem C15_ref_ok_domain : forall i, in_domain i = true ->
  ref_ok i = last_ok (o_name i) && no_comma (o_name i).
Proof. exact domain_ref_ok. Qed.

(* Parse then Format of a set gives back its pieces, trimmed; every element
   comes from its own piece; one bad piece makes the whole set an error *)
Theorem C15_depset_no_misread : forall s l s', parse_dep_set s = Ok l -> format_dep_set l = Ok s' ->
  s' = join "," (map trim_space (split "," s)).
Proof. exact depset_no_misread. Qed.

Theorem C15_depset_parse_sound : forall s l, parse_dep_set s = Ok l ->
  Forall2 (fun piece i => parse_dep piece = Ok i) (split "," s) l.
Proof. intros s l. exact (parse_all_sound (split "," s) l). Qed.

Theorem C15_depset_error_not_partial : forall s piece, In piece (split "," s) -> parse_dep piece = Err ->
  parse_dep_set s = Err.
Proof. intros s piece. exact (parse_all_err (split "," s) piece). Qed.

(* ======================= the inventory client ================================= *)

(* Merge / Replace of the inventory client (Model/InvClientStore.v), for every
   status policy, dry-run strategy, stored inventory and apply set: if some
   identifier of the apply set cannot be encoded, no mutating request is sent,
   the inventory object in the cluster is what it was, and the operation is an
   error (Replace in a dry-run is skipped as a whole, whatever its argument) *)
Theorem C15_client_op_rejects_before_writing : forall k p d s objs i,
  In i objs -> storable i = false ->
  oc_reqs (client_op k p d s objs) = [] /\ oc_store (client_op k p d s objs) = s
  /\ (op_skipped k d = false -> oc_err (client_op k p d s objs) = true).
Proof. exact client_op_rejects. Qed.

(* whatever an accepted operation leaves in the cluster, the next run loads,
   and it is exactly the intended set (Merge: what the cluster had and the
   apply set; Replace: the apply set), without repeats when it was written *)
Theorem C15_client_op_written_loads : forall k p d s objs cl,
  is_dry d = false -> client_get s = Ok cl ->
  oc_err (client_op k p d s objs) = false ->
  exists l, client_get (oc_store (client_op k p d s objs)) = Ok l
    /\ (forall i, In i l <-> In i (op_expected k cl objs))
    /\ (oc_reqs (client_op k p d s objs) <> [] -> NoDup l).
Proof. exact client_op_written_loads_l. Qed.

(* an error of any origin, and any dry-run, has written nothing *)
Theorem C15_client_op_error_writes_nothing : forall k p d s objs,
  oc_err (client_op k p d s objs) = true ->
  oc_reqs (client_op k p d s objs) = [] /\ oc_store (client_op k p d s objs) = s.
Proof. exact client_op_error_writes_nothing. Qed.

Theorem C15_client_op_dry_run_writes_nothing : forall k p d s objs, is_dry d = true ->
  oc_reqs (client_op k p d s objs) = [] /\ oc_store (client_op k p d s objs) = s.
Proof. exact client_op_dry_writes_nothing. Qed.

(* the client refuses nothing encodable: with a readable stored inventory
   (and, for a real Replace, an inventory object to replace) a set of storable
   identifiers is accepted *)
Theorem C15_client_op_accepts_encodable : forall k p d s objs cl,
  forallb storable objs = true -> client_get s = Ok cl ->
  (k = OReplace -> is_dry d = false -> s <> None) ->
  oc_err (client_op k p d s objs) = false.
Proof. exact client_op_accepts_encodable_l. Qed.

(* the second reader of stored inventories (ListClusterInventoryObjs, used by the status
   command) sees what the next run loads: no entry exactly when there is no inventory object, an
   error exactly when the object cannot be loaded, otherwise exactly the loaded set *)
Theorem C15_client_list_loads : forall s,
  (client_list s = Err <-> client_get s = Err)
  /\ (forall l, client_list s = Ok (Some l) <-> s <> None /\ client_get s = Ok l)
  /\ (client_list s = Ok None <-> s = None).
Proof. exact client_list_loads. Qed.

(* the RBAC kind set and the separators of the models are the ones extracted
   from pkg/object/objmetadata.go and pkg/object/dependson/strings.go on this run *)
Theorem C15_constants_from_source :
  (forall g k, IdCodec.is_rbac g k =
     existsb (fun p => String.eqb g (fst p) && String.eqb k (snd p)) src_rbac_group_kinds) /\
  IdCodec.field_separator = src_field_separator /\ IdCodec.colon_transcoded = src_colon_transcoded /\
  DependsOnCodec.annotation_separator = src_dep_annotationSeparator /\
  DependsOnCodec.dep_field_separator = src_dep_fieldSeparator /\
  DependsOnCodec.namespaces_field = src_dep_namespacesField.
Proof. split; [exact rbac_kinds_from_source|exact separators_from_source]. Qed.

Print Assumptions C15_roundtrip.
Print Assumptions C15_roundtrip_domain.
Print Assumptions C15_store_rejects_or_roundtrips.
Print Assumptions C15_injective.
Print Assumptions C15_store_load.
Print Assumptions C15_store_error_writes_nothing.
Print Assumptions C15_storable_iff.
Print Assumptions C15_store_accepts.
Print Assumptions C15_parse_output_storable.
Print Assumptions C15_load_error_not_partial.
Print Assumptions C15_rbac_key_no_colon.
Print Assumptions C15_string_map_roundtrip.
Print Assumptions C15_string_map_not_partial.
Print Assumptions C15_string_map_error_not_partial.
Print Assumptions C15_dep_roundtrip.
Print Assumptions C15_dep_format_iff.
Print Assumptions C15_dep_trimmed.
Print Assumptions C15_dep_format_accepts_domain.
Print Assumptions C15_dep_parse_sound.
Print Assumptions C15_dep_no_misread.
Print Assumptions C15_dep_parse_injective.
Print Assumptions C15_dep_malformed.
Print Assumptions C15_dep_parse_then_format.
Print Assumptions C15_depset_roundtrip.
Print Assumptions C15_annotation_roundtrip.
Print Assumptions C15_annotation_empty_refused.
Print Assumptions C15_depset_padded.
Print Assumptions C15_depset_format_accepts.
Print Assumptions C15_ref_ok_domain.
Print Assumptions C15_depset_no_misread.
Print Assumptions C15_depset_parse_sound.
Print Assumptions C15_depset_error_not_partial.
Print Assumptions C15_client_op_rejects_before_writing.
Print Assumptions C15_client_op_written_loads.
Print Assumptions C15_client_op_error_writes_nothing.
Print Assumptions C15_client_op_dry_run_writes_nothing.
Print Assumptions C15_client_op_accepts_encodable.
Print Assumptions C15_client_list_loads.

(* ---- non-vacuity: concrete instances satisfy the hypotheses ------------------ *)
Definition ex_role : oid := mkOid "" "system:controller:x" rbac_group "ClusterRole".
Definition ex_deploy : oid := mkOid "ns-1" "web:1" "apps" "Deployment".

Example C15_ex_wf : in_domain ex_role = true /\ id_wf ex_role = true
  /\ string_of_id ex_role = "_system__controller__x_rbac.authorization.k8s.io_ClusterRole"
  /\ parse_id (string_of_id ex_role) = Ok ex_role
  /\ string_of_id ex_deploy = "ns-1_web:1_apps_Deployment".
Proof. repeat split; reflexivity. Qed.

(* the former defect witnesses are rejected by Store, both of them *)
Example C15_ex_rejected :
  storable (mkOid "" "a_b" rbac_group "ClusterRole") = false
  /\ string_of_id (mkOid "" "a:_b" rbac_group "ClusterRole") = string_of_id (mkOid "" "a_:b" rbac_group "ClusterRole")
  /\ storable (mkOid "" "a:_b" rbac_group "ClusterRole") = false
  /\ storable (mkOid "" "a_:b" rbac_group "ClusterRole") = false
  /\ storable (mkOid "ns" "a__b" "" "ConfigMap") = false.
Proof. repeat split; reflexivity. Qed.

Example C15_ex_store_load :
  store_then_load (wrap DAbsent) [ex_role; ex_deploy; ex_role] [] = Ok [ex_role; ex_deploy].
Proof. reflexivity. Qed.

(* the former depends-on defect witnesses are now rejected, on the side that
   would have written or misread them *)
Example C15_ex_dep_rejected :
  format_dep (mkOid "" "a " rbac_group "ClusterRole") = Err
  /\ format_dep (mkOid "" "a,b" rbac_group "ClusterRole") = Err
  /\ format_dep (mkOid "x" "z" "g" "namespaces") <> Err /\ format_dep (mkOid "" "x/y/z" "g" "namespaces") = Err
  /\ parse_dep "g//n" = Err /\ parse_dep "g/k/" = Err /\ parse_dep "//" = Err
  /\ parse_dep "g/namespaces//k/n" = Err /\ parse_dep "g/k/n" = Ok (mkOid "" "n" "g" "k").
Proof. repeat split; try reflexivity. intros H. vm_compute in H. discriminate H. Qed.

Example C15_ex_dep : ref_ok ex_role = true /\ ref_ok ex_deploy = true
  /\ format_dep_set [ex_role; ex_deploy]
     = Ok "rbac.authorization.k8s.io/ClusterRole/system:controller:x,apps/namespaces/ns-1/Deployment/web:1"
  /\ parse_dep_set " rbac.authorization.k8s.io/ClusterRole/system:controller:x , apps/namespaces/ns-1/Deployment/web:1"
     = Ok [ex_role; ex_deploy]
  /\ forallb item_ok [(" ", ex_role, " "); (" ", ex_deploy, "")] = true.
Proof. repeat split; reflexivity. Qed.
(* the inventory client on the seeded witness: a first run whose apply set
   holds ClusterRole system:node_reader is refused with nothing sent, in every
   strategy; without it the set is created and the next run loads it *)
Definition ex_pod : oid := mkOid "test-ns" "pod-a" "" "Pod".
Definition ex_node_reader : oid := mkOid "" "system:node_reader" rbac_group "ClusterRole".
Example C15_ex_client :
  storable ex_node_reader = false
  /\ client_merge PolNone DryNone None [ex_pod; ex_node_reader] = mkOutcome true [] None []
  /\ client_merge PolAll DryServer None [ex_pod; ex_node_reader] = mkOutcome true [] None []
  /\ client_merge PolNone DryNone None [ex_pod; ex_role] = mkOutcome false [RCreate] (Some [ex_pod; ex_role]) []
  /\ client_get (Some [ex_pod; ex_role]) = Ok [ex_pod; ex_role]
  /\ client_merge PolNone DryNone (Some [ex_pod; ex_role]) [ex_deploy; ex_node_reader]
     = mkOutcome true [] (Some [ex_pod; ex_role]) [ex_pod; ex_role]
  /\ client_replace PolNone DryNone (Some [ex_pod; ex_role]) [ex_deploy; ex_node_reader]
     = mkOutcome true [] (Some [ex_pod; ex_role]) []
  /\ client_replace PolNone DryNone (Some [ex_pod; ex_role]) [ex_deploy]
     = mkOutcome false [RUpdate] (Some [ex_deploy]) []
  /\ client_merge PolNone DryNone (Some [ex_pod]) [ex_deploy]
     = mkOutcome false [RUpdate] (Some [ex_pod; ex_deploy]) [ex_pod].
Proof. vm_compute. repeat split; reflexivity. Qed.
Print Assumptions C15_constants_from_source.
