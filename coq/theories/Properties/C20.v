(* C20 — the JSON printer renders the event stream faithfully and signals
   failure in its result.  Only statements; every proof is `exact`. *)
From Coq Require Import List Bool Arith.
From CliUtils Require Import Model.Stats Model.Printer Proofs.PrinterProofs.
Import ListNotations.

(* Every event that prints (everything except Init, and Status events when
   status printing is off) and is reached (no error event, formatter abort or
   panic before it) produces exactly one line, at the position given by the
   number of printing events before it; the line names the same type, object(s),
   action and status as the event (line_matches), precisely line_for.
   For ALL event lists, not only well-formed ones. *)
Theorem C20_one_line : forall ps es1 e es2,
  has_stop es1 = false -> prints ps e = true ->
  exists l, nth_error (fst (print ps (es1 ++ e :: es2))) (occ (prints ps) es1) = Some l /\
            line_matches e l /\ l = line_for es1 e.
Proof. exact one_line_thm. Qed.

(* ... and there are no other lines: the output has one line per printing
   event among the processed ones, plus the summary lines when the stream was
   consumed to the end *)
Theorem C20_line_count : forall ps es,
  List.length (fst (print ps es)) =
  occ (prints ps) (processed es) + (if has_stop es then 0 else List.length (summary_for es)).
Proof. exact line_count_thm. Qed.

(* the numbers in a finished-group line are the numbers of matching events
   seen so far (counts_after is defined with length (filter ...) over the
   prefix); they are cumulative over groups *)
Theorem C20_counts : forall ps es1 n a es2,
  has_stop es1 = false ->
  nth_error (fst (print ps (es1 ++ EGroup n a true :: es2))) (occ (prints ps) es1)
  = Some (LGroup a true (counts_after a es1)).
Proof. exact group_counts_thm. Qed.

(* the summary: one line per action with at least one counted event, with the
   numbers of matching events in the whole stream *)
Theorem C20_summary : forall ps es,
  has_stop es = false ->
  exists body, fst (print ps es) = body ++ summary_for es /\
               List.length body = occ (prints ps) es.
Proof. exact summary_thm. Qed.

Theorem C20_no_summary_after_stop : forall ps es,
  has_stop es = true -> List.length (fst (print ps es)) = occ (prints ps) (processed es).
Proof. exact no_summary_after_stop. Qed.

(* the result: for every stream whose events are individually well formed
   (error events carry an error, validation events name an object, actuation
   statuses are final) in ANY order, an error is returned exactly when the
   stream contains an error event or a failed actuation, failed reconcile or
   reconcile timeout; never a panic or a formatter error *)
Theorem C20_result : forall ps es,
  forallb ev_wf es = true ->
  (snd (print ps es) <> ROk <->
   existsb is_error_event es = true \/ existsb is_failure es = true) /\
  snd (print ps es) <> RPanic /\ snd (print ps es) <> RErrFormat.
Proof. exact result_thm. Qed.

(* whether an apply / prune / delete event carries an error (skipped events
   carry the skip reason, failed ones the failure) changes neither the counters
   nor what counts as a failure: only the Status does *)
Theorem C20_error_field_irrelevant : forall s k id st h h',
  handle s (EAct k id st h) = handle s (EAct k id st h') /\
  is_failure (EAct k id st h) = is_failure (EAct k id st h') /\
  (forall a es1 es2, counts_after a (es1 ++ EAct k id st h :: es2) = counts_after a (es1 ++ EAct k id st h' :: es2)).
Proof. exact error_field_irrelevant. Qed.

(* for arbitrary streams: the complete description of the result *)
Theorem C20_result_any : forall ps es, snd (print ps es) = result_spec [] es.
Proof. exact result_full_thm. Qed.

(* non-vacuity: an apply / wait / prune run with a failure, a timeout and a
   skipped object whose event carries the skip reason as its error *)
Example C20_nonvacuous :
  let es := [EValidation [3]; EInit [(0, AcApply); (1, AcWait); (2, AcPrune)];
             EGroup 0 AcApply false; EAct KApply 0 StSuccessful false; EAct KApply 1 StFailed true;
             EAct KApply 2 StSkipped true; EGroup 0 AcApply true;
             EGroup 1 AcWait false; EWait 0 WPending; EStatus 0 KInProgress; EStatus 0 KCurrent;
             EWait 0 WSuccessful; EWait 1 WSkipped; EWait 2 WTimeout; EGroup 1 AcWait true;
             EGroup 2 AcPrune false; EAct KPrune 4 StSuccessful false; EGroup 2 AcPrune true] in
  forallb ev_wf es = true /\ has_stop es = false /\
  print false es =
    ([LValidation [3];
      LGroup AcApply false None; LAct KApply 0 StSuccessful false; LAct KApply 1 StFailed true;
      LAct KApply 2 StSkipped true; LGroup AcApply true (Some (mkCounts 3 1 1 1 None));
      LGroup AcWait false None; LWait 0 WPending; LWait 0 WSuccessful; LWait 1 WSkipped;
      LWait 2 WTimeout; LGroup AcWait true (Some (mkCounts 3 1 1 0 (Some 1)));
      LGroup AcPrune false None; LAct KPrune 4 StSuccessful false;
      LGroup AcPrune true (Some (mkCounts 1 1 0 0 None));
      LSummary AcApply (mkCounts 3 1 1 1 None); LSummary AcPrune (mkCounts 1 1 0 0 None);
      LSummary AcWait (mkCounts 3 1 1 0 (Some 1))], RErrResult).
Proof. vm_compute. repeat split. Qed.

Print Assumptions C20_one_line.
Print Assumptions C20_line_count.
Print Assumptions C20_counts.
Print Assumptions C20_summary.
Print Assumptions C20_no_summary_after_stop.
Print Assumptions C20_result.
Print Assumptions C20_result_any.
Print Assumptions C20_error_field_irrelevant.
