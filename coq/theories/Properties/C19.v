(* C19 — identifier sets and the actuation table behave like their abstract
   models.  Only statements; every proof is `exact <lemma>`. *)
From Coq Require Import List Bool Arith Permutation NArith ZArith String.
From CliUtils Require Import Model.ObjSet Model.ActuationTable
     Proofs.ObjSetProofs Proofs.ActuationTableProofs.
Import ListNotations.

Section C19.
  Variable A : Type.
  Variable eqb : A -> A -> bool.
  Hypothesis eqb_spec : forall x y, eqb x y = true <-> x = y.

  (* ---- sets: results agree with mathematical set semantics, for every pair
     of lists, with any order and any repeats ----------------------------- *)
  Theorem C19_union : forall a b x,
    (In x (union eqb a b) <-> In x a \/ In x b) /\ NoDup (union eqb a b).
  Proof. intros a b x. split; [exact (union_In A eqb eqb_spec a b x) | exact (union_NoDup A eqb eqb_spec a b)]. Qed.

  Theorem C19_intersection : forall a b x,
    (In x (intersection eqb a b) <-> In x a /\ In x b) /\ NoDup (intersection eqb a b).
  Proof. intros a b x. split; [exact (intersection_In A eqb eqb_spec a b x) | exact (intersection_NoDup A eqb eqb_spec a b)]. Qed.

  Theorem C19_diff : forall a b x,
    (In x (diff eqb a b) <-> In x a /\ ~ In x b) /\ NoDup (diff eqb a b).
  Proof. intros a b x. split; [exact (diff_In A eqb eqb_spec a b x) | exact (diff_NoDup A eqb eqb_spec a b)]. Qed.

  Theorem C19_equal : forall a b, equal eqb a b = true <-> (forall x, In x a <-> In x b).
  Proof. exact (equal_spec A eqb eqb_spec). Qed.

  Theorem C19_contains : forall a x, contains eqb a x = true <-> In x a.
  Proof. exact (contains_spec A eqb eqb_spec). Qed.

  Theorem C19_unique : forall a x, (In x (unique eqb a) <-> In x a) /\ NoDup (unique eqb a).
  Proof. intros a x. split; [exact (unique_In A eqb eqb_spec a x) | exact (unique_NoDup A eqb eqb_spec a)]. Qed.

  (* first-seen order is preserved: the union lists the distinct elements of
     A in input order followed by the new distinct elements of B *)
  Theorem C19_union_order : forall a b,
    union eqb a b = dedup eqb a ++ filter (fun y => negb (mem eqb y a)) (dedup eqb b).
  Proof. exact (dedup_app A eqb eqb_spec). Qed.

  Theorem C19_nodup_unchanged : forall a, NoDup a -> unique eqb a = a.
  Proof. exact (dedup_NoDup_id A eqb eqb_spec). Qed.

  (* hashing depends only on the set, whatever the string rendering *)
  Theorem C19_hash : forall (str : A -> string) a b,
    (forall x, In x a <-> In x b) -> hash eqb str a = hash eqb str b.
  Proof. exact (hash_set_eq A eqb eqb_spec). Qed.

  (* the explicit remove operation deletes exactly one occurrence *)
  Theorem C19_remove : forall a x,
    (In x a -> Permutation (x :: remove eqb a x) a) /\ (~ In x a -> remove eqb a x = a).
  Proof. intros a x. split; [exact (remove_present A eqb eqb_spec a x) | exact (remove_absent A eqb eqb_spec a x)]. Qed.

  (* ---- actuation table -------------------------------------------------- *)
  (* exactly one record per object, after any sequence of operations *)
  Theorem C19_one_record : forall ops, NoDup (map r_id (fst (run eqb [] ops))).
  Proof. intros ops. exact (run_keys_NoDup A eqb eqb_spec ops [] (NoDup_nil A)). Qed.

  (* the record found for an id is the latest recorded one: the table refines
     a finite map stepped with the same operations *)
  Theorem C19_latest : forall ops i,
    lookup eqb (fst (run eqb [] ops)) i =
    fold_left (spec_step A eqb) ops (fun _ => None) i.
  Proof. intros ops i. exact (run_refines A eqb eqb_spec ops [] i). Qed.

  (* every query is total *)
  Theorem C19_total : forall ops, ~ In ObPanic (snd (run eqb [] ops)).
  Proof. intros ops. exact (run_total A eqb ops []). Qed.

  Theorem C19_unknown_not_found : forall ops i,
    ~ In i (map r_id (fst (run eqb [] ops))) ->
    lookup eqb (fst (run eqb [] ops)) i = None /\
    applied_uid eqb (fst (run eqb [] ops)) i = (0%N, false) /\
    applied_gen eqb (fst (run eqb [] ops)) i = (0%Z, false) /\
    (forall s a, is_actuation eqb (fst (run eqb [] ops)) i s a = false) /\
    (forall s, is_reconcile eqb (fst (run eqb [] ops)) i s = false) /\
    set_reconcile eqb (fst (run eqb [] ops)) i RSucceeded = None.
  Proof. intros ops i. exact (unknown_not_found A eqb eqb_spec (fst (run eqb [] ops)) i). Qed.

  (* the per-outcome queries partition the recorded objects *)
  Theorem C19_partition_actuation : forall ops i,
    let t := fst (run eqb [] ops) in
    (In i (map r_id t) -> exists s a, In i (with_actuation t s a) /\
        forall s' a', In i (with_actuation t s' a') -> s' = s /\ a' = a) /\
    (~ In i (map r_id t) -> forall s a, ~ In i (with_actuation t s a)) /\
    (forall s a, NoDup (with_actuation t s a)).
  Proof.
    intros ops i.
    exact (actuation_partition A eqb eqb_spec (fst (run eqb [] ops)) i
             (run_keys_NoDup A eqb eqb_spec ops [] (NoDup_nil A))).
  Qed.

  Theorem C19_partition_reconcile : forall ops i,
    let t := fst (run eqb [] ops) in
    (In i (map r_id t) -> exists s, In i (with_reconcile t s) /\
        forall s', In i (with_reconcile t s') -> s' = s) /\
    (~ In i (map r_id t) -> forall s, ~ In i (with_reconcile t s)) /\
    (forall s, NoDup (with_reconcile t s)).
  Proof.
    intros ops i.
    exact (reconcile_partition A eqb eqb_spec (fst (run eqb [] ops)) i
             (run_keys_NoDup A eqb eqb_spec ops [] (NoDup_nil A))).
  Qed.

  (* the boolean per-object queries agree with the list queries *)
  Theorem C19_is_agrees_with_list : forall ops i s a r,
    let t := fst (run eqb [] ops) in
    (is_actuation eqb t i s a = true <-> In i (with_actuation t s a)) /\
    (is_reconcile eqb t i r = true <-> In i (with_reconcile t r)).
  Proof.
    intros ops i s a r. split.
    - exact (is_actuation_list A eqb eqb_spec (fst (run eqb [] ops)) i s a
               (run_keys_NoDup A eqb eqb_spec ops [] (NoDup_nil A))).
    - exact (is_reconcile_list A eqb eqb_spec (fst (run eqb [] ops)) i r
               (run_keys_NoDup A eqb eqb_spec ops [] (NoDup_nil A))).
  Qed.
End C19.

(* non-vacuity: a concrete table reaches every clause *)
Example C19_nonvacuous :
  let ops := [OpAdd 1 SApply ASucceeded 7%N 3%Z; OpAdd 2 SDelete APending 0%N 0%Z;
              OpSetRec 1 RSucceeded; OpAdd 2 SDelete AFailed 0%N 0%Z] in
  map r_id (fst (run Nat.eqb [] ops)) = [1; 2] /\
  with_actuation (fst (run Nat.eqb [] ops)) SDelete AFailed = [2] /\
  with_reconcile (fst (run Nat.eqb [] ops)) RSucceeded = [1].
Proof. vm_compute. repeat split. Qed.

Print Assumptions C19_union.
Print Assumptions C19_intersection.
Print Assumptions C19_diff.
Print Assumptions C19_equal.
Print Assumptions C19_contains.
Print Assumptions C19_unique.
Print Assumptions C19_union_order.
Print Assumptions C19_nodup_unchanged.
Print Assumptions C19_hash.
Print Assumptions C19_remove.
Print Assumptions C19_one_record.
Print Assumptions C19_latest.
Print Assumptions C19_total.
Print Assumptions C19_unknown_not_found.
Print Assumptions C19_partition_actuation.
Print Assumptions C19_partition_reconcile.
Print Assumptions C19_is_agrees_with_list.
