(* C11 — invalid objects are isolated; exit-early validation mutates nothing.
   Only statements, about the model `run`.  "Invalid" = pl_invalid of the run's
   plan: objects failing field validation, objects whose depends-on annotation
   is malformed, has a duplicate or an external reference, and the objects on
   or depending on a dependency cycle. *)
From Coq Require Import List NArith ZArith.
From CliUtils Require Import Model.PipelineTypes Model.Pipeline Corr.CorrPipeline Proofs.PipelineBase Proofs.PipelineAuth.
Import ListNotations.

Definition req_names (r : req) (i : id) : Prop :=
  r = RNsCreate i \/ (exists d, r = RCreate i d) \/ (exists s d, r = RPatch i s d) \/
  r = RUpdate i \/ (exists pre p, r = RDelete i pre p).

(* never sent to the API server *)
Theorem C11_never_sent : forall sc c0 pl locals, run_plan sc c0 = Some (pl, locals) ->
  forall r ok m st i, In (IReq r ok m st) (out_trace (run sc c0)) -> req_names r i ->
  ~ In i (pl_invalid pl).
Proof.
  intros sc c0 pl locals RP r ok m st i Hin Hr.
  pose proof (auth_run sc c0) as H. rewrite RP in H. rewrite Forall_forall in H. specialize (H _ Hin).
  destruct Hr as [->|[[d ->]|[[s [d ->]]|[->|[pre [p ->]]]]]]; cbn in H.
  - exact (proj1 (run_plan_apply_valid sc c0 pl locals i RP H)).
  - exact (proj1 (run_plan_apply_valid sc c0 pl locals i RP H)).
  - exact (proj1 (run_plan_apply_valid sc c0 pl locals i RP H)).
  - destruct H as [c [Hc [<- _]]]. exact (proj2 (proj2 (proj2 (run_plan_prune sc c0 pl locals c RP Hc)))).
  - destruct H as [c [uids [Hc [<- _]]]]. exact (proj2 (proj2 (proj2 (run_plan_prune sc c0 pl locals c RP Hc)))).
Qed.

(* never added to the stored inventory unless already tracked: every inventory
   write of the run *)
Theorem C11_not_added : forall sc c0 pl locals, run_plan sc c0 = Some (pl, locals) ->
  forall r ok m st l, In (IReq r ok m st) (out_trace (run sc c0)) ->
  r = RInvCreate l \/ r = RInvUpdate l ->
  forall i, In i l -> In i (pl_invalid pl) -> In i (inv0 c0).
Proof.
  intros sc c0 pl locals RP r ok m st l Hin Hr.
  pose proof (auth_run sc c0) as H. rewrite RP in H. rewrite Forall_forall in H. specialize (H _ Hin).
  destruct Hr as [->| ->]; exact H.
Qed.

(* each invalid object is named by a validation error of the plan (which the
   run emits as validation events under skip-invalid, see C13_grammar) *)
Theorem C11_named : forall sc known locals pobjs i,
  In i (pl_invalid (build_plan sc known locals pobjs)) ->
  exists e, In e (pl_valerrs (build_plan sc known locals pobjs)) /\ In i e.
Proof. exact invalid_named. Qed.

(* exit-early: the run ends with the error before any request is made *)
Theorem C11_exit_early : forall sc c0 pl locals, run_plan sc c0 = Some (pl, locals) ->
  o_valpol (sc_opts sc) = VExitEarly -> pl_valerrs pl <> [] ->
  out_trace (run sc c0) = [IEv EError; IClosed].
Proof. exact exit_early_trace. Qed.

(* tracked invalid objects stay in the inventory: the final inventory computed
   by the retention table contains every previously tracked invalid id (and
   C11_never_sent shows they are not pruned) *)
Theorem C11_tracked_invalid_retained : forall pl prev s i,
  In i prev -> In i (pl_invalid pl) -> In i (final_inventory pl prev s).
Proof. exact final_inventory_keeps_invalid. Qed.

(* non-vacuity: one object with an external dependency, one cycle, one valid object *)
Example C11_nonvacuous :
  let univ := [mkU KPlain None None; mkU KPlain None None; mkU KPlain None None; mkU KPlain None None] in
  let o := mkO false true PMustMatch DNone VSkipInvalid false false false false PropBackground false in
  let sc := mkSc univ None [mkL 0 [3] false false false 1; mkL 1 [2] false false false 1;
                            mkL 2 [1] false false false 1] o (mkE [] [] CNever None) in
  match run_plan sc (mkCl [] None 1%N) with
  | Some (pl, _) => pl_invalid pl = [0; 1; 2] /\ pl_valerrs pl = [[0]; [1; 2]]
  | None => False
  end.
Proof. vm_compute. split; reflexivity. Qed.

(* dynamic type knowledge: object 0 is a CRD, object 1 a custom resource of the kind it defines; the cluster
   is empty (the RESTMapper does not know the kind).  `known` of C11_named is the set of CRDs the mapper
   knows when the plan is built.
   (a) CRD and custom resource in one apply set: the custom resource is valid (its CRD is among the manifests),
       depends on the CRD; the CRD is created, its wait ends Successful, the mapper is reset, the custom
       resource is created;
   (b) the create of the CRD is rejected: its wait is skipped, the mapper is not reset, the custom resource
       gets ApplyFailed WITHOUT any request for it;
   (c) the custom resource alone: its type is unknown, it is invalid, named by a validation error, never
       sent and not added to the inventory. *)
Definition C11_dyn_items (t : list item) : list (req * bool + evt) :=
  flat_map (fun it => match it with
                      | IReq r ok _ _ => [inl (r, ok)]
                      | IEv (EApply g i a) => [inr (EApply g i a)]
                      | IEv (EValidation l) => [inr (EValidation l)]
                      | IEv (EWait g i w) => [inr (EWait g i w)]
                      | _ => [] end) t.
Example C11_nonvacuous_dynamic_kinds :
  let univ := [mkU KCrd None None; mkU KPlain None (Some 0)] in
  let o := mkO false true PMustMatch DNone VSkipInvalid false false false false PropBackground false in
  let ws := [mkW [mkS 0 SCurrent true 0%N 2%Z] WCancel; mkW [mkS 1 SCurrent true 0%N 2%Z] WCancel] in
  let both := [mkL 0 [] false false false 1; mkL 1 [] false false false 1] in
  let sca := mkSc univ None both o (mkE [] ws CNever None) in
  let scb := mkSc univ None both o (mkE [FApply 0] ws CNever None) in
  let scc := mkSc univ None [mkL 1 [] false false false 1] o (mkE [] ws CNever None) in
  let c0 := mkCl [] None 1%N in
  option_map (fun p => (pl_invalid (fst p), g_deps (pl_graph (fst p)) 1)) (run_plan sca c0) = Some ([], [0]) /\
  C11_dyn_items (out_trace (run sca c0)) =
    [inl (RInvCreate [0; 1], true); inl (RCreate 0 false, true); inr (EApply (GApply, 0) 0 AOk);
     inr (EWait (GWait, 0) 0 WPending); inr (EWait (GWait, 0) 0 WOk);
     inl (RCreate 1 false, true); inr (EApply (GApply, 1) 1 AOk);
     inr (EWait (GWait, 1) 1 WPending); inr (EWait (GWait, 1) 1 WOk)] /\
  C11_dyn_items (out_trace (run scb c0)) =
    [inl (RInvCreate [0; 1], true); inl (RCreate 0 false, false); inr (EApply (GApply, 0) 0 AFail);
     inr (EWait (GWait, 0) 0 WSkipped); inr (EApply (GApply, 1) 1 AFail); inr (EWait (GWait, 1) 1 WSkipped);
     inl (RInvUpdate [], true)] /\
  option_map (fun p => (pl_invalid (fst p), pl_valerrs (fst p))) (run_plan scc c0) = Some ([1], [[1]]) /\
  C11_dyn_items (out_trace (run scc c0)) = [inr (EValidation [1]); inl (RInvCreate [], true)] /\
  mon_C11 sca c0 (run sca c0) = true /\ mon_C11 scb c0 (run scb c0) = true /\ mon_C11 scc c0 (run scc c0) = true.
Proof. vm_compute. repeat split; reflexivity. Qed.

Print Assumptions C11_never_sent.
Print Assumptions C11_not_added.
Print Assumptions C11_named.
Print Assumptions C11_exit_early.
Print Assumptions C11_tracked_invalid_retained.

(* ---- the monitor of the correspondence harness, as a theorem about the model -----------------
   `mon_C11` (Corr/CorrPipeline.v), with "invalid" = pl_invalid of `plan_of sc c0` (the plan
   recomputed from the initial cluster, which is the plan of the run): no request targets an
   invalid object; no snapshot of the stored inventory holds an invalid id that was not tracked
   before; under exit-early the run ends with the error before any request; under skip-invalid
   every invalid id is named by a validation event and, when the run ends without error outside
   dry-run, tracked invalid ids are still in the final inventory.  No hypothesis. *)
From CliUtils Require Import Proofs.PipelineMonC11.

Theorem C11_monitor : forall sc c0, mon_C11 sc c0 (run sc c0) = true.
Proof. exact monitor_C11. Qed.

Print Assumptions C11_monitor.
