(* C11 — invalid objects are isolated; exit-early validation mutates nothing.
   Only statements, about the model `run`.  "Invalid" = pl_invalid of the run's
   plan: objects failing field validation, objects whose depends-on annotation
   is malformed, has a duplicate or an external reference, and the objects on
   or depending on a dependency cycle. *)
From Coq Require Import List NArith ZArith.
From CliUtils Require Import Model.PipelineTypes Model.Pipeline Proofs.PipelineBase Proofs.PipelineAuth.
Import ListNotations.

Definition req_names (r : req) (i : id) : Prop :=
  r = RNsCreate i \/ (exists d, r = RCreate i d) \/ (exists s d, r = RPatch i s d) \/
  r = RUpdate i \/ (exists pre p, r = RDelete i pre p).

(* never sent to the API server *)
Theorem C11_never_sent : forall sc c0 pl locals, run_plan sc c0 = Some (pl, locals) ->
  forall r ok m st i, In (IReq r ok m st) (out_trace (run sc c0)) -> req_names r i ->
  ~ In i (pl_invalid pl).
Proof.
  intros sc c0 pl locals RP r ok m st i Hin Hr.
  pose proof (auth_run sc c0) as H. rewrite RP in H. rewrite Forall_forall in H. specialize (H _ Hin).
  destruct Hr as [->|[[d ->]|[[s [d ->]]|[->|[pre [p ->]]]]]]; cbn in H.
  - exact (proj1 (run_plan_apply_valid sc c0 pl locals i RP H)).
  - exact (proj1 (run_plan_apply_valid sc c0 pl locals i RP H)).
  - exact (proj1 (run_plan_apply_valid sc c0 pl locals i RP H)).
  - destruct H as [c [Hc [<- _]]]. exact (proj2 (proj2 (proj2 (run_plan_prune sc c0 pl locals c RP Hc)))).
  - destruct H as [c [uids [Hc [<- _]]]]. exact (proj2 (proj2 (proj2 (run_plan_prune sc c0 pl locals c RP Hc)))).
Qed.

(* never added to the stored inventory unless already tracked: every inventory
   write of the run *)
Theorem C11_not_added : forall sc c0 pl locals, run_plan sc c0 = Some (pl, locals) ->
  forall r ok m st l, In (IReq r ok m st) (out_trace (run sc c0)) ->
  r = RInvCreate l \/ r = RInvUpdate l ->
  forall i, In i l -> In i (pl_invalid pl) -> In i (inv0 c0).
Proof.
  intros sc c0 pl locals RP r ok m st l Hin Hr.
  pose proof (auth_run sc c0) as H. rewrite RP in H. rewrite Forall_forall in H. specialize (H _ Hin).
  destruct Hr as [->| ->]; exact H.
Qed.

(* each invalid object is named by a validation error of the plan (which the
   run emits as validation events under skip-invalid, see C13_grammar) *)
Theorem C11_named : forall sc locals pobjs i,
  In i (pl_invalid (build_plan sc locals pobjs)) ->
  exists e, In e (pl_valerrs (build_plan sc locals pobjs)) /\ In i e.
Proof. exact invalid_named. Qed.

(* exit-early: the run ends with the error before any request is made *)
Theorem C11_exit_early : forall sc c0 pl locals, run_plan sc c0 = Some (pl, locals) ->
  o_valpol (sc_opts sc) = VExitEarly -> pl_valerrs pl <> [] ->
  out_trace (run sc c0) = [IEv EError; IClosed].
Proof. exact exit_early_trace. Qed.

(* tracked invalid objects stay in the inventory: the final inventory computed
   by the retention table contains every previously tracked invalid id (and
   C11_never_sent shows they are not pruned) *)
Theorem C11_tracked_invalid_retained : forall pl prev s i,
  In i prev -> In i (pl_invalid pl) -> In i (final_inventory pl prev s).
Proof. exact final_inventory_keeps_invalid. Qed.

(* non-vacuity: one object with an external dependency, one cycle, one valid object *)
Example C11_nonvacuous :
  let univ := [mkU KPlain None None; mkU KPlain None None; mkU KPlain None None; mkU KPlain None None] in
  let o := mkO false true PMustMatch DNone VSkipInvalid false false false false PropBackground false in
  let sc := mkSc univ None [mkL 0 [3] false false false 1; mkL 1 [2] false false false 1;
                            mkL 2 [1] false false false 1] o (mkE [] [] CNever None) in
  match run_plan sc (mkCl [] None 1%N) with
  | Some (pl, _) => pl_invalid pl = [0; 1; 2] /\ pl_valerrs pl = [[0]; [1; 2]]
  | None => False
  end.
Proof. vm_compute. split; reflexivity. Qed.

Print Assumptions C11_never_sent.
Print Assumptions C11_not_added.
Print Assumptions C11_named.
Print Assumptions C11_exit_early.
Print Assumptions C11_tracked_invalid_retained.

(* ---- the monitor of the correspondence harness, as a theorem about the model -----------------
   `mon_C11` (Corr/CorrPipeline.v), with "invalid" = pl_invalid of `plan_of sc c0` (the plan
   recomputed from the initial cluster, which is the plan of the run): no request targets an
   invalid object; no snapshot of the stored inventory holds an invalid id that was not tracked
   before; under exit-early the run ends with the error before any request; under skip-invalid
   every invalid id is named by a validation event and, when the run ends without error outside
   dry-run, tracked invalid ids are still in the final inventory.  No hypothesis. *)
From CliUtils Require Import Corr.CorrPipeline Proofs.PipelineMonC11.

Theorem C11_monitor : forall sc c0, mon_C11 sc c0 (run sc c0) = true.
Proof. exact monitor_C11. Qed.

Print Assumptions C11_monitor.
