(* C17 — polling change detection, cancellation / fatal error protocol,
   aggregation rule, collector.  Only statements; every proof is `exact`. *)
From Coq Require Import List Bool Arith ZArith String Permutation Sorted.
From CliUtils Require Import Model.Engine Model.Aggregator Model.Collector
     Proofs.EngineProofs Proofs.AggregatorProofs Proofs.CollectorProofs.
Import ListNotations.

(* ---- what "differs" means: ResourceStatusEqual looks at identifier, status,
   message, generation (0 when the object is absent), error text and,
   recursively and positionally, the generated resources -------------------- *)
Theorem C17_rs_equal_fields : forall a b,
  rs_equal a b = true <->
  rs_id a = rs_id b /\ rs_status a = rs_status b /\ rs_msg a = rs_msg b /\
  get_generation a = get_generation b /\ rs_err a = rs_err b /\
  Forall2 (fun x y => rs_equal x y = true) (rs_kids a) (rs_kids b).
Proof. exact rs_equal_fields. Qed.

Theorem C17_rs_equal_canon : forall a b, rs_equal a b = true <-> canon a = canon b.
Proof. exact rs_equal_canon. Qed.

(* ---- first round: exactly one update per polled resource, carrying what
   was read (identifier lists with repeats included) ------------------------ *)
Theorem C17_first_poll : forall ids p rest,
  clean ids p ->
  exists evs tl,
    run (mkSc ids None (p :: rest)) = evs ++ tl /\
    run (mkSc ids None [p]) = evs ++ [Close] /\
    Forall is_upd evs /\
    (forall j, In j ids -> exists r, p_read p j = RStatus r /\ filter (upd_for j) evs = [Upd r]) /\
    (forall j, ~ In j ids -> filter (upd_for j) evs = []).
Proof. exact first_poll_thm. Qed.

(* ---- later rounds: after k = |ps| > 0 complete rounds, round k emits an
   update for resource j exactly when the reading is not ResourceStatusEqual to
   the last update emitted for j; at most one, carrying the reading; nothing
   for other identifiers; whatever follows in the script --------------------- *)
Theorem C17_emit_iff : forall ids ps p,
  ps <> [] -> Forall (clean ids) ps -> clean ids p ->
  exists tr evs,
    run (mkSc ids None ps) = tr ++ [Close] /\
    run (mkSc ids None (ps ++ [p])) = tr ++ evs ++ [Close] /\
    (forall rest, exists tl, run (mkSc ids None (ps ++ p :: rest)) = tr ++ evs ++ tl) /\
    Forall is_upd tr /\ Forall is_upd evs /\
    (forall j, In j ids -> exists r old,
        p_read p j = RStatus r /\ last_emitted tr j = Some old /\
        filter (upd_for j) evs = if rs_equal r old then [] else [Upd r]) /\
    (forall j, ~ In j ids -> filter (upd_for j) evs = []) /\
    (* afterwards the last emitted status is equal (in that sense) to the reading *)
    (forall j, In j ids -> exists r old, p_read p j = RStatus r /\
        last_emitted (tr ++ evs) j = Some old /\ rs_equal r old = true).
Proof. exact emit_iff_thm. Qed.

(* ---- every scenario (any cancellation point, any errors): an update is only
   ever emitted when it differs from the last one emitted for that resource,
   and the stream is  update* [error] close ---------------------------------- *)
Theorem C17_no_spurious : forall sc pre r post,
  (forall p, In p (s_polls sc) -> wf_on (s_ids sc) p) ->
  run sc = pre ++ Upd r :: post ->
  changed (last_emitted pre (rs_id r)) r = true.
Proof. exact no_spurious_thm. Qed.

Theorem C17_grammar : forall sc,
  exists evs, Forall is_upd evs /\
    (run sc = evs ++ [Close] \/ exists e, run sc = evs ++ [Err e; Close]).
Proof. exact grammar_thm. Qed.

(* ---- cancellation: with no fatal error anywhere, wherever the context is
   cancelled (between rounds, before any loop iteration, context errors coming
   back from Sync or ReadStatus, or the script simply ending), no error event
   is emitted and the channel is closed ------------------------------------- *)
Theorem C17_cancel : forall ids polls,
  (forall p, In p polls -> no_fatal ids p) ->
  exists evs, Forall is_upd evs /\ run (mkSc ids None polls) = evs ++ [Close].
Proof. intros ids polls H. exact (run_polls_no_fatal ids polls [] H). Qed.

(* ---- fatal error: after any number of complete rounds, a non-context error
   from Sync or from the first failing ReadStatus of a round gives exactly one
   error event, then close; nothing of the rest of the script is looked at --- *)
Theorem C17_fatal : forall ids ps p rest e,
  Forall (clean ids) ps -> fatal_at ids p e ->
  exists evs, Forall is_upd evs /\
    run (mkSc ids None (ps ++ p :: rest)) = evs ++ [Err e; Close] /\
    filter (fun it => match it with Err _ => true | _ => false end)
           (run (mkSc ids None (ps ++ p :: rest))) = [Err e].
Proof. exact fatal_thm. Qed.

Theorem C17_fatal_start : forall ids e polls, run (mkSc ids (Some e) polls) = [Err e; Close].
Proof. reflexivity. Qed.

(* ---- aggregation ---------------------------------------------------------- *)
Theorem C17_aggregate : forall l d,
  aggregate l d =
  if existsb (fun s => status_eqb s Failed) l then Failed
  else if existsb (fun s => status_eqb s Unknown) l then Unknown
  else if forallb (fun s => status_eqb s d) l then d
  else InProgress.
Proof. exact aggregate_is_spec. Qed.

Theorem C17_aggregate_rule : forall l d,
  (In Failed l -> aggregate l d = Failed) /\
  (~ In Failed l -> In Unknown l -> aggregate l d = Unknown) /\
  (~ In Failed l -> ~ In Unknown l -> (forall s, In s l -> s = d) -> aggregate l d = d) /\
  (~ In Failed l -> ~ In Unknown l -> (exists s, In s l /\ s <> d) -> aggregate l d = InProgress).
Proof. exact aggregate_rule. Qed.

Theorem C17_agg_perm : forall l l' d, Permutation l l' -> aggregate l d = aggregate l' d.
Proof. exact aggregate_perm. Qed.

(* ---- collector ------------------------------------------------------------ *)
Theorem C17_collector : forall ids es,
  let obs := latest_observation (c_run ids es) in
  (forall r, In r (o_statuses obs) <->
             (last_update es (rs_id r) = Some r \/
              (last_update es (rs_id r) = None /\ In (rs_id r) ids /\ r = unknown_rs (rs_id r)))) /\
  NoDup (map rs_id (o_statuses obs)) /\
  Sorted le (map rs_id (o_statuses obs)) /\
  o_err obs = last_error es /\ o_last obs = last_type es.
Proof. exact observation_spec. Qed.

(* ---- non-vacuity ---------------------------------------------------------- *)
Definition ex_rd (l : list (nat * reading)) (i : nat) : reading :=
  match find (fun x => Nat.eqb (fst x) i) l with Some x => snd x | None => RErr (EOther 0) end.
Definition ex_p0 := mkPoll None None (ex_rd
  [(0, RStatus (RS 0 InProgress "a"%string (Some 1%Z) None [RS 5 InProgress "rs"%string (Some 1%Z) None []]));
   (1, RStatus (RS 1 NotFound "Resource not found"%string None None []))]).
Definition ex_p1 := mkPoll None None (ex_rd
  [(0, RStatus (RS 0 InProgress "a"%string (Some 1%Z) None [RS 5 Current "rs"%string (Some 1%Z) None []]));
   (1, RStatus (RS 1 NotFound "Resource not found"%string (Some 0%Z) None []))]).
Definition ex_p2 := mkPoll None None (ex_rd
  [(0, RStatus (RS 0 Current "a"%string (Some 2%Z) None [])); (1, RErr (EOther 7))]).

Example C17_nonvacuous :
  clean [0; 1] ex_p0 /\ clean [0; 1] ex_p1 /\ fatal_at [0; 1] ex_p2 (EOther 7) /\
  run (mkSc [0; 1] None [ex_p0; ex_p1; ex_p2]) =
    [Upd (RS 0 InProgress "a"%string (Some 1%Z) None [RS 5 InProgress "rs"%string (Some 1%Z) None []]);
     Upd (RS 1 NotFound "Resource not found"%string None None []);
     Upd (RS 0 InProgress "a"%string (Some 1%Z) None [RS 5 Current "rs"%string (Some 1%Z) None []]);
     Upd (RS 0 Current "a"%string (Some 2%Z) None []);
     Err (EOther 7); Close] /\
  aggregate [Current; Unknown; InProgress] Current = Unknown /\
  o_statuses (latest_observation (c_run [0; 1] [CUpdate (RS 1 Current ""%string None None []); CSync])) =
    [unknown_rs 0; RS 1 Current ""%string None None []].
Proof.
  assert (Hc : forall p, p = ex_p0 \/ p = ex_p1 -> clean [0; 1] p).
  { intros p [H|H]; subst p; (split; [reflexivity|split; [reflexivity|]]);
      intros i [Hi|[Hi|[]]]; subst i; eexists; split; reflexivity. }
  split; [apply Hc; now left|]. split; [apply Hc; now right|]. split.
  - split; [reflexivity|]. right. split; [reflexivity|].
    exists [0], 1, []. repeat split.
    intros i [Hi|[]]; subst i. eexists; reflexivity.
  - repeat split; vm_compute; reflexivity.
Qed.

Print Assumptions C17_rs_equal_fields.
Print Assumptions C17_rs_equal_canon.
Print Assumptions C17_first_poll.
Print Assumptions C17_emit_iff.
Print Assumptions C17_no_spurious.
Print Assumptions C17_grammar.
Print Assumptions C17_cancel.
Print Assumptions C17_fatal.
Print Assumptions C17_fatal_start.
Print Assumptions C17_aggregate.
Print Assumptions C17_aggregate_rule.
Print Assumptions C17_agg_perm.
Print Assumptions C17_collector.
