(* C12 — timeouts bound waiting; cancellation stops the run, never shrinks the
   inventory.  Only statements, about the model `run` (logical time: the
   schedule input says when a timeout fires or the context is cancelled).
   PARTIAL by design: "not before the time has elapsed" and "within bounded
   time" are wall-clock facts of Go's context timers; they are harness
   observations (watchdog), not theorems.  The inventory conjunct is C01
   (Properties/C01.v holds for every cancellation point and schedule). *)
From Coq Require Import List NArith ZArith.
From CliUtils Require Import Model.PipelineTypes Model.Pipeline Proofs.PipelineBase Proofs.PipelineEvents
     Proofs.PipelineMisc.
Import ListNotations.

(* a wait phase emits Timeout events only at its end, only when a timeout is
   configured for that kind of phase, and then for a set `pending` of objects,
   each exactly once: events = (no Timeout events) ++ (nothing | Timeout for pending) *)
Theorem C12_timeout_events : forall sc c g ids s,
  exists es1 es2, emits s (wait_task sc c g ids s) (es1 ++ es2) /\ Forall not_timeout es1 /\
    (es2 = [] \/
     (match c with AllCurrent => o_rec_timeout (sc_opts sc) | AllNotFound => o_prune_timeout (sc_opts sc) end = true /\
      exists pending, es2 = map (fun i => EWait g i WTimedOut) pending)).
Proof. exact wait_task_timeouts. Qed.

(* the timeout handler reports exactly the objects still pending, in order *)
Theorem C12_timeout_exact : forall g s w,
  emits s (wait_timeout g s w) (map (fun i => EWait g i WTimedOut) (w_pending w)).
Proof. exact wait_timeout_events. Qed.

(* a timeout does not abort the run: the abort flag is unchanged, so the later phases still run *)
Theorem C12_timeout_continues : forall g s w, r_abort (wait_timeout g s w) = r_abort s.
Proof. exact wait_timeout_abort. Qed.

(* cancellation: once the abort flag is set when a task finishes, no further
   task is started; exactly one error event is appended (and by C13 it is the
   last event before the channel closes) *)
Theorem C12_cancel_stops : forall sc pl locals prev s t rest,
  r_abort (fst (run_task sc pl locals prev s t)) = true ->
  run_tasks sc pl locals prev s (t :: rest) = ev (fst (run_task sc pl locals prev s t)) EError.
Proof. exact abort_stops. Qed.

Theorem C12_cancel_during_request : forall sc s i,
  e_cancel (sc_env sc) = CDuringReq i -> r_abort (maybe_cancel sc s i) = true.
Proof. exact maybe_cancel_sets. Qed.

(* the whole stream still obeys the grammar, with one error event, last (C13) *)
Theorem C12_stream : forall sc c0, run_events sc (evs (out_trace (run sc c0))) /\
                                   error_last_once (evs (out_trace (run sc c0))).
Proof. intros sc c0. split; [exact (run_grammar sc c0)|exact (run_error_last_once sc c0)]. Qed.

(* non-vacuity: a cancelled wait phase ends the run; a timed-out one lets it continue *)
Example C12_nonvacuous :
  let univ := [mkU KPlain None None; mkU KPlain None None] in
  let mk o w := mkSc univ None [mkL 0 [] false false false 1; mkL 1 [0] false false false 1] o (mkE [] [w] CNever None) in
  let o1 := mkO false true PMustMatch DNone VSkipInvalid false true false false PropBackground false in
  let c0 := mkCl [] None 1%N in
  (* timeout: the second layer is not applied (dependency timed out) but its phase runs *)
  existsb (fun e => match e with EStarted (GApply, 1) => true | _ => false end)
          (evs (out_trace (run (mk o1 (mkW [] WTimeout)) c0))) = true /\
  (* cancel: nothing is started after wait-0 *)
  existsb (fun e => match e with EStarted (GApply, 1) => true | _ => false end)
          (evs (out_trace (run (mk o1 (mkW [] WCancel)) c0))) = false.
Proof. vm_compute. split; reflexivity. Qed.

Print Assumptions C12_timeout_events.
Print Assumptions C12_timeout_exact.
Print Assumptions C12_timeout_continues.
Print Assumptions C12_cancel_stops.
Print Assumptions C12_cancel_during_request.
Print Assumptions C12_stream.

(* ---- the monitor of the correspondence harness, as a theorem about the model -----------------
   `mon_C12` (Corr/CorrPipeline.v) = timeouts clause && cancellation clause && grammar (mon_C13)
   && inventory (mon_C01); `mon_C12_events` (Proofs/PipelineMonPack.v) is the conjunction of the
   first three (`mon_C12_events_split`, by computation):
   - every wait phase of the plan: Timeout events exactly for the objects whose last wait event
     before the first Timeout is Pending, only with a timeout configured, nothing but Timeout /
     status events afterwards; a phase that finishes with a pending object and no Timeout is
     followed at once by the error event;
   - cancelled before the sync: no task is started, one error event; cancelled while the request
     of object i is served: no task is started after that request, and the run ends with an error;
   - the stream obeys the grammar.
   `C12_monitor_events` needs only `locals_nodup sc` (first clause of WF).  The inventory conjunct
   is C01, so the full monitor inherits `WF` and `kf_free` of Properties/C01.v (known finding
   C01-invns-apply-failed: `C12_monitor_refuted`); the destroyer needs no excluding hypothesis. *)
From CliUtils Require Import Corr.CorrPipeline Proofs.PipelineOrphansRun Proofs.PipelineMonBase
     Proofs.PipelineMonC12Defs Proofs.PipelineMonPack.

Theorem C12_monitor_events : forall sc c0, locals_nodup sc -> mon_C12_events sc (run sc c0) = true.
Proof. exact monitor_C12_events. Qed.

Theorem C12_monitor_partial : forall sc c0, WF sc c0 -> kf_free sc c0 -> mon_C12 sc c0 (run sc c0) = true.
Proof. exact monitor_C12. Qed.

Theorem C12_monitor_destroy : forall sc c0, WF sc c0 -> o_destroy (sc_opts sc) = true ->
  mon_C12 sc c0 (run sc c0) = true.
Proof. exact monitor_C12_destroy. Qed.

Theorem C12_monitor_refuted : exists sc c0, WF sc c0 /\ mon_C12 sc c0 (run sc c0) = false.
Proof. exact monitor_C12_refuted. Qed.

(* non-vacuity with an object held by a finalizer: the delete of object 1 is accepted but the object
   lingers; the delete wait runs into the prune timeout: one Timeout event, for object 1 only, the run
   continues to the inventory-set task without an error event, and object 1 stays in the inventory
   (the inventory conjunct of the monitor); hypotheses of C12_monitor_partial hold *)
Example C12_nonvacuous_finalizer_timeout :
  let univ := [mkU KNs None None; mkUF KPlain None None true true; mkU KPlain None None] in
  let o := mkO true true PMustMatch DNone VSkipInvalid false false true false PropBackground false in
  let sc := mkSc univ None [] o
                 (mkE [] [mkW [mkS 2 SNotFound false 0%N 0%Z; mkS 1 STerminating true 5%N 2%Z] WTimeout] CNever None) in
  let obj i u := mkC i u OOurs false [] false 1 None in
  let c0 := mkCl [obj 1 5%N; obj 2 6%N] (Some [1; 2]) 9%N in
  WF sc c0 /\ kf_free sc c0 /\
  filter (fun e => match e with EWait _ _ _ => true | _ => false end) (events (out_trace (run sc c0))) =
    [EWait (GWait, 0) 2 WPending; EWait (GWait, 0) 1 WPending; EWait (GWait, 0) 2 WOk; EWait (GWait, 0) 1 WTimedOut] /\
  has_error (out_trace (run sc c0)) = false /\
  existsb (fun e => match e with EFinished (GInvSet, 0) => true | _ => false end) (events (out_trace (run sc c0))) = true /\
  out_final (run sc c0) = mkCl [obj 1 5%N] (Some [1]) 9%N /\
  mon_C12 sc c0 (run sc c0) = true.
Proof.
  cbv zeta. split; [apply wf_b_spec; vm_compute; reflexivity|].
  split; [apply kf_freeb_sound; vm_compute; reflexivity|]. vm_compute. repeat split; reflexivity.
Qed.

Print Assumptions C12_monitor_events.
Print Assumptions C12_monitor_partial.
Print Assumptions C12_monitor_destroy.
Print Assumptions C12_monitor_refuted.
