(* C07 — generic status signals take precedence; Augment agrees with Compute.
   Only statements; every proof is `exact <lemma>`.  All theorems quantify
   over every JSON-shaped tree `j` (so over every kind, built-in or custom, and
   every state of its status fields) and both values of the clock input `w`.

   Vocabulary (Proofs/KStatusC07Proofs.v):
     no_deletion j      metadata.deletionTimestamp absent or ""
     gen_ok j           metadata.generation absent, or status.observedGeneration
                        absent, or both present and equal
     first_true_std cs  type of the first listed condition that is a true
                        Reconciling or a true Stalled condition
     first_ready cs     status of the first Ready condition with status
                        True / False / Unknown
     augment j w t rsn msg   model of status.Augment; t = the formatted clock,
                        rsn/msg = Reason/Message text of the result condition *)
From Coq Require Import List Bool ZArith String.
From CliUtils Require Import Base.Json Model.KStatus Proofs.KStatusProofs Proofs.KStatusC07Proofs.
From CliUtils Require Import Generated.SourceTables Proofs.SourceTablesAgree.
Import ListNotations.
Local Open Scope string_scope.

Theorem C07_terminating : forall (j : jv) (w : bool) (s : string),
  nested_string j p_deletion = Found s -> s <> "" -> compute j w = Ok Terminating [].
Proof. exact terminating_first. Qed.

Theorem C07_generation : forall (j : jv) (w : bool) (g o : Z),
  no_deletion j ->
  nested_int64 j p_generation = Found g -> nested_int64 j p_observed = Found o -> g <> o ->
  compute j w = Ok InProgress [("Reconciling", "True")].
Proof. exact generation_second. Qed.

(* the first listed true Reconciling / Stalled condition decides, whatever the
   kind and whatever the kind-specific fields say *)
Theorem C07_conditions : forall (j : jv) (w : bool) (cs : list bcond),
  no_deletion j -> gen_ok j -> get_object_with_conditions j = Some cs ->
  (first_true_std cs = Some "Reconciling" -> compute j w = Ok InProgress [("Reconciling", "True")]) /\
  (first_true_std cs = Some "Stalled" -> compute j w = Ok Failed [("Stalled", "True")]).
Proof. exact conditions_third. Qed.

(* only then the kind rule, or for kinds without one the Ready condition *)
Theorem C07_kind_rule_last : forall (j : jv) (w : bool) (cs : list bcond),
  no_deletion j -> gen_ok j -> get_object_with_conditions j = Some cs -> first_true_std cs = None ->
  no_generic j /\
  compute j w =
  match legacy_of_key (kind_key j) with
  | Some k => legacy_fn k j w
  | None => match ready_loop cs with Some o => o | None => current end
  end.
Proof. exact no_signal_kind_rule. Qed.

Theorem C07_ready : forall (j : jv) (w : bool) (cs : list bcond),
  legacy_of_key (kind_key j) = None ->
  no_deletion j -> gen_ok j -> get_object_with_conditions j = Some cs -> first_true_std cs = None ->
  (first_ready cs = Some "True" -> compute j w = Ok Current []) /\
  (first_ready cs = Some "False" \/ first_ready cs = Some "Unknown" ->
   compute j w = Ok InProgress [("Reconciling", "True")]) /\
  (first_ready cs = None -> compute j w = Ok Current []).
Proof. exact ready_fallback. Qed.

(* Augment touches nothing but status.conditions, and there only the entries
   whose type is the type of a result condition (same order for the rest) *)
Theorem C07_augment_frame : forall (j : jv) (w : bool) (t rsn msg : string) (j' : jv),
  augment j w t rsn msg = Some j' ->
  (forall k, k <> "status" -> top_field j' k = top_field j k) /\
  (forall k rest, k <> "conditions" ->
     nested_field j' ("status" :: k :: rest) = nested_field j ("status" :: k :: rest)) /\
  exists s rcs items',
    compute j w = Ok s rcs /\
    nested_slice j' ["status"; "conditions"] = Found items' /\
    filter (other_than (map fst rcs)) items' = filter (other_than (map fst rcs)) (items_of j).
Proof. exact augment_frame. Qed.

Theorem C07_augment_stable : forall (j : jv) (w : bool) (t rsn msg : string) (j' : jv),
  augment j w t rsn msg = Some j' -> status_of (compute j' w) = status_of (compute j w).
Proof. exact augment_stable. Qed.

(* the kind dispatch of the model is the legacyTypes table extracted from
   pkg/kstatus/status/core.go on this run (harness/cmd/gentables) *)
Theorem C07_dispatch_from_source : forall key,
  KStatus.legacy_of_key key =
  match assoc key src_legacy_types with Some fn => legacy_of_fn fn | None => None end.
Proof. exact legacy_dispatch_from_source. Qed.

Print Assumptions C07_terminating.
Print Assumptions C07_generation.
Print Assumptions C07_conditions.
Print Assumptions C07_kind_rule_last.
Print Assumptions C07_ready.
Print Assumptions C07_augment_frame.
Print Assumptions C07_augment_stable.

(* non-vacuity: a fully rolled-out Deployment whose first true standard
   condition is Stalled is Failed; augmenting a lagging Deployment inserts the
   Reconciling condition, keeps the foreign one, and the status is unchanged *)
Definition ex_deploy (conds : list jv) (ready : Z) : jv :=
  JObj [("apiVersion", JStr "apps/v1"); ("kind", JStr "Deployment");
        ("metadata", JObj [("generation", JInt 1)]);
        ("spec", JObj [("replicas", JInt 1)]);
        ("status", JObj [("observedGeneration", JInt 1); ("replicas", JInt 1); ("updatedReplicas", JInt 1);
                         ("readyReplicas", JInt ready); ("availableReplicas", JInt 1);
                         ("conditions", JArr conds)])].
Definition ex_cond (ty st : string) : jv := JObj [("type", JStr ty); ("status", JStr st)].

Example C07_ex_hyps :
  no_deletion (ex_deploy [ex_cond "Available" "True"; ex_cond "Stalled" "True"; ex_cond "Reconciling" "True"] 1) /\
  gen_ok (ex_deploy [ex_cond "Available" "True"; ex_cond "Stalled" "True"; ex_cond "Reconciling" "True"] 1) /\
  exists cs, get_object_with_conditions
               (ex_deploy [ex_cond "Available" "True"; ex_cond "Stalled" "True"; ex_cond "Reconciling" "True"] 1) = Some cs /\
             first_true_std cs = Some "Stalled".
Proof.
  split; [left; reflexivity|]. split; [right; exists 1%Z; split; [reflexivity|right; reflexivity]|].
  eexists. split; reflexivity.
Qed.
Example C07_ex_stalled_wins :
  compute (ex_deploy [ex_cond "Available" "True"; ex_cond "Stalled" "True"; ex_cond "Reconciling" "True"] 1) false
  = Ok Failed [("Stalled", "True")].
Proof. vm_compute. reflexivity. Qed.
Example C07_ex_augment :
  exists j', augment (ex_deploy [ex_cond "Available" "True"] 0) false "T" "LessReady" "m" = Some j' /\
             items_of j' = [ex_cond "Available" "True"; new_cond_item "Reconciling" "True" "LessReady" "m" "T"] /\
             compute j' false = Ok InProgress [("Reconciling", "True")].
Proof. eexists. split; [vm_compute; reflexivity|]. split; vm_compute; reflexivity. Qed.
Print Assumptions C07_dispatch_from_source.

(* the model is additionally tied to the source by TRANSLATION: the Gallina
   definitions that harness/cmd/genkstatus generates on this run from
   generic.go, status.go, core.go, util.go (Generated/KStatusSrc.v, one per Go
   function, syntax-directed) compute what the model computes, on all trees and
   for both clock values.  `to_outcome` maps a ( *Result, error ) pair to the
   model's outcome (the error wins, (nil, nil) is None).  So the theorems above,
   which are about `compute`, hold of the generated Compute, and a semantic
   change of the generic checks or of the precedence chain breaks this
   obligation. *)
From CliUtils Require Model.KStatusSrcLib Generated.KStatusSrc Proofs.KStatusSrcAgree.

Theorem C07_source_translation_agrees : forall (j : jv) (w : bool),
  KStatusSrcLib.to_outcome (KStatusSrc.checkGeneration j) = check_generation j /\
  KStatusSrcLib.to_outcome (KStatusSrc.checkGenericProperties j) = check_generic j /\
  KStatusSrcLib.to_outcome (KStatusSrc.checkReadyCondition j) = check_ready_condition j /\
  KStatusSrc.GetLegacyConditionsFn j = KStatusSrcLib.assoc (kind_key j) src_legacy_types /\
  KStatusSrcLib.to_outcome (KStatusSrc.Compute j w) = Some (compute j w).
Proof. exact KStatusSrcAgree.src_generic_agrees. Qed.
Print Assumptions C07_source_translation_agrees.

(* ==== At the status readers ===================================================
   The StatusPoller, the StatusWatcher and the applier do not call
   status.Compute directly but statusreaders.NewDefaultStatusReader, whose
   readers wrap it (Model/KStatusReader.v: Deployment -> ReplicaSets -> Pods,
   ReplicaSet / StatefulSet -> Pods, every other kind the generic reader).
   `read_top (Node j w sel lst kids)` is ReadStatusForObject on the object j
   whose list call returns `kids`; `sel` = spec.selector is usable, `lst` =
   the list call's error class.

   Relation to the property text.  The first conjunct is the text's first
   clause at the reader: a deletion timestamp yields Terminating whatever the
   kind and whatever the state of the pods.  The second says that every
   answer of Compute — so every answer decided by a generic signal (C07_* above)
   — is reported unchanged, with ONE exception, which is what the unchanged
   code does (pod_controller.go:64): for a ReplicaSet / StatefulSet an
   InProgress answer (be it from a generation mismatch, a true Reconciling
   condition or the kind rule) becomes Failed when a selected pod is Failed.
   So at the reader the generic InProgress signals are NOT final against that
   kind-specific rule; Terminating, Stalled=>Failed and Current are.  The
   hypothesis `reader_of j = RGeneric \/ (sel = true /\ lst = LOk)` is also
   what the code does: the readers of the three listing kinds evaluate the
   selector and list the generated resources BEFORE they call Compute, so a
   terminating StatefulSet without a usable selector is Unknown (with the
   error), not Terminating (C09_reader_total_shape covers those paths). *)
From CliUtils Require Import Model.KStatusReader Proofs.KStatusReaderProofs.

Theorem C07_reader_generic_precedence : forall (j : jv) (w sel : bool) (lst : lerr) (kids : list node) (r : rres),
  read_top (Node j w sel lst kids) = Some r ->
  reader_of j = RGeneric \/ (sel = true /\ lst = LOk) ->
  (forall s, nested_string j p_deletion = Found s -> s <> "" ->
     rr_status r = Terminating /\ rr_error r = false) /\
  (forall s cs, compute j w = Ok s cs ->
     rr_error r = false /\
     (rr_status r = s \/
      (s = InProgress /\ rr_status r = Failed /\ reader_of j = RPodCtl /\
       exists p, In p (rr_gen r) /\ rr_status p = Failed))) /\
  (forall cs p, compute j w = Ok InProgress cs -> reader_of j = RPodCtl ->
     In p (rr_gen r) -> rr_status p = Failed -> rr_status r = Failed).
Proof. exact reader_generic_precedence. Qed.

(* the same rule on statuses alone: what the pod-controller reader reports for
   Compute's outcome and the statuses of the selected pods *)
Theorem C07_reader_status_rule : forall (c : outcome) (pods : list status),
  (c = Err -> reader_status c pods = Unknown) /\
  (forall s cs, c = Ok s cs -> s <> InProgress \/ count_failed pods = 0 -> reader_status c pods = s) /\
  (forall cs, c = Ok InProgress cs -> 0 < count_failed pods -> reader_status c pods = Failed).
Proof. exact reader_status_rule. Qed.

Theorem C07_reader_status_of_result : forall (id : rid) (c : outcome) (pods : list rres),
  rr_status (pod_controller_result id c pods) = reader_status c (map rr_status pods) /\
  rr_error (pod_controller_result id c pods) = (match c with Err => true | Ok _ _ => false end) /\
  rr_gen (pod_controller_result id c pods) = pods /\
  rr_id (pod_controller_result id c pods) = id.
Proof. exact pod_controller_status. Qed.

Print Assumptions C07_reader_generic_precedence.
Print Assumptions C07_reader_status_rule.
Print Assumptions C07_reader_status_of_result.

(* non-vacuity: a terminating StatefulSet with a crash-looping pod is
   Terminating (the input on which a widened override guard answers Failed);
   the same StatefulSet merely behind its generation is Failed "1 pods have
   failed" (the documented exception) *)
Definition exr_crash_pod : jv :=
  JObj [("apiVersion", JStr "v1"); ("kind", JStr "Pod");
        ("metadata", JObj [("name", JStr "web-0"); ("namespace", JStr "ns")]);
        ("status", JObj [("phase", JStr "Running");
                         ("containerStatuses",
                          JArr [JObj [("name", JStr "c");
                                      ("state", JObj [("waiting", JObj [("reason", JStr "CrashLoopBackOff")])])]])])].
Definition exr_sts (deletion : list (string * jv)) (observed : Z) : jv :=
  JObj [("apiVersion", JStr "apps/v1"); ("kind", JStr "StatefulSet");
        ("metadata", JObj ([("name", JStr "web"); ("namespace", JStr "ns"); ("generation", JInt 3)] ++ deletion));
        ("spec", JObj [("replicas", JInt 1)]);
        ("status", JObj [("observedGeneration", JInt observed); ("replicas", JInt 1); ("readyReplicas", JInt 0)])].
Definition exr_pod_result : rres := RRes ("ns", "", "Pod", "web-0") Failed false MsgCompute [].

Example C07_ex_reader_terminating :
  read_top (Node (exr_sts [("deletionTimestamp", JStr "2024-01-01T00:00:00Z")] 3) false true LOk
                 [Node exr_crash_pod false true LOk []])
  = Some (RRes ("ns", "apps", "StatefulSet", "web") Terminating false MsgCompute [exr_pod_result]).
Proof. vm_compute. reflexivity. Qed.
Example C07_ex_reader_override :
  compute (exr_sts [] 2) false = Ok InProgress [("Reconciling", "True")] /\
  read_top (Node (exr_sts [] 2) false true LOk [Node exr_crash_pod false true LOk []])
  = Some (RRes ("ns", "apps", "StatefulSet", "web") Failed false (MsgPodsFailed 1) [exr_pod_result]).
Proof. split; vm_compute; reflexivity. Qed.
