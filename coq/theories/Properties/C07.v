(* C07 — generic status signals take precedence; Augment agrees with Compute.
   Only statements; every proof is `exact <lemma>`.  All theorems quantify
   over every JSON-shaped tree `j` (so over every kind, built-in or custom, and
   every state of its status fields) and both values of the clock input `w`.

   Vocabulary (Proofs/KStatusC07Proofs.v):
     no_deletion j      metadata.deletionTimestamp absent or ""
     gen_ok j           metadata.generation absent, or status.observedGeneration
                        absent, or both present and equal
     first_true_std cs  type of the first listed condition that is a true
                        Reconciling or a true Stalled condition
     first_ready cs     status of the first Ready condition with status
                        True / False / Unknown
     augment j w t rsn msg   model of status.Augment; t = the formatted clock,
                        rsn/msg = Reason/Message text of the result condition *)
From Coq Require Import List Bool ZArith String.
From CliUtils Require Import Base.Json Model.KStatus Proofs.KStatusProofs Proofs.KStatusC07Proofs.
From CliUtils Require Import Generated.SourceTables Proofs.SourceTablesAgree.
Import ListNotations.
Local Open Scope string_scope.

Theorem C07_terminating : forall (j : jv) (w : bool) (s : string),
  nested_string j p_deletion = Found s -> s <> "" -> compute j w = Ok Terminating [].
Proof. exact terminating_first. Qed.

Theorem C07_generation : forall (j : jv) (w : bool) (g o : Z),
  no_deletion j ->
  nested_int64 j p_generation = Found g -> nested_int64 j p_observed = Found o -> g <> o ->
  compute j w = Ok InProgress [("Reconciling", "True")].
Proof. exact generation_second. Qed.

(* the first listed true Reconciling / Stalled condition decides, whatever the
   kind and whatever the kind-specific fields say *)
Theorem C07_conditions : forall (j : jv) (w : bool) (cs : list bcond),
  no_deletion j -> gen_ok j -> get_object_with_conditions j = Some cs ->
  (first_true_std cs = Some "Reconciling" -> compute j w = Ok InProgress [("Reconciling", "True")]) /\
  (first_true_std cs = Some "Stalled" -> compute j w = Ok Failed [("Stalled", "True")]).
Proof. exact conditions_third. Qed.

(* only then the kind rule, or for kinds without one the Ready condition *)
Theorem C07_kind_rule_last : forall (j : jv) (w : bool) (cs : list bcond),
  no_deletion j -> gen_ok j -> get_object_with_conditions j = Some cs -> first_true_std cs = None ->
  no_generic j /\
  compute j w =
  match legacy_of_key (kind_key j) with
  | Some k => legacy_fn k j w
  | None => match ready_loop cs with Some o => o | None => current end
  end.
Proof. exact no_signal_kind_rule. Qed.

Theorem C07_ready : forall (j : jv) (w : bool) (cs : list bcond),
  legacy_of_key (kind_key j) = None ->
  no_deletion j -> gen_ok j -> get_object_with_conditions j = Some cs -> first_true_std cs = None ->
  (first_ready cs = Some "True" -> compute j w = Ok Current []) /\
  (first_ready cs = Some "False" \/ first_ready cs = Some "Unknown" ->
   compute j w = Ok InProgress [("Reconciling", "True")]) /\
  (first_ready cs = None -> compute j w = Ok Current []).
Proof. exact ready_fallback. Qed.

(* Augment touches nothing but status.conditions, and there only the entries
   whose type is the type of a result condition (same order for the rest) *)
Theorem C07_augment_frame : forall (j : jv) (w : bool) (t rsn msg : string) (j' : jv),
  augment j w t rsn msg = Some j' ->
  (forall k, k <> "status" -> top_field j' k = top_field j k) /\
  (forall k rest, k <> "conditions" ->
     nested_field j' ("status" :: k :: rest) = nested_field j ("status" :: k :: rest)) /\
  exists s rcs items',
    compute j w = Ok s rcs /\
    nested_slice j' ["status"; "conditions"] = Found items' /\
    filter (other_than (map fst rcs)) items' = filter (other_than (map fst rcs)) (items_of j).
Proof. exact augment_frame. Qed.

Theorem C07_augment_stable : forall (j : jv) (w : bool) (t rsn msg : string) (j' : jv),
  augment j w t rsn msg = Some j' -> status_of (compute j' w) = status_of (compute j w).
Proof. exact augment_stable. Qed.

(* the kind dispatch of the model is the legacyTypes table extracted from
   pkg/kstatus/status/core.go on this run (harness/cmd/gentables) *)
Theorem C07_dispatch_from_source : forall key,
  KStatus.legacy_of_key key =
  match assoc key src_legacy_types with Some fn => legacy_of_fn fn | None => None end.
Proof. exact legacy_dispatch_from_source. Qed.

Print Assumptions C07_terminating.
Print Assumptions C07_generation.
Print Assumptions C07_conditions.
Print Assumptions C07_kind_rule_last.
Print Assumptions C07_ready.
Print Assumptions C07_augment_frame.
Print Assumptions C07_augment_stable.

(* non-vacuity: a fully rolled-out Deployment whose first true standard
   condition is Stalled is Failed; augmenting a lagging Deployment inserts the
   Reconciling condition, keeps the foreign one, and the status is unchanged *)
Definition ex_deploy (conds : list jv) (ready : Z) : jv :=
  JObj [("apiVersion", JStr "apps/v1"); ("kind", JStr "Deployment");
        ("metadata", JObj [("generation", JInt 1)]);
        ("spec", JObj [("replicas", JInt 1)]);
        ("status", JObj [("observedGeneration", JInt 1); ("replicas", JInt 1); ("updatedReplicas", JInt 1);
                         ("readyReplicas", JInt ready); ("availableReplicas", JInt 1);
                         ("conditions", JArr conds)])].
Definition ex_cond (ty st : string) : jv := JObj [("type", JStr ty); ("status", JStr st)].

Example C07_ex_hyps :
  no_deletion (ex_deploy [ex_cond "Available" "True"; ex_cond "Stalled" "True"; ex_cond "Reconciling" "True"] 1) /\
  gen_ok (ex_deploy [ex_cond "Available" "True"; ex_cond "Stalled" "True"; ex_cond "Reconciling" "True"] 1) /\
  exists cs, get_object_with_conditions
               (ex_deploy [ex_cond "Available" "True"; ex_cond "Stalled" "True"; ex_cond "Reconciling" "True"] 1) = Some cs /\
             first_true_std cs = Some "Stalled".
Proof.
  split; [left; reflexivity|]. split; [right; exists 1%Z; split; [reflexivity|right; reflexivity]|].
  eexists. split; reflexivity.
Qed.
Example C07_ex_stalled_wins :
  compute (ex_deploy [ex_cond "Available" "True"; ex_cond "Stalled" "True"; ex_cond "Reconciling" "True"] 1) false
  = Ok Failed [("Stalled", "True")].
Proof. vm_compute. reflexivity. Qed.
Example C07_ex_augment :
  exists j', augment (ex_deploy [ex_cond "Available" "True"] 0) false "T" "LessReady" "m" = Some j' /\
             items_of j' = [ex_cond "Available" "True"; new_cond_item "Reconciling" "True" "LessReady" "m" "T"] /\
             compute j' false = Ok InProgress [("Reconciling", "True")].
Proof. eexists. split; [vm_compute; reflexivity|]. split; vm_compute; reflexivity. Qed.
Print Assumptions C07_dispatch_from_source.
