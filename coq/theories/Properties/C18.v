(* C18 — apply-time mutation changes exactly the targeted field, from the
   source value.  PARTIAL by design: the laws are proved over abstract JSON
   trees; the codec chain encoding/json -> ajson -> yaml.v3 is validated by
   the correspondence, not modelled.  The former defects (integers through
   float64, U+0085 folded, U+007F / C1 / U+FFFE / U+FFFF refused, implicit
   namespace self reference) are fixed in /repo; the statements below are at
   full strength and the former witnesses are corpus cases of the harness. *)
From Coq Require Import List Bool Arith ZArith String Ascii.
From CliUtils Require Import Base.StrReplace Model.JsonPath Model.Mutator
     Proofs.JsonPathProofs Proofs.MutatorProofs.
Import ListNotations.
Local Open Scope string_scope.

(* ---- pure tree layer: full strength, all trees, all paths ----------------- *)
Theorem C18_tree_get_put : forall p v t t',
  jput p v t = Some t' -> jget p t' = [v].
Proof. exact get_put. Qed.

Theorem C18_tree_frame : forall p v t t' q,
  jput p v t = Some t' -> prefix_related p q = false -> jget q t' = jget q t.
Proof. exact put_frame. Qed.

Theorem C18_tree_frame_blank : forall p v t t',
  jput p v t = Some t' -> blank p t' = blank p t.
Proof. exact blank_frame. Qed.

(* ---- jsonpath.Set / Get ---------------------------------------------------- *)
Theorem C18_get_set : forall p v t t',
  jset p v t = SetOk t' 1 -> jget_c p t' = GetOk [v].
Proof. exact get_set. Qed.

Theorem C18_frame : forall p v t t',
  jset p v t = SetOk t' 1 ->
  (forall q, prefix_related p q = false -> jget_c q t' = jget_c q t) /\
  blank p t' = blank p t.
Proof. exact frame. Qed.

Theorem C18_set_requires_one : forall p v t t' n,
  jset p v t = SetOk t' n ->
  n = List.length (jget p t) /\ n <= 1 /\ (n = 0 -> t' = t).
Proof. exact set_requires_one. Qed.

(* a path that selects one node and a value Set can carry: the write goes through *)
Theorem C18_set_succeeds : forall p v t x,
  p <> [] -> settable v = true -> jget p t = [x] -> exists t', jset p v t = SetOk t' 1.
Proof. exact set_succeeds. Qed.

(* ---- the mutator ------------------------------------------------------------- *)
Theorem C18_token : forall render e self sub t t',
  mutate_sub render e self sub t = inr t' ->
  exists src tval sval,
    get_object e (eff_ref e self (s_src sub)) = Some src /\
    read_field (s_tpath sub) t = Some tval /\
    read_field (s_spath sub) src = Some sval /\
    ((s_token sub = "" /\ write_field (s_tpath sub) sval t = Some t') \/
     (s_token sub <> "" /\ exists s, tval = TStr s /\
        write_field (s_tpath sub)
          (TStr (replace_all s (s_token sub) (value_to_string render sval))) t = Some t')).
Proof. exact token_law. Qed.

(* no mapping, resolved self reference, missing source, target path not matching
   exactly one node, source path not matching exactly one node, token with a
   non-string target: error, tree untouched, object not applied *)
Theorem C18_reject : forall render e self sub rest t,
  sub_refused e self sub t ->
  exists err,
    m_err (mutate render e self (ASubs (sub :: rest)) t) = Some err /\
    m_tree (mutate render e self (ASubs (sub :: rest)) t) = t /\
    apply_object render e self (ASubs (sub :: rest)) t = ApplyFailed err.
Proof. exact mutate_first_refused. Qed.

Theorem C18_reject_match_count : forall p t,
  List.length (jget p t) <> 1 -> read_field (MPath p) t = None.
Proof. exact read_field_none_matches. Qed.

Theorem C18_applied_only_if_all_ok : forall render e self subs t t',
  apply_object render e self (ASubs subs) t = Applied t' ->
  existsb (fun sub => ref_eqb self (s_src sub)) subs = false /\
  steps_ok render e self subs t t'.
Proof. exact applied_only_if_all_ok. Qed.

Theorem C18_failed_not_applied : forall render e self a t err,
  m_err (mutate render e self a t) = Some err ->
  apply_object render e self a t = ApplyFailed err.
Proof. exact failed_not_applied. Qed.

(* self references: the reference resolves to the target itself, whether the
   namespace was given or defaulted from the target *)
Theorem C18_reject_selfref : forall render e self sub rest t,
  self_ref e self sub = true ->
  exists err,
    m_err (mutate render e self (ASubs (sub :: rest)) t) = Some err /\
    m_tree (mutate render e self (ASubs (sub :: rest)) t) = t /\
    apply_object render e self (ASubs (sub :: rest)) t = ApplyFailed err.
Proof. exact selfref_rejected. Qed.

Definition w_scope (r : ref) : option bool := Some true.

(* ---- non-vacuity ---------------------------------------------------------------- *)
Definition ex_tree :=
  TObj [("metadata", TObj [("name", TStr "x")]);
        ("spec", TObj [("list", TArr [TInt 1; TStr "1"; TObj [("y", TStr "true")]]);
                       ("url", TStr "http://${ip}:${port}/${ip}")])].

Example C18_ex_set_big_int :
  exists t', jset [Key "spec"; Key "list"; Idx 0] (TInt 9007199254740993) ex_tree = SetOk t' 1 /\
             jget_c [Key "spec"; Key "list"; Idx 0] t' = GetOk [TInt 9007199254740993] /\
             jget_c [Key "spec"; Key "list"; Idx 1] t' = GetOk [TStr "1"].
Proof.
  eexists. split; [vm_compute; reflexivity|]. split; vm_compute; reflexivity.
Qed.

Definition ex_src := TObj [("status", TObj [("ip", TStr "10.0.0.7"); ("port", TInt 8080)])].
Definition ex_srcref := mkRef "" "Service" "svc" "ns".
Definition ex_env := mkEnv w_scope (fun _ => None)
                           (fun r => if ref_eqb r ex_srcref then Some ex_src else None).
Definition ex_self := mkRef "apps" "Deployment" "d" "ns".
Definition ex_subs :=
  [mkSub (mkRef "" "Service" "svc" "") (MPath [Key "status"; Key "ip"]) (MPath [Key "spec"; Key "url"]) "${ip}";
   mkSub ex_srcref (MPath [Key "status"; Key "port"]) (MPath [Key "spec"; Key "url"]) "${port}"].

Example C18_ex_token :
  exists t', apply_object (fun _ => "") ex_env ex_self (ASubs ex_subs) ex_tree = Applied t' /\
             jget [Key "spec"; Key "url"] t' = [TStr "http://10.0.0.7:8080/10.0.0.7"] /\
             blank [Key "spec"; Key "url"] t' = blank [Key "spec"; Key "url"] ex_tree.
Proof. eexists. split; [vm_compute; reflexivity|]. split; vm_compute; reflexivity. Qed.

Example C18_ex_reject :
  sub_refused ex_env ex_self
    (mkSub ex_srcref (MPath [Key "status"; Key "port"]) (MPath [Key "spec"; Key "list"]) "${port}") ex_tree.
Proof.
  right. right. right. right. right. split; [discriminate|].
  eexists. split; [vm_compute; reflexivity|]. intros s H; discriminate H.
Qed.

(* the former implicit-namespace witness is now refused *)
Definition w_self := mkRef "" "ConfigMap" "cm" "test".
Definition w_live := TObj [("data", TObj [("k", TStr "LIVE"); ("k2", TStr "old")])].
Definition w_env := mkEnv w_scope (fun r => if ref_eqb r w_self then Some (w_live, true) else None)
                          (fun _ => None).
Definition w_sub := mkSub (mkRef "" "ConfigMap" "cm" "") (MPath [Key "data"; Key "k"])
                          (MPath [Key "data"; Key "k2"]) "".
Example C18_ex_selfref_implicit :
  self_ref w_env w_self w_sub = true /\
  ref_eqb w_self (s_src w_sub) = false /\
  m_err (mutate (fun _ => "") w_env w_self (ASubs [w_sub]) w_live) = Some MESelfRef.
Proof. repeat split; vm_compute; reflexivity. Qed.

(* strings the text round trip used to damage are ordinary values *)
Example C18_ex_former_codec_witness :
  let s := TStr (String (Ascii.ascii_of_nat 194) (String (Ascii.ascii_of_nat 133) "x")) in
  exists t', jset [Key "t"] (TStr "new") (TObj [("sib", s); ("t", TStr "old")]) = SetOk t' 1 /\
             jget_c [Key "sib"] t' = GetOk [s].
Proof. eexists. split; vm_compute; reflexivity. Qed.

Print Assumptions C18_tree_get_put.
Print Assumptions C18_tree_frame.
Print Assumptions C18_tree_frame_blank.
Print Assumptions C18_get_set.
Print Assumptions C18_frame.
Print Assumptions C18_set_requires_one.
Print Assumptions C18_set_succeeds.
Print Assumptions C18_token.
Print Assumptions C18_reject.
Print Assumptions C18_reject_match_count.
Print Assumptions C18_applied_only_if_all_ok.
Print Assumptions C18_failed_not_applied.
Print Assumptions C18_reject_selfref.
Print Assumptions C18_ex_set_big_int.
Print Assumptions C18_ex_token.
Print Assumptions C18_ex_reject.
Print Assumptions C18_ex_selfref_implicit.
Print Assumptions C18_ex_former_codec_witness.
