(* C06 — reconcile success is reported only on fresh, matching status.
   Only statements; every proof is `exact <lemma>`.  The model is
   Model/WaitTask.v; `phase c t0 ca0 l` is the state and the chronological event
   log after Start followed by the inputs l from the initial state (actuation
   table t0, cache ca0 = whatever was observed before the phase started);
   `latest ca0 l` is the most recent observation of every object.  All
   statements are for every identifier type with a decidable equality, every
   condition, every list of task ids, every initial table and cache, and every
   finite list of inputs (Update of any object with any observation, Timeout,
   Cancel, in any order). *)
From Coq Require Import List Bool Arith NArith ZArith.
From CliUtils Require Import Model.ObjSet Model.ActuationTable Model.WaitTask
     Proofs.WaitTaskProofs Proofs.WaitTaskInvariants Proofs.WaitTaskPhase.
Import ListNotations.

Section C06.
  Variable A : Type.
  Variable eqb : A -> A -> bool.
  Hypothesis eqb_spec : forall x y, eqb x y = true <-> x = y.

  (* ---- 1. Successful only on a fresh, matching, latest observation ---------- *)
  (* at any step of any run (pre = everything before the step, Start included),
     judged against the table as it was before the phase *)
  Theorem C06_success_sound : forall ids c t0 ca0 (pre : list (input A)) x i,
    In (i, WSuccessful) (snd (step eqb c ids (fst (run eqb c ids (init t0 ca0) pre)) x)) ->
    cond_holds A eqb c t0 (latest A eqb ca0 (pre ++ [x])) i.
  Proof. exact (run_success_sound A eqb eqb_spec). Qed.

  (* the same from ANY state, against the state after the step *)
  Theorem C06_success_sound_step : forall c ids s x i,
    In (i, WSuccessful) (snd (step eqb c ids s x)) ->
    cond_holds A eqb c (st_table (fst (step eqb c ids s x))) (st_cache (fst (step eqb c ids s x))) i.
  Proof. exact (step_success_sound A eqb eqb_spec). Qed.

  (* as long as an object is reported reconciled, its latest observation
     satisfies the condition (in the exact form the task evaluates) *)
  Theorem C06_reconciled_now : forall ids c t0 ca0 l i,
    NoDup ids -> no_start l = true -> In i ids ->
    last_status eqb (snd (phase A eqb ids c t0 ca0 l)) i = Some WSuccessful ->
    cond_met A eqb c (st_table (fst (phase A eqb ids c t0 ca0 l))) (st_cache (fst (phase A eqb ids c t0 ca0 l))) i = true.
  Proof. exact (phase_reconciled_now A eqb eqb_spec). Qed.

  (* Pending and Failed are reported only while the condition does not hold *)
  Theorem C06_nonsuccess_sound : forall ids c s x i w,
    In (i, w) (snd (step eqb c ids s x)) -> w = WPending \/ w = WFailed ->
    cond_met A eqb c (st_table (fst (step eqb c ids s x))) (st_cache (fst (step eqb c ids s x))) i = false.
  Proof. exact (step_nonsuccess_sound A eqb eqb_spec). Qed.

  (* the evaluated condition and the wording of the property *)
  Theorem C06_cond_met_exact : forall c t ca i,
    cond_met A eqb c t ca i = true <-> cond_holds_exact A eqb c t ca i.
  Proof. exact (cond_met_spec A eqb). Qed.
  Theorem C06_cond_exact_holds : forall c t ca i,
    cond_holds_exact A eqb c t ca i -> cond_holds A eqb c t ca i.
  Proof. exact (cond_holds_exact_holds A eqb). Qed.
  Theorem C06_cond_delete_record : forall t ca i,
    applied_generation A eqb t i = 0%Z -> (0 <= cached_gen (ca i))%Z ->
    cond_holds A eqb AllNotFound t ca i -> cond_holds_exact A eqb AllNotFound t ca i.
  Proof. exact (cond_holds_exact_delete A eqb). Qed.

  (* ---- 2. completion --------------------------------------------------------- *)
  (* completion is signalled by a step other than Cancel / Timeout only when
     nothing is pending after it (from any state) *)
  Theorem C06_done_iff : forall c ids s x,
    st_done s = false -> st_done (fst (step eqb c ids s x)) = true ->
    x <> Cancel -> x <> Timeout -> st_pending (fst (step eqb c ids s x)) = [].
  Proof. exact (step_done A eqb eqb_spec). Qed.

  (* ... and it is signalled as soon as nothing is pending *)
  Theorem C06_done_complete : forall ids c t0 ca0 l,
    no_start l = true ->
    st_pending (fst (phase A eqb ids c t0 ca0 l)) = [] -> st_done (fst (phase A eqb ids c t0 ca0 l)) = true.
  Proof. exact (phase_done_complete A eqb eqb_spec). Qed.

  (* ---- 3. failed / skipped actuation => exactly one Skipped event, at Start -- *)
  Theorem C06_skipped : forall ids c t0 ca0 l i,
    NoDup ids -> no_start l = true -> In i ids -> skipped eqb c t0 i = true ->
    events_for A eqb i (snd (start eqb c ids (init t0 ca0))) = [(i, WSkipped)] /\
    events_for A eqb i (snd (phase A eqb ids c t0 ca0 l)) = [(i, WSkipped)].
  Proof. exact (phase_skipped A eqb eqb_spec). Qed.

  (* `skipped` covers every failed or skipped actuation of the strategy the
     phase waits for *)
  Theorem C06_skipped_actuation : forall c t i r,
    lookup eqb t i = Some r -> r_str r = strategy_of c -> (r_act r = AFailed \/ r_act r = ASkipped) ->
    skipped eqb c t i = true.
  Proof. exact (skipped_of_actuation A eqb). Qed.

  (* ---- 4. flapping ----------------------------------------------------------- *)
  (* reported failed, the condition holds on the new observation: Successful,
     and the object leaves both sets; reported reconciled, the condition no
     longer holds: reported Pending and pending again — Failed when an applied
     object was replaced *)
  Theorem C06_flapping : forall ids c t0 ca0 l i o,
    NoDup ids -> no_start l = true -> In i ids ->
    let s := fst (phase A eqb ids c t0 ca0 l) in
    let log := snd (phase A eqb ids c t0 ca0 l) in
    let s' := fst (step eqb c ids s (Update i o)) in
    let new := snd (step eqb c ids s (Update i o)) in
    let met := cond_met A eqb c (st_table s') (st_cache s') i in
    let chg := changed_uid eqb (st_table s') (st_cache s') i in
    (last_status eqb log i = Some WFailed -> met = true ->
       new = [(i, WSuccessful)] /\ ~ In i (st_pending s') /\ ~ In i (st_failed s')) /\
    (last_status eqb log i = Some WSuccessful -> met = false ->
       new = [(i, if is_current c && chg then WFailed else WPending)] /\
       (is_current c && chg = false -> In i (st_pending s'))).
  Proof. exact (phase_update_flapping A eqb eqb_spec). Qed.

  (* a pending object whose new observation satisfies the condition is
     reported reconciled by that very update (from any state) *)
  Theorem C06_pending_reconciles : forall ids c s i o,
    In i (st_pending s) ->
    cond_met A eqb c (st_table s) (cache_put eqb (st_cache s) i o) i = true ->
    snd (step eqb c ids s (Update i o)) = [(i, WSuccessful)].
  Proof. exact (step_pending_reconciles A eqb eqb_spec). Qed.

  (* ---- 5. timeout -------------------------------------------------------------- *)
  Theorem C06_timeout_exact : forall c ids s,
    (st_done s = false ->
       snd (step eqb c ids s Timeout) = map (fun i => (i, WTimeout)) (st_pending s) /\
       st_pending (fst (step eqb c ids s Timeout)) = st_pending s /\
       st_done (fst (step eqb c ids s Timeout)) = true) /\
    (st_done s = true -> step eqb c ids s Timeout = (s, [])).
  Proof. exact (step_timeout A eqb). Qed.

  (* the pending set is exactly the objects last reported Pending (or Timeout) *)
  Theorem C06_pending_exact : forall ids c t0 ca0 l i,
    NoDup ids -> no_start l = true ->
    (In i (st_pending (fst (phase A eqb ids c t0 ca0 l))) <->
     In i ids /\ (last_status eqb (snd (phase A eqb ids c t0 ca0 l)) i = Some WPending \/
                  last_status eqb (snd (phase A eqb ids c t0 ca0 l)) i = Some WTimeout)).
  Proof. exact (phase_pending_char A eqb eqb_spec). Qed.

  (* ---- 6. recorded reconcile status = last event ----------------------------- *)
  Theorem C06_last_event : forall ids c t0 ca0 l i,
    no_start l = true -> In i ids ->
    last_status eqb (snd (phase A eqb ids c t0 ca0 l)) i <> None /\
    forall r, lookup eqb (st_table (fst (phase A eqb ids c t0 ca0 l))) i = Some r ->
      exists w, last_status eqb (snd (phase A eqb ids c t0 ca0 l)) i = Some w /\ r_rec r = rec_of w.
  Proof. exact (phase_last_event A eqb eqb_spec). Qed.

  (* events are emitted for objects of the task only, and nothing but the
     reconcile field of the table is ever written *)
  Theorem C06_events_of_task : forall ids c t0 ca0 l i w,
    no_start l = true -> In (i, w) (snd (phase A eqb ids c t0 ca0 l)) -> In i ids.
  Proof. exact (phase_events_ids A eqb eqb_spec). Qed.
  Theorem C06_frame : forall ids c l s,
    same_act A eqb (st_table s) (st_table (fst (run eqb c ids s l))).
  Proof. exact (run_same_act A eqb eqb_spec). Qed.

  (* ---- 7. state invariant ------------------------------------------------------ *)
  Theorem C06_state_invariant : forall ids c t0 ca0 l,
    NoDup ids -> no_start l = true ->
    let s := fst (phase A eqb ids c t0 ca0 l) in
    NoDup (st_pending s) /\ NoDup (st_failed s) /\
    (forall i, In i (st_pending s) -> ~ In i (st_failed s)) /\
    (forall i, In i (st_pending s) -> In i ids) /\ (forall i, In i (st_failed s) -> In i ids) /\
    (forall i, In i (st_pending s) \/ In i (st_failed s) -> skipped eqb c (st_table s) i = false).
  Proof. exact (phase_state_invariant A eqb eqb_spec). Qed.
End C06.

(* ---- non-vacuity: concrete phases reach every clause --------------------------- *)
Definition ex_table : table nat :=
  [mkRec 0 SApply ASucceeded RPending 10%N 1%Z; mkRec 1 SApply ASucceeded RPending 11%N 1%Z;
   mkRec 2 SApply AFailed RPending 0%N 0%Z].
Definition ex_cur (u : N) (g : Z) : cobs := mkObs KCurrent true u g.

(* the witnesses of the three repaired defects: a replaced object is never
   reported reconciled in an apply phase *)
Example C06_witness_failed_then_replaced :
  snd (run Nat.eqb AllCurrent [0] (init ex_table cache_empty)
           [Start; Update 0 (mkObs KFailed true 10%N 1%Z); Update 0 (ex_cur 20%N 1%Z)])
  = [[(0, WPending)]; [(0, WFailed)]; [(0, WFailed)]].
Proof. vm_compute. reflexivity. Qed.

Example C06_witness_reconciled_then_replaced :
  snd (run Nat.eqb AllCurrent [0; 1] (init ex_table cache_empty)
           [Start; Update 0 (ex_cur 10%N 1%Z); Update 0 (ex_cur 20%N 1%Z); Update 0 (ex_cur 10%N 1%Z)])
  = [[(0, WPending); (1, WPending)]; [(0, WSuccessful)]; [(0, WFailed)]; [(0, WSuccessful)]].
Proof. vm_compute. reflexivity. Qed.

Example C06_witness_recreated_stays_reconciled :
  snd (run Nat.eqb AllNotFound [0] (init [mkRec 0 SDelete ASucceeded RPending 10%N 0%Z] cache_empty)
           [Start; Update 0 (ex_cur 20%N 1%Z); Update 0 (ex_cur 20%N 1%Z)])
  = [[(0, WPending)]; [(0, WSuccessful)]; []].
Proof. vm_compute. reflexivity. Qed.

(* the hypotheses of C06_flapping, C06_skipped, C06_timeout_exact and
   C06_last_event are satisfiable together *)
Example C06_nonvacuous :
  let ids := [0; 1; 2] in
  let l := [Update 0 (mkObs KFailed true 10%N 1%Z); Update 1 (ex_cur 11%N 1%Z)] in
  let p := phase nat Nat.eqb ids AllCurrent ex_table cache_empty l in
  NoDup ids /\ no_start l = true /\ skipped Nat.eqb AllCurrent ex_table 2 = true /\
  last_status Nat.eqb (snd p) 0 = Some WFailed /\
  last_status Nat.eqb (snd p) 1 = Some WSuccessful /\
  st_done (fst p) = true /\
  cond_met nat Nat.eqb AllCurrent (st_table (fst p)) (cache_put Nat.eqb (st_cache (fst p)) 0 (ex_cur 10%N 2%Z)) 0 = true /\
  snd (step Nat.eqb AllCurrent ids (fst p) (Update 0 (ex_cur 10%N 2%Z))) = [(0, WSuccessful)] /\
  snd (step Nat.eqb AllCurrent ids (fst p) (Update 1 (mkObs KInProgress true 11%N 2%Z))) = [(1, WPending)] /\
  snd (phase nat Nat.eqb ids AllCurrent ex_table cache_empty [Update 1 (ex_cur 11%N 0%Z); Timeout])
    = [(0, WPending); (1, WPending); (2, WSkipped); (0, WTimeout); (1, WTimeout)].
Proof.
  vm_compute. repeat split; try reflexivity.
  repeat constructor; cbn; intuition discriminate.
Qed.

Print Assumptions C06_success_sound.
Print Assumptions C06_success_sound_step.
Print Assumptions C06_reconciled_now.
Print Assumptions C06_nonsuccess_sound.
Print Assumptions C06_cond_met_exact.
Print Assumptions C06_cond_exact_holds.
Print Assumptions C06_cond_delete_record.
Print Assumptions C06_done_iff.
Print Assumptions C06_done_complete.
Print Assumptions C06_skipped.
Print Assumptions C06_skipped_actuation.
Print Assumptions C06_flapping.
Print Assumptions C06_pending_reconciles.
Print Assumptions C06_timeout_exact.
Print Assumptions C06_pending_exact.
Print Assumptions C06_last_event.
Print Assumptions C06_events_of_task.
Print Assumptions C06_frame.
Print Assumptions C06_state_invariant.

(* ---- C06 seen through the whole pipeline: the monitor `mon_C06p` of the correspondence harness ----
   `mon_C06p` (Corr/CorrPipeline.v) states on a whole Applier/Destroyer run, where the actuation
   records come from the real apply / prune tasks: (1) a wait event of an object is Skipped exactly
   when the last apply / prune result event of the object before it is Failed or Skipped; (2) after a
   Skipped or timed-out wait event no further wait event of the object occurs, a Successful wait
   event is never followed by another Successful one and a Pending one never by another Pending one.
   - `C06_pipeline_monitor`: it holds of every run of the model (Model/Pipeline.v);
   - `C06_pipeline_final_state`: the reconcile field of every record of the final actuation table
     is the status of the last wait event of its object in the trace (Pending if there is none) —
     `C06_last_event` at pipeline level.
   Hypothesis of both: `locals_nodup sc`, the first clause of WF (Properties/C01.v: an apply set
   names each object once); `C06_pipeline_monitor_needs_nodup`: a manifest id given twice is
   reported twice by its wait group and the monitor is false.
   Remark.  The strict variant `mon_C06p_strict` (= `c06_walk_gen true`; `mon_C06p` is
   `c06_walk_gen false`, `C06_pipeline_monitor_walk`) also forbids Failed after Failed.  The wait task
   does send Failed twice in a row when an object of the failed set is seen with a replaced UID while
   another object is still pending (the failed-set branch of StatusUpdate calls handleChangedUID;
   compare `C06_witness_failed_then_replaced` above) and in no other way:
   `C06_pipeline_strict_walk_calm` — the strict walk holds when no status delivery of the wait
   schedules reports Failed, or none carries a UID (`calm_deliv`); `C06_pipeline_strict_walk_needs_calm`
   — a well-formed scenario outside `calm_deliv` on which it is false. *)
From CliUtils Require Import Model.PipelineTypes Model.Pipeline Corr.CorrPipeline Proofs.PipelineBase
     Proofs.PipelineOrphansRun Proofs.PipelineMonBase Proofs.PipelineMonPack Proofs.PipelineMonC03a
     Proofs.PipelineMonC06pDefs Proofs.PipelineMonC06p.

Theorem C06_pipeline_monitor : forall sc c0, locals_nodup sc -> mon_C06p sc c0 (run sc c0) = true.
Proof. exact monitor_C06p. Qed.

Theorem C06_pipeline_monitor_wf : forall sc c0, WF sc c0 -> mon_C06p sc c0 (run sc c0) = true.
Proof. intros sc c0 W. exact (monitor_C06p sc c0 (WF_locals_nodup sc c0 W)). Qed.

Theorem C06_pipeline_final_state : forall sc c0, locals_nodup sc ->
  forall j r, lookup Nat.eqb (r_tbl (run_state sc c0)) j = Some r ->
    r_rec r = rof (last_wait (out_trace (run sc c0)) j).
Proof. exact C06p_final_state_is_last_wait_event. Qed.

Theorem C06_pipeline_monitor_needs_nodup :
  exists sc c0, ~ locals_nodup sc /\ mon_C06p sc c0 (run sc c0) = false.
Proof. exact monitor_C06p_needs_nodup. Qed.

(* remark: the strict walk *)
Theorem C06_pipeline_monitor_walk : forall sc c0 out,
  mon_C06p sc c0 out = c06_walk_gen false [] (out_trace out).
Proof. exact mon_C06p_walk. Qed.
Theorem C06_pipeline_strict_walk_stronger : forall sc c0 out,
  mon_C06p_strict sc c0 out = true -> mon_C06p sc c0 out = true.
Proof. exact mon_C06p_strict_weaker. Qed.
Theorem C06_pipeline_strict_walk_calm : forall sc c0,
  locals_nodup sc -> calm_deliv sc -> mon_C06p_strict sc c0 (run sc c0) = true.
Proof. exact strict_walk_calm. Qed.
Theorem C06_pipeline_strict_walk_needs_calm :
  exists sc c0, WF sc c0 /\ mon_C06p_strict sc c0 (run sc c0) = false /\ mon_C06p sc c0 (run sc c0) = true.
Proof. exact strict_walk_needs_calm. Qed.

(* non-vacuity: the apply of object 0 is rejected, object 1 is applied and becomes Current; the
   wait group reports 0 Skipped and 1 Pending then Successful; the hypotheses hold, the monitor
   (and its strict variant) accepts the run, the final records read Skipped and Successful *)
Example C06_pipeline_nonvacuous :
  let univ := [mkU KPlain None None; mkU KPlain None None] in
  let o := mkO false true PMustMatch DNone VSkipInvalid false true true false PropBackground false in
  let env := mkE [FApply 0] [mkW [mkS 1 SInProgress true 1%N 2%Z; mkS 1 SCurrent true 1%N 2%Z] WTimeout] CNever None in
  let sc := mkSc univ None [mkL 0 [] false false false 1; mkL 1 [] false false false 1] o env in
  let c0 := mkCl [] None 1%N in
  WF sc c0 /\ locals_nodup sc /\ calm_deliv sc /\
  flat_map (fun it => match it with
                      | IEv (EApply g i s) => [EApply g i s]
                      | IEv (EWait g i s) => [EWait g i s]
                      | _ => [] end) (out_trace (run sc c0)) =
  [EApply (GApply, 0) 0 AFail; EApply (GApply, 0) 1 AOk;
   EWait (GWait, 0) 0 WSkipped; EWait (GWait, 0) 1 WPending; EWait (GWait, 0) 1 WOk] /\
  mon_C06p sc c0 (run sc c0) = true /\ mon_C06p_strict sc c0 (run sc c0) = true /\
  option_map (@r_rec nat) (lookup Nat.eqb (r_tbl (run_state sc c0)) 0) = Some RSkipped /\
  option_map (@r_rec nat) (lookup Nat.eqb (r_tbl (run_state sc c0)) 1) = Some RSucceeded.
Proof.
  cbv zeta.
  assert (W : WF (mkSc [mkU KPlain None None; mkU KPlain None None] None
                       [mkL 0 [] false false false 1; mkL 1 [] false false false 1]
                       (mkO false true PMustMatch DNone VSkipInvalid false true true false PropBackground false)
                       (mkE [FApply 0] [mkW [mkS 1 SInProgress true 1%N 2%Z; mkS 1 SCurrent true 1%N 2%Z] WTimeout] CNever None))
                (mkCl [] None 1%N)) by (apply wf_b_spec; vm_compute; reflexivity).
  split; [exact W|]. split; [exact (WF_locals_nodup _ _ W)|]. split.
  - left. intros w d [<-|[]] [<-|[<-|[]]]; discriminate.
  - vm_compute. repeat split; reflexivity.
Qed.

Print Assumptions C06_pipeline_monitor.
Print Assumptions C06_pipeline_monitor_wf.
Print Assumptions C06_pipeline_final_state.
Print Assumptions C06_pipeline_monitor_needs_nodup.
Print Assumptions C06_pipeline_monitor_walk.
Print Assumptions C06_pipeline_strict_walk_stronger.
Print Assumptions C06_pipeline_strict_walk_calm.
Print Assumptions C06_pipeline_strict_walk_needs_calm.
Print Assumptions C06_pipeline_nonvacuous.
