(* C14 — the dependency sort is a correct, deterministic, minimal layering and
   reports cycles exactly.  Only statements; every proof is `exact <lemma>`.

   Part 1: Graph.Sort on the graph built by AddVertex/AddEdge from ANY vertex
           list `vs` and ANY edge list `es` (duplicates, self-loops, edges to
           vertices never added explicitly), for any vertex type with a
           decidable equality and a strict total order.
   Part 2: SortObjs / ReverseSortObjs on object lists (ids with their
           depends-on annotation, the source references of their
           apply-time-mutation annotation and their CRD payload): all four
           edge passes of DependencyGraph; ordering.less on ids. *)
From Coq Require Import List Bool Arith Permutation Sorting.Sorted String.
From CliUtils Require Import Model.ObjSet Model.ObjId Model.Graph Model.DepGraph
     Proofs.ObjIdProofs Proofs.GraphProofs Proofs.DepGraphProofs Proofs.C14Proofs.
From CliUtils Require Import Generated.SourceTables Proofs.SourceTablesAgree.
Import ListNotations.

Section C14_graph.
  Variable V : Type.
  Variable eqb : V -> V -> bool.
  Hypothesis eqb_spec : forall x y, eqb x y = true <-> x = y.
  Variable ltb : V -> V -> bool.   (* the order used inside a layer *)
  Hypothesis ltb_irrefl : forall x, ltb x x = false.
  Hypothesis ltb_trans : forall x y z, ltb x y = true -> ltb y z = true -> ltb x z = true.
  Hypothesis ltb_total : forall x y, x <> y -> ltb x y = true \/ ltb y x = true.

  Notation sort := (sort eqb ltb).
  Notation build := (build eqb).
  Notation vertex := (vertex V).
  Notation edge := (edge V).
  Notation err_ids := (err_ids V).

  (* the loop of Graph.Sort terminates within its fuel: Sort always answers *)
  Theorem C14_total : forall vs es, exists layers err, sort (build vs es) = Some (layers, err).
  Proof. exact (build_total V eqb eqb_spec ltb). Qed.

  (* layers ++ the ids named by the cycle error = the vertices, each once;
     no layer is empty *)
  Theorem C14_partition : forall vs es layers err,
    sort (build vs es) = Some (layers, err) ->
    NoDup (List.concat layers ++ err_ids err)
    /\ (forall x, In x (List.concat layers ++ err_ids err) <-> vertex vs es x)
    /\ Forall (fun l => l <> []) layers.
  Proof. exact (build_partition V eqb eqb_spec ltb). Qed.

  (* every dependency of an object lies in a strictly earlier layer *)
  Theorem C14_order : forall vs es layers err,
    sort (build vs es) = Some (layers, err) ->
    forall i v w, In v (nth i layers []) -> edge es v w ->
                  exists j, j < i /\ In w (nth j layers []).
  Proof. exact (build_order V eqb eqb_spec ltb). Qed.

  (* earliest layer: an object of layer i+1 has a dependency in layer i *)
  Theorem C14_minimal : forall vs es layers err,
    sort (build vs es) = Some (layers, err) ->
    forall i v, In v (nth (S i) layers []) ->
                exists w, edge es v w /\ In w (nth i layers []).
  Proof. exact (build_minimal V eqb eqb_spec ltb). Qed.

  (* the error names exactly the vertices that lie on a cycle or transitively
     depend on one (reaches_cycle E v := exists u, reach E v u /\ reach_plus E u u);
     there is an error exactly when such a vertex exists *)
  Theorem C14_cycles : forall vs es layers err,
    sort (build vs es) = Some (layers, err) ->
    (forall v, In v (err_ids err) <-> reaches_cycle (edge es) v)
    /\ (err = None <-> forall v, ~ reaches_cycle (edge es) v).
  Proof. exact (build_cycles V eqb eqb_spec ltb). Qed.

  (* the edges listed by the error are exactly the edges among the named ids *)
  Theorem C14_cycle_edges : forall vs es layers ids ees,
    sort (build vs es) = Some (layers, Some (ids, ees)) ->
    forall v w, In (v, w) ees <-> edge es v w /\ In v ids /\ In w ids.
  Proof. exact (build_err_edges V eqb eqb_spec ltb). Qed.

  (* same vertex set and same edge relation, presented in any order with any
     repetitions: identical layers once each layer is put in the documented
     order (as lists), identical error ids (as lists), identical hydrated sets *)
  Theorem C14_perm_inv : forall vs es vs' es' layers err layers' err',
    (forall x, vertex vs es x <-> vertex vs' es' x) ->
    (forall v w, edge es v w <-> edge es' v w) ->
    sort (build vs es) = Some (layers, err) ->
    sort (build vs' es') = Some (layers', err') ->
    map (isort ltb) layers = map (isort ltb) layers'
    /\ option_map fst err = option_map fst err'
    /\ forall ids, hydrate eqb ltb layers ids = hydrate eqb ltb layers' ids.
  Proof. exact (build_perm_inv V eqb eqb_spec ltb ltb_irrefl ltb_trans ltb_total). Qed.

  (* every hydrated set, and the id list of the error, is strictly increasing *)
  Theorem C14_layer_order : forall vs es layers err ids,
    sort (build vs es) = Some (layers, err) ->
    Forall (StronglySorted (lt V ltb)) (hydrate eqb ltb layers ids)
    /\ StronglySorted (lt V ltb) (err_ids err).
  Proof. exact (build_layer_order V eqb eqb_spec ltb ltb_trans ltb_total). Qed.

  (* HydrateSetList keeps, layer by layer and in layer order, exactly the
     members that belong to the given object set; empty results are dropped *)
  Theorem C14_hydrate : forall (layers : list (list V)) ids,
    Forall2 (set_eq V) (hydrate eqb ltb layers ids)
            (filter (fun l => negb (is_nil l))
                    (map (filter (fun v => mem eqb v ids)) layers)).
  Proof. exact (hydrate_spec V eqb ltb). Qed.

  (* ReverseSetList: layers in reverse order, each layer reversed *)
  Theorem C14_reverse : forall l : list (list V),
    reverse_set_list l = rev (map (@rev V) l).
  Proof. exact (reverse_set_list_spec V). Qed.
End C14_graph.

(* ---- ordering.less ------------------------------------------------------- *)
(* it is the lexicographic order on (kind index, group, kind, namespace, name),
   a strict total order on ids *)
Theorem C14_less_lex : forall a b, id_ltb a b = true <-> id_cmp a b = Lt.
Proof. exact id_ltb_lex. Qed.

Theorem C14_less_strict_total :
  (forall a, id_ltb a a = false)
  /\ (forall a b c, id_ltb a b = true -> id_ltb b c = true -> id_ltb a c = true)
  /\ (forall a b, a <> b -> id_ltb a b = true \/ id_ltb b a = true).
Proof. exact (conj id_ltb_irrefl (conj id_ltb_trans id_ltb_total)). Qed.

(* ---- SortObjs ------------------------------------------------------------ *)
Theorem C14_objs_total : forall objs, exists s, id_sort_objs objs = Some s.
Proof. exact (sort_objs_total id id_eqb id_eqb_spec id_ltb (fun x => x)). Qed.

Theorem C14_objs_partition : forall objs s,
  id_sort_objs objs = Some s ->
  NoDup (List.concat (s_sets s) ++ cyc_ids id s)
  /\ (forall x, In x (List.concat (s_sets s) ++ cyc_ids id s) <-> In x (map oid objs))
  /\ Forall (fun l => l <> []) (s_sets s).
Proof. exact (objs_partition id id_eqb id_eqb_spec id_ltb (fun x => x)). Qed.

Theorem C14_objs_order : forall objs s,
  id_sort_objs objs = Some s ->
  forall i v w, In v (nth i (s_sets s) []) -> id_dep_rel objs v w ->
                exists j, j < i /\ In w (nth j (s_sets s) []).
Proof. exact (objs_order id id_eqb id_eqb_spec id_ltb (fun x => x)). Qed.

Theorem C14_objs_minimal : forall objs s,
  id_sort_objs objs = Some s ->
  forall i v, In v (nth (S i) (s_sets s) []) ->
              exists w, id_dep_rel objs v w /\ In w (nth i (s_sets s) []).
Proof. exact (objs_minimal id id_eqb id_eqb_spec id_ltb (fun x => x)). Qed.

Theorem C14_objs_cycles : forall objs s,
  id_sort_objs objs = Some s ->
  forall v, In v (cyc_ids id s) <-> reaches_cycle (id_dep_rel objs) v.
Proof. exact (objs_cycles id id_eqb id_eqb_spec id_ltb (fun x => x)). Qed.

(* an explicit reference to an object of the set is part of the relation *)
Theorem C14_objs_explicit : forall objs (o : obj id) l w,
  In o objs -> odeps o = Deps l -> In w l -> In w (map oid objs) -> id_dep_rel objs (oid o) w.
Proof. exact (dep_rel_explicit id id_eqb id_eqb_spec (fun x => x)). Qed.

(* a mutation source that is an object of the set is part of the relation *)
Theorem C14_objs_mutation : forall objs (o : obj id) l w,
  In o objs -> omuts o = Muts l -> In w l -> In w (map oid objs) -> id_dep_rel objs (oid o) w.
Proof. exact (dep_rel_mutation id id_eqb id_eqb_spec (fun x => x)). Qed.

(* the relation in full: CRD edge, namespace edge, depends-on reference inside
   the set, apply-time-mutation source inside the set — nothing else *)
Theorem C14_objs_dep_rel_char : forall objs v w,
  id_dep_rel objs v w <->
  (exists o, In o objs /\ oid o = v /\
             In w (crd_lookup (fun x => x) objs (gk_string (grp v) (knd v))))
  \/ (exists o, In o objs /\ oid o = v /\ ns v <> EmptyString /\
                In w (ns_lookup (fun x => x) objs (ns v)))
  \/ (exists o l, In o objs /\ oid o = v /\ odeps o = Deps l /\ In w l /\ In w (map oid objs))
  \/ (exists o l, In o objs /\ oid o = v /\ omuts o = Muts l /\ In w l /\ In w (map oid objs)).
Proof. exact (dep_rel_char id id_eqb id_eqb_spec (fun x => x)). Qed.

(* the annotation errors: an id is reported iff an object with that id has
     a depends-on annotation that is unparseable, names a reference twice or
       names an object outside the set              (id_dep_annot_bad), or
     an apply-time-mutation annotation that is unparseable or names a source
       outside the set — a repeated source is accepted   (id_mut_annot_bad) *)
Theorem C14_objs_bad : forall objs s,
  id_sort_objs objs = Some s ->
  forall v, In v (s_bad s) <->
            exists o, In o objs /\ oid o = v /\
                      (id_dep_annot_bad objs o \/ id_mut_annot_bad objs o).
Proof. exact (objs_bad id id_eqb id_eqb_spec id_ltb (fun x => x)). Qed.

(* reported pass by pass: the objects rejected by addDependsOnEdges, then the
   objects rejected by addApplyTimeMutationEdges, each in object order *)
Theorem C14_objs_bad_passes : forall objs s,
  id_sort_objs objs = Some s ->
  s_bad s = depends_on_errors id_eqb objs ++ mutation_errors id_eqb objs
  /\ (forall v, In v (depends_on_errors id_eqb objs) <->
                exists o, In o objs /\ oid o = v /\ id_dep_annot_bad objs o)
  /\ (forall v, In v (mutation_errors id_eqb objs) <->
                exists o, In o objs /\ oid o = v /\ id_mut_annot_bad objs o).
Proof. exact (objs_bad_passes id id_eqb id_eqb_spec id_ltb (fun x => x)). Qed.

Theorem C14_objs_no_bad : forall objs s,
  id_sort_objs objs = Some s ->
  (s_bad s = [] <->
   forall o, In o objs -> ~ id_dep_annot_bad objs o /\ ~ id_mut_annot_bad objs o).
Proof. exact (objs_no_bad id id_eqb id_eqb_spec id_ltb (fun x => x)). Qed.

(* the set of reported ids does not depend on the order of the object list *)
Theorem C14_objs_bad_perm : forall objs objs' s s',
  Permutation objs objs' ->
  id_sort_objs objs = Some s -> id_sort_objs objs' = Some s' ->
  forall v, In v (s_bad s) <-> In v (s_bad s').
Proof. exact (objs_bad_perm id id_eqb id_eqb_spec id_ltb (fun x => x)). Qed.

Theorem C14_objs_layer_order : forall objs s,
  id_sort_objs objs = Some s ->
  Forall (StronglySorted id_lt) (s_sets s) /\ StronglySorted id_lt (cyc_ids id s).
Proof. exact (objs_layer_sorted id id_eqb id_eqb_spec id_ltb id_ltb_trans id_ltb_total (fun x => x)). Qed.

(* permutation invariance of SortObjs: any permutation of the object list gives
   the same apply sets and the same error ids, as lists.  No hypothesis on the
   objects: every provider of an implicit dependency (all CRDs defining the
   group/kind, all Namespace-kind objects of that name) gets an edge. *)
Theorem C14_objs_perm_inv : forall objs objs' s s',
  Permutation objs objs' ->
  id_sort_objs objs = Some s -> id_sort_objs objs' = Some s' ->
  s_sets s = s_sets s' /\ s_cyc s = s_cyc s'.
Proof.
  exact (objs_perm_inv id id_eqb id_eqb_spec id_ltb id_ltb_irrefl id_ltb_trans id_ltb_total (fun x => x)).
Qed.

(* ---- ReverseSortObjs ----------------------------------------------------- *)
(* the delete order is the exact reverse of the apply order, with or without an
   error; the error information is the same *)
Theorem C14_reverse_objs : forall objs s,
  id_sort_objs objs = Some s ->
  id_reverse_sort_objs objs =
  Some (mkSorted (rev (map (@rev id) (s_sets s))) (s_cyc s) (s_bad s)).
Proof. exact (reverse_objs_spec id id_eqb id_ltb (fun x => x)). Qed.

(* former witnesses (defects fixed in c9e572e / e20796b), kept as regressions *)
Definition crdA := mkId "apiextensions.k8s.io" "CustomResourceDefinition" "" "a.example.com".
Definition crdB := mkId "apiextensions.k8s.io" "CustomResourceDefinition" "" "b.example.com".
Definition cmX := mkId "" "ConfigMap" "default" "cm".
Definition crX := mkId "example.com" "Foo" "default" "cr".
Definition amb1 : list (obj id) :=
  [mkObj crdA (Deps [cmX]) NoMut (Some ("example.com", "Foo")%string);
   mkObj crdB NoAnnot NoMut (Some ("example.com", "Foo")%string);
   mkObj cmX NoAnnot NoMut None; mkObj crX NoAnnot NoMut None].
Definition amb2 : list (obj id) :=
  [mkObj crdB NoAnnot NoMut (Some ("example.com", "Foo")%string);
   mkObj crdA (Deps [cmX]) NoMut (Some ("example.com", "Foo")%string);
   mkObj cmX NoAnnot NoMut None; mkObj crX NoAnnot NoMut None].
(* two CRDs define Foo: the custom resource comes after both, in either order *)
Example C14_example_two_providers :
  id_sort_objs amb1 = Some (mkSorted [[crdB; cmX]; [crdA]; [crX]] None [])
  /\ id_sort_objs amb2 = id_sort_objs amb1.
Proof. split; vm_compute; reflexivity. Qed.

Definition rvA := mkId "" "ConfigMap" "default" "a".
Definition rvB := mkId "" "ConfigMap" "default" "b".
Definition rvC := mkId "" "ConfigMap" "default" "c".
Definition rvD := mkId "" "ConfigMap" "default" "d".
Definition rv_objs : list (obj id) :=
  [mkObj rvA (Deps [rvB]) NoMut None; mkObj rvB (Deps [rvA]) NoMut None;
   mkObj rvC NoAnnot NoMut None; mkObj rvD (Deps [rvC]) NoMut None].
(* a cycle is reported and the sortable part is still reversed *)
Example C14_example_reverse_with_cycle :
  id_reverse_sort_objs rv_objs = Some (mkSorted [[rvD]; [rvC]] (Some [rvA; rvB]) []).
Proof. vm_compute. reflexivity. Qed.

(* ---- non-vacuity ---------------------------------------------------------- *)
(* a 6-vertex graph with a diamond, a 2-cycle, a vertex depending on the cycle
   and a self-loop: three layers and a four-vertex error *)
Example C14_example_graph :
  sort Nat.eqb Nat.ltb (build Nat.eqb [0; 1; 2; 3; 4; 5; 6; 7]
                              [(3, 1); (3, 2); (1, 0); (2, 0); (4, 5); (5, 4); (6, 4); (6, 0); (7, 7)])
  = Some ([[0]; [1; 2]; [3]], Some ([4; 5; 6; 7], [(4, 5); (5, 4); (6, 4); (7, 7)])).
Proof. vm_compute. reflexivity. Qed.

(* SortObjs on the cyclic object set above: c before d, {a, b} reported *)
Example C14_example_objs :
  id_sort_objs rv_objs = Some (mkSorted [[rvC]; [rvD]] (Some [rvA; rvB]) []).
Proof. vm_compute. reflexivity. Qed.

(* an unambiguous object list with implicit namespace and CRD edges *)
Definition nsX := mkId "" "Namespace" "" "default".
Definition crdF := mkId "apiextensions.k8s.io" "CustomResourceDefinition" "" "foos.example.com".
Definition ex_objs : list (obj id) :=
  [mkObj crX (Deps [cmX]) NoMut None; mkObj cmX NoAnnot NoMut None; mkObj nsX NoAnnot NoMut None;
   mkObj crdF NoAnnot NoMut (Some ("example.com", "Foo")%string)].
Example C14_example_implicit :
  id_sort_objs ex_objs = Some (mkSorted [[nsX; crdF]; [cmX]; [crX]] None []).
Proof. vm_compute. reflexivity. Qed.

(* both annotation kinds, on different objects:
     a  depends-on [b]                          -> edge a -> b
     c  mutation sources [b; b; a]              -> edges c -> b, c -> a; the
                                                   repeated source is no error
     d  depends-on [b] and mutation source [b]  -> one edge through two passes
     e  depends-on [b; b]                       -> rejected (duplicate), edge e -> b kept
     f  mutation sources [b; x], x not in the set -> rejected (external), edge f -> b kept
     g  unparseable mutation annotation         -> rejected, no edge
     h  unparseable depends-on annotation and external mutation source
                                                -> rejected by both passes
   reported: depends-on pass [e; h], then mutation pass [f; g; h] *)
Definition muA := mkId "" "ConfigMap" "default" "a".
Definition muB := mkId "" "ConfigMap" "default" "b".
Definition muC := mkId "" "ConfigMap" "default" "c".
Definition muD := mkId "" "ConfigMap" "default" "d".
Definition muE := mkId "" "ConfigMap" "default" "e".
Definition muF := mkId "" "ConfigMap" "default" "f".
Definition muG := mkId "" "ConfigMap" "default" "g".
Definition muH := mkId "" "ConfigMap" "default" "h".
Definition muX := mkId "" "ConfigMap" "default" "x".
Definition mu_objs : list (obj id) :=
  [mkObj muH BadAnnot (Muts [muX]) None;
   mkObj muG NoAnnot BadMut None;
   mkObj muF NoAnnot (Muts [muB; muX]) None;
   mkObj muE (Deps [muB; muB]) NoMut None;
   mkObj muD (Deps [muB]) (Muts [muB]) None;
   mkObj muC NoAnnot (Muts [muB; muB; muA]) None;
   mkObj muB NoAnnot NoMut None;
   mkObj muA (Deps [muB]) NoMut None].
Example C14_example_mutation :
  id_sort_objs mu_objs
  = Some (mkSorted [[muB; muG; muH]; [muA; muD; muE; muF]; [muC]] None [muH; muE; muH; muG; muF])
  /\ all_edges id_eqb (fun x => x) mu_objs
     = [(muE, muB); (muD, muB); (muA, muB); (muF, muB); (muD, muB); (muC, muB); (muC, muA)].
Proof. split; vm_compute; reflexivity. Qed.

(* a mutation annotation alone closes a cycle with a depends-on annotation *)
Definition mu_cyc : list (obj id) :=
  [mkObj muA (Deps [muB]) NoMut None; mkObj muB NoAnnot (Muts [muA]) None; mkObj muC NoAnnot NoMut None].
Example C14_example_mutation_cycle :
  id_sort_objs mu_cyc = Some (mkSorted [[muC]] (Some [muA; muB]) []).
Proof. vm_compute. reflexivity. Qed.

(* the kind-order tables of the model are the ones extracted from
   pkg/ordering/sort.go on this run (harness/cmd/gentables) *)
Theorem C14_tables_from_source :
  ObjId.order_first = src_order_first /\ ObjId.order_last = src_order_last.
Proof. exact order_tables_from_source. Qed.

Print Assumptions C14_total.
Print Assumptions C14_partition.
Print Assumptions C14_order.
Print Assumptions C14_minimal.
Print Assumptions C14_cycles.
Print Assumptions C14_cycle_edges.
Print Assumptions C14_perm_inv.
Print Assumptions C14_layer_order.
Print Assumptions C14_hydrate.
Print Assumptions C14_reverse.
Print Assumptions C14_less_lex.
Print Assumptions C14_less_strict_total.
Print Assumptions C14_objs_total.
Print Assumptions C14_objs_partition.
Print Assumptions C14_objs_order.
Print Assumptions C14_objs_minimal.
Print Assumptions C14_objs_cycles.
Print Assumptions C14_objs_explicit.
Print Assumptions C14_objs_mutation.
Print Assumptions C14_objs_dep_rel_char.
Print Assumptions C14_objs_bad.
Print Assumptions C14_objs_bad_passes.
Print Assumptions C14_objs_no_bad.
Print Assumptions C14_objs_bad_perm.
Print Assumptions C14_objs_layer_order.
Print Assumptions C14_objs_perm_inv.
Print Assumptions C14_reverse_objs.
Print Assumptions C14_example_two_providers.
Print Assumptions C14_example_reverse_with_cycle.
Print Assumptions C14_example_graph.
Print Assumptions C14_example_objs.
Print Assumptions C14_example_implicit.
Print Assumptions C14_example_mutation.
Print Assumptions C14_example_mutation_cycle.
Print Assumptions C14_tables_from_source.
