(* C08 — built-in kinds are Current exactly when their status shows the
   rollout complete.  Only statements; every proof is `exact <lemma>`.

   Setting of every theorem: `is_kind j K` (the object's group/kind maps to
   rule K in the dispatch table), `no_generic j` (no deletion timestamp, no
   generation mismatch, no true Reconciling/Stalled condition: C07 shows these
   override the kind rule), `cs` = the converted status.conditions.  The
   declarative descriptions (`deploy_complete`, `sts_complete`, `pod_expected`,
   ...) live in Model/KStatusSpec.v; their Prop readings are given here for
   the replica-counting kinds.  All statements hold for every tree and every
   integer field value (no bound); int64 wrap-around of the one subtraction in
   the code (spec.replicas - partition) is explicit as `sub64`. *)
From Coq Require Import List Bool ZArith String.
From CliUtils Require Import Base.Json Model.KStatus Model.KStatusSpec Model.KubectlRollout
     Proofs.KStatusProofs Proofs.KStatusC07Proofs Proofs.KStatusC08Proofs.
From CliUtils Require Import Generated.SourceTables Proofs.SourceTablesAgree.
Import ListNotations.
Local Open Scope string_scope.

(* ---- Deployment ---------------------------------------------------------- *)
Theorem C08_deploy_current : forall j w cs,
  is_kind j LDeployment -> no_generic j -> get_object_with_conditions j = Some cs ->
  (compute j w = Ok Current [] <->
   deadline_exceeded cs = false /\ deploy_complete (deploy_fields j) cs = true).
Proof. exact deploy_current_iff. Qed.

Theorem C08_deploy_failed : forall j w cs,
  is_kind j LDeployment -> no_generic j -> get_object_with_conditions j = Some cs ->
  (compute j w = Ok Failed [("Stalled", "True")] <-> deadline_exceeded cs = true).
Proof. exact deploy_failed_iff. Qed.

Theorem C08_deploy_otherwise : forall j w cs,
  is_kind j LDeployment -> no_generic j -> get_object_with_conditions j = Some cs ->
  compute j w <> Ok Current [] -> compute j w <> Ok Failed [("Stalled", "True")] ->
  compute j w = Ok InProgress [("Reconciling", "True")].
Proof. exact deploy_otherwise. Qed.

(* readings: all desired replicas updated, available and ready, no surplus
   replicas, Available, not past the progress deadline *)
Theorem C08_deploy_complete_reading : forall f cs,
  deploy_complete f cs = true <->
  (d_spec f <= d_status f /\ d_spec f <= d_updated f /\ d_status f <= d_spec f /\
   d_updated f <= d_available f /\ d_spec f <= d_ready f)%Z /\
  progressing_ok f cs = true /\ has_cond cs "Available" "True" = true.
Proof. exact deploy_complete_reading. Qed.

Theorem C08_deadline_exceeded_reading : forall cs,
  deadline_exceeded cs = true <->
  exists c, In c cs /\ c_type c = "Progressing" /\ c_reason c = "ProgressDeadlineExceeded".
Proof. exact deadline_exceeded_reading. Qed.

Theorem C08_has_cond_reading : forall cs ty st,
  has_cond cs ty st = true <-> exists c, In c cs /\ c_type c = ty /\ c_status c = st.
Proof. exact has_cond_reading. Qed.

Theorem C08_deploy_no_lag : forall j w,
  is_kind j LDeployment -> compute j w = Ok Current [] ->
  let f := deploy_fields j in
  (d_status f >= d_spec f /\ d_updated f >= d_spec f /\ d_ready f >= d_spec f /\ d_available f >= d_spec f)%Z.
Proof. exact deploy_no_lag. Qed.

Theorem C08_deploy_kubectl : forall j w cs g o,
  is_kind j LDeployment -> no_generic j -> get_object_with_conditions j = Some cs ->
  nested_int64 j p_generation = Found g -> nested_int64 j p_observed = Found o ->
  kubectl_deployment j cs <> KDone -> compute j w <> Ok Current [].
Proof. exact deploy_kubectl. Qed.

(* ---- ReplicaSet ---------------------------------------------------------- *)
Theorem C08_rs_current : forall j w cs,
  is_kind j LReplicaSet -> no_generic j -> get_object_with_conditions j = Some cs ->
  (compute j w = Ok Current [] <-> rs_complete (rs_fields j) cs = true).
Proof. exact rs_current_iff. Qed.

Theorem C08_rs_failed : forall j w cs,
  is_kind j LReplicaSet -> no_generic j -> get_object_with_conditions j = Some cs ->
  compute j w <> Ok Failed [("Stalled", "True")].
Proof. exact rs_never_failed. Qed.

Theorem C08_rs_otherwise : forall j w cs,
  is_kind j LReplicaSet -> no_generic j -> get_object_with_conditions j = Some cs ->
  compute j w <> Ok Current [] -> compute j w = Ok InProgress [("Reconciling", "True")].
Proof. exact rs_otherwise. Qed.

Theorem C08_rs_complete_reading : forall f cs,
  rs_complete f cs = true <->
  has_cond cs "ReplicaFailure" "True" = false /\
  (r_spec f <= r_labelled f /\ r_spec f <= r_available f /\ r_spec f <= r_ready f /\ r_status f <= r_spec f)%Z.
Proof. exact rs_complete_reading. Qed.

(* The full no-lag statement for ReplicaSets,

     forall j w, is_kind j LReplicaSet -> compute j w = Ok Current [] ->
       let f := rs_fields j in
       r_status f >= r_spec f /\ r_labelled f >= r_spec f /\
       r_available f >= r_spec f /\ r_ready f >= r_spec f

   is FALSE of the code (known finding C08-replicaset-status-replicas-lag):
   replicasetConditions never compares status.replicas with spec.replicas
   from below.  Witness: spec.replicas 2, status.replicas 0, the other three
   counts 2. *)
Theorem C08_rs_no_lag_refuted :
  exists j w, is_kind j LReplicaSet /\ compute j w = Ok Current [] /\
              (r_status (rs_fields j) < r_spec (rs_fields j))%Z.
Proof. exact rs_no_lag_refuted. Qed.

(* what holds: the three counts the rule compares; status.replicas is only
   bounded from above *)
Theorem C08_rs_no_lag_partial : forall j w,
  is_kind j LReplicaSet -> compute j w = Ok Current [] ->
  let f := rs_fields j in
  (r_labelled f >= r_spec f /\ r_available f >= r_spec f /\ r_ready f >= r_spec f /\ r_status f <= r_spec f)%Z.
Proof. exact rs_no_lag_partial. Qed.

(* ---- StatefulSet --------------------------------------------------------- *)
Theorem C08_sts_current : forall j w,
  is_kind j LSts -> no_generic j ->
  (compute j w = Ok Current [] <-> sts_complete (sts_fields j) = true).
Proof. exact sts_current_iff. Qed.

Theorem C08_sts_failed : forall j w,
  is_kind j LSts -> no_generic j -> compute j w <> Ok Failed [("Stalled", "True")].
Proof. exact sts_never_failed. Qed.

Theorem C08_sts_otherwise : forall j w,
  is_kind j LSts -> no_generic j ->
  compute j w <> Ok Current [] -> compute j w = Ok InProgress [("Reconciling", "True")].
Proof. exact sts_otherwise. Qed.

Theorem C08_sts_complete_reading : forall f,
  sts_complete f = true <->
  s_strategy f = "OnDelete" \/
  ((s_spec f <= s_status f /\ s_spec f <= s_ready f /\ s_status f <= s_spec f)%Z /\
   (s_partition f = (-1)%Z -> (s_spec f <= s_current f)%Z /\ s_cur_rev f = s_upd_rev f) /\
   (s_partition f <> (-1)%Z -> (sub64 (s_spec f) (s_partition f) <= s_updated f)%Z)).
Proof. exact sts_complete_reading. Qed.

Theorem C08_sub64_exact : forall a b, (- two63 <= a - b < two63)%Z -> sub64 a b = (a - b)%Z.
Proof. exact sub64_exact. Qed.

Theorem C08_sts_no_lag : forall j w,
  is_kind j LSts -> compute j w = Ok Current [] ->
  let f := sts_fields j in
  s_strategy f = "OnDelete" \/
  ((s_status f >= s_spec f /\ s_ready f >= s_spec f)%Z /\
   (s_partition f = (-1)%Z -> (s_current f >= s_spec f)%Z /\ s_cur_rev f = s_upd_rev f) /\
   (s_partition f <> (-1)%Z -> (s_updated f >= sub64 (s_spec f) (s_partition f))%Z)).
Proof. exact sts_no_lag. Qed.

Theorem C08_sts_kubectl : forall j w g o,
  is_kind j LSts -> no_generic j ->
  nested_int64 j p_generation = Found g -> nested_int64 j p_observed = Found o -> o <> 0%Z ->
  (forall r, typed_ptr j ["spec"; "replicas"] = Some r -> (0 <= r < two63)%Z) ->
  (forall p, typed_ptr j ["spec"; "updateStrategy"; "rollingUpdate"; "partition"] = Some p -> (0 <= p < two63)%Z) ->
  kubectl_statefulset j = KWaiting -> compute j w <> Ok Current [].
Proof. exact sts_kubectl. Qed.

(* ---- DaemonSet ----------------------------------------------------------- *)
Theorem C08_ds_current : forall j w,
  is_kind j LDaemonSet -> no_generic j ->
  (compute j w = Ok Current [] <-> ds_complete j (ds_fields j) = true).
Proof. exact ds_current_iff. Qed.

Theorem C08_ds_failed : forall j w,
  is_kind j LDaemonSet -> no_generic j -> compute j w <> Ok Failed [("Stalled", "True")].
Proof. exact ds_never_failed. Qed.

Theorem C08_ds_otherwise : forall j w,
  is_kind j LDaemonSet -> no_generic j ->
  compute j w <> Ok Current [] -> compute j w = Ok InProgress [("Reconciling", "True")].
Proof. exact ds_otherwise. Qed.

Theorem C08_ds_complete_reading : forall j f,
  ds_complete j f = true <->
  (exists g, nested_int64 j p_generation = Found g) /\ (exists o, nested_int64 j p_observed = Found o) /\
  (ds_desired f <> -1 /\ ds_desired f <= ds_current f /\ ds_desired f <= ds_updated f /\
   ds_desired f <= ds_available f /\ ds_desired f <= ds_ready f)%Z.
Proof. exact ds_complete_reading. Qed.

Theorem C08_ds_no_lag : forall j w,
  is_kind j LDaemonSet -> compute j w = Ok Current [] ->
  let f := ds_fields j in
  (ds_current f >= ds_desired f /\ ds_updated f >= ds_desired f /\
   ds_available f >= ds_desired f /\ ds_ready f >= ds_desired f /\ ds_desired f <> -1)%Z.
Proof. exact ds_no_lag. Qed.

(* kubectl_daemonset = KWaiting already implies the RollingUpdate strategy *)
Theorem C08_ds_kubectl : forall j w,
  is_kind j LDaemonSet -> no_generic j ->
  kubectl_daemonset j = KWaiting -> compute j w <> Ok Current [].
Proof. exact ds_kubectl. Qed.

(* ---- Pod ----------------------------------------------------------------- *)
Theorem C08_pod_current : forall j w cs,
  is_kind j LPod -> no_generic j -> get_object_with_conditions j = Some cs ->
  (compute j w = Ok Current [] <-> pod_expected j cs w = Some Current).
Proof. exact pod_current_iff. Qed.

Theorem C08_pod_failed : forall j w cs,
  is_kind j LPod -> no_generic j -> get_object_with_conditions j = Some cs ->
  (compute j w = Ok Failed [("Stalled", "True")] <-> pod_expected j cs w = Some Failed).
Proof. exact pod_failed_iff. Qed.

Theorem C08_pod_in_progress : forall j w cs,
  is_kind j LPod -> no_generic j -> get_object_with_conditions j = Some cs ->
  (compute j w = Ok InProgress [("Reconciling", "True")] <-> pod_expected j cs w = Some InProgress).
Proof. exact pod_in_progress_iff. Qed.

(* Current: completed (either way) or Running and Ready *)
Theorem C08_pod_current_reading : forall j cs w,
  pod_expected j cs w = Some Current <->
  pod_phase j = "Succeeded" \/ pod_phase j = "Failed" \/
  (pod_phase j = "Running" /\ has_cond cs "Ready" "True" = true).
Proof. exact pod_expected_current_reading. Qed.

(* Failed: crash-looping containers, or unschedulable beyond the window *)
Theorem C08_pod_failed_reading : forall j cs w,
  pod_expected j cs w = Some Failed <->
  (pod_phase j = "Running" /\ has_cond cs "Ready" "True" = false /\ pod_crash_looping j = Some true) \/
  (pod_phase j = "Pending" /\ pod_unschedulable cs = true /\ w = false).
Proof. exact pod_expected_failed_reading. Qed.

(* ---- Job ----------------------------------------------------------------- *)
Theorem C08_job_current_failed : forall j w cs,
  is_kind j LJob -> no_generic j -> get_object_with_conditions j = Some cs ->
  (compute j w = Ok Current [] <-> job_expected j cs = Current) /\
  (compute j w = Ok Failed [("Stalled", "True")] <-> job_expected j cs = Failed) /\
  (compute j w = Ok InProgress [("Reconciling", "True")] <-> job_expected j cs = InProgress).
Proof. exact job_iffs. Qed.

(* the first true Complete / Failed condition decides; otherwise started or not *)
Theorem C08_job_reading : forall j cs,
  (job_expected j cs = Current <->
   (exists c, find job_decisive cs = Some c /\ c_type c = "Complete") \/
   (find job_decisive cs = None /\ get_string_field j ["status"; "startTime"] "" <> "")) /\
  (job_expected j cs = Failed <->
   exists c, find job_decisive cs = Some c /\ c_type c <> "Complete").
Proof. exact job_expected_reading. Qed.

(* ---- PVC / Service ------------------------------------------------------- *)
Theorem C08_pvc_current_failed : forall j w,
  is_kind j LPvc -> no_generic j ->
  (compute j w = Ok Current [] <-> get_string_field j ["status"; "phase"] "unknown" = "Bound") /\
  compute j w <> Ok Failed [("Stalled", "True")] /\
  (compute j w <> Ok Current [] -> compute j w = Ok InProgress [("Reconciling", "True")]).
Proof. exact pvc_iffs. Qed.

Theorem C08_service_current_failed : forall j w,
  is_kind j LService -> no_generic j ->
  (compute j w = Ok Current [] <->
   ~ (get_string_field j ["spec"; "type"] "ClusterIP" = "LoadBalancer" /\
      get_string_field j ["spec"; "clusterIP"] "" = "")) /\
  compute j w <> Ok Failed [("Stalled", "True")] /\
  (compute j w <> Ok Current [] -> compute j w = Ok InProgress [("Reconciling", "True")]).
Proof. exact service_iffs. Qed.

(* ---- CRD ----------------------------------------------------------------- *)
Theorem C08_crd_current_failed : forall j w cs,
  is_kind j LCrd -> no_generic j -> get_object_with_conditions j = Some cs ->
  (compute j w = Ok Current [] <-> crd_expected cs = Current) /\
  (compute j w = Ok Failed [("Stalled", "True")] <-> crd_expected cs = Failed) /\
  (compute j w = Ok InProgress [("Reconciling", "True")] <-> crd_expected cs = InProgress).
Proof. exact crd_iffs. Qed.

(* the first decisive condition (names rejected, not established for a reason
   other than Installing, or established) decides *)
Theorem C08_crd_reading : forall cs,
  (crd_expected cs = Current <-> exists c, find crd_decisive cs = Some c /\ crd_rejected c = false) /\
  (crd_expected cs = Failed <-> exists c, find crd_decisive cs = Some c /\ crd_rejected c = true).
Proof. exact crd_expected_reading. Qed.

(* ---- PodDisruptionBudget, Secret, ConfigMap, CronJob --------------------- *)
Theorem C08_always_current : forall j w k,
  k = LPdb \/ k = LAlwaysReady -> is_kind j k -> no_generic j -> compute j w = Ok Current [].
Proof. exact always_current. Qed.

(* the kind dispatch of the model is the legacyTypes table extracted from
   pkg/kstatus/status/core.go on this run (harness/cmd/gentables) *)
Theorem C08_dispatch_from_source : forall key,
  KStatus.legacy_of_key key =
  match assoc key src_legacy_types with Some fn => legacy_of_fn fn | None => None end.
Proof. exact legacy_dispatch_from_source. Qed.

Print Assumptions C08_deploy_current.
Print Assumptions C08_deploy_failed.
Print Assumptions C08_deploy_otherwise.
Print Assumptions C08_deploy_complete_reading.
Print Assumptions C08_deadline_exceeded_reading.
Print Assumptions C08_has_cond_reading.
Print Assumptions C08_deploy_no_lag.
Print Assumptions C08_deploy_kubectl.
Print Assumptions C08_rs_current.
Print Assumptions C08_rs_failed.
Print Assumptions C08_rs_otherwise.
Print Assumptions C08_rs_complete_reading.
Print Assumptions C08_rs_no_lag_refuted.
Print Assumptions C08_rs_no_lag_partial.
Print Assumptions C08_sts_current.
Print Assumptions C08_sts_failed.
Print Assumptions C08_sts_otherwise.
Print Assumptions C08_sts_complete_reading.
Print Assumptions C08_sub64_exact.
Print Assumptions C08_sts_no_lag.
Print Assumptions C08_sts_kubectl.
Print Assumptions C08_ds_current.
Print Assumptions C08_ds_failed.
Print Assumptions C08_ds_otherwise.
Print Assumptions C08_ds_complete_reading.
Print Assumptions C08_ds_no_lag.
Print Assumptions C08_ds_kubectl.
Print Assumptions C08_pod_current.
Print Assumptions C08_pod_failed.
Print Assumptions C08_pod_in_progress.
Print Assumptions C08_pod_current_reading.
Print Assumptions C08_pod_failed_reading.
Print Assumptions C08_job_current_failed.
Print Assumptions C08_job_reading.
Print Assumptions C08_pvc_current_failed.
Print Assumptions C08_service_current_failed.
Print Assumptions C08_crd_current_failed.
Print Assumptions C08_crd_reading.
Print Assumptions C08_always_current.

(* non-vacuity: a concrete Deployment satisfies every hypothesis of the
   Deployment theorems and is Current; a concrete StatefulSet with a
   partition satisfies the kubectl theorem's hypotheses with kubectl waiting *)
Definition ex8_deploy : jv :=
  JObj [("apiVersion", JStr "apps/v1"); ("kind", JStr "Deployment");
        ("metadata", JObj [("generation", JInt 3)]);
        ("spec", JObj [("replicas", JInt 2); ("progressDeadlineSeconds", JInt 600)]);
        ("status", JObj [("observedGeneration", JInt 3); ("replicas", JInt 2); ("updatedReplicas", JInt 2);
                         ("readyReplicas", JInt 2); ("availableReplicas", JInt 2);
                         ("conditions",
                          JArr [JObj [("type", JStr "Progressing"); ("status", JStr "True");
                                      ("reason", JStr "NewReplicaSetAvailable")];
                                JObj [("type", JStr "Available"); ("status", JStr "True")]])])].

Example C08_ex_deploy :
  is_kind ex8_deploy LDeployment /\ no_generic ex8_deploy /\
  (exists cs, get_object_with_conditions ex8_deploy = Some cs /\
              deadline_exceeded cs = false /\ deploy_complete (deploy_fields ex8_deploy) cs = true /\
              kubectl_deployment ex8_deploy cs = KDone) /\
  compute ex8_deploy false = Ok Current [].
Proof.
  split; [reflexivity|]. split; [reflexivity|]. split; [|reflexivity].
  eexists. split; [reflexivity|]. repeat split; reflexivity.
Qed.

Definition ex8_sts : jv :=
  JObj [("apiVersion", JStr "apps/v1"); ("kind", JStr "StatefulSet");
        ("metadata", JObj [("generation", JInt 1)]);
        ("spec", JObj [("replicas", JInt 3);
                       ("updateStrategy", JObj [("type", JStr "RollingUpdate");
                                                ("rollingUpdate", JObj [("partition", JInt 1)])])]);
        ("status", JObj [("observedGeneration", JInt 1); ("replicas", JInt 3); ("readyReplicas", JInt 3);
                         ("updatedReplicas", JInt 1)])].

Example C08_ex_sts :
  is_kind ex8_sts LSts /\ no_generic ex8_sts /\ kubectl_statefulset ex8_sts = KWaiting /\
  compute ex8_sts false = Ok InProgress [("Reconciling", "True")].
Proof. repeat split; reflexivity. Qed.
Print Assumptions C08_dispatch_from_source.

(* the model is additionally tied to the source by TRANSLATION: the Gallina
   definitions that harness/cmd/genkstatus generates on this run from core.go
   (and util.go, generic.go, status.go; Generated/KStatusSrc.v, one per Go
   function, syntax-directed) compute what the model's kind rules compute, on
   all trees, all integer field values and both clock values; calling the
   dispatch-table entry of a key is the model's rule for that key.
   `to_outcome` maps a ( *Result, error ) pair to the model's outcome.  So the
   characterisations above hold of the generated rules, and a changed
   comparison, a dropped check, a reordered precedence, a changed default or
   field path in core.go breaks this obligation. *)
From CliUtils Require Model.KStatusSrcLib Generated.KStatusSrc Proofs.KStatusSrcAgree.

Theorem C08_source_translation_agrees : forall (j : jv) (w : bool),
  KStatusSrcLib.to_outcome (KStatusSrc.deploymentConditions j) = Some (deployment_conditions j) /\
  KStatusSrcLib.to_outcome (KStatusSrc.stsConditions j) = Some (sts_conditions j) /\
  KStatusSrcLib.to_outcome (KStatusSrc.replicasetConditions j) = Some (replicaset_conditions j) /\
  KStatusSrcLib.to_outcome (KStatusSrc.daemonsetConditions j) = Some (daemonset_conditions j) /\
  KStatusSrcLib.to_outcome (KStatusSrc.podConditions j w) = Some (pod_conditions j w) /\
  KStatusSrcLib.to_outcome (KStatusSrc.jobConditions j) = Some (job_conditions j) /\
  KStatusSrcLib.to_outcome (KStatusSrc.pvcConditions j) = Some (pvc_conditions j) /\
  KStatusSrcLib.to_outcome (KStatusSrc.serviceConditions j) = Some (service_conditions j) /\
  KStatusSrcLib.to_outcome (KStatusSrc.crdConditions j) = Some (crd_conditions j) /\
  KStatusSrcLib.to_outcome (KStatusSrc.pdbConditions j) = Some pdb_conditions /\
  KStatusSrcLib.to_outcome (KStatusSrc.alwaysReady j) = Some always_ready /\
  (forall key, match KStatusSrcLib.assoc key src_legacy_types, legacy_of_key key with
               | Some fn, Some k =>
                   KStatusSrcLib.to_outcome (KStatusSrc.call_GetConditionsFn (Some fn) j w) = Some (legacy_fn k j w)
               | None, None => True
               | _, _ => False
               end) /\
  KStatusSrcLib.to_outcome (KStatusSrc.Compute j w) = Some (compute j w).
Proof. exact KStatusSrcAgree.src_kind_rules_agree. Qed.
Print Assumptions C08_source_translation_agrees.

(* ==== At the status readers ===================================================
   statusreaders.NewDefaultStatusReader (Model/KStatusReader.v) reports Current
   only when status.Compute reports Current for the object itself: no reader
   turns another answer into Current (the only rewriting is InProgress ->
   Failed on a failed pod, see C07_reader_generic_precedence).  Hence every
   "Current implies ..." theorem above carries over to what the poller and the
   watcher see; three instances are spelled out. *)
From CliUtils Require Import Model.KStatusReader Proofs.KStatusReaderProofs.

Theorem C08_reader_current : forall (j : jv) (w sel : bool) (lst : lerr) (kids : list node) (r : rres),
  read_top (Node j w sel lst kids) = Some r -> rr_status r = Current -> compute j w = Ok Current [].
Proof. exact reader_current. Qed.

Theorem C08_reader_deploy_no_lag : forall (j : jv) (w sel : bool) (lst : lerr) (kids : list node) (r : rres),
  is_kind j LDeployment ->
  read_top (Node j w sel lst kids) = Some r -> rr_status r = Current ->
  let f := deploy_fields j in
  (d_status f >= d_spec f /\ d_updated f >= d_spec f /\ d_ready f >= d_spec f /\ d_available f >= d_spec f)%Z.
Proof. exact reader_deploy_no_lag. Qed.

Theorem C08_reader_sts_no_lag : forall (j : jv) (w sel : bool) (lst : lerr) (kids : list node) (r : rres),
  is_kind j LSts ->
  read_top (Node j w sel lst kids) = Some r -> rr_status r = Current ->
  let f := sts_fields j in
  s_strategy f = "OnDelete" \/
  ((s_status f >= s_spec f /\ s_ready f >= s_spec f)%Z /\
   (s_partition f = (-1)%Z -> (s_current f >= s_spec f)%Z /\ s_cur_rev f = s_upd_rev f) /\
   (s_partition f <> (-1)%Z -> (s_updated f >= sub64 (s_spec f) (s_partition f))%Z)).
Proof. exact reader_sts_no_lag. Qed.

(* ReplicaSet: the partial form only (known finding above) *)
Theorem C08_reader_rs_no_lag_partial : forall (j : jv) (w sel : bool) (lst : lerr) (kids : list node) (r : rres),
  is_kind j LReplicaSet ->
  read_top (Node j w sel lst kids) = Some r -> rr_status r = Current ->
  let f := rs_fields j in
  (r_labelled f >= r_spec f /\ r_available f >= r_spec f /\ r_ready f >= r_spec f /\ r_status f <= r_spec f)%Z.
Proof. exact reader_rs_no_lag_partial. Qed.

Print Assumptions C08_reader_current.
Print Assumptions C08_reader_deploy_no_lag.
Print Assumptions C08_reader_sts_no_lag.
Print Assumptions C08_reader_rs_no_lag_partial.

(* non-vacuity: the rolled-out Deployment above, read through the Deployment
   reader with no ReplicaSets listed, is Current *)
Example C08_ex_reader_deploy :
  exists r, read_top (Node ex8_deploy false true LOk []) = Some r /\ rr_status r = Current /\ rr_error r = false.
Proof. eexists. split; [vm_compute; reflexivity|]. split; reflexivity. Qed.
