(* Go `strings` operations on Coq `string` (a Coq string is a byte sequence,
   as a Go string is).  Definitions only; the characterising lemmas are in
   Proofs/StringsProofs.v so that models keep evaluating when a proof breaks.

   Conventions: an index is a byte offset (`nat`), "not found" (-1 in Go) is
   `None`; `s[:i]` is `take i s`, `s[i:]` is `drop i s`. *)
From Coq Require Import List Bool Arith String Ascii.
Import ListNotations.
Local Open Scope string_scope.

(* the one-byte string *)
Definition ch (c : ascii) : string := String c EmptyString.

Definition bytes (l : list nat) : string :=
  fold_right (fun n s => String (ascii_of_nat n) s) EmptyString l.

(* s[:n] and s[n:] (n beyond the end: whole string / empty string; Go would
   panic, the models never call them out of range) *)
Fixpoint take (n : nat) (s : string) : string :=
  match n, s with
  | S k, String c r => String c (take k r)
  | _, _ => EmptyString
  end.

Fixpoint drop (n : nat) (s : string) : string :=
  match n, s with
  | S k, String _ r => drop k r
  | _, _ => s
  end.

(* strings.HasPrefix(s, p) *)
Fixpoint has_prefix (p s : string) : bool :=
  match p with
  | EmptyString => true
  | String a p' =>
      match s with
      | String b s' => Ascii.eqb a b && has_prefix p' s'
      | EmptyString => false
      end
  end.

(* strings.Contains(s, sub) *)
Fixpoint contains (sub s : string) : bool :=
  has_prefix sub s ||
  match s with
  | EmptyString => false
  | String _ r => contains sub r
  end.

(* strings.Index(s, sep): offset of the first occurrence *)
Fixpoint index (sep s : string) : option nat :=
  if has_prefix sep s then Some 0
  else match s with
       | EmptyString => None
       | String _ r => option_map S (index sep r)
       end.

(* strings.LastIndex(s, sep): offset of the last occurrence *)
Fixpoint last_index (sep s : string) : option nat :=
  match s with
  | EmptyString => if has_prefix sep EmptyString then Some 0 else None
  | String _ r =>
      match last_index sep r with
      | Some k => Some (S k)
      | None => if has_prefix sep s then Some 0 else None
      end
  end.

(* strings.ReplaceAll(s, old, new) for a non-empty `old`: left to right,
   non-overlapping.  `skip` counts the bytes of a matched occurrence that
   are still to be stepped over. *)
Fixpoint replace_from (old new : string) (skip : nat) (s : string) : string :=
  match s with
  | EmptyString => EmptyString
  | String c r =>
      match skip with
      | S k => replace_from old new k r
      | O =>
          if has_prefix old s
          then new ++ replace_from old new (String.length old - 1) r
          else String c (replace_from old new 0 r)
      end
  end.

Definition replace_all (old new s : string) : string :=
  match old with
  | EmptyString => s   (* Go inserts `new` around every rune; never used by the modelled code *)
  | _ => replace_from old new 0 s
  end.

(* strings.Split(s, sep) for a one-byte separator: always at least one
   field; Split("", sep) = [""] *)
Fixpoint split_on (c : ascii) (s : string) : list string :=
  match s with
  | EmptyString => [EmptyString]
  | String a r =>
      if Ascii.eqb a c then EmptyString :: split_on c r
      else match split_on c r with
           | h :: t => String a h :: t
           | [] => [ch a]
           end
  end.

(* the general algorithm of strings.Split (genSplit): cut at Index, repeat *)
Fixpoint split_fuel (fuel : nat) (sep s : string) : list string :=
  match fuel with
  | O => [s]
  | S f =>
      match index sep s with
      | None => [s]
      | Some n => take n s :: split_fuel f sep (drop (n + String.length sep) s)
      end
  end.

Definition split (sep s : string) : list string :=
  match sep with
  | EmptyString => [s]  (* Go explodes into runes; never used by the modelled code *)
  | String c EmptyString => split_on c s
  | _ => split_fuel (S (String.length s)) sep s
  end.

(* strings.Join(l, sep) *)
Fixpoint join (sep : string) (l : list string) : string :=
  match l with
  | [] => EmptyString
  | [x] => x
  | x :: t => x ++ sep ++ join sep t
  end.

(* ---- strings.TrimSpace --------------------------------------------------
   White space = unicode.IsSpace: the six ASCII ones and the UTF-8 encodings
   of U+0085 U+00A0 U+1680 U+2000..U+200A U+2028 U+2029 U+202F U+205F U+3000.
   An invalid or other multi-byte sequence is not white space. *)
Definition is_ascii_space (c : ascii) : bool :=
  let n := nat_of_ascii c in (Nat.leb 9 n && Nat.leb n 13) || Nat.eqb n 32.

Definition ws_multi : list string :=
  [ bytes [194;133]; bytes [194;160]; bytes [225;154;128];
    bytes [226;128;128]; bytes [226;128;129]; bytes [226;128;130]; bytes [226;128;131];
    bytes [226;128;132]; bytes [226;128;133]; bytes [226;128;134]; bytes [226;128;135];
    bytes [226;128;136]; bytes [226;128;137]; bytes [226;128;138];
    bytes [226;128;168]; bytes [226;128;169]; bytes [226;128;175];
    bytes [226;129;159]; bytes [227;128;128] ].

Fixpoint match_len (pats : list string) (s : string) : nat :=
  match pats with
  | [] => 0
  | p :: t => if has_prefix p s then String.length p else match_len t s
  end.

(* byte length of the white-space rune at the head of s; 0 if there is none *)
Definition ws_len (s : string) : nat :=
  match s with
  | EmptyString => 0
  | String c _ => if is_ascii_space c then 1 else match_len ws_multi s
  end.

Fixpoint trim_left_from (skip : nat) (s : string) : string :=
  match s with
  | EmptyString => EmptyString
  | String _ r =>
      match skip with
      | S k => trim_left_from k r
      | O => match ws_len s with
             | O => s
             | S k => trim_left_from k r
             end
      end
  end.
Definition trim_left (s : string) : string := trim_left_from 0 s.

(* s is exactly one white-space rune *)
Definition is_ws_rune (s : string) : bool :=
  match s with
  | String c EmptyString => is_ascii_space c
  | _ => existsb (String.eqb s) ws_multi
  end.

(* trailing white-space runes are removed from the right: once the tail is
   trimmed, the only rune that can still end the string is the whole of it *)
Fixpoint trim_right (s : string) : string :=
  match s with
  | EmptyString => EmptyString
  | String c r =>
      let t := String c (trim_right r) in
      if is_ws_rune t then EmptyString else t
  end.

Definition trim_space (s : string) : string := trim_right (trim_left s).
