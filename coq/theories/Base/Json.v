(* JSON-shaped trees as held by unstructured.Unstructured, and faithful models
   of the accessors of k8s.io/apimachinery/pkg/apis/meta/v1/unstructured
   (helpers.go, v0.31.1) and of sigs.k8s.io/cli-utils/pkg/kstatus/status/util.go,
   including their absent / wrong-type / null behaviour.

   Scope: the dynamic Go types a JSON or YAML decoder puts into an
   unstructured object: nil, bool, int64, float64, string, []interface{},
   map[string]interface{}.  (Go `int`/`int32` values, which GetIntField would
   also accept, are not JSON-shaped: runtime.DeepCopyJSONValue rejects them.)

   No proofs here except the induction principle, which is part of the data
   type's interface. *)
From Coq Require Import List Bool ZArith String Ascii.
Import ListNotations.
Local Open Scope string_scope.

Inductive jv :=
| JNull
| JBool (b : bool)
| JInt (z : Z)                (* int64 *)
| JFloat (m e : Z)            (* float64, opaque to every accessor: m * 2^e *)
| JStr (s : string)
| JArr (l : list jv)
| JObj (kv : list (string * jv)).

(* nested induction principle *)
Section JvInd.
  Variable P : jv -> Prop.
  Hypothesis Hnull : P JNull.
  Hypothesis Hbool : forall b, P (JBool b).
  Hypothesis Hint : forall z, P (JInt z).
  Hypothesis Hfloat : forall m e, P (JFloat m e).
  Hypothesis Hstr : forall s, P (JStr s).
  Hypothesis Harr : forall l, Forall P l -> P (JArr l).
  Hypothesis Hobj : forall kv, Forall (fun p => P (snd p)) kv -> P (JObj kv).

  Fixpoint jv_ind' (j : jv) : P j :=
    match j with
    | JNull => Hnull
    | JBool b => Hbool b
    | JInt z => Hint z
    | JFloat m e => Hfloat m e
    | JStr s => Hstr s
    | JArr l =>
        Harr l ((fix go (l : list jv) : Forall P l :=
                   match l with
                   | [] => Forall_nil P
                   | x :: t => Forall_cons x (jv_ind' x) (go t)
                   end) l)
    | JObj kv =>
        Hobj kv ((fix go (kv : list (string * jv)) : Forall (fun p => P (snd p)) kv :=
                    match kv with
                    | [] => Forall_nil _
                    | p :: t => Forall_cons p (jv_ind' (snd p)) (go t)
                    end) kv)
    end.
End JvInd.

(* Go map lookup; a Go map has no duplicate keys, for a list with duplicates
   the first binding wins *)
Fixpoint lookup (k : string) (kv : list (string * jv)) : option jv :=
  match kv with
  | [] => None
  | (k', v) :: t => if String.eqb k k' then Some v else lookup k t
  end.

(* m[k] = v : replace the first binding in place, else append *)
Fixpoint set_key (k : string) (v : jv) (kv : list (string * jv)) : list (string * jv) :=
  match kv with
  | [] => [(k, v)]
  | (k', v') :: t => if String.eqb k k' then (k, v) :: t else (k', v') :: set_key k v t
  end.

(* result of an accessor: (value, found=true, nil) | (zero, false, nil) | (zero, false, err) *)
Inductive acc (A : Type) :=
| Found (a : A)
| Absent
| AErr.
Arguments Found {A} a.
Arguments Absent {A}.
Arguments AErr {A}.

(* unstructured.NestedFieldNoCopy:
     for each field: val == nil -> not found; val a map -> index (missing ->
     not found); anything else -> error.  A null reached at the END of the
     path is returned as found. *)
Fixpoint nested_field (j : jv) (fields : list string) : acc jv :=
  match fields with
  | [] => Found j
  | f :: rest =>
      match j with
      | JNull => Absent
      | JObj kv =>
          match lookup f kv with
          | None => Absent
          | Some v => nested_field v rest
          end
      | _ => AErr
      end
  end.

(* unstructured.NestedString: found non-string (including null) is an error *)
Definition nested_string (j : jv) (fields : list string) : acc string :=
  match nested_field j fields with
  | Found (JStr s) => Found s
  | Found _ => AErr
  | Absent => Absent
  | AErr => AErr
  end.

(* unstructured.NestedInt64: only int64 is accepted (a float64 is an error) *)
Definition nested_int64 (j : jv) (fields : list string) : acc Z :=
  match nested_field j fields with
  | Found (JInt z) => Found z
  | Found _ => AErr
  | Absent => Absent
  | AErr => AErr
  end.

(* unstructured.NestedSlice (the deep copy is the identity on values) *)
Definition nested_slice (j : jv) (fields : list string) : acc (list jv) :=
  match nested_field j fields with
  | Found (JArr l) => Found l
  | Found _ => AErr
  | Absent => Absent
  | AErr => AErr
  end.

(* unstructured.NestedMap *)
Definition nested_map (j : jv) (fields : list string) : acc (list (string * jv)) :=
  match nested_field j fields with
  | Found (JObj kv) => Found kv
  | Found _ => AErr
  | Absent => Absent
  | AErr => AErr
  end.

(* unstructured.NestedStringMap: every value must be a string *)
Fixpoint all_strings (kv : list (string * jv)) : option (list (string * string)) :=
  match kv with
  | [] => Some []
  | (k, JStr s) :: t =>
      match all_strings t with Some r => Some ((k, s) :: r) | None => None end
  | _ :: _ => None
  end.
Definition nested_string_map (j : jv) (fields : list string) : acc (list (string * string)) :=
  match nested_map j fields with
  | Found kv => match all_strings kv with Some r => Found r | None => AErr end
  | Absent => Absent
  | AErr => AErr
  end.

(* getNestedString (unstructured.go): "" unless found without error *)
Definition get_nested_string (j : jv) (fields : list string) : string :=
  match nested_string j fields with Found s => s | _ => "" end.

(* status.GetIntField: default unless NestedFieldNoCopy finds an int/int32/int64
   (JSON-shaped trees hold int64 only; float64, null, string -> default) *)
Definition get_int_field (j : jv) (fields : list string) (d : Z) : Z :=
  match nested_field j fields with Found (JInt z) => z | _ => d end.

(* status.GetStringField *)
Definition get_string_field (j : jv) (fields : list string) (d : string) : string :=
  match nested_field j fields with Found (JStr s) => s | _ => d end.

(* unstructured.SetNestedField(obj, value, f1, f2) for a path of length two
   (the only use in the modelled code): None = error because obj[f1] exists and
   is not a map *)
Definition set_nested2 (j : jv) (f1 f2 : string) (v : jv) : option jv :=
  match j with
  | JObj kv =>
      match lookup f1 kv with
      | None => Some (JObj (set_key f1 (JObj [(f2, v)]) kv))
      | Some (JObj kv1) => Some (JObj (set_key f1 (JObj (set_key f2 v kv1)) kv))
      | Some _ => None
      end
  | _ => None
  end.

(* ---- runtime.DefaultUnstructuredConverter.FromUnstructured into
   status.ObjWithConditions {Status{Conditions []BasicCondition{Type,Status,Reason,Message string}}}
   (converter.go).  null -> zero value at every level; struct wants a map;
   slice wants a list (a string is only accepted for []byte); string fields
   want a string; unknown keys are ignored; key match is exact. ---------- *)
Record bcond := mkCond { c_type : string; c_status : string; c_reason : string; c_message : string }.

Definition conv_string (o : option jv) : option string :=
  match o with
  | None => Some ""
  | Some JNull => Some ""
  | Some (JStr s) => Some s
  | Some _ => None
  end.

Definition conv_cond (j : jv) : option bcond :=
  match j with
  | JNull => Some (mkCond "" "" "" "")
  | JObj kv =>
      match conv_string (lookup "type" kv) with
      | None => None
      | Some t =>
          match conv_string (lookup "status" kv) with
          | None => None
          | Some s =>
              match conv_string (lookup "reason" kv) with
              | None => None
              | Some r =>
                  match conv_string (lookup "message" kv) with
                  | None => None
                  | Some m => Some (mkCond t s r m)
                  end
              end
          end
      end
  | _ => None
  end.

Fixpoint conv_conds (l : list jv) : option (list bcond) :=
  match l with
  | [] => Some []
  | x :: t =>
      match conv_cond x with
      | None => None
      | Some c => match conv_conds t with None => None | Some r => Some (c :: r) end
      end
  end.

Definition conv_conditions_field (o : option jv) : option (list bcond) :=
  match o with
  | None => Some []
  | Some JNull => Some []
  | Some (JArr l) => conv_conds l
  | Some _ => None
  end.

(* status.GetObjectWithConditions: None = error *)
Definition get_object_with_conditions (j : jv) : option (list bcond) :=
  match j with
  | JObj kv =>
      match lookup "status" kv with
      | None => Some []
      | Some JNull => Some []
      | Some (JObj st) => conv_conditions_field (lookup "conditions" st)
      | Some _ => None
      end
  | JNull => Some []
  | _ => None
  end.

(* ---- int64 arithmetic -------------------------------------------------- *)
Definition two63 : Z := 9223372036854775808%Z.
Definition wrap64 (z : Z) : Z := ((z + two63) mod (2 * two63) - two63)%Z.
Definition sub64 (a b : Z) : Z := wrap64 (a - b).
Definition in_int64 (z : Z) : Prop := (- two63 <= z < two63)%Z.
