(* String helpers used by the C18 models (owner: C18).
   Go strings are byte sequences; Coq [string] is a list of [ascii] bytes. *)
From Coq Require Import String Ascii List ZArith Decimal DecimalString.
Import ListNotations.
Local Open Scope string_scope.

(* [sub] occurs somewhere in [s] (strings.Contains) *)
Fixpoint contains (sub s : string) : bool :=
  if prefix sub s then true
  else match s with
       | EmptyString => false
       | String _ s' => contains sub s'
       end.

(* strings.ReplaceAll s old new for a non-empty [old]: left to right,
   non-overlapping.  [skip] counts the bytes of a just-replaced occurrence
   that still have to be dropped, which keeps the recursion structural.
   For [old = ""] Go inserts [new] around every rune; the mutator never calls
   it that way (an empty token takes the other branch) and the model returns
   [s] unchanged. *)
Fixpoint repl (old new s : string) (skip : nat) : string :=
  match s with
  | EmptyString => EmptyString
  | String c s' =>
      match skip with
      | S k => repl old new s' k
      | O => if prefix old s
             then new ++ repl old new s' (String.length old - 1)
             else String c (repl old new s' 0)
      end
  end.

Definition replace_all (s old new : string) : string :=
  match old with
  | EmptyString => s
  | _ => repl old new s 0
  end.

(* fmt.Sprintf("%v", int) / strconv.Itoa *)
Definition decimal (z : Z) : string := NilZero.string_of_int (Z.to_int z).

Definition byte (n : nat) : string := String (ascii_of_nat n) EmptyString.
