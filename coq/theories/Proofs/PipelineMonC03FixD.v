(* C03, fixpoint part, file D: the state a CLEAN first run leaves behind.

   From `mon_C03 sc c0 (run sc c0) = true` (the C03 monitor theorem, taken here
   as a premise), a clean first run (no error event, no failed/skipped apply or
   prune event, no failed/timed-out/skipped wait event; not a destroy, not a
   dry-run; server-side apply allowed), an empty invalid set of its plan and a duplicate-free initial
   inventory, the final cluster c1 is STABLE (PipelineMonC03FixB):
   its inventory is a sorted duplicate-free list L, every key of L is live,
   every manifest id is in L, and with pruning enabled L holds only manifest ids. *)
From Coq Require Import List Bool Arith NArith ZArith Lia Permutation.
From CliUtils Require Import Model.ObjSet Model.ActuationTable Model.PipelineTypes Model.Pipeline
     Proofs.ObjSetProofs Proofs.PipelineBase Proofs.PipelineAuth Proofs.PipelineEvents
     Corr.CorrPipeline Proofs.PipelineOrphansBase Proofs.PipelineOrphansSpec Proofs.PipelineOrphansPlan
     Proofs.PipelineOrphansRun Proofs.PipelineMonBase Proofs.PipelineMonC13 Proofs.PipelineMonC10
     Proofs.PipelineMonC02a Proofs.PipelineMonC02 Proofs.PipelineMonC12Wait
     Proofs.PipelineMonC03FixA Proofs.PipelineMonC03FixC.
Import ListNotations.

(* ---- the pieces of mon_C03 ------------------------------------------------------------------------- *)
Definition ok_applied_of (t : list item) : list id :=
  flat_map (fun e => match e with EApply _ i AOk => [i] | _ => [] end) (events t).
Definition bad_act_of (t : list item) : list id :=
  flat_map (fun e => match e with EApply _ i AFail | EApply _ i ASkip | EPrune _ i AFail | EPrune _ i ASkip => [i] | _ => [] end) (events t).
Definition unrec_p (t : list item) (i : id) : bool :=
  match last_wait t i with Some WFailed | Some WTimedOut => true | _ => false end.

Lemma clean_no_bad t : clean_trace t = true ->
  has_error t = false /\ forall e, In e (events t) -> bad_evt e = false.
Proof.
  unfold clean_trace. intros H. apply andb_true_iff in H. destruct H as [H1 H2].
  apply negb_true_iff in H1. apply negb_true_iff in H2. split; [exact H1|].
  intros e He. destruct (bad_evt e) eqn:B; [|reflexivity].
  assert (X : existsb bad_evt (events t) = true) by (apply existsb_exists; exists e; auto). congruence.
Qed.

Lemma flat_map_nil {A B} (f : A -> list B) l : (forall x, In x l -> f x = []) -> flat_map f l = [].
Proof.
  induction l as [|x t IH]; intros H; [reflexivity|]. cbn. rewrite (H x) by (left; reflexivity).
  apply IH. intros; apply H; right; assumption.
Qed.

Lemma clean_bad_act t : (forall e, In e (events t) -> bad_evt e = false) -> bad_act_of t = [].
Proof.
  intros H. unfold bad_act_of. apply flat_map_nil. intros e He. specialize (H e He).
  destruct e as [| | | |g i st|g i st| | |]; try reflexivity; destruct st; cbn in H; congruence.
Qed.
Lemma clean_spared t : (forall e, In e (events t) -> bad_evt e = false) -> spared t = [].
Proof.
  intros H. unfold spared. apply flat_map_nil. intros e He. specialize (H e He).
  destruct e as [| | | |g i st|g i st| | |]; try reflexivity; destruct st; cbn in H; congruence.
Qed.
Lemma clean_unrec t i : (forall e, In e (events t) -> bad_evt e = false) -> unrec_p t i = false.
Proof.
  intros H. unfold unrec_p, last_wait.
  set (ws := flat_map (fun it => match it with IEv (EWait _ j s) => if Nat.eqb i j then [s] else [] | _ => [] end) t).
  destruct (rev ws) as [|s r] eqn:E; [reflexivity|].
  assert (Hs : In s ws) by (apply in_rev; rewrite E; left; reflexivity).
  unfold ws in Hs. apply in_flat_map in Hs. destruct Hs as [it [Hit Hs]].
  destruct it as [| |e|]; try destruct Hs. destruct e as [| | | | | |g j st| |]; try destruct Hs.
  destruct (Nat.eqb i j); [|destruct Hs]. destruct Hs as [<-|[]].
  assert (B : bad_evt (EWait g j st) = false).
  { apply H. unfold events. apply in_flat_map. exists (IEv (EWait g j st)). split; [exact Hit|left; reflexivity]. }
  destruct st; cbn in B; try reflexivity; discriminate.
Qed.

(* ---- apply events of a stream without error: exactly the ids of the apply tasks ------------------- *)
Lemma apply_body_in g layer body : apply_body g layer body ->
  (forall g' i st, In (EApply g' i st) body -> In i (map p_id layer)) /\
  (forall i, In i (map p_id layer) -> exists st, In (EApply g i st) body).
Proof.
  unfold apply_body. induction 1 as [|p e l l' [st ->] _ [IH1 IH2]]; split.
  - intros g' i st [].
  - intros i [].
  - intros g' i st' [H|H]; [injection H as _ <- _; left; reflexivity|right; eapply IH1; exact H].
  - intros i [<-|H]; [exists st; left; reflexivity|]. destruct (IH2 i H) as [st' H']. exists st'. right. exact H'.
Qed.

Lemma body_apply_events t body g i st : body_spec t body -> In (EApply g i st) body ->
  exists k l, t = TApply k l /\ In i (map p_id l).
Proof.
  intros B H. destruct t as [|k l|k c ids|k l|]; cbn [body_spec] in B.
  - subst body. destruct H.
  - exists k, l. split; [reflexivity|]. eapply (proj1 (apply_body_in _ _ _ B)). exact H.
  - destruct B as [F _]. rewrite Forall_forall in F. destruct (F _ H) as [[j [s [X _]]]|[j [s X]]]; discriminate.
  - exfalso. unfold prune_body in B. induction B as [|p e l0 l' [s ->] _ IH]; [destruct H|].
    destruct H as [H|H]; [discriminate|exact (IH H)].
  - subst body. destruct H.
Qed.

Lemma full_apply_events ts es : tasks_full ts es ->
  (forall g i st, In (EApply g i st) es -> exists k l, In (TApply k l) ts /\ In i (map p_id l)) /\
  (forall k l i, In (TApply k l) ts -> In i (map p_id l) -> exists st, In (EApply (GApply, k) i st) es).
Proof.
  induction 1 as [|t rest body es B T [IH1 IH2]]; split.
  - intros g i st [].
  - intros k l i [].
  - intros g i st [H|H]; [discriminate|]. apply in_app_or in H. destruct H as [H|[H|H]]; [|discriminate|].
    + destruct (body_apply_events _ _ _ _ _ B H) as [k [l [-> Hi]]]. exists k, l. split; [left; reflexivity|exact Hi].
    + destruct (IH1 g i st H) as [k [l [X Y]]]. exists k, l. split; [right; exact X|exact Y].
  - intros k l i [->|Hin] Hi.
    + cbn [body_spec task_name] in *. destruct (proj2 (apply_body_in _ _ _ B) i Hi) as [st H].
      exists st. right. apply in_or_app. left. exact H.
    + destruct (IH2 k l i Hin Hi) as [st H]. exists st. right. apply in_or_app. right. right. exact H.
Qed.

Lemma apply_tasks_layers sc layers layer : In layer layers -> forall ka kw,
  exists k, In (TApply k layer) (fst (apply_tasks sc ka kw layers)).
Proof.
  induction layers as [|l t IH]; intros Hin ka kw; [destruct Hin|]. cbn [apply_tasks].
  destruct (is_dry _).
  - destruct Hin as [->|Hin].
    + destruct (apply_tasks sc (S ka) kw t) as [ts kw']. exists ka. left. reflexivity.
    + destruct (IH Hin (S ka) kw) as [k H]. destruct (apply_tasks sc (S ka) kw t) as [ts kw']. exists k. right. exact H.
  - destruct Hin as [->|Hin].
    + destruct (apply_tasks sc (S ka) (S kw) t) as [ts kw']. exists ka. left. reflexivity.
    + destruct (IH Hin (S ka) (S kw)) as [k H]. destruct (apply_tasks sc (S ka) (S kw) t) as [ts kw']. exists k. right. right. exact H.
Qed.

Section First.
  Variable sc : scenario.
  Variable c0 : cluster.
  Hypothesis HWF : WF sc c0.
  Hypothesis HM : mon_C03 sc c0 (run sc c0) = true.
  Hypothesis HC : clean_run sc (run sc c0) = true.
  Hypothesis HINV : pl_invalid (plan_of sc c0) = [].
  Hypothesis HNDI : NoDup (prev_of c0).

  Notation pl := (plan_of sc c0).
  Notation t1 := (out_trace (run sc c0)).
  Notation c1 := (out_final (run sc c0)).
  Notation lids := (map l_id (sc_local sc)).

  Lemma f_opts : o_destroy (sc_opts sc) = false /\ is_dry (o_dry (sc_opts sc)) = false.
  Proof.
    unfold clean_run, first_opts in HC. apply andb_true_iff in HC. destruct HC as [H _].
    apply andb_true_iff in H. destruct H as [H1 H2].
    apply negb_true_iff in H1. apply negb_true_iff in H2. auto.
  Qed.
  Lemma f_clean : has_error t1 = false /\ forall e, In e (events t1) -> bad_evt e = false.
  Proof. unfold clean_run in HC. apply andb_true_iff in HC. destruct HC as [_ H]. apply clean_no_bad. exact H. Qed.

  Lemma f_lnd : locals_nodup sc.
  Proof. destruct HWF as [W _]. exact W. Qed.
  Lemma f_lids_nd : NoDup lids.
  Proof. apply f_lnd. apply f_opts. Qed.
  Lemma f_locals_of : locals_of sc = sc_local sc.
  Proof. unfold locals_of. rewrite (proj1 f_opts). reflexivity. Qed.

  (* the event stream: no error, every task block present *)
  Lemma f_stream : exists vals es', Forall is_validation vals /\ tasks_full (tasks_of sc pl) es' /\
    events t1 = vals ++ init_ev sc c0 :: es'.
  Proof.
    destruct f_clean as [NE _]. apply has_error_false in NE. rewrite events_evs.
    rewrite (evs_out_trace sc c0) in *.
    destruct (run_events_plan sc c0) as [E|[[vals [F E]]|[vals [es' [F [T E]]]]]]; rewrite E in *.
    - exfalso. apply NE. left. reflexivity.
    - exfalso. apply NE. apply in_or_app. right. right. left. reflexivity.
    - exists vals, es'. split; [exact F|]. split; [|reflexivity].
      apply tasks_trace_full; [exact T|]. intros H. apply NE. apply in_or_app. right. right. exact H.
  Qed.

  Lemma ok_applied_In i : In i (ok_applied_of t1) <-> exists g, In (EApply g i AOk) (events t1).
  Proof.
    unfold ok_applied_of. rewrite in_flat_map. split.
    - intros [e [He H]]. destruct e as [| | | |g j st| | | |]; try contradiction. destruct st; try contradiction.
      destruct H as [<-|[]]. exists g. exact He.
    - intros [g H]. exists (EApply g i AOk). split; [exact H|left; reflexivity].
  Qed.

  Lemma f_applied_sub i : In i (ok_applied_of t1) -> In i (apply_ids pl).
  Proof.
    intros H. apply ok_applied_In in H. destruct H as [g H].
    destruct f_stream as [vals [es' [F [TF E]]]]. rewrite E in H.
    apply in_app_or in H. destruct H as [H|[H|H]].
    - rewrite Forall_forall in F. destruct (F _ H) as [l X]. discriminate.
    - discriminate.
    - destruct (proj1 (full_apply_events _ _ TF) g i AOk H) as [k [l [Hin Hi]]].
      pose proof (plan_of_tasks_ok sc c0) as OK. rewrite Forall_forall in OK. specialize (OK _ Hin). cbn [task_ok] in OK.
      apply in_map_iff in Hi. destruct Hi as [p [<- Hp]]. rewrite Forall_forall in OK. apply (OK p Hp).
  Qed.

  Lemma f_applied_all i : In i (apply_ids pl) -> In i (ok_applied_of t1).
  Proof.
    intros H. destruct f_stream as [vals [es' [F [TF E]]]].
    destruct (plan_layers sc c0 f_lnd) as [_ [A _]]. pose proof (proj2 (A i) H) as Hl.
    rewrite concat_map in Hl. apply in_concat in Hl. destruct Hl as [ids [Hids Hi]].
    apply in_map_iff in Hids. destruct Hids as [layer [<- Hlayer]].
    assert (HT : exists k, In (TApply k layer) (tasks_of sc pl)).
    { unfold tasks_of. destruct (pl_apply pl) as [|q r] eqn:EA.
      { unfold apply_ids in H. rewrite EA in H. destruct H. }
      destruct (apply_tasks_layers sc _ _ Hlayer 0 0) as [k Hk].
      destruct (apply_tasks sc 0 0 (pl_apply_layers pl)) as [at_ kw]. cbn [fst] in Hk.
      exists k. apply in_or_app. right. apply in_or_app. left. exact Hk. }
    destruct HT as [k HT].
    destruct (proj2 (full_apply_events _ _ TF) k layer i HT Hi) as [st Hst].
    assert (He : In (EApply (GApply, k) i st) (events t1)).
    { rewrite E. apply in_or_app. right. right. exact Hst. }
    pose proof (proj2 f_clean _ He) as B.
    apply ok_applied_In. exists (GApply, k). destruct st; cbn in B; try discriminate. exact He.
  Qed.

  Lemma f_local_apply i : In i lids <-> In i (apply_ids pl).
  Proof.
    split.
    - intros H. assert (X : In i (map l_id (locals_of sc))) by (rewrite f_locals_of; exact H).
      pose proof (bp_cover_local sc (live_crds sc c0) (locals_of sc) (found_in sc c0 (cand_of sc c0)) i X) as Y.
      rewrite <- plan_of_eq in Y. rewrite HINV in Y. destruct Y as [Y|[]]. exact Y.
    - intros H. unfold apply_ids in H. apply in_map_iff in H. destruct H as [p [<- Hp]].
      rewrite plan_of_eq in Hp. destruct (bp_apply_is_local sc _ _ _ p Hp) as [l [-> Hl]].
      rewrite f_locals_of in Hl. cbn. apply in_map. exact Hl.
  Qed.

  (* ---- what mon_C03 says about a clean run ------------------------------------------------------- *)
  Definition unpruned1 : list id := if o_prune (sc_opts sc) then [] else map p_id (pl_prune_all pl).

  Lemma f_mon : exists l, inv c1 = Some l /\
    (forall i, In i l <-> In i (ok_applied_of t1) \/ (In i (prev_of c0) /\ In i unpruned1)) /\
    (forall i, In i (ok_applied_of t1) -> In i (managed c1)).
  Proof.
    destruct f_opts as [O1 O2]. destruct f_clean as [NE NB].
    pose proof HM as M. unfold mon_C03 in M. cbv zeta in M. rewrite NE, O2 in M. cbn [orb] in M.
    fold (ok_applied_of t1) in M. fold (bad_act_of t1) in M. fold unpruned1 in M.
    rewrite (clean_bad_act _ NB), (clean_spared _ NB), HINV in M. cbn [filter app] in M.
    rewrite (filter_nil (fun i => match last_wait t1 i with Some WFailed | Some WTimedOut => true | _ => false end)) in M
      by (intros x _; apply (clean_unrec t1 x NB)).
    cbn [app] in M.
    destruct (inv c1) as [l|] eqn:EI.
    2:{ rewrite O1 in M. discriminate. }
    exists l. split; [reflexivity|].
    apply andb_true_iff in M. destruct M as [M _]. apply andb_true_iff in M. destruct M as [M1 M2].
    split.
    - intros i. unfold set_eqn in M1. rewrite (proj1 (equal_spec nat Nat.eqb nat_eqb_spec _ _) M1 i).
      rewrite diffn_In, unionn_In, intern_In. cbn [In]. tauto.
    - intros i Hi. rewrite forallb_forall in M2. apply memn_In. apply M2. exact Hi.
  Qed.

  (* ---- liveness in the canonical final cluster ------------------------------------------------------ *)
  Lemma norm_live cl i : fo cl i <> None -> fo (norm_cluster cl) i <> None.
  Proof.
    unfold fo. intros H. destruct (find_obj (objs cl) i) as [c|] eqn:E; [|congruence]. clear H.
    intros X. apply find_obj_none in X. apply X. pose proof (find_obj_id _ _ _ E) as EI.
    apply in_map_iff. exists c. split; [exact EI|]. unfold norm_cluster. cbn [objs].
    apply in_flat_map. exists i. split.
    - apply dedupn_In, sortn_In. rewrite <- EI. apply in_map. eapply find_obj_In. exact E.
    - rewrite E. left. reflexivity.
  Qed.

  Lemma managed_live cl i : In i (managed cl) -> fo cl i <> None.
  Proof.
    intros H. apply managed_In in H. destruct H as [c [Hc [_ <-]]]. unfold fo. intros X.
    apply find_obj_none in X. apply X. apply in_map. exact Hc.
  Qed.

  Lemma ndi_c0 : ndi c0.
  Proof. unfold ndi. unfold prev_of in HNDI. destruct (inv c0); [exact HNDI|exact I]. Qed.

  (* ---- the final cluster of the clean first run is stable --------------------------------------- *)
  Theorem first_run_stable : exists L,
    inv c1 = Some L /\ sorted_n L /\ NoDup L /\
    (forall i, In i L -> fo c1 i <> None) /\
    (forall i, In i lids -> In i L) /\
    (o_prune (sc_opts sc) = true -> forall i, In i L -> In i lids) /\
    (* dyn: a tracked id outside the manifest has a kind the mapper knows in c1 (it was fetched as a prune
       candidate of the first run, which ran without pruning: its CRD is still live) *)
    (forall i, In i L -> ~ In i lids -> kind_known sc (live_crds sc c1) i = true).
  Proof.
    destruct f_mon as [l [EI [EL EM]]]. exists l. split; [exact EI|].
    assert (ELK := EL).
    destruct (run_Cn sc c0 f_lnd) as [CN1 CN2].
    rewrite (out_final_run sc c0) in *. cbn [norm_cluster inv] in EI. unfold stored in EI.
    destruct (inv (r_cl (run_state sc c0))) as [l0|] eqn:E0; [|discriminate]. cbn in EI. injection EI as EI.
    split; [rewrite <- EI; apply sortn_sorted|].
    split.
    { rewrite <- EI. apply sortn_NoDup. specialize (CN1 ndi_c0). unfold ndi in CN1. rewrite E0 in CN1. exact CN1. }
    split.
    { intros i Hi. apply EL in Hi. destruct Hi as [Hi|[Hp Hu]].
      - apply managed_live. apply EM. exact Hi.
      - unfold unpruned1 in Hu. destruct (o_prune (sc_opts sc)) eqn:EP; [destruct Hu|].
        apply norm_live. apply (CN2 eq_refl).
        rewrite plan_of_eq, bp_prune_all_eq in Hu. unfold pruneA in Hu. rewrite map_map in Hu. cbn [pobj_of_live p_id] in Hu.
        apply in_map_iff in Hu. destruct Hu as [c [<- Hc]]. apply found_in_In in Hc. destruct Hc as [_ Hc].
        unfold fo. rewrite Hc. discriminate. }
    split.
    { intros i Hi. apply EL. left. apply f_applied_all. apply f_local_apply. exact Hi. }
    split.
    { intros EP i Hi. apply EL in Hi. unfold unpruned1 in Hi. rewrite EP in Hi.
      destruct Hi as [Hi|[_ []]]. apply f_local_apply. apply f_applied_sub. exact Hi. }
    intros i Hi Hn. apply ELK in Hi. destruct Hi as [Hi|[Hp Hu]].
    { exfalso. apply Hn. apply f_local_apply. apply f_applied_sub. exact Hi. }
    unfold unpruned1 in Hu. destruct (o_prune (sc_opts sc)) eqn:EP; [destruct Hu|].
    rewrite plan_of_eq, bp_prune_all_eq in Hu. unfold pruneA in Hu. rewrite map_map in Hu. cbn [pobj_of_live p_id] in Hu.
    apply in_map_iff in Hu. destruct Hu as [c [<- Hc]]. apply found_in_In_iff in Hc. destruct Hc as [_ [_ K0]].
    unfold kind_known in *. destruct (u_crd (uinfo_of sc (c_id c))) as [k|]; [|reflexivity].
    apply memn_In in K0. apply memn_In. unfold live_crds in *. apply filter_In in K0. destruct K0 as [K1 K2].
    apply filter_In. split; [|exact K2].
    assert (LV : fo (r_cl (run_state sc c0)) k <> None).
    { apply (CN2 eq_refl). unfold fo. intros X. apply find_obj_none in X. contradiction. }
    apply norm_live in LV. unfold fo in LV.
    destruct (in_dec Nat.eq_dec k (map c_id (objs (norm_cluster (r_cl (run_state sc c0)))))) as [Y|Y]; [exact Y|].
    apply find_obj_none in Y. contradiction.
  Qed.
End First.
