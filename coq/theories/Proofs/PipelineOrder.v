(* C04 / C05: ordering of apply and delete requests with respect to the
   dependency graph of the plan.  One traversal of the run (structure of
   Proofs/PipelineAuth.v) with
   - a state invariant `agree`: the actuation table agrees with the trace
     (a successful apply/delete record has its success event as the most recent
     result event of that object; a Succeeded reconcile field has a Successful
     wait event as the most recent wait event of that object);
   - a positional predicate `good` on the reversed trace: every apply / delete
     request was sent when the dependency filter passed on a table that agrees
     with the trace before the request. *)
From Coq Require Import List Bool Arith NArith ZArith Lia.
From CliUtils Require Import Model.ObjSet Model.ActuationTable Model.PipelineTypes Model.Pipeline
     Proofs.ObjSetProofs Proofs.ActuationTableProofs Proofs.PipelineBase Proofs.PipelineAuth.
Import ListNotations.

(* ---- most recent result / wait event of an object in a reversed trace ---- *)
Fixpoint lasta (tr : list item) (e : id) : option ast :=
  match tr with
  | [] => None
  | IEv (EApply _ j st) :: t => if Nat.eqb j e then Some st else lasta t e
  | _ :: t => lasta t e
  end.
Fixpoint lastp (tr : list item) (e : id) : option ast :=
  match tr with
  | [] => None
  | IEv (EPrune _ j st) :: t => if Nat.eqb j e then Some st else lastp t e
  | _ :: t => lastp t e
  end.
Fixpoint lastw (tr : list item) (e : id) : option wst :=
  match tr with
  | [] => None
  | IEv (EWait _ j w) :: t => if Nat.eqb j e then Some w else lastw t e
  | _ :: t => lastw t e
  end.

(* the item is a result or wait event of object j *)
Definition touches (it : item) (j : id) : bool :=
  match it with
  | IEv (EApply _ i _) | IEv (EPrune _ i _) | IEv (EWait _ i _) => Nat.eqb i j
  | _ => false
  end.

Lemma last_cons_other it tr j : touches it j = false ->
  lasta (it :: tr) j = lasta tr j /\ lastp (it :: tr) j = lastp tr j /\ lastw (it :: tr) j = lastw tr j.
Proof.
  destruct it as [r ok m st|d|e|]; try (intros _; repeat split; reflexivity).
  destruct e; cbn [touches]; intros H; cbn [lasta lastp lastw]; rewrite ?H; repeat split; reflexivity.
Qed.

(* chronological reading: the last event of the kind for e in pre *)
Definition last_apply_is (pre : list item) (e : id) (st : ast) : Prop :=
  exists g p1 p2, pre = p1 ++ IEv (EApply g e st) :: p2 /\ forall g' st', ~ In (IEv (EApply g' e st')) p2.
Definition last_prune_is (pre : list item) (e : id) (st : ast) : Prop :=
  exists g p1 p2, pre = p1 ++ IEv (EPrune g e st) :: p2 /\ forall g' st', ~ In (IEv (EPrune g' e st')) p2.
Definition last_wait_is (pre : list item) (e : id) (w : wst) : Prop :=
  exists g p1 p2, pre = p1 ++ IEv (EWait g e w) :: p2 /\ forall g' w', ~ In (IEv (EWait g' e w')) p2.

Lemma lasta_spec tr e st : lasta tr e = Some st ->
  exists g l1 l2, tr = l1 ++ IEv (EApply g e st) :: l2 /\ forall g' st', ~ In (IEv (EApply g' e st')) l1.
Proof.
  induction tr as [|it t IH]; cbn [lasta]; [discriminate|].
  assert (K : lasta t e = Some st -> (forall g' st', it <> IEv (EApply g' e st')) ->
              exists g l1 l2, it :: t = l1 ++ IEv (EApply g e st) :: l2 /\ forall g' st', ~ In (IEv (EApply g' e st')) l1).
  { intros H N. destruct (IH H) as [g [l1 [l2 [E F]]]]. exists g, (it :: l1), l2. split; [rewrite E; reflexivity|].
    intros g' st' [X|X]; [exact (N _ _ X)|exact (F _ _ X)]. }
  destruct it as [r ok m s0|d|ev|]; try (intros H; apply K; [exact H|discriminate]).
  destruct ev; try (intros H; apply K; [exact H|discriminate]).
  destruct (Nat.eqb i e) eqn:E.
  - apply Nat.eqb_eq in E. subst i. intros [= ->]. exists g, [], t. split; [reflexivity|]. intros ? ? [].
  - intros H. apply K; [exact H|]. intros g' st' [= -> -> ->]. rewrite Nat.eqb_refl in E. discriminate.
Qed.
Lemma lastp_spec tr e st : lastp tr e = Some st ->
  exists g l1 l2, tr = l1 ++ IEv (EPrune g e st) :: l2 /\ forall g' st', ~ In (IEv (EPrune g' e st')) l1.
Proof.
  induction tr as [|it t IH]; cbn [lastp]; [discriminate|].
  assert (K : lastp t e = Some st -> (forall g' st', it <> IEv (EPrune g' e st')) ->
              exists g l1 l2, it :: t = l1 ++ IEv (EPrune g e st) :: l2 /\ forall g' st', ~ In (IEv (EPrune g' e st')) l1).
  { intros H N. destruct (IH H) as [g [l1 [l2 [E F]]]]. exists g, (it :: l1), l2. split; [rewrite E; reflexivity|].
    intros g' st' [X|X]; [exact (N _ _ X)|exact (F _ _ X)]. }
  destruct it as [r ok m s0|d|ev|]; try (intros H; apply K; [exact H|discriminate]).
  destruct ev; try (intros H; apply K; [exact H|discriminate]).
  destruct (Nat.eqb i e) eqn:E.
  - apply Nat.eqb_eq in E. subst i. intros [= ->]. exists g, [], t. split; [reflexivity|]. intros ? ? [].
  - intros H. apply K; [exact H|]. intros g' st' [= -> -> ->]. rewrite Nat.eqb_refl in E. discriminate.
Qed.
Lemma lastw_spec tr e w : lastw tr e = Some w ->
  exists g l1 l2, tr = l1 ++ IEv (EWait g e w) :: l2 /\ forall g' w', ~ In (IEv (EWait g' e w')) l1.
Proof.
  induction tr as [|it t IH]; cbn [lastw]; [discriminate|].
  assert (K : lastw t e = Some w -> (forall g' w', it <> IEv (EWait g' e w')) ->
              exists g l1 l2, it :: t = l1 ++ IEv (EWait g e w) :: l2 /\ forall g' w', ~ In (IEv (EWait g' e w')) l1).
  { intros H N. destruct (IH H) as [g [l1 [l2 [E F]]]]. exists g, (it :: l1), l2. split; [rewrite E; reflexivity|].
    intros g' w' [X|X]; [exact (N _ _ X)|exact (F _ _ X)]. }
  destruct it as [r ok m s0|d|ev|]; try (intros H; apply K; [exact H|discriminate]).
  destruct ev; try (intros H; apply K; [exact H|discriminate]).
  destruct (Nat.eqb i e) eqn:E.
  - apply Nat.eqb_eq in E. subst i. intros [= ->]. exists g, [], t. split; [reflexivity|]. intros ? ? [].
  - intros H. apply K; [exact H|]. intros g' w' [= -> -> ->]. rewrite Nat.eqb_refl in E. discriminate.
Qed.

(* from the reversed prefix to the chronological prefix *)
Lemma rev_split_last {A} (pre : list A) x l1 l2 : rev pre = l1 ++ x :: l2 -> pre = rev l2 ++ x :: rev l1.
Proof.
  intros H. rewrite <- (rev_involutive pre), H, rev_app_distr. cbn [rev]. rewrite <- app_assoc. reflexivity.
Qed.
Lemma lasta_chron pre e st : lasta (rev pre) e = Some st -> last_apply_is pre e st.
Proof.
  intros H. destruct (lasta_spec _ _ _ H) as [g [l1 [l2 [E F]]]]. exists g, (rev l2), (rev l1).
  split; [apply rev_split_last; exact E|]. intros g' st' X. apply in_rev in X. exact (F _ _ X).
Qed.
Lemma lastp_chron pre e st : lastp (rev pre) e = Some st -> last_prune_is pre e st.
Proof.
  intros H. destruct (lastp_spec _ _ _ H) as [g [l1 [l2 [E F]]]]. exists g, (rev l2), (rev l1).
  split; [apply rev_split_last; exact E|]. intros g' st' X. apply in_rev in X. exact (F _ _ X).
Qed.
Lemma lastw_chron pre e w : lastw (rev pre) e = Some w -> last_wait_is pre e w.
Proof.
  intros H. destruct (lastw_spec _ _ _ H) as [g [l1 [l2 [E F]]]]. exists g, (rev l2), (rev l1).
  split; [apply rev_split_last; exact E|]. intros g' w' X. apply in_rev in X. exact (F _ _ X).
Qed.

Lemma last_apply_is_In pre e st : last_apply_is pre e st -> exists g, In (IEv (EApply g e st)) pre.
Proof. intros [g [p1 [p2 [-> _]]]]. exists g. apply in_or_app. right. left. reflexivity. Qed.
Lemma last_prune_is_In pre e st : last_prune_is pre e st -> exists g, In (IEv (EPrune g e st)) pre.
Proof. intros [g [p1 [p2 [-> _]]]]. exists g. apply in_or_app. right. left. reflexivity. Qed.

(* the last event of a kind is unique *)
Lemma last_split_unique {A} (P : A -> Prop) (a1 b1 a2 b2 : list A) x y :
  a1 ++ x :: b1 = a2 ++ y :: b2 -> P x -> P y -> (forall z, In z b1 -> ~ P z) -> (forall z, In z b2 -> ~ P z) -> x = y.
Proof.
  revert a2. induction a1 as [|h a1 IH]; intros a2 E Px Py N1 N2.
  - destruct a2 as [|h2 a2]; cbn in E.
    + congruence.
    + injection E as -> ->. exfalso. apply (N1 y); [apply in_or_app; right; left; reflexivity|exact Py].
  - destruct a2 as [|h2 a2]; cbn in E.
    + injection E as <- <-. exfalso. apply (N2 x); [apply in_or_app; right; left; reflexivity|exact Px].
    + injection E as _ E. exact (IH a2 E Px Py N1 N2).
Qed.
Lemma last_wait_is_fun pre e w1 w2 : last_wait_is pre e w1 -> last_wait_is pre e w2 -> w1 = w2.
Proof.
  intros [g1 [a1 [b1 [E1 N1]]]] [g2 [a2 [b2 [E2 N2]]]]. rewrite E1 in E2.
  assert (X : IEv (EWait g1 e w1) = IEv (EWait g2 e w2)).
  { apply (last_split_unique (fun it => exists g w, it = IEv (EWait g e w)) a1 b1 a2 b2 _ _ E2); eauto.
    - intros z Hz [g [w ->]]. exact (N1 _ _ Hz).
    - intros z Hz [g [w ->]]. exact (N2 _ _ Hz). }
  congruence.
Qed.
Lemma last_apply_is_fun pre e w1 w2 : last_apply_is pre e w1 -> last_apply_is pre e w2 -> w1 = w2.
Proof.
  intros [g1 [a1 [b1 [E1 N1]]]] [g2 [a2 [b2 [E2 N2]]]]. rewrite E1 in E2.
  assert (X : IEv (EApply g1 e w1) = IEv (EApply g2 e w2)).
  { apply (last_split_unique (fun it => exists g w, it = IEv (EApply g e w)) a1 b1 a2 b2 _ _ E2); eauto.
    - intros z Hz [g [w ->]]. exact (N1 _ _ Hz).
    - intros z Hz [g [w ->]]. exact (N2 _ _ Hz). }
  congruence.
Qed.
Lemma last_prune_is_fun pre e w1 w2 : last_prune_is pre e w1 -> last_prune_is pre e w2 -> w1 = w2.
Proof.
  intros [g1 [a1 [b1 [E1 N1]]]] [g2 [a2 [b2 [E2 N2]]]]. rewrite E1 in E2.
  assert (X : IEv (EPrune g1 e w1) = IEv (EPrune g2 e w2)).
  { apply (last_split_unique (fun it => exists g w, it = IEv (EPrune g e w)) a1 b1 a2 b2 _ _ E2); eauto.
    - intros z Hz [g [w ->]]. exact (N1 _ _ Hz).
    - intros z Hz [g [w ->]]. exact (N2 _ _ Hz). }
  congruence.
Qed.

Definition amatch (a : actuation) (st : ast) : bool :=
  match a, st with ASucceeded, AOk | ASkipped, ASkip | AFailed, AFail => true | _, _ => false end.
Definition wmatch (r : reconcile) (w : wst) : bool :=
  match r, w with
  | RSucceeded, WOk | RPending, WPending | RSkipped, WSkipped | RFailed, WFailed | RTimeout, WTimedOut => true
  | _, _ => false
  end.

Section Order.
  Variable sc : scenario.
  Variable pl : plan.

  Definition prune_ids : list id := map p_id (pl_prune pl).

  (* what a table record of object e says about the (reversed) trace *)
  Definition ent (tr : list item) (e : id) (r : rec id) : Prop :=
    (r_str r = SApply -> In e (apply_ids pl)) /\
    (r_str r = SApply -> r_act r = ASucceeded -> lasta tr e = Some AOk) /\
    (r_str r = SDelete -> r_act r = ASucceeded -> lastp tr e = Some AOk /\ In e prune_ids) /\
    (r_rec r = RSucceeded -> lastw tr e = Some WOk).

  Definition agree (tbl : table id) (tr : list item) : Prop :=
    forall e r, lookup Nat.eqb tbl e = Some r -> ent tr e r.

  (* a request is sent when the dependency filter passes on a table that agrees with the trace so far *)
  Definition Qr (pre : list item) (r : req) : Prop :=
    match r with
    | RCreate d _ | RPatch d _ _ =>
        exists tbl, agree tbl pre /\ dep_filter sc pl tbl SApply (g_deps (pl_graph pl) d) = FPass
    | RDelete e _ _ =>
        exists tbl, agree tbl pre /\ dep_filter sc pl tbl SDelete (g_dependents (pl_graph pl) e) = FPass
    | _ => True
    end.
  Definition Qo (pre : list item) (it : item) : Prop :=
    match it with IReq r _ _ _ => Qr pre r | _ => True end.
  Fixpoint good (l : list item) : Prop :=
    match l with [] => True | it :: pre => Qo pre it /\ good pre end.

  Definition InvT (tbl : table id) (tr : list item) : Prop := agree tbl tr /\ good tr.
  Definition Inv (s : rst) : Prop := InvT (r_tbl s) (r_tr s).
  Definition stepo (s s' : rst) : Prop := Inv s -> Inv s'.

  Lemma stepo_refl s : stepo s s.
  Proof. intros H; exact H. Qed.
  Lemma stepo_trans a b c : stepo a b -> stepo b c -> stepo a c.
  Proof. intros H1 H2 H. exact (H2 (H1 H)). Qed.
  Lemma stepo_same s s' : r_tbl s' = r_tbl s -> r_tr s' = r_tr s -> stepo s s'.
  Proof. unfold stepo, Inv. intros -> ->. exact (fun H => H). Qed.

  Lemma ent_cons it tr j r : touches it j = false -> ent tr j r -> ent (it :: tr) j r.
  Proof.
    intros T. destruct (last_cons_other it tr j T) as [A [B C]]. unfold ent. rewrite A, B, C. exact (fun H => H).
  Qed.

  (* an item that is no result / wait event, a request only with its predicate *)
  Lemma invT_item tbl tr it : (forall j, touches it j = false) -> Qo tr it -> InvT tbl tr -> InvT tbl (it :: tr).
  Proof.
    intros T Q [A G]. split; [|split; assumption].
    intros e r L. apply ent_cons; [apply T|exact (A e r L)].
  Qed.

  (* result event of an apply followed by the table update *)
  Lemma invT_apply tbl tr g i st a u gg : amatch a st = true -> In i (apply_ids pl) -> InvT tbl tr ->
    InvT (set_status Nat.eqb tbl (mkRec i SApply a RPending u gg)) (IEv (EApply g i st) :: tr).
  Proof.
    intros M Hi [A G]. split; [|split; [exact I|exact G]].
    intros e r L. rewrite (lookup_set_status nat Nat.eqb nat_eqb_spec) in L. unfold spec_set in L. cbn [r_id] in L.
    destruct (Nat.eqb i e) eqn:E.
    - apply Nat.eqb_eq in E. subst e. injection L as <-. unfold ent. cbn [r_str r_act r_rec lasta]. rewrite Nat.eqb_refl.
      repeat split; try discriminate; try (intros; assumption).
      intros _ ->. destruct st; try discriminate. reflexivity.
    - apply ent_cons; [exact E|exact (A e r L)].
  Qed.

  Lemma invT_prune tbl tr g i st a u gg : amatch a st = true -> In i prune_ids -> InvT tbl tr ->
    InvT (set_status Nat.eqb tbl (mkRec i SDelete a RPending u gg)) (IEv (EPrune g i st) :: tr).
  Proof.
    intros M Hi [A G]. split; [|split; [exact I|exact G]].
    intros e r L. rewrite (lookup_set_status nat Nat.eqb nat_eqb_spec) in L. unfold spec_set in L. cbn [r_id] in L.
    destruct (Nat.eqb i e) eqn:E.
    - apply Nat.eqb_eq in E. subst e. injection L as <-. unfold ent. cbn [r_str r_act r_rec lastp]. rewrite Nat.eqb_refl.
      split; [discriminate|]. split; [discriminate|]. split; [|discriminate].
      intros _ ->. split; [destruct st; try discriminate; reflexivity|exact Hi].
    - apply ent_cons; [exact E|exact (A e r L)].
  Qed.

  (* registration: a record that is not a success, no event *)
  Lemma invT_reg tbl tr i st a : a <> ASucceeded -> (st = SApply -> In i (apply_ids pl)) -> InvT tbl tr ->
    InvT (set_status Nat.eqb tbl (mkRec i st a RPending 0%N 0%Z)) tr.
  Proof.
    intros Na Hi [A G]. split; [|exact G].
    intros e r L. rewrite (lookup_set_status nat Nat.eqb nat_eqb_spec) in L. unfold spec_set in L. cbn [r_id] in L.
    destruct (Nat.eqb i e) eqn:E; [|exact (A e r L)].
    apply Nat.eqb_eq in E. subst e. injection L as <-. unfold ent. cbn [r_str r_act r_rec].
    repeat split; try discriminate; try (intros; contradiction); try (intros; auto).
  Qed.

  (* reconcile update followed by its wait event *)
  Lemma invT_wait tbl tr g i rc w : wmatch rc w = true -> InvT tbl tr ->
    InvT (match set_reconcile Nat.eqb tbl i rc with Some t => t | None => tbl end) (IEv (EWait g i w) :: tr).
  Proof.
    intros M [A G]. split; [|split; [exact I|exact G]].
    pose proof (set_reconcile_some nat Nat.eqb nat_eqb_spec tbl i rc) as S.
    destruct (set_reconcile Nat.eqb tbl i rc) as [t|].
    - destruct S as [_ [S _]]. intros e r L. rewrite S in L. unfold spec_set_rec in L.
      destruct (Nat.eqb i e) eqn:E.
      + apply Nat.eqb_eq in E. subst e. destruct (lookup Nat.eqb tbl i) as [r0|] eqn:L0; [|discriminate].
        injection L as <-. destruct (A i r0 L0) as [E1 [E2 [E3 E4]]]. unfold ent. cbn [r_str r_act r_rec lasta lastp lastw].
        rewrite Nat.eqb_refl. repeat split; try assumption; try (apply E3; assumption).
        intros ->. destruct w; try discriminate. reflexivity.
      + apply ent_cons; [exact E|exact (A e r L)].
    - intros e r L. destruct (Nat.eqb i e) eqn:E.
      + apply Nat.eqb_eq in E. subst e. congruence.
      + apply ent_cons; [exact E|exact (A e r L)].
  Qed.
End Order.

(* trace extension by items that are neither result / wait events nor ordered requests *)
Definition inert (it : item) : Prop :=
  match it with
  | IReq (RCreate _ _) _ _ _ | IReq (RPatch _ _ _) _ _ _ | IReq (RDelete _ _ _) _ _ _ => False
  | IEv (EApply _ _ _) | IEv (EPrune _ _ _) | IEv (EWait _ _ _) => False
  | _ => True
  end.
Inductive ext_inert (tr : list item) : list item -> Prop :=
| ext_refl : ext_inert tr tr
| ext_cons it tr' : inert it -> ext_inert tr tr' -> ext_inert tr (it :: tr').

(* destruct every scrutinee that contains no other match *)
Ltac dall :=
  repeat match goal with
         | |- context [match ?x with _ => _ end] =>
             lazymatch x with
             | context [match _ with _ => _ end] => fail
             | _ => destruct x
             end
         end.

Definition apply_req_for (d : id) (r : req) : Prop :=
  match r with RCreate i _ | RPatch i _ _ => i = d | _ => False end.

Section Order2.
  Variable sc : scenario.
  Variable pl : plan.
  Variable locals : list lobj.

  Notation stepo := (stepo sc pl).
  Notation Inv := (Inv sc pl).
  Ltac tr := eapply (stepo_trans sc pl).

  Lemma inert_touches it j : inert it -> touches it j = false.
  Proof. destruct it as [r ? ? ?|?|e|]; try reflexivity. destruct e; cbn; try reflexivity; intros []. Qed.
  Lemma inert_Qo tr it : inert it -> Qo sc pl tr it.
  Proof. destruct it as [r ? ? ?|?|e|]; try (intros; exact I). destruct r; cbn; try (intros; exact I); intros []. Qed.

  Lemma stepo_inert s s' : r_tbl s' = r_tbl s -> ext_inert (r_tr s) (r_tr s') -> stepo s s'.
  Proof.
    unfold stepo, Inv. intros -> E H. induction E as [|it tr' Hi E IH]; [exact H|].
    apply invT_item; [intros j; apply inert_touches; exact Hi|apply inert_Qo; exact Hi|exact IH].
  Qed.

  Lemma o_item s it : inert it -> stepo s (emit s it).
  Proof. intros Hi. apply stepo_inert; [reflexivity|]. cbn. constructor; [exact Hi|constructor]. Qed.
  Lemma o_wait s g i rc w : wmatch rc w = true -> stepo s (ev (rec_reconcile s i rc) (EWait g i w)).
  Proof.
    intros M H. pose proof (invT_wait sc pl (r_tbl s) (r_tr s) g i rc w M H) as X.
    unfold Inv, rec_reconcile. destruct (set_reconcile Nat.eqb (r_tbl s) i rc); exact X.
  Qed.
  Lemma o_set_abort s : stepo s (set_abort s).
  Proof. apply stepo_same; reflexivity. Qed.
  Lemma o_set_cache s c : stepo s (set_cache s c).
  Proof. apply stepo_same; reflexivity. Qed.
  Lemma o_fold {A} (f : rst -> A -> rst) (l : list A) :
    (forall s a, In a l -> stepo s (f s a)) -> forall s, stepo s (fold_left f l s).
  Proof.
    induction l as [|a l IH]; intros H s; cbn; [apply stepo_refl|].
    tr; [apply H; left; reflexivity|]. apply IH. intros; apply H; right; assumption.
  Qed.

  (* ---- the wait machine ---------------------------------------------------- *)
  Lemma o_handle_changed_uid c g s i : stepo s (handle_changed_uid c g s i).
  Proof. unfold handle_changed_uid. destruct c; apply o_wait; reflexivity. Qed.

  Lemma o_wait_start c g ids s : stepo s (fst (wait_start c g ids s)).
  Proof.
    unfold wait_start.
    set (stepf := fun (acc : rst * list id) (i : id) => _).
    assert (H : forall l acc, stepo (fst acc) (fst (fold_left stepf l acc))).
    { induction l as [|i l IH]; intros acc; cbn [fold_left]; [apply stepo_refl|].
      tr; [|apply IH]. destruct acc as [s0 pend]. unfold stepf. cbn [fst].
      destruct (w_skipped c s0 i); cbn [fst]; [apply o_wait; reflexivity|].
      destruct (changed_uid s0 i); cbn [fst]; [apply o_handle_changed_uid|].
      destruct (cond_met c s0 i); cbn [fst]; apply o_wait; reflexivity. }
    specialize (H ids (s, [])). destruct (fold_left stepf ids (s, [])) as [s' pend]. exact H.
  Qed.

  Lemma o_wait_update c g ids s w i : stepo s (fst (wait_update c g ids s w i)).
  Proof.
    unfold wait_update.
    assert (H1 : forall r st, wmatch r st = true -> stepo s (ev (rec_reconcile s i r) (EWait g i st)))
      by (intros; apply o_wait; assumption).
    pose proof (o_handle_changed_uid c g s i) as H2.
    pose proof (stepo_refl sc pl s) as H0.
    repeat match goal with
           | |- context [if ?b then _ else _] => destruct b
           | |- context [match ?c with AllCurrent => _ | AllNotFound => _ end] => destruct c
           end; cbn [fst]; first [exact H0 | exact H2 | apply H1; reflexivity].
  Qed.

  Lemma o_wait_timeout g s w : stepo s (wait_timeout g s w).
  Proof. unfold wait_timeout. apply o_fold. intros s0 i _. apply o_wait. reflexivity. Qed.

  Lemma o_deliver c g ids ds : forall s w, stepo s (fst (deliver sc c g ids ds s w)).
  Proof.
    induction ds as [|d t IH]; intros s w; cbn [deliver]; [apply stepo_refl|].
    destruct (w_pending w); [apply stepo_refl|].
    set (s2 := if o_status_events (sc_opts sc) then ev (emit s (IDeliv d)) (EStatus (s_id d) (s_st d)) else emit s (IDeliv d)).
    set (s3 := set_cache s2 (d :: r_cache s2)).
    assert (S3 : stepo s s3).
    { unfold s3, s2. tr; [|apply o_set_cache]. destruct (o_status_events (sc_opts sc)).
      - apply (stepo_trans sc pl _ (emit s (IDeliv d))); apply o_item; exact I.
      - apply o_item; exact I. }
    destruct (memn (s_id d) ids).
    - pose proof (o_wait_update c g ids s3 w (s_id d)) as U.
      destruct (wait_update c g ids s3 w (s_id d)) as [s4 w4]. cbn [fst] in U.
      tr; [exact S3|]. tr; [exact U|apply IH].
    - tr; [exact S3|apply IH].
  Qed.

  Lemma o_wait_reset c ids s : stepo s (wait_reset sc c ids s).
  Proof. apply stepo_same; [apply wait_reset_tbl|apply wait_reset_tr]. Qed.

  Lemma o_wait_task c g ids s : stepo s (wait_task sc c g ids s).
  Proof.
    unfold wait_task. cbv zeta.
    pose proof (o_wait_start c g ids s) as S1.
    destruct (wait_start c g ids s) as [s1 w1]. cbn [fst] in S1.
    destruct (w_pending w1); [tr; [exact S1|apply o_wait_reset]|].
    destruct (match e_watch_err_at (sc_env sc) with Some n => Nat.eqb n (snd g) | None => false end);
      [tr; [exact S1|apply o_set_abort]|].
    pose proof (o_deliver c g ids (w_deliv (nth (snd g) (e_waits (sc_env sc)) (mkW [] WTimeout))) s1 w1) as S2.
    destruct (deliver sc c g ids _ s1 w1) as [s2 w2]. cbn [fst] in S2.
    tr; [exact S1|]. tr; [exact S2|].
    destruct (w_pending w2); [apply o_wait_reset|].
    destruct (w_end _).
    - destruct (match c with AllCurrent => _ | AllNotFound => _ end);
        [tr; [apply o_wait_timeout|apply o_wait_reset]|apply o_set_abort].
    - apply o_set_abort.
  Qed.

  (* ---- the dependency filter ------------------------------------------------ *)
  Lemma dep_filter_pass tbl strat rel : dep_filter sc pl tbl strat rel = FPass ->
    forall b, In b rel ->
      ~ In b (pl_invalid pl) /\
      exists r, lookup Nat.eqb tbl b = Some r /\ r_str r = strat /\ r_act r = ASucceeded /\
                (is_dry (o_dry (sc_opts sc)) = true \/ r_rec r = RSucceeded).
  Proof.
    induction rel as [|a rel IH]; cbn [dep_filter]; intros H b Hb; [destruct Hb|].
    destruct (dep_check sc pl tbl strat a) eqn:DC; try discriminate.
    destruct Hb as [<-|Hb]; [|exact (IH H b Hb)].
    unfold dep_check in DC.
    destruct (memn a (pl_invalid pl)) eqn:MI; [discriminate|].
    destruct (lookup Nat.eqb tbl a) as [r|]; [|discriminate].
    destruct (strategy_eqb (r_str r) strat) eqn:SE; cbn [negb] in DC; [|discriminate].
    split.
    - intros X. apply memn_In in X. congruence.
    - exists r. split; [reflexivity|]. split; [destruct (r_str r), strat; cbn in SE; congruence|].
      destruct (r_act r); try discriminate. split; [reflexivity|].
      destruct (is_dry (o_dry (sc_opts sc))); [left; reflexivity|right].
      destruct (r_rec r); try discriminate. reflexivity.
  Qed.

  (* ---- apply ------------------------------------------------------------------ *)
  (* the trace grows by apply requests for the object only (none, one, or - APIService fallback
     after a stream error - the rejected apply PATCH followed by the requests of the second attempt) *)
  Definition apply_items (d : id) (lt : list item) : Prop :=
    Forall (fun it => exists r ok m st, it = IReq r ok m st /\ apply_req_for d r) lt.
  Definition shape_l (l : lobj) (a b : rst) : Prop :=
    r_tbl b = r_tbl a /\ exists lt, r_tr b = lt ++ r_tr a /\ apply_items (l_id l) lt.

  Lemma shape_trans l a b c : shape_l l a b -> shape_l l b c -> shape_l l a c.
  Proof.
    intros [T1 [l1 [E1 F1]]] [T2 [l2 [E2 F2]]]. split; [congruence|].
    exists (l2 ++ l1). split; [rewrite E2, E1, app_assoc; reflexivity|apply Forall_app; split; assumption].
  Qed.

  Ltac shape_leaf :=
    (split; [reflexivity|]);
    first [ exists []; split; [reflexivity|constructor]
          | eexists [_]; split; [reflexivity|]; constructor; [eexists _, _, _, _; split; reflexivity|constructor] ].

  Lemma shape_ssa l s n : shape_l l s (fst (ssa_patch sc s l n)).
  Proof. unfold shape_l, ssa_patch, maybe_cancel, log_req. cbv zeta. dall; cbn; shape_leaf. Qed.

  Lemma shape_csa l s : shape_l l s (fst (csa_apply sc s l)).
  Proof. unfold shape_l, csa_apply, get_obj, maybe_cancel, log_req. cbv zeta. dall; cbn; shape_leaf. Qed.

  Lemma kubectl_apply_shape s l : shape_l l s (fst (kubectl_apply sc s l)).
  Proof. exact (kubectl_apply_step sc l (shape_l l) (shape_trans l) (shape_ssa l) (shape_csa l) s). Qed.

  Lemma policy_apply_filter_same s i :
    r_tbl (fst (policy_apply_filter sc s i)) = r_tbl s /\ r_tr (fst (policy_apply_filter sc s i)) = r_tr s.
  Proof. unfold policy_apply_filter, get_obj. dall; cbn; split; reflexivity. Qed.

  Lemma o_apply_one g s p : local_ok pl p -> stepo s (apply_one sc pl g s p).
  Proof.
    intros [Hin Hl]. unfold apply_one. destruct (p_local p) as [l|] eqn:EL; [|apply stepo_refl].
    destruct (negb (kind_known sc (r_known s) (p_id p))).
    { intros H0. exact (invT_apply sc pl _ _ g (p_id p) AFail AFailed 0%N 0%Z eq_refl Hin H0). }
    pose proof (policy_apply_filter_same s (p_id p)) as [PT PR].
    destruct (policy_apply_filter sc s (p_id p)) as [s1 f1]. cbn [fst] in PT, PR.
    assert (S1 : stepo s s1) by (apply stepo_same; assumption).
    assert (RA : forall X st a u gg, amatch a st = true -> Inv X -> Inv (rec_add (ev X (EApply g (p_id p) st)) (p_id p) SApply a u gg)).
    { intros X st a u gg M HX. exact (invT_apply sc pl _ _ g (p_id p) st a u gg M Hin HX). }
    intros H0. pose proof (S1 H0) as H1.
    destruct (match f1 with FPass => _ | _ => _ end) eqn:EF.
    - assert (DF : dep_filter sc pl (r_tbl s1) SApply (g_deps (pl_graph pl) (p_id p)) = FPass)
        by (destruct f1; try discriminate; exact EF).
      (* the source lookups of the mutator: reads and cache writes, neither table nor trace *)
      pose proof (mutate_tbl sc s1 l) as MT. pose proof (mutate_tr sc s1 l) as MR.
      destruct (mutate sc s1 l) as [sm okm]. cbn [fst] in MT, MR.
      assert (Sm : stepo s1 sm) by (apply stepo_same; assumption). pose proof (Sm H1) as Hm.
      destruct okm; cbn [negb]; [|apply RA; [reflexivity|exact Hm]].
      rewrite <- MT in DF.
      pose proof (kubectl_apply_shape sm l) as [KT KR].
      destruct (kubectl_apply sc sm l) as [s2 r]. cbn [fst] in KT, KR.
      assert (H2 : Inv s2).
      { unfold Inv. rewrite KT. destruct KR as [lt [-> AL]].
        induction AL as [|it lt [rq [ok [m [st [-> AR]]]]] _ IH]; [exact Hm|].
        cbn [app]. apply invT_item; [intros j; reflexivity| |exact IH].
        rewrite (Hl l eq_refl) in AR. destruct rq; cbn in AR; try contradiction; subst; cbn;
          (exists (r_tbl sm); split; [exact (proj1 IH)|exact DF]). }
      destruct r; apply RA; try reflexivity; exact H2.
    - apply RA; [reflexivity|exact H1].
    - apply RA; [reflexivity|exact H1].
  Qed.

  Lemma o_apply_task g s layer : Forall (local_ok pl) layer -> stepo s (apply_task sc pl g s layer).
  Proof.
    intros F. unfold apply_task. apply o_fold. intros s0 p Hp. apply o_apply_one.
    rewrite Forall_forall in F. exact (F p Hp).
  Qed.

  (* ---- prune ------------------------------------------------------------------ *)
  Lemma prune_filters_delete_dep tbl uids c : prune_filters sc pl locals tbl uids c = PDelete ->
    dep_filter sc pl tbl SDelete (g_dependents (pl_graph pl) (c_id c)) = FPass.
  Proof.
    unfold prune_filters. destruct (c_keep c); [discriminate|].
    destruct (negb (can_prune sc (c_owner c))); [discriminate|].
    destruct (negb (o_destroy (sc_opts sc)) && _); [discriminate|].
    destruct (dep_filter _ _ _ _ _); try discriminate. reflexivity.
  Qed.

  Lemma prune_one_shape g uids s c :
    exists X st a u gg,
      prune_one sc pl locals g uids s (pobj_of_live c) = rec_add (ev X (EPrune g (c_id c) st)) (c_id c) SDelete a u gg /\
      amatch a st = true /\ r_tbl X = r_tbl s /\
      (r_tr X = r_tr s \/
       (exists ok m sto, r_tr X = IReq (RUpdate (c_id c)) ok m sto :: r_tr s) \/
       (prune_filters sc pl locals (r_tbl s) uids c = PDelete /\
        exists pre p ok m sto, r_tr X = IReq (RDelete (c_id c) pre p) ok m sto :: r_tr s)).
  Proof.
    unfold prune_one. cbv zeta. cbn [p_live pobj_of_live].
    destruct (prune_filters sc pl locals (r_tbl s) uids c) eqn:PF; unfold maybe_cancel, log_req; dall;
      eexists _, _, _, _, _; (split; [reflexivity|]); (split; [reflexivity|]); (split; [reflexivity|]); cbn;
      first [left; reflexivity
            | right; left; eexists _, _, _; reflexivity
            | right; right; split; [reflexivity|eexists _, _, _, _, _; reflexivity]].
  Qed.

  Lemma o_prune_one g uids s p : prune_ok pl p -> stepo s (prune_one sc pl locals g uids s p).
  Proof.
    intros [c [-> Hin]] H.
    destruct (prune_one_shape g uids s c) as [X [st [a [u [gg [E [M [T TR]]]]]]]]. rewrite E.
    assert (HX : Inv X).
    { unfold Inv. rewrite T.
      destruct TR as [->|[[ok [m [sto ->]]]|[PF [pre [p [ok [m [sto ->]]]]]]]]; [exact H| |].
      - apply invT_item; [intros j; reflexivity|exact I|exact H].
      - apply invT_item; [intros j; reflexivity| |exact H].
        cbn. exists (r_tbl s). split; [exact (proj1 H)|exact (prune_filters_delete_dep _ _ _ PF)]. }
    refine (invT_prune sc pl _ _ g (c_id c) st a u gg M _ HX).
    unfold prune_ids. change (c_id c) with (p_id (pobj_of_live c)). apply in_map. exact Hin.
  Qed.

  Lemma o_prune_task g s layer : Forall (prune_ok pl) layer -> stepo s (prune_task sc pl locals g s layer).
  Proof.
    intros F. unfold prune_task. apply o_fold. intros s0 p Hp. apply o_prune_one.
    rewrite Forall_forall in F. exact (F p Hp).
  Qed.
End Order2.

Section Order3.
  Variable sc : scenario.
  Variable pl : plan.
  Variable locals : list lobj.

  Notation stepo := (stepo sc pl).
  Notation Inv := (Inv sc pl).
  Ltac tr := eapply (stepo_trans sc pl).

  (* ---- inventory tasks: no result / wait event, no ordered request, table untouched ---- *)
  Lemma o_inv_list s : stepo s (fst (inv_list sc s)).
  Proof. unfold inv_list. destruct (faulted sc _); cbn [fst]; apply stepo_same; reflexivity. Qed.

  Lemma o_inv_apply s ids : stepo s (fst (inv_apply sc s ids)).
  Proof.
    apply stepo_inert; unfold inv_apply, log_req; cbv zeta; dall; cbn; try reflexivity; repeat constructor.
  Qed.
  Lemma o_inv_update s ids : stepo s (fst (inv_update sc s ids)).
  Proof.
    apply stepo_inert; unfold inv_update, log_req; cbv zeta; dall; cbn; try reflexivity; repeat constructor.
  Qed.

  Lemma o_merge s ids : stepo s (fst (merge sc s ids)).
  Proof.
    unfold merge. cbv zeta.
    pose proof (o_inv_list s) as L1. destruct (inv_list sc s) as [s1 r1]. cbn [fst] in L1.
    destruct r1 as [[l|]|]; cbn [fst]; try exact L1.
    - pose proof (o_inv_list s1) as L2. destruct (inv_list sc s1) as [s2 r2]. cbn [fst] in L2.
      assert (S02 : stepo s s2) by (tr; [exact L1|exact L2]).
      destruct r2 as [cur0|]; cbn [fst]; [|exact S02].
      destruct (set_eqn _ _ && _); cbn [fst]; [exact S02|].
      destruct (is_dry _); cbn [fst]; [exact S02|].
      tr; [exact S02|apply o_inv_apply].
    - destruct (is_dry _); cbn [fst]; [exact L1|]. tr; [exact L1|apply o_inv_apply].
  Qed.

  Lemma o_replace s ids : stepo s (fst (replace sc s ids)).
  Proof.
    unfold replace. cbv zeta. destruct (is_dry _); cbn [fst]; [apply stepo_refl|].
    pose proof (o_inv_list s) as L1. destruct (inv_list sc s) as [s1 r1]. cbn [fst] in L1.
    destruct r1 as [x|]; cbn [fst]; [|exact L1].
    pose proof (o_inv_list s1) as L2. destruct (inv_list sc s1) as [s2 r2]. cbn [fst] in L2.
    assert (S02 : stepo s s2) by (tr; [exact L1|exact L2]).
    destruct r2 as [[cur|]|]; cbn [fst]; try exact S02.
    destruct (set_eqn _ _ && _); cbn [fst]; [exact S02|].
    tr; [exact S02|apply o_inv_update].
  Qed.

  Lemma o_inv_add_task s : stepo s (fst (inv_add_task sc pl s)).
  Proof.
    unfold inv_add_task. cbv zeta.
    match goal with |- stepo s (fst (let '(s1, ok1) := ?X in _)) =>
      assert (H : stepo s (fst X)); [|destruct X as [s1 ok1]; cbn [fst] in H] end.
    { apply stepo_inert; unfold log_req; dall; cbn; try reflexivity; repeat constructor. }
    destruct ok1; cbn [fst]; [|exact H]. tr; [exact H|apply o_merge].
  Qed.

  Lemma o_delete_inventory s : stepo s (fst (delete_inventory sc s)).
  Proof.
    unfold delete_inventory. cbv zeta.
    pose proof (o_inv_list s) as L1. destruct (inv_list sc s) as [s1 r1]. cbn [fst] in L1.
    destruct r1 as [[l|]|]; cbn [fst]; try exact L1.
    destruct (is_dry _); cbn [fst]; [exact L1|].
    tr; [exact L1|]. apply stepo_inert; unfold log_req; dall; cbn; try reflexivity; repeat constructor.
  Qed.

  Lemma o_inv_set_task prev s : stepo s (fst (inv_set_task sc pl prev s)).
  Proof.
    unfold inv_set_task. destruct prev as [pv|]; cbn [fst]; [|apply stepo_refl].
    destruct (o_destroy (sc_opts sc) && destroy_successful pl pv s); [apply o_delete_inventory|apply o_replace].
  Qed.

  Lemma o_run_task prev s t : task_ok pl t -> stepo s (fst (run_task sc pl locals prev s t)).
  Proof.
    intros OK. unfold run_task. cbv zeta.
    assert (S0 : stepo s (ev s (EStarted (task_name t)))) by (apply o_item; exact I).
    assert (FN : forall s1, stepo s1 (ev s1 (EFinished (task_name t)))) by (intros; apply o_item; exact I).
    destruct t; cbn [task_ok] in OK.
    - pose proof (o_inv_add_task (ev s (EStarted (task_name TInvAdd)))) as T.
      destruct (inv_add_task sc pl _) as [s1 ok]. cbn [fst] in *.
      tr; [exact S0|]. tr; [exact T|apply FN].
    - cbn [fst]. tr; [exact S0|]. tr; [apply o_apply_task; exact OK|apply FN].
    - cbn [fst]. tr; [exact S0|]. tr; [apply o_wait_task|apply FN].
    - cbn [fst]. tr; [exact S0|]. tr; [apply o_prune_task; exact OK|apply FN].
    - pose proof (o_inv_set_task prev (ev s (EStarted (task_name TInvSet)))) as T.
      destruct (inv_set_task sc pl prev _) as [s1 ok]. cbn [fst] in *.
      tr; [exact S0|]. tr; [exact T|apply FN].
  Qed.

  Lemma o_run_tasks prev ts : Forall (task_ok pl) ts -> forall s, stepo s (run_tasks sc pl locals prev s ts).
  Proof.
    intros OK. induction ts as [|t rest IH]; intros s; cbn [run_tasks]; [apply stepo_refl|].
    inversion OK as [|? ? Ot Or]; subst.
    pose proof (o_run_task prev s t Ot) as T.
    destruct (run_task sc pl locals prev s t) as [s1 ok]. cbn [fst] in T.
    destruct (negb ok); [tr; [exact T|apply o_item; exact I]|].
    destruct (r_abort s1); [tr; [exact T|apply o_item; exact I]|].
    tr; [exact T|apply IH; exact Or].
  Qed.

  Lemma o_register s : stepo s (register sc pl s).
  Proof.
    unfold register.
    assert (F : forall (l : list pobj) st a s0, a <> ASucceeded -> (st = SApply -> incl (map p_id l) (apply_ids pl)) ->
               stepo s0 (fold_left (fun s p => rec_add s (p_id p) st a 0%N 0%Z) l s0)).
    { intros l st a s0 Na Hi. apply o_fold. intros s1 p Hp H.
      exact (invT_reg sc pl _ _ (p_id p) st a Na (fun E => Hi E _ (in_map p_id _ _ Hp)) H). }
    assert (FA : stepo s (fold_left (fun s p => rec_add s (p_id p) SApply APending 0%N 0%Z) (pl_apply pl) s))
      by (apply F; [discriminate|intros _; apply incl_refl]).
    destruct (negb (o_destroy (sc_opts sc)) && negb (o_prune (sc_opts sc)));
      destruct (o_prune (sc_opts sc)).
    - tr; [exact FA|]. tr; apply F; discriminate.
    - tr; [exact FA|]. apply F; discriminate.
    - tr; [exact FA|]. apply F; discriminate.
    - exact FA.
  Qed.
End Order3.

Section Order4.
  Variable sc : scenario.

  (* the invariant holds in the final run state *)
  Theorem order_run_state c0 pl locals : run_plan sc c0 = Some (pl, locals) -> Inv sc pl (run_state sc c0).
  Proof.
    unfold run_plan, run_state. cbv zeta.
    pose proof (inv_list_tr sc (init_state sc c0)) as T1. pose proof (inv_list_cl sc (init_state sc c0)) as [_ B1].
    destruct (inv_list sc (init_state sc c0)) as [s1 r1]. cbn [fst] in *.
    destruct r1 as [st|]; [|discriminate].
    match goal with |- context [fetch_all sc s1 ?c] => set (cand := c) in * end.
    pose proof (fetch_all_tr sc cand s1) as T2. pose proof (fetch_all_cl sc cand s1) as [_ [B2 _]].
    destruct (fetch_all sc s1 cand) as [s2 r2]. cbn [fst] in *.
    destruct r2 as [pobjs|]; [|discriminate]. intros [= <- <-].
    match goal with |- context [register sc ?p s2] => set (pl := p) in * end.
    set (locals := if o_destroy (sc_opts sc) then [] else sc_local sc) in *.
    assert (I2 : Inv sc pl s2).
    { unfold Inv. rewrite T2, T1, B2, B1. cbn. split; [intros e r L; discriminate|exact I]. }
    pose proof (o_register sc pl s2 I2) as I3.
    pose proof (inv_list_tr sc (register sc pl s2)) as T4. pose proof (inv_list_cl sc (register sc pl s2)) as [_ B4].
    destruct (inv_list sc (register sc pl s2)) as [s4 r4]. cbn [fst] in *.
    assert (I4 : Inv sc pl s4) by (unfold Inv; rewrite T4, B4; exact I3).
    assert (EV : forall s e, inert (IEv e) -> stepo sc pl s (ev s e)) by (intros; apply o_item; assumption).
    assert (V : forall errs s, stepo sc pl s (fold_left (fun s e => ev s (EValidation (sortn e))) errs s)).
    { intros errs s. apply o_fold. intros; apply EV; exact I. }
    assert (TASKS : forall errs prev,
      Inv sc pl
        (match e_cancel (sc_env sc) with
         | CBeforeSync => ev (ev (fold_left (fun s e => ev s (EValidation (sortn e))) errs s4)
                                 (EInit (map (fun t => (task_name t, task_ids pl t)) (tasks_of sc pl)))) EError
         | _ => run_tasks sc pl locals prev
                  (ev (fold_left (fun s e => ev s (EValidation (sortn e))) errs s4)
                      (EInit (map (fun t => (task_name t, task_ids pl t)) (tasks_of sc pl)))) (tasks_of sc pl)
         end)).
    { intros errs prev.
      assert (I6 : Inv sc pl (ev (fold_left (fun s e => ev s (EValidation (sortn e))) errs s4)
                                 (EInit (map (fun t => (task_name t, task_ids pl t)) (tasks_of sc pl)))))
        by (apply EV; [exact I|]; apply V; exact I4).
      assert (RT : Inv sc pl (run_tasks sc pl locals prev
                    (ev (fold_left (fun s e => ev s (EValidation (sortn e))) errs s4)
                        (EInit (map (fun t => (task_name t, task_ids pl t)) (tasks_of sc pl)))) (tasks_of sc pl))).
      { apply o_run_tasks; [apply tasks_of_ok|exact I6]. }
      destruct (e_cancel (sc_env sc)); try exact RT. apply EV; [exact I|exact I6]. }
    destruct (o_valpol (sc_opts sc)); destruct (pl_valerrs pl) eqn:EVs; try apply TASKS.
    apply EV; [exact I|exact I4].
  Qed.
End Order4.

Section Order5.
  Variable sc : scenario.

  Lemma good_split pl l1 it l2 : good sc pl (l1 ++ it :: l2) -> Qo sc pl l2 it.
  Proof. induction l1 as [|x l1 IH]; cbn; [tauto|]. intros [_ H]. exact (IH H). Qed.

  (* every request of the run satisfies its predicate on the trace before it *)
  Lemma order_request c0 pl locals pre r ok m st post :
    run_plan sc c0 = Some (pl, locals) -> out_trace (run sc c0) = pre ++ IReq r ok m st :: post ->
    Qr sc pl (rev pre) r.
  Proof.
    intros RP E. pose proof (order_run_state sc c0 pl locals RP) as [_ G].
    rewrite (run_is_finish sc) in E. unfold finish in E. cbn [out_trace] in E.
    assert (E' : IClosed :: r_tr (run_state sc c0) = rev post ++ IReq r ok m st :: rev pre).
    { rewrite <- (rev_involutive (IClosed :: _)), E, rev_app_distr. cbn [rev]. rewrite <- app_assoc. reflexivity. }
    assert (G' : good sc pl (IClosed :: r_tr (run_state sc c0))) by (split; [exact I|exact G]).
    rewrite E' in G'. exact (good_split pl _ _ _ G').
  Qed.

  (* what a passed filter on an agreeing table says about the chronological prefix *)
  Definition dep_applied (pl : plan) (tbl : table id) (pre : list item) (e : id) : Prop :=
    ~ In e (pl_invalid pl) /\ In e (apply_ids pl) /\
    (exists rc, lookup Nat.eqb tbl e = Some rc /\ r_str rc = SApply /\ r_act rc = ASucceeded /\
                (o_dry (sc_opts sc) = DNone -> r_rec rc = RSucceeded)) /\
    last_apply_is pre e AOk /\ (o_dry (sc_opts sc) = DNone -> last_wait_is pre e WOk).
  Definition dep_deleted (pl : plan) (tbl : table id) (pre : list item) (d : id) : Prop :=
    ~ In d (pl_invalid pl) /\ In d (prune_ids pl) /\
    (exists rc, lookup Nat.eqb tbl d = Some rc /\ r_str rc = SDelete /\ r_act rc = ASucceeded /\
                (o_dry (sc_opts sc) = DNone -> r_rec rc = RSucceeded)) /\
    last_prune_is pre d AOk /\ (o_dry (sc_opts sc) = DNone -> last_wait_is pre d WOk).

  Lemma pass_apply_facts pl tbl pre rel : agree pl tbl (rev pre) -> dep_filter sc pl tbl SApply rel = FPass ->
    forall e, In e rel -> dep_applied pl tbl pre e.
  Proof.
    intros A DF e He. destruct (dep_filter_pass sc pl tbl SApply rel DF e He) as [NI [rc [L [S [Ac D]]]]].
    destruct (A e rc L) as [E1 [E2 [_ E4]]].
    assert (R : o_dry (sc_opts sc) = DNone -> r_rec rc = RSucceeded).
    { intros DN. rewrite DN in D. destruct D as [D|D]; [discriminate|exact D]. }
    split; [exact NI|]. split; [exact (E1 S)|]. split; [exists rc; auto|]. split.
    - apply lasta_chron. exact (E2 S Ac).
    - intros DN. apply lastw_chron. exact (E4 (R DN)).
  Qed.
  Lemma pass_delete_facts pl tbl pre rel : agree pl tbl (rev pre) -> dep_filter sc pl tbl SDelete rel = FPass ->
    forall d, In d rel -> dep_deleted pl tbl pre d.
  Proof.
    intros A DF d Hd. destruct (dep_filter_pass sc pl tbl SDelete rel DF d Hd) as [NI [rc [L [S [Ac D]]]]].
    destruct (A d rc L) as [_ [_ [E3 E4]]]. destruct (E3 S Ac) as [E3a E3b].
    assert (R : o_dry (sc_opts sc) = DNone -> r_rec rc = RSucceeded).
    { intros DN. rewrite DN in D. destruct D as [D|D]; [discriminate|exact D]. }
    split; [exact NI|]. split; [exact E3b|]. split; [exists rc; auto|]. split.
    - apply lastp_chron. exact E3a.
    - intros DN. apply lastw_chron. exact (E4 (R DN)).
  Qed.

  (* ---- C04 ------------------------------------------------------------------------ *)
  (* an apply request for d is sent only when the dependency filter passes on the
     table of that moment, and that table agrees with the trace before the request *)
  Theorem order_apply_filter c0 pl locals : run_plan sc c0 = Some (pl, locals) ->
    forall pre r ok m st post d, out_trace (run sc c0) = pre ++ IReq r ok m st :: post ->
    ((exists f, r = RCreate d f) \/ (exists a f, r = RPatch d a f)) ->
    exists tbl, dep_filter sc pl tbl SApply (g_deps (pl_graph pl) d) = FPass /\
                forall e, In e (g_deps (pl_graph pl) d) -> dep_applied pl tbl pre e.
  Proof.
    intros RP pre r ok m st post d E Hr. pose proof (order_request c0 pl locals pre r ok m st post RP E) as Q.
    assert (Q' : exists tbl, agree pl tbl (rev pre) /\ dep_filter sc pl tbl SApply (g_deps (pl_graph pl) d) = FPass)
      by (destruct Hr as [[f ->]|[a [f ->]]]; exact Q).
    destruct Q' as [tbl [A DF]]. exists tbl. split; [exact DF|exact (pass_apply_facts pl tbl pre _ A DF)].
  Qed.

  Theorem order_apply c0 pl locals : run_plan sc c0 = Some (pl, locals) ->
    forall pre r ok m st post d, out_trace (run sc c0) = pre ++ IReq r ok m st :: post ->
    ((exists f, r = RCreate d f) \/ (exists a f, r = RPatch d a f)) ->
    forall e, In e (g_deps (pl_graph pl) d) ->
      (exists g, In (IEv (EApply g e AOk)) pre) /\
      (o_dry (sc_opts sc) = DNone -> last_wait_is pre e WOk).
  Proof.
    intros RP pre r ok m st post d E Hr e He.
    destruct (order_apply_filter c0 pl locals RP pre r ok m st post d E Hr) as [tbl [_ F]].
    destruct (F e He) as [_ [_ [_ [LA LW]]]]. split; [exact (last_apply_is_In _ _ _ LA)|exact LW].
  Qed.

  (* at the moment of the request no dependency is in a bad state *)
  Theorem apply_blocked_at_request c0 pl locals : run_plan sc c0 = Some (pl, locals) ->
    forall pre r ok m st post d, out_trace (run sc c0) = pre ++ IReq r ok m st :: post ->
    ((exists f, r = RCreate d f) \/ (exists a f, r = RPatch d a f)) ->
    forall e, In e (g_deps (pl_graph pl) d) ->
      ~ In e (pl_invalid pl) /\ In e (apply_ids pl) /\
      (forall a, last_apply_is pre e a -> a = AOk) /\
      (o_dry (sc_opts sc) = DNone -> forall w, last_wait_is pre e w -> w = WOk).
  Proof.
    intros RP pre r ok m st post d E Hr e He.
    destruct (order_apply_filter c0 pl locals RP pre r ok m st post d E Hr) as [tbl [_ F]].
    destruct (F e He) as [NI [AI [_ [LA LW]]]]. split; [exact NI|]. split; [exact AI|]. split.
    - intros a H. exact (last_apply_is_fun _ _ _ _ H LA).
    - intros DN w H. exact (last_wait_is_fun _ _ _ _ H (LW DN)).
  Qed.

  (* a dependency that is invalid or not an apply object blocks its dependents for the whole run *)
  Theorem apply_blocked_static c0 pl locals : run_plan sc c0 = Some (pl, locals) ->
    forall d e, In e (g_deps (pl_graph pl) d) -> (In e (pl_invalid pl) \/ ~ In e (apply_ids pl)) ->
    forall r ok m st, In (IReq r ok m st) (out_trace (run sc c0)) ->
    ~ ((exists f, r = RCreate d f) \/ (exists a f, r = RPatch d a f)).
  Proof.
    intros RP d e He Bad r ok m st Hin Hr. apply in_split in Hin. destruct Hin as [pre [post E]].
    destruct (apply_blocked_at_request c0 pl locals RP pre r ok m st post d E Hr e He) as [NI [AI _]].
    destruct Bad as [B|B]; [exact (NI B)|exact (B AI)].
  Qed.

  (* ---- C05 ------------------------------------------------------------------------ *)
  Theorem order_delete_filter c0 pl locals : run_plan sc c0 = Some (pl, locals) ->
    forall pre e u p ok m st post, out_trace (run sc c0) = pre ++ IReq (RDelete e u p) ok m st :: post ->
    exists tbl, dep_filter sc pl tbl SDelete (g_dependents (pl_graph pl) e) = FPass /\
                forall d, In d (g_dependents (pl_graph pl) e) -> dep_deleted pl tbl pre d.
  Proof.
    intros RP pre e u p ok m st post E.
    destruct (order_request c0 pl locals pre _ ok m st post RP E) as [tbl [A DF]].
    exists tbl. split; [exact DF|exact (pass_delete_facts pl tbl pre _ A DF)].
  Qed.

  Theorem order_delete c0 pl locals : run_plan sc c0 = Some (pl, locals) ->
    forall pre e u p ok m st post, out_trace (run sc c0) = pre ++ IReq (RDelete e u p) ok m st :: post ->
    forall d, In d (g_dependents (pl_graph pl) e) ->
      (exists g, In (IEv (EPrune g d AOk)) pre) /\
      (o_dry (sc_opts sc) = DNone -> last_wait_is pre d WOk).
  Proof.
    intros RP pre e u p ok m st post E d Hd.
    destruct (order_delete_filter c0 pl locals RP pre e u p ok m st post E) as [tbl [_ F]].
    destruct (F d Hd) as [_ [_ [_ [LP LW]]]]. split; [exact (last_prune_is_In _ _ _ LP)|exact LW].
  Qed.

  Theorem delete_blocked_at_request c0 pl locals : run_plan sc c0 = Some (pl, locals) ->
    forall pre e u p ok m st post, out_trace (run sc c0) = pre ++ IReq (RDelete e u p) ok m st :: post ->
    forall d, In d (g_dependents (pl_graph pl) e) ->
      ~ In d (pl_invalid pl) /\ In d (prune_ids pl) /\
      (forall a, last_prune_is pre d a -> a = AOk) /\
      (o_dry (sc_opts sc) = DNone -> forall w, last_wait_is pre d w -> w = WOk).
  Proof.
    intros RP pre e u p ok m st post E d Hd.
    destruct (order_delete_filter c0 pl locals RP pre e u p ok m st post E) as [tbl [_ F]].
    destruct (F d Hd) as [NI [PI [_ [LP LW]]]]. split; [exact NI|]. split; [exact PI|]. split.
    - intros a H. exact (last_prune_is_fun _ _ _ _ H LP).
    - intros DN w H. exact (last_wait_is_fun _ _ _ _ H (LW DN)).
  Qed.

  Lemma bp_prune_live known locals pobjs p : In p (pl_prune (build_plan sc known locals pobjs)) -> exists c, p = pobj_of_live c.
  Proof.
    unfold build_plan. cbv zeta. destruct (kahn _ _ _) as [layers cyc]. cbn [pl_prune].
    intros H. apply filter_In in H. destruct H as [H _]. apply in_map_iff in H. destruct H as [c [<- _]].
    exists c. reflexivity.
  Qed.

  Lemma run_plan_prune_not_apply c0 pl locals d : run_plan sc c0 = Some (pl, locals) ->
    In d (prune_ids pl) -> ~ In d (apply_ids pl).
  Proof.
    intros RP Hp Ha. unfold prune_ids in Hp. apply in_map_iff in Hp. destruct Hp as [p [<- Hp]].
    assert (L : exists c, p = pobj_of_live c).
    { revert Hp. clear Ha. unfold run_plan in RP. cbv zeta in RP.
      destruct (inv_list sc (init_state sc c0)) as [s1 r1]. destruct r1 as [st|]; [|discriminate].
      destruct (fetch_all sc s1 _) as [s2 r2]. destruct r2 as [pobjs|]; [|discriminate].
      injection RP as <- <-. apply bp_prune_live. }
    destruct L as [c ->].
    destruct (run_plan_prune sc c0 pl locals c RP Hp) as [_ [_ [NL _]]].
    destruct (run_plan_apply_valid sc c0 pl locals _ RP Ha) as [_ HL]. exact (NL HL).
  Qed.

  (* a dependent that is invalid, is an apply object of the run (strategy
     mismatch) or is no prune object of the plan blocks the delete for the whole run *)
  Theorem delete_blocked_static c0 pl locals : run_plan sc c0 = Some (pl, locals) ->
    forall e d, In d (g_dependents (pl_graph pl) e) ->
    (In d (pl_invalid pl) \/ In d (apply_ids pl) \/ ~ In d (prune_ids pl)) ->
    forall u p ok m st, ~ In (IReq (RDelete e u p) ok m st) (out_trace (run sc c0)).
  Proof.
    intros RP e d Hd Bad u p ok m st Hin. apply in_split in Hin. destruct Hin as [pre [post E]].
    destruct (delete_blocked_at_request c0 pl locals RP pre e u p ok m st post E d Hd) as [NI [PI _]].
    destruct Bad as [B|[B|B]]; [exact (NI B)| |exact (B PI)].
    exact (run_plan_prune_not_apply c0 pl locals d RP PI B).
  Qed.
End Order5.

(* ---- from "good at the moment of the request" to "good at the end of the run" ----
   The end-of-run form of the blocked-dependent statements follows from the
   theorems above and two facts about the trace `t` of the run that are NOT
   proved here (they need: every planned object belongs to exactly one layer of
   the plan, layers are ordered along the graph, manifest ids are distinct):
   U1: every object has at most one result event of the kind in t;
   U2: no wait event for a dependency (dependent) occurs after the request. *)
Section EndOfRun.
  Variable sc : scenario.

  Lemma last_wait_is_extend pre e w post :
    last_wait_is pre e w -> (forall g' w', ~ In (IEv (EWait g' e w')) post) -> last_wait_is (pre ++ post) e w.
  Proof.
    intros [g [p1 [p2 [-> N]]]] NP. exists g, p1, (p2 ++ post). split; [rewrite <- app_assoc; reflexivity|].
    intros g' w' H. apply in_app_or in H. destruct H as [H|H]; [exact (N _ _ H)|exact (NP _ _ H)].
  Qed.

  Definition apply_bad_at_end (pl : plan) (t : list item) (e : id) : Prop :=
    In e (pl_invalid pl) \/ ~ In e (apply_ids pl) \/
    (exists g, In (IEv (EApply g e AFail)) t \/ In (IEv (EApply g e ASkip)) t) \/
    (o_dry (sc_opts sc) = DNone /\ exists w, last_wait_is t e w /\ (w = WFailed \/ w = WTimedOut \/ w = WSkipped)).

  Theorem apply_blocked_end_of_run c0 pl locals : run_plan sc c0 = Some (pl, locals) ->
    let t := out_trace (run sc c0) in
    (forall e g1 a1 g2 a2, In (IEv (EApply g1 e a1)) t -> In (IEv (EApply g2 e a2)) t -> a1 = a2) ->
    (forall pre r ok m st post d e, t = pre ++ IReq r ok m st :: post ->
       ((exists f, r = RCreate d f) \/ (exists a f, r = RPatch d a f)) -> In e (g_deps (pl_graph pl) d) ->
       forall g w, ~ In (IEv (EWait g e w)) post) ->
    forall d e, In e (g_deps (pl_graph pl) d) -> apply_bad_at_end pl t e ->
    forall r ok m st, In (IReq r ok m st) t -> ~ ((exists f, r = RCreate d f) \/ (exists a f, r = RPatch d a f)).
  Proof.
    intros RP t U1 U2 d e He Bad r ok m st Hin Hr. subst t. apply in_split in Hin. destruct Hin as [pre [post E]].
    destruct (order_apply_filter sc c0 pl locals RP pre r ok m st post d E Hr) as [tbl [_ F]].
    destruct (F e He) as [NI [AI [_ [LA LW]]]].
    destruct Bad as [B|[B|[[g B]|[DN [w [LWt B]]]]]]; [exact (NI B)|exact (B AI)| |].
    - destruct (last_apply_is_In _ _ _ LA) as [g0 H0].
      assert (H0' : In (IEv (EApply g0 e AOk)) (out_trace (run sc c0))) by (rewrite E; apply in_or_app; left; exact H0).
      destruct B as [B|B]; pose proof (U1 e _ _ _ _ H0' B); discriminate.
    - assert (X : last_wait_is (out_trace (run sc c0)) e WOk).
      { rewrite E. apply last_wait_is_extend; [exact (LW DN)|].
        intros g' w' [H|H]; [discriminate|]. exact (U2 pre r ok m st post d e E Hr He g' w' H). }
      pose proof (last_wait_is_fun _ _ _ _ LWt X) as ->. destruct B as [B|[B|B]]; discriminate.
  Qed.

  Definition delete_bad_at_end (pl : plan) (t : list item) (d : id) : Prop :=
    In d (pl_invalid pl) \/ In d (apply_ids pl) \/ ~ In d (prune_ids pl) \/
    (exists g, In (IEv (EPrune g d AFail)) t \/ In (IEv (EPrune g d ASkip)) t) \/
    (o_dry (sc_opts sc) = DNone /\ exists w, last_wait_is t d w /\ (w = WFailed \/ w = WTimedOut \/ w = WSkipped)).

  Theorem delete_blocked_end_of_run c0 pl locals : run_plan sc c0 = Some (pl, locals) ->
    let t := out_trace (run sc c0) in
    (forall d g1 a1 g2 a2, In (IEv (EPrune g1 d a1)) t -> In (IEv (EPrune g2 d a2)) t -> a1 = a2) ->
    (forall pre e u p ok m st post d, t = pre ++ IReq (RDelete e u p) ok m st :: post ->
       In d (g_dependents (pl_graph pl) e) -> forall g w, ~ In (IEv (EWait g d w)) post) ->
    forall e d, In d (g_dependents (pl_graph pl) e) -> delete_bad_at_end pl t d ->
    forall u p ok m st, ~ In (IReq (RDelete e u p) ok m st) t.
  Proof.
    intros RP t U1 U2 e d Hd Bad u p ok m st Hin. subst t. apply in_split in Hin. destruct Hin as [pre [post E]].
    destruct (order_delete_filter sc c0 pl locals RP pre e u p ok m st post E) as [tbl [_ F]].
    destruct (F d Hd) as [NI [PI [_ [LP LW]]]].
    destruct Bad as [B|[B|[B|[[g B]|[DN [w [LWt B]]]]]]]; [exact (NI B)| |exact (B PI)| |].
    - exact (run_plan_prune_not_apply sc c0 pl locals d RP PI B).
    - destruct (last_prune_is_In _ _ _ LP) as [g0 H0].
      assert (H0' : In (IEv (EPrune g0 d AOk)) (out_trace (run sc c0))) by (rewrite E; apply in_or_app; left; exact H0).
      destruct B as [B|B]; pose proof (U1 d _ _ _ _ H0' B); discriminate.
    - assert (X : last_wait_is (out_trace (run sc c0)) d WOk).
      { rewrite E. apply last_wait_is_extend; [exact (LW DN)|].
        intros g' w' [H|H]; [discriminate|]. exact (U2 pre e u p ok m st post d E Hd g' w' H). }
      pose proof (last_wait_is_fun _ _ _ _ LWt X) as ->. destruct B as [B|[B|B]]; discriminate.
  Qed.
End EndOfRun.
