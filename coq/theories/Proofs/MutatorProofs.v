(* C18 — lemmas about the ApplyTimeMutator model. *)
From Coq Require Import List Bool Arith ZArith String Ascii Lia.
From CliUtils Require Import Base.StrReplace Model.JsonPath Model.Mutator Proofs.JsonPathProofs.
Import ListNotations.
Local Open Scope string_scope.

Section Mut.
  Variable render : tv -> string.
  Variable e : env.
  Variable self : ref.

  (* what a successful substitution did *)
  Lemma mutate_sub_ok_inv : forall sub t t',
    mutate_sub render e self sub t = inr t' ->
    exists src tval sval nv,
      e_scope e (s_src sub) <> None /\
      ref_eqb self (eff_ref e self (s_src sub)) = false /\
      get_object e (eff_ref e self (s_src sub)) = Some src /\
      read_field (s_tpath sub) t = Some tval /\
      read_field (s_spath sub) src = Some sval /\
      new_value render (s_token sub) tval sval = Some nv /\
      write_field (s_tpath sub) nv t = Some t'.
  Proof.
    intros sub t t' H. unfold mutate_sub in H.
    destruct (e_scope e (s_src sub)) eqn:Esc; [|discriminate].
    destruct (ref_eqb self (eff_ref e self (s_src sub))) eqn:Eself; [discriminate|].
    destruct (get_object e (eff_ref e self (s_src sub))) as [src|] eqn:Eg; [|discriminate].
    destruct (read_field (s_tpath sub) t) as [tval|] eqn:Et; [|discriminate].
    destruct (read_field (s_spath sub) src) as [sval|] eqn:Es; [|discriminate].
    destruct (new_value render (s_token sub) tval sval) as [nv|] eqn:En; [|discriminate].
    destruct (write_field (s_tpath sub) nv t) as [t2|] eqn:Ew; [|discriminate].
    inversion H; subst. exists src, tval, sval, nv. repeat split; auto. discriminate.
  Qed.

  Lemma new_value_no_token : forall tval sval,
    new_value render "" tval sval = Some sval.
  Proof. reflexivity. Qed.

  Lemma new_value_token : forall token tval sval nv,
    token <> "" -> new_value render token tval sval = Some nv ->
    exists s, tval = TStr s /\ nv = TStr (replace_all s token (value_to_string render sval)).
  Proof.
    intros token tval sval nv Hne H. unfold new_value in H.
    destruct (String.eqb token "") eqn:E.
    - apply String.eqb_eq in E. contradiction.
    - destruct tval; try discriminate. inversion H. eauto.
  Qed.

  Lemma new_value_token_nonstring : forall token tval sval,
    token <> "" -> (forall s, tval <> TStr s) -> new_value render token tval sval = None.
  Proof.
    intros token tval sval Hne Hns. unfold new_value.
    destruct (String.eqb token "") eqn:E.
    - apply String.eqb_eq in E. contradiction.
    - destruct tval; try reflexivity. exfalso. eapply Hns; eauto.
  Qed.

  (* the written value: whole value without token, replaced text with token *)
  Lemma token_law : forall sub t t',
    mutate_sub render e self sub t = inr t' ->
    exists src tval sval,
      get_object e (eff_ref e self (s_src sub)) = Some src /\
      read_field (s_tpath sub) t = Some tval /\
      read_field (s_spath sub) src = Some sval /\
      ((s_token sub = "" /\ write_field (s_tpath sub) sval t = Some t') \/
       (s_token sub <> "" /\ exists s, tval = TStr s /\
          write_field (s_tpath sub)
            (TStr (replace_all s (s_token sub) (value_to_string render sval))) t = Some t')).
  Proof.
    intros sub t t' H.
    destruct (mutate_sub_ok_inv sub t t' H) as [src [tval [sval [nv [_ [_ [Eg [Et [Es [En Ew]]]]]]]]]].
    exists src, tval, sval. repeat split; auto.
    destruct (String.eqb (s_token sub) "") eqn:E.
    - left. apply String.eqb_eq in E. split; [exact E|].
      rewrite E in En. simpl in En. inversion En; now subst.
    - right. assert (Hne : s_token sub <> "") by (intro X; rewrite X in E; discriminate).
      split; [exact Hne|].
      destruct (new_value_token _ _ _ _ Hne En) as [s [A B]]. exists s. subst. now split.
  Qed.

  (* the conditions under which one substitution is refused *)
  Definition sub_refused (sub : subst) (t : tv) : Prop :=
    e_scope e (s_src sub) = None \/
    self_ref e self sub = true \/
    get_object e (eff_ref e self (s_src sub)) = None \/
    read_field (s_tpath sub) t = None \/
    (exists src, get_object e (eff_ref e self (s_src sub)) = Some src /\
                 read_field (s_spath sub) src = None) \/
    (s_token sub <> "" /\ exists tval, read_field (s_tpath sub) t = Some tval /\
                                       forall s, tval <> TStr s).

  Lemma mutate_sub_refused : forall sub t,
    sub_refused sub t -> exists err, mutate_sub render e self sub t = inl err.
  Proof.
    intros sub t H. unfold mutate_sub.
    destruct (e_scope e (s_src sub)) eqn:Esc; [|eauto].
    unfold sub_refused, self_ref in H.
    destruct (ref_eqb self (eff_ref e self (s_src sub))) eqn:Eself; [eauto|].
    destruct (get_object e (eff_ref e self (s_src sub))) as [src|] eqn:Eg; [|eauto].
    destruct (read_field (s_tpath sub) t) as [tval|] eqn:Et; [|eauto].
    destruct (read_field (s_spath sub) src) as [sval|] eqn:Es; [|eauto].
    destruct H as [H|[H|[H|[H|[H|H]]]]]; try congruence.
    - destruct H as [src' [A B]]. congruence.
    - destruct H as [Hne [tv' [A B]]]. assert (tv' = tval) by congruence. subst tv'.
      rewrite (new_value_token_nonstring _ _ sval Hne B). eauto.
  Qed.

  (* read_field fails exactly when the path does not select one readable node *)
  Lemma read_field_none_matches : forall p t,
    List.length (jget p t) <> 1 -> read_field (MPath p) t = None.
  Proof.
    intros p t H. unfold read_field, jget_c.
    destruct (jget p t) as [|x [|y r]]; simpl in *; try reflexivity. congruence.
  Qed.

  (* a refused first substitution: error, tree untouched, nothing applied *)
  Lemma mutate_first_refused : forall sub rest t,
    sub_refused sub t ->
    exists err,
      m_err (mutate render e self (ASubs (sub :: rest)) t) = Some err /\
      m_tree (mutate render e self (ASubs (sub :: rest)) t) = t /\
      apply_object render e self (ASubs (sub :: rest)) t = ApplyFailed err.
  Proof.
    intros sub rest t H. unfold apply_object, mutate.
    destruct (existsb (fun sub0 => ref_eqb self (s_src sub0)) (sub :: rest)).
    - exists MESelfRef. simpl. auto.
    - destruct (mutate_sub_refused sub t H) as [err Eq].
      exists err. simpl. rewrite Eq. simpl. auto.
  Qed.

  Lemma mutate_raw_selfref : forall subs t,
    existsb (fun sub => ref_eqb self (s_src sub)) subs = true ->
    mutate render e self (ASubs subs) t = mkRes (Some MESelfRef) t false.
  Proof. intros subs t H. unfold mutate. now rewrite H. Qed.

  (* whatever gets applied went through every substitution in order *)
  Fixpoint steps_ok (subs : list subst) (t t' : tv) : Prop :=
    match subs with
    | [] => t' = t
    | sub :: rest => exists t1, mutate_sub render e self sub t = inr t1 /\ steps_ok rest t1 t'
    end.

  Lemma mutate_loop_ok : forall subs t m t',
    m_err (mutate_loop render e self subs t m) = None ->
    m_tree (mutate_loop render e self subs t m) = t' -> steps_ok subs t t'.
  Proof.
    induction subs as [|sub rest IH]; intros t m t' He Ht; simpl in *.
    - now symmetry.
    - destruct (mutate_sub render e self sub t) as [err|t1] eqn:Es; simpl in *.
      + discriminate.
      + exists t1. split; [reflexivity|]. eapply IH; eauto.
  Qed.

  Lemma applied_only_if_all_ok : forall subs t t',
    apply_object render e self (ASubs subs) t = Applied t' ->
    existsb (fun sub => ref_eqb self (s_src sub)) subs = false /\ steps_ok subs t t'.
  Proof.
    intros subs t t' H. unfold apply_object, mutate in H.
    destruct (existsb (fun sub => ref_eqb self (s_src sub)) subs) eqn:Ex; simpl in H.
    - discriminate.
    - split; [reflexivity|].
      destruct (m_err (mutate_loop render e self subs t false)) eqn:Em; [discriminate|].
      inversion H. eapply mutate_loop_ok; eauto.
  Qed.

  Lemma failed_not_applied : forall a t err,
    m_err (mutate render e self a t) = Some err ->
    apply_object render e self a t = ApplyFailed err.
  Proof. intros a t err H. unfold apply_object. now rewrite H. Qed.

  (* self references, as the property means them: the reference resolves to
     the target, with or without namespace defaulting *)
  Lemma selfref_rejected : forall sub rest t,
    self_ref e self sub = true ->
    exists err,
      m_err (mutate render e self (ASubs (sub :: rest)) t) = Some err /\
      m_tree (mutate render e self (ASubs (sub :: rest)) t) = t /\
      apply_object render e self (ASubs (sub :: rest)) t = ApplyFailed err.
  Proof.
    intros sub rest t Hs. apply mutate_first_refused. right. left. exact Hs.
  Qed.
End Mut.
