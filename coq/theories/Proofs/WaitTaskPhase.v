(* Proofs about Model/WaitTask.v.  Part 3: the statements used by
   Properties/C06.v, derived from the single-step facts (WaitTaskProofs) and the
   phase invariants (WaitTaskInvariants). *)
From Coq Require Import List Bool Arith Lia Permutation NArith ZArith.
From CliUtils Require Import Model.ObjSet Model.ActuationTable Model.WaitTask
     Proofs.ObjSetProofs Proofs.ActuationTableProofs Proofs.WaitTaskProofs Proofs.WaitTaskInvariants.
Import ListNotations.

Section WaitTaskPhase.
  Variable A : Type.
  Variable eqb : A -> A -> bool.
  Hypothesis eqb_spec : forall x y, eqb x y = true <-> x = y.
  Variable ids : list A.

  Notation table := (table A).
  Notation cache := (A -> cobs).
  Notation state := (state A).
  Notation wevent := (A * wstatus)%type.
  Notation input := (input A).
  Notation phase := (phase A eqb ids).
  Notation cond_met := (cond_met A eqb).
  Notation cond_holds := (cond_holds A eqb).
  Notation events_for := (events_for A eqb).

  Let eqb_refl := eqb_refl A eqb eqb_spec.
  Let eqb_neq := eqb_neq A eqb eqb_spec.

  (* ---- last event = recorded reconcile status ------------------------------ *)
  Lemma phase_last_event c t0 ca0 l i :
    no_start l = true -> In i ids ->
    last_status eqb (snd (phase c t0 ca0 l)) i <> None /\
    forall r, lookup eqb (st_table (fst (phase c t0 ca0 l))) i = Some r ->
      exists w, last_status eqb (snd (phase c t0 ca0 l)) i = Some w /\ r_rec r = rec_of w.
  Proof.
    intros Hl Hi. destruct (inv_log_phase A eqb eqb_spec ids c t0 ca0 l Hl) as [_ [H _]].
    destruct (H i Hi) as [H1 H2]. split; [exact H2|exact H1].
  Qed.

  Lemma phase_events_ids c t0 ca0 l i w :
    no_start l = true -> In (i, w) (snd (phase c t0 ca0 l)) -> In i ids.
  Proof. intros Hl. destruct (inv_log_phase A eqb eqb_spec ids c t0 ca0 l Hl) as [_ [_ H]]. apply H. Qed.

  (* ---- state invariant ------------------------------------------------------ *)
  Lemma phase_state_invariant c t0 ca0 l :
    NoDup ids -> no_start l = true ->
    let s := fst (phase c t0 ca0 l) in
    NoDup (st_pending s) /\ NoDup (st_failed s) /\
    (forall i, In i (st_pending s) -> ~ In i (st_failed s)) /\
    (forall i, In i (st_pending s) -> In i ids) /\ (forall i, In i (st_failed s) -> In i ids) /\
    (forall i, In i (st_pending s) \/ In i (st_failed s) -> skipped eqb c (st_table s) i = false).
  Proof.
    intros ND Hl s. destruct (inv_phase A eqb eqb_spec ids c t0 ca0 l ND Hl) as [[Hpi _] [NDp [NDf [Hfi Hb]]]].
    fold s in Hpi, NDp, NDf, Hfi, Hb.
    split; [exact NDp|]. split; [exact NDf|]. split; [|split; [exact Hpi|split; [exact Hfi|]]].
    - intros i Hp. pose proof (Hb i (Hpi i Hp)) as B. unfold bucket_ok, bucket_shape in B. tauto.
    - intros i [Hp|Hf].
      + pose proof (Hb i (Hpi i Hp)) as B. unfold bucket_ok, bucket_shape in B. revert B.
        destruct (skipped eqb c (st_table s) i); [intros B; exfalso; intuition congruence|reflexivity].
      + pose proof (Hb i (Hfi i Hf)) as B. unfold bucket_ok, bucket_shape in B. revert B.
        destruct (skipped eqb c (st_table s) i); [intros B; exfalso; intuition congruence|reflexivity].
  Qed.

  (* pending = the objects whose last event is Pending (or Timeout) *)
  Lemma phase_pending_char c t0 ca0 l i :
    NoDup ids -> no_start l = true ->
    (In i (st_pending (fst (phase c t0 ca0 l))) <->
     In i ids /\ (last_status eqb (snd (phase c t0 ca0 l)) i = Some WPending \/
                  last_status eqb (snd (phase c t0 ca0 l)) i = Some WTimeout)).
  Proof.
    intros ND Hl. destruct (inv_phase A eqb eqb_spec ids c t0 ca0 l ND Hl) as [[Hpi _] [_ [_ [_ Hb]]]].
    split.
    - intros Hp. split; [auto|]. pose proof (Hb i (Hpi i Hp)) as B. unfold bucket_ok, bucket_shape in B. tauto.
    - intros [Hi HL]. pose proof (Hb i Hi) as B. unfold bucket_ok, bucket_shape in B.
      destruct B as [(_ & _ & _ & H) | [(_ & H & _) | [(_ & _ & _ & H) | [(_ & _ & _ & H & _) | (_ & _ & _ & H & _)]]]];
        try exact H; rewrite H in HL; destruct HL; discriminate.
  Qed.

  (* ---- reported reconciled => the latest observation satisfies the condition *)
  Lemma phase_reconciled_now c t0 ca0 l i :
    NoDup ids -> no_start l = true -> In i ids ->
    last_status eqb (snd (phase c t0 ca0 l)) i = Some WSuccessful ->
    cond_met c (st_table (fst (phase c t0 ca0 l))) (st_cache (fst (phase c t0 ca0 l))) i = true.
  Proof.
    intros ND Hl Hi HL. destruct (inv_phase A eqb eqb_spec ids c t0 ca0 l ND Hl) as [_ [_ [_ [_ Hb]]]].
    pose proof (Hb i Hi) as B. unfold bucket_ok, bucket_shape in B.
    destruct B as [(_ & _ & _ & H) | [(_ & _ & _ & H) | [(_ & _ & _ & H) | [(_ & _ & _ & _ & H) | (_ & _ & _ & H & _)]]]];
      try exact H; try (rewrite H in HL; discriminate). rewrite HL in H. destruct H; discriminate.
  Qed.

  (* ---- flapping -------------------------------------------------------------- *)
  Lemma phase_update_flapping c t0 ca0 l i o :
    NoDup ids -> no_start l = true -> In i ids ->
    let s := fst (phase c t0 ca0 l) in
    let log := snd (phase c t0 ca0 l) in
    let s' := fst (step eqb c ids s (Update i o)) in
    let new := snd (step eqb c ids s (Update i o)) in
    let met := cond_met c (st_table s') (st_cache s') i in
    let chg := changed_uid eqb (st_table s') (st_cache s') i in
    (last_status eqb log i = Some WFailed -> met = true ->
       new = [(i, WSuccessful)] /\ ~ In i (st_pending s') /\ ~ In i (st_failed s')) /\
    (last_status eqb log i = Some WSuccessful -> met = false ->
       new = [(i, if is_current c && chg then WFailed else WPending)] /\
       (is_current c && chg = false -> In i (st_pending s'))).
  Proof.
    intros ND Hl Hi s log s' new met chg.
    pose proof (inv_phase A eqb eqb_spec ids c t0 ca0 l ND Hl) as I. fold s log in I.
    pose proof (inv_step A eqb eqb_spec ids c s log (Update i o) eq_refl I) as I'. fold s' new in I'.
    destruct I as [[Hpi [Hag _]] [NDp [NDf [Hfi Hb]]]].
    subst met chg s' new. cbn [step] in *.
    set (s1 := with_cache s (cache_put eqb (st_cache s) i o)) in *.
    pose proof (status_update_shape A eqb c ids s1 i) as Sh.
    pose proof (update_flapping A eqb eqb_spec ids c s log i o) as Fl.
    destruct (su_outcome A eqb c ids s1 i) as [[dp df] ow] eqn:Eo.
    specialize (Fl dp df ow Hi (proj1 (Hag i Hi)) (Hb i Hi) Eo). cbn zeta in Fl.
    revert I'. destruct (status_update eqb c ids s1 i) as [s' new] eqn:Es. intros I'.
    destruct Sh as [Sp [Sf [St [Sc [Se _]]]]]. cbn [fst snd] in *.
    cbn [s1 with_cache st_pending st_failed st_table st_cache] in *.
    pose proof (same_act_next_table A eqb eqb_spec (st_table s) i ow) as SA.
    rewrite St, Sc, (same_act_cond_met A eqb c _ _ _ i SA), (same_act_changed_uid A eqb _ _ _ i SA).
    destruct Fl as [Fa Fb]. split.
    - intros HL Hm. specialize (Fa HL Hm). subst ow new. split; [reflexivity|].
      (* the new situation of i: last event Successful *)
      destruct I' as [_ [_ [_ [_ Hb']]]]. pose proof (Hb' i Hi) as B. unfold bucket_ok, bucket_shape in B.
      cbn [WaitTaskProofs.next_events] in B. rewrite (last_status_snoc A eqb), eqb_refl in B.
      destruct B as [(_ & _ & _ & H) | [(_ & _ & _ & H) | [(_ & _ & _ & H) | [(_ & H1 & H2 & _) | (_ & _ & _ & H & _)]]]];
        try discriminate; [destruct H; discriminate|]. split; assumption.
    - intros HL Hm. destruct (Fb HL Hm) as [Fo Fd]. subst ow new. split; [reflexivity|].
      intros Hn. rewrite Sp, (Fd Hn). cbn. apply in_app_iff. right. left. reflexivity.
  Qed.

  (* ---- skipped --------------------------------------------------------------- *)
  Lemma events_for_start c t0 ca0 i :
    NoDup ids -> In i ids ->
    events_for i (snd (start eqb c ids (init t0 ca0))) = [(i, start_status A eqb c t0 ca0 i)].
  Proof.
    intros ND Hi. pose proof (start_shape A eqb eqb_spec c ids (init t0 ca0)) as Sh.
    destruct (start eqb c ids (init t0 ca0)) as [s' evs]. destruct Sh as [_ [_ [_ [_ [_ ->]]]]].
    cbn [snd init st_table st_cache]. clear s'.
    induction ids as [|a l IH]; [destruct Hi|]. inversion ND as [|? ? Hn ND']; subst.
    cbn [map]. unfold WaitTaskProofs.events_for in *. cbn [filter fst].
    destruct Hi as [->|Hi].
    - rewrite eqb_refl. f_equal.
      apply (events_for_none A eqb eqb_spec). intros j w Hin. apply in_map_iff in Hin.
      destruct Hin as [j' [[= -> _] Hj]]. intros ->. contradiction.
    - rewrite eqb_neq by (intros ->; contradiction). apply IH; assumption.
  Qed.

  Lemma phase_skipped c t0 ca0 l i :
    NoDup ids -> no_start l = true -> In i ids -> skipped eqb c t0 i = true ->
    events_for i (snd (start eqb c ids (init t0 ca0))) = [(i, WSkipped)] /\
    events_for i (snd (phase c t0 ca0 l)) = [(i, WSkipped)].
  Proof.
    intros ND Hl Hi Hs.
    assert (H0 : events_for i (snd (start eqb c ids (init t0 ca0))) = [(i, WSkipped)]).
    { rewrite (events_for_start c t0 ca0 i ND Hi). unfold WaitTaskProofs.start_status. rewrite Hs. reflexivity. }
    split; [exact H0|].
    rewrite (phase_fold A eqb ids).
    pose proof (inv_log_start A eqb eqb_spec c ids (init t0 ca0)) as L0.
    pose proof (inv_buckets_start A eqb eqb_spec ids c t0 ca0 ND) as B0.
    pose proof (start_shape A eqb eqb_spec c ids (init t0 ca0)) as Sh.
    destruct (start eqb c ids (init t0 ca0)) as [s1 e0]. cbn [snd] in H0.
    destruct Sh as [SA0 _]. cbn [init st_table] in SA0.
    apply (fold_invariant A eqb c ids
             (fun s evs => inv A eqb ids c s evs /\ same_act A eqb t0 (st_table s) /\
                           events_for i evs = [(i, WSkipped)])); [|exact Hl|].
    2:{ split; [split; assumption|]. split; [exact SA0|exact H0]. }
    intros s evs x Hx [I [SA HE]].
    pose proof (inv_step A eqb eqb_spec ids c s evs x Hx I) as I'.
    split; [exact I'|]. split.
    { eapply same_act_trans; [exact SA|apply (step_same_act A eqb eqb_spec)]. }
    rewrite (events_for_app A eqb), HE.
    replace (events_for i (snd (step eqb c ids s x))) with (@nil wevent); [reflexivity|]. symmetry.
    destruct I as [[Hpi _] [_ [_ [_ Hb]]]].
    assert (Hs' : skipped eqb c (st_table s) i = true) by (rewrite (same_act_skipped A eqb c _ _ i SA); exact Hs).
    assert (HnP : ~ In i (st_pending s)).
    { pose proof (Hb i Hi) as B. unfold bucket_ok, bucket_shape in B. rewrite Hs' in B.
      destruct B as [(_ & H & _) | [(H & _) | [(H & _) | [(H & _) | (H & _)]]]]; [exact H|discriminate..]. }
    destruct x as [|j o| |]; [discriminate| | |].
    - cbn [step]. set (s1' := with_cache s (cache_put eqb (st_cache s) j o)).
      pose proof (status_update_shape A eqb c ids s1' j) as Sh.
      destruct (eqb j i) eqn:E.
      + apply eqb_spec in E. subst j.
        rewrite (su_outcome_skipped A eqb eqb_spec ids c s1' i Hi HnP Hs') in Sh.
        destruct (status_update eqb c ids s1' i) as [s' new]. destruct Sh as [_ [_ [_ [_ [-> _]]]]]. reflexivity.
      + destruct (su_outcome A eqb c ids s1' j) as [[dp df] ow].
        destruct (status_update eqb c ids s1' j) as [s' new]. destruct Sh as [_ [_ [_ [_ [-> _]]]]]. cbn [snd].
        apply (events_for_none A eqb eqb_spec). intros j' w Hin. destruct ow; cbn in Hin; [|contradiction].
        destruct Hin as [[= <- _]|[]]. intros ->. rewrite eqb_refl in E. discriminate.
    - cbn [step]. destruct (st_done s); [reflexivity|]. cbn [snd timeout_events].
      apply (events_for_none A eqb eqb_spec). intros j w Hin. apply in_map_iff in Hin.
      destruct Hin as [j' [[= -> _] Hj]]. intros ->. contradiction.
    - reflexivity.
  Qed.

  Lemma skipped_of_actuation c t i r :
    lookup eqb t i = Some r -> r_str r = strategy_of c -> (r_act r = AFailed \/ r_act r = ASkipped) ->
    skipped eqb c t i = true.
  Proof.
    intros L Hs Ha. unfold skipped, is_actuation. rewrite L, Hs.
    destruct c; cbn; destruct Ha as [-> | ->]; reflexivity.
  Qed.

  (* ---- completion ------------------------------------------------------------ *)
  Lemma phase_done_complete c t0 ca0 l :
    no_start l = true ->
    st_pending (fst (phase c t0 ca0 l)) = [] -> st_done (fst (phase c t0 ca0 l)) = true.
  Proof.
    intros Hl. rewrite (phase_fold A eqb ids).
    pose proof (start_shape A eqb eqb_spec c ids (init t0 ca0)) as Sh.
    destruct (start eqb c ids (init t0 ca0)) as [s1 e0].
    apply (fold_invariant A eqb c ids (fun s _ => st_pending s = [] -> st_done s = true)); [|exact Hl|].
    2:{ destruct Sh as [_ [_ [_ [_ [-> _]]]]]. intros ->. reflexivity. }
    intros s evs x Hx H. destruct x as [|j o| |]; [discriminate| | |].
    - cbn [step]. set (s1' := with_cache s (cache_put eqb (st_cache s) j o)).
      pose proof (status_update_shape A eqb c ids s1' j) as Sh'.
      unfold WaitTaskProofs.su_returns_early, WaitTaskProofs.su_outcome in Sh'.
      cbn [s1' with_cache st_pending st_failed st_table st_cache st_done] in Sh'.
      destruct (status_update eqb c ids s1' j) as [s' new]. cbn [fst].
      destruct (contains eqb (st_pending s) j) eqn:Ep; cbn [negb andb] in Sh'.
      + destruct (changed_uid eqb _ _ j); [|destruct (reconciled_by_id eqb c _ _ j); [|destruct (failed_by_id _ j)]];
          destruct Sh' as [_ [_ [_ [_ [_ ->]]]]]; intros ->; apply orb_true_r.
      + destruct (contains eqb ids j); cbn [negb orb] in Sh'.
        * destruct (skipped eqb c (st_table s) j).
          -- destruct Sh' as [-> [_ [_ [_ [_ ->]]]]]. exact H.
          -- destruct (contains eqb (st_failed s) j);
               [destruct (changed_uid eqb _ _ j); [|destruct (reconciled_by_id eqb c _ _ j); [|destruct (negb (failed_by_id _ j))]]
               |destruct (changed_uid eqb _ _ j);
                  [destruct (is_current c && negb (is_reconcile eqb _ j RFailed))
                  |destruct (negb (reconciled_by_id eqb c _ _ j)); [|destruct (is_reconcile eqb _ j RFailed)]]];
               destruct Sh' as [_ [_ [_ [_ [_ ->]]]]]; intros ->; apply orb_true_r.
        * destruct Sh' as [-> [_ [_ [_ [_ ->]]]]]. exact H.
    - cbn [step]. destruct (st_done s) eqn:D; cbn; [intros _; exact D|reflexivity].
    - reflexivity.
  Qed.

  (* ---- Pending / Failed are reported only while the condition does not hold -- *)
  Lemma su_outcome_nonsuccess c s j w :
    snd (su_outcome A eqb c ids s j) = Some w -> w = WPending \/ w = WFailed ->
    cond_met c (st_table s) (st_cache s) j = false.
  Proof.
    unfold WaitTaskProofs.su_outcome, WaitTaskProofs.cond_met.
    destruct (contains eqb (st_pending s) j).
    - destruct (changed_uid eqb (st_table s) (st_cache s) j).
      + destruct c; cbn; [reflexivity|]. intros [= <-] [H|H]; discriminate.
      + destruct (reconciled_by_id eqb c (st_table s) (st_cache s) j).
        * intros [= <-] [H|H]; discriminate.
        * destruct c; reflexivity.
    - destruct (negb (contains eqb ids j)); [discriminate|].
      destruct (skipped eqb c (st_table s) j); [discriminate|].
      destruct (contains eqb (st_failed s) j).
      + destruct (changed_uid eqb (st_table s) (st_cache s) j).
        * destruct c; cbn; [reflexivity|]. intros [= <-] [H|H]; discriminate.
        * destruct (reconciled_by_id eqb c (st_table s) (st_cache s) j).
          -- intros [= <-] [H|H]; discriminate.
          -- destruct c; reflexivity.
      + destruct (changed_uid eqb (st_table s) (st_cache s) j).
        * destruct c; cbn; [reflexivity|discriminate].
        * destruct (reconciled_by_id eqb c (st_table s) (st_cache s) j); cbn [negb].
          -- destruct (is_reconcile eqb (st_table s) j RFailed); [|discriminate].
             intros [= <-] [H|H]; discriminate.
          -- destruct c; reflexivity.
  Qed.

  Lemma step_nonsuccess_sound c s x i w :
    In (i, w) (snd (step eqb c ids s x)) -> w = WPending \/ w = WFailed ->
    cond_met c (st_table (fst (step eqb c ids s x))) (st_cache (fst (step eqb c ids s x))) i = false.
  Proof.
    pose proof (step_same_act A eqb eqb_spec c ids s x) as SA.
    destruct x as [|j o| |]; cbn [step] in *.
    - pose proof (start_shape A eqb eqb_spec c ids s) as H. destruct (start eqb c ids s) as [s' evs].
      destruct H as [_ [_ [_ [Hc [_ He]]]]]. cbn [fst snd] in *. subst evs. intros Hin Hw.
      apply in_map_iff in Hin. destruct Hin as [i' [[= -> Hs] _]].
      rewrite (same_act_cond_met A eqb c _ _ _ i SA), Hc.
      revert Hs. unfold WaitTaskProofs.start_status, WaitTaskProofs.cond_met.
      destruct (skipped eqb c (st_table s) i); [intros <-; destruct Hw; discriminate|].
      destruct (changed_uid eqb (st_table s) (st_cache s) i).
      + destruct c; [reflexivity|intros <-; destruct Hw; discriminate].
      + destruct (reconciled_by_id eqb c (st_table s) (st_cache s) i);
          [intros <-; destruct Hw; discriminate|destruct c; reflexivity].
    - set (s1 := with_cache s (cache_put eqb (st_cache s) j o)) in *.
      pose proof (status_update_shape A eqb c ids s1 j) as H.
      pose proof (su_outcome_nonsuccess c s1 j) as Hs.
      destruct (su_outcome A eqb c ids s1 j) as [[dp df] ow].
      destruct (status_update eqb c ids s1 j) as [s' evs].
      destruct H as [_ [_ [_ [Hc [He _]]]]]. cbn [fst snd] in *. subst evs. intros Hin Hw.
      destruct ow as [w'|]; cbn in Hin; [|contradiction]. destruct Hin as [[= -> ->]|[]].
      rewrite (same_act_cond_met A eqb c _ _ _ i SA), Hc. apply (Hs w eq_refl Hw).
    - destruct (st_done s); cbn; [intros []|]. intros Hin Hw. apply in_map_iff in Hin.
      destruct Hin as [i' [[= _ <-] _]]. destruct Hw; discriminate.
    - intros [].
  Qed.

  (* ---- frame: the actuation part of the table never changes ------------------ *)
  Lemma run_same_act c l : forall s, same_act A eqb (st_table s) (st_table (fst (run eqb c ids s l))).
  Proof.
    induction l as [|x l IH]; intros s; cbn [run]; [apply same_act_refl|].
    pose proof (step_same_act A eqb eqb_spec c ids s x) as H.
    destruct (step eqb c ids s x) as [s1 e]. cbn [fst] in H. specialize (IH s1).
    destruct (run eqb c ids s1 l) as [s2 es]. cbn [fst] in *.
    eapply same_act_trans; eassumption.
  Qed.

  (* the cache is exactly the latest observation of every object *)
  Definition latest (ca : cache) (l : list input) : cache :=
    fold_left (fun ca x => match x with Update i o => cache_put eqb ca i o | _ => ca end) l ca.

  Lemma step_cache c s x :
    st_cache (fst (step eqb c ids s x)) =
    match x with Update i o => cache_put eqb (st_cache s) i o | _ => st_cache s end.
  Proof.
    destruct x as [|j o| |]; cbn [step].
    - pose proof (start_shape A eqb eqb_spec c ids s) as H. destruct (start eqb c ids s) as [s' evs]. apply H.
    - pose proof (status_update_shape A eqb c ids (with_cache s (cache_put eqb (st_cache s) j o)) j) as H.
      destruct (su_outcome A eqb c ids _ j) as [[dp df] ow]. destruct (status_update eqb c ids _ j) as [s' evs].
      apply H.
    - destruct (st_done s); reflexivity.
    - reflexivity.
  Qed.

  Lemma run_cache c l : forall s, st_cache (fst (run eqb c ids s l)) = latest (st_cache s) l.
  Proof.
    induction l as [|x l IH]; intros s; cbn [run latest fold_left]; [reflexivity|].
    pose proof (step_cache c s x) as H. destruct (step eqb c ids s x) as [s1 e]. cbn [fst] in H.
    specialize (IH s1). destruct (run eqb c ids s1 l) as [s2 es]. cbn [fst] in *.
    rewrite IH, H. reflexivity.
  Qed.

  (* success soundness against the table as it was before the phase and the
     latest observation *)
  Lemma run_success_sound c t0 ca0 pre x i :
    In (i, WSuccessful) (snd (step eqb c ids (fst (run eqb c ids (init t0 ca0) pre)) x)) ->
    cond_holds c t0 (latest ca0 (pre ++ [x])) i.
  Proof.
    intros H. apply (step_success_sound A eqb eqb_spec) in H.
    pose proof (run_same_act c pre (init t0 ca0)) as S1.
    pose proof (step_same_act A eqb eqb_spec c ids (fst (run eqb c ids (init t0 ca0) pre)) x) as S2.
    cbn [init st_table] in S1.
    apply (same_act_cond_holds A eqb c _ _ _ i (same_act_trans A eqb _ _ _ S1 S2)) in H.
    rewrite step_cache, run_cache in H. cbn [init st_cache] in H.
    unfold latest. rewrite fold_left_app. cbn [fold_left]. exact H.
  Qed.

  (* a pending object whose new observation satisfies the condition is reported
     reconciled by that very update (from any state) *)
  Lemma step_pending_reconciles c s i o :
    In i (st_pending s) ->
    cond_met c (st_table s) (cache_put eqb (st_cache s) i o) i = true ->
    snd (step eqb c ids s (Update i o)) = [(i, WSuccessful)].
  Proof.
    intros Hp Hm. cbn [step].
    set (s1 := with_cache s (cache_put eqb (st_cache s) i o)).
    pose proof (status_update_shape A eqb c ids s1 i) as Sh.
    assert (Ho : snd (su_outcome A eqb c ids s1 i) = Some WSuccessful).
    { revert Hm. unfold WaitTaskProofs.su_outcome, WaitTaskProofs.cond_met.
      cbn [s1 with_cache st_pending st_table st_cache].
      rewrite (proj2 (contains_In A eqb eqb_spec _ _) Hp).
      destruct (changed_uid eqb (st_table s) (cache_put eqb (st_cache s) i o) i).
      - destruct c; cbn; [discriminate|reflexivity].
      - destruct (reconciled_by_id eqb c (st_table s) (cache_put eqb (st_cache s) i o) i); [reflexivity|].
        destruct c; discriminate. }
    destruct (su_outcome A eqb c ids s1 i) as [[dp df] ow]. cbn [snd] in Ho. subst ow.
    destruct (status_update eqb c ids s1 i) as [s' new]. destruct Sh as [_ [_ [_ [_ [-> _]]]]]. reflexivity.
  Qed.
End WaitTaskPhase.
