(* Proofs about Model/ActuationTable.v: the table refines a finite map keyed by
   object reference; one record per id; queries partition the recorded ids. *)
From Coq Require Import List Bool Arith Lia Permutation NArith ZArith.
From CliUtils Require Import Model.ActuationTable.
Import ListNotations.

Section TableProofs.
  Variable A : Type.
  Variable eqb : A -> A -> bool.
  Hypothesis eqb_spec : forall x y, eqb x y = true <-> x = y.

  Notation rec := (rec A).
  Notation table := (table A).

  Lemma eqb_refl' x : eqb x x = true.
  Proof. apply eqb_spec; reflexivity. Qed.

  Lemma eqb_neq x y : x <> y -> eqb x y = false.
  Proof. intros H. destruct (eqb x y) eqn:E; [apply eqb_spec in E; contradiction|reflexivity]. Qed.

  Definition keys (t : table) : list A := map r_id t.

  (* ---- abstract specification: a function from ids to records ----------- *)
  Definition spec := A -> option rec.
  Definition spec_empty : spec := fun _ => None.
  Definition spec_set (f : spec) (n : rec) : spec :=
    fun i => if eqb (r_id n) i then Some n else f i.
  Definition spec_set_rec (f : spec) (i : A) (s : reconcile) : spec :=
    fun j => if eqb i j then
               match f i with
               | Some r => Some (mkRec (r_id r) (r_str r) (r_act r) s (r_uid r) (r_gen r))
               | None => None
               end
             else f j.
  Definition spec_step (f : spec) (o : op A) : spec :=
    match o with
    | OpAdd i s a u g => spec_set f (mkRec i s a RPending u g)
    | OpSetRec i s => spec_set_rec f i s
    | _ => f
    end.

  Lemma lookup_set_status t n i :
    lookup eqb (set_status eqb t n) i = spec_set (lookup eqb t) n i.
  Proof.
    unfold spec_set. induction t as [|r t IH]; cbn.
    - destruct (eqb (r_id n) i); reflexivity.
    - destruct (eqb (r_id r) (r_id n)) eqn:E; cbn.
      + apply eqb_spec in E. rewrite E. destruct (eqb (r_id n) i); reflexivity.
      + destruct (eqb (r_id r) i) eqn:E2.
        * apply eqb_spec in E2. subst i.
          rewrite eqb_neq; [reflexivity|].
          intros H. rewrite H, eqb_refl' in E. discriminate.
        * exact IH.
  Qed.

  Lemma lookup_id t i r : lookup eqb t i = Some r -> r_id r = i.
  Proof.
    induction t as [|r' t IH]; cbn; [discriminate|].
    destruct (eqb (r_id r') i) eqn:E; [|exact IH].
    intros [= <-]. apply eqb_spec. exact E.
  Qed.

  Lemma set_reconcile_some t i s :
    match set_reconcile eqb t i s with
    | Some t' => lookup eqb t i <> None /\
                 (forall j, lookup eqb t' j = spec_set_rec (lookup eqb t) i s j) /\
                 keys t' = keys t
    | None => lookup eqb t i = None
    end.
  Proof.
    unfold spec_set_rec. induction t as [|r t IH]; cbn; [reflexivity|].
    destruct (eqb (r_id r) i) eqn:E.
    - split; [discriminate|]. split; [|reflexivity].
      intros j. cbn. apply eqb_spec in E. subst i.
      destruct (eqb (r_id r) j); reflexivity.
    - destruct (set_reconcile eqb t i s) as [t'|]; [|exact IH].
      destruct IH as [H1 [H2 H3]]. split; [exact H1|]. split.
      + intros j. cbn. destruct (eqb (r_id r) j) eqn:E2.
        * destruct (eqb i j) eqn:E3; [|reflexivity].
          apply eqb_spec in E2, E3. subst. rewrite eqb_refl' in E. discriminate.
        * apply H2.
      + unfold keys in *. cbn. f_equal. exact H3.
  Qed.

  (* one step of the table commutes with one step of the spec *)
  Lemma step_refines t o i :
    lookup eqb (fst (step eqb t o)) i = spec_step (lookup eqb t) o i.
  Proof.
    destruct o; cbn; try reflexivity.
    - apply lookup_set_status.
    - pose proof (set_reconcile_some t i0 s) as H.
      destruct (set_reconcile eqb t i0 s) as [t'|]; cbn.
      + destruct H as [_ [H _]]. apply H.
      + unfold spec_set_rec. rewrite H. destruct (eqb i0 i) eqn:E; [|reflexivity].
        apply eqb_spec in E. subst. congruence.
    - destruct (applied_uid eqb t i0); reflexivity.
    - destruct (applied_gen eqb t i0); reflexivity.
    - destruct (lookup eqb t i0); reflexivity.
  Qed.

  Lemma run_fst_fold t ops :
    fst (run eqb t ops) = fold_left (fun t o => fst (step eqb t o)) ops t.
  Proof.
    revert t. induction ops as [|o ops IH]; intros t; cbn; [reflexivity|].
    destruct (step eqb t o) as [t1 ob] eqn:S. destruct (run eqb t1 ops) as [t2 obs] eqn:R.
    cbn. rewrite <- IH, R. reflexivity.
  Qed.

  (* refinement for every operation sequence: the record found for an id is
     what the map-based specification holds after the same operations *)
  Theorem run_refines ops : forall t i,
    lookup eqb (fst (run eqb t ops)) i = fold_left spec_step ops (lookup eqb t) i.
  Proof.
    induction ops as [|o ops IH]; intros t i; cbn; [reflexivity|].
    destruct (step eqb t o) as [t1 ob] eqn:S. destruct (run eqb t1 ops) as [t2 obs] eqn:R.
    cbn. change t2 with (fst (t2, obs)). rewrite <- R, IH.
    assert (E : forall f g, (forall j, f j = g j) -> forall j, fold_left spec_step ops f j = fold_left spec_step ops g j).
    { clear. induction ops as [|o ops IH]; intros f g H j; cbn; [apply H|].
      apply IH. intros k. destruct o; cbn; try apply H.
      - unfold spec_set. cbn. destruct (eqb i k); [reflexivity|apply H].
      - unfold spec_set_rec. rewrite (H i). destruct (eqb i k); [reflexivity|apply H]. }
    apply E. intros j. change t1 with (fst (t1, ob)). rewrite <- S. apply step_refines.
  Qed.

  (* ---- one record per id ------------------------------------------------ *)
  Lemma keys_set_status t n :
    NoDup (keys t) -> NoDup (keys (set_status eqb t n)) /\
    (forall j, In j (keys (set_status eqb t n)) <-> j = r_id n \/ In j (keys t)).
  Proof.
    unfold keys. induction t as [|r t IH]; cbn; intros ND.
    - split; [constructor; [intros []|constructor]|]. intuition.
    - inversion ND as [|? ? Hr Ht]; subst.
      destruct (eqb (r_id r) (r_id n)) eqn:E; cbn.
      + apply eqb_spec in E. rewrite <- E. split; [exact ND|]. intuition.
      + destruct (IH Ht) as [IH1 IH2]. split.
        * constructor; [|exact IH1]. rewrite IH2. intros [H|H]; [|contradiction].
          rewrite H, eqb_refl' in E. discriminate.
        * intros j. rewrite IH2. intuition.
  Qed.

  Lemma step_keys_NoDup t o : NoDup (keys t) -> NoDup (keys (fst (step eqb t o))).
  Proof.
    intros ND. destruct o; cbn; try exact ND.
    - apply keys_set_status. exact ND.
    - pose proof (set_reconcile_some t i s) as H.
      destruct (set_reconcile eqb t i s) as [t'|]; cbn; [|exact ND].
      destruct H as [_ [_ H]]. unfold keys in *. rewrite H. exact ND.
    - destruct (applied_uid eqb t i); exact ND.
    - destruct (applied_gen eqb t i); exact ND.
    - destruct (lookup eqb t i); exact ND.
  Qed.

  Theorem run_keys_NoDup ops : forall t, NoDup (keys t) -> NoDup (keys (fst (run eqb t ops))).
  Proof.
    intros t. rewrite run_fst_fold. revert t.
    induction ops as [|o ops IH]; intros t ND; cbn; [exact ND|].
    apply IH. apply step_keys_NoDup. exact ND.
  Qed.

  (* ---- queries ---------------------------------------------------------- *)
  Lemma lookup_In t i r : lookup eqb t i = Some r -> In r t.
  Proof.
    induction t as [|r' t IH]; cbn; [discriminate|].
    destruct (eqb (r_id r') i); [intros [= <-]; left; reflexivity|right; auto].
  Qed.

  Lemma In_lookup t r : NoDup (keys t) -> In r t -> lookup eqb t (r_id r) = Some r.
  Proof.
    unfold keys. induction t as [|r' t IH]; cbn; intros ND H; [destruct H|].
    inversion ND as [|? ? Hr Ht]; subst.
    destruct H as [->|H]; [rewrite eqb_refl'; reflexivity|].
    rewrite eqb_neq; [apply IH; assumption|].
    intros E. apply Hr. rewrite E. apply in_map. exact H.
  Qed.

  Lemma lookup_None t i : lookup eqb t i = None <-> ~ In i (keys t).
  Proof.
    unfold keys. induction t as [|r t IH]; cbn; [tauto|].
    destruct (eqb (r_id r) i) eqn:E.
    - apply eqb_spec in E. split; [discriminate|]. intros H. exfalso. apply H. left. exact E.
    - rewrite IH. split; [|tauto]. intros H [X|X]; [|contradiction].
      rewrite X, eqb_refl' in E. discriminate.
  Qed.

  Lemma strategy_eqb_eq a b : strategy_eqb a b = true <-> a = b.
  Proof. destruct a, b; cbn; split; congruence. Qed.
  Lemma actuation_eqb_eq a b : actuation_eqb a b = true <-> a = b.
  Proof. destruct a, b; cbn; split; congruence. Qed.
  Lemma reconcile_eqb_eq a b : reconcile_eqb a b = true <-> a = b.
  Proof. destruct a, b; cbn; split; congruence. Qed.

  (* the list query for (strategy, actuation) returns exactly the ids whose
     record carries that pair; with one record per id it agrees with Is* *)
  Lemma with_actuation_spec t s a i : NoDup (keys t) ->
    (In i (with_actuation t s a) <->
     exists r, lookup eqb t i = Some r /\ r_str r = s /\ r_act r = a).
  Proof.
    intros ND. unfold with_actuation. rewrite in_map_iff. split.
    - intros [r [<- Hr]]. apply filter_In in Hr. destruct Hr as [Hr Hc].
      apply andb_true_iff in Hc. destruct Hc as [H1 H2].
      exists r. split; [apply In_lookup; assumption|].
      split; [apply strategy_eqb_eq|apply actuation_eqb_eq]; assumption.
    - intros [r [Hl [<- <-]]]. exists r. split; [eapply lookup_id; exact Hl|].
      apply filter_In. split; [eapply lookup_In; exact Hl|].
      apply andb_true_iff. split; [apply strategy_eqb_eq|apply actuation_eqb_eq]; reflexivity.
  Qed.

  Lemma with_reconcile_spec t s i : NoDup (keys t) ->
    (In i (with_reconcile t s) <-> exists r, lookup eqb t i = Some r /\ r_rec r = s).
  Proof.
    intros ND. unfold with_reconcile. rewrite in_map_iff. split.
    - intros [r [<- Hr]]. apply filter_In in Hr. destruct Hr as [Hr Hc].
      exists r. split; [apply In_lookup; assumption|apply reconcile_eqb_eq; assumption].
    - intros [r [Hl <-]]. exists r. split; [eapply lookup_id; exact Hl|].
      apply filter_In. split; [eapply lookup_In; exact Hl|apply reconcile_eqb_eq; reflexivity].
  Qed.

  Lemma is_actuation_list t i s a : NoDup (keys t) ->
    (is_actuation eqb t i s a = true <-> In i (with_actuation t s a)).
  Proof.
    intros ND. rewrite with_actuation_spec by exact ND. unfold is_actuation.
    destruct (lookup eqb t i) as [r|]; split.
    - intros H. apply andb_true_iff in H. destruct H as [H1 H2].
      exists r. split; [reflexivity|]. split; [apply strategy_eqb_eq|apply actuation_eqb_eq]; assumption.
    - intros [r' [[= <-] [<- <-]]]. apply andb_true_iff.
      split; [apply strategy_eqb_eq|apply actuation_eqb_eq]; reflexivity.
    - discriminate.
    - intros [r' [H _]]. discriminate.
  Qed.

  Lemma is_reconcile_list t i s : NoDup (keys t) ->
    (is_reconcile eqb t i s = true <-> In i (with_reconcile t s)).
  Proof.
    intros ND. rewrite with_reconcile_spec by exact ND. unfold is_reconcile.
    destruct (lookup eqb t i) as [r|]; split.
    - intros H. exists r. split; [reflexivity|apply reconcile_eqb_eq; assumption].
    - intros [r' [[= <-] <-]]. apply reconcile_eqb_eq. reflexivity.
    - discriminate.
    - intros [r' [H _]]. discriminate.
  Qed.

  Lemma NoDup_map_filter (f : rec -> bool) t : NoDup (keys t) -> NoDup (map r_id (filter f t)).
  Proof.
    unfold keys. induction t as [|r t IH]; cbn; intros ND; [constructor|].
    inversion ND as [|? ? Hr Ht]; subst.
    destruct (f r); cbn; [|apply IH; exact Ht].
    constructor; [|apply IH; exact Ht].
    rewrite in_map_iff. intros [r' [E Hr']]. apply filter_In in Hr'.
    apply Hr. rewrite <- E. apply in_map. tauto.
  Qed.

  (* partition: every recorded id is returned by exactly one of the eight
     (strategy, actuation) queries and exactly one of the five reconcile
     queries; unknown ids by none; no query lists an id twice *)
  Theorem actuation_partition t i : NoDup (keys t) ->
    (In i (keys t) -> exists s a, In i (with_actuation t s a) /\
        forall s' a', In i (with_actuation t s' a') -> s' = s /\ a' = a) /\
    (~ In i (keys t) -> forall s a, ~ In i (with_actuation t s a)) /\
    (forall s a, NoDup (with_actuation t s a)).
  Proof.
    intros ND. split; [|split].
    - intros Hi. destruct (lookup eqb t i) as [r|] eqn:L.
      + exists (r_str r), (r_act r). split.
        * apply with_actuation_spec; [exact ND|]. exists r. auto.
        * intros s' a' H. apply with_actuation_spec in H; [|exact ND].
          destruct H as [r' [H [<- <-]]]. rewrite L in H. injection H as <-. auto.
      + apply lookup_None in L. contradiction.
    - intros Hi s a H. apply with_actuation_spec in H; [|exact ND].
      destruct H as [r [H _]]. apply lookup_None in Hi. congruence.
    - intros s a. apply NoDup_map_filter. exact ND.
  Qed.

  Theorem reconcile_partition t i : NoDup (keys t) ->
    (In i (keys t) -> exists s, In i (with_reconcile t s) /\
        forall s', In i (with_reconcile t s') -> s' = s) /\
    (~ In i (keys t) -> forall s, ~ In i (with_reconcile t s)) /\
    (forall s, NoDup (with_reconcile t s)).
  Proof.
    intros ND. split; [|split].
    - intros Hi. destruct (lookup eqb t i) as [r|] eqn:L.
      + exists (r_rec r). split.
        * apply with_reconcile_spec; [exact ND|]. exists r. auto.
        * intros s' H. apply with_reconcile_spec in H; [|exact ND].
          destruct H as [r' [H <-]]. rewrite L in H. injection H as <-. auto.
      + apply lookup_None in L. contradiction.
    - intros Hi s H. apply with_reconcile_spec in H; [|exact ND].
      destruct H as [r [H _]]. apply lookup_None in Hi. congruence.
    - intros s. apply NoDup_map_filter. exact ND.
  Qed.

  (* totality: no operation of the model has a panic outcome *)
  Theorem step_total t o : snd (step eqb t o) <> ObPanic.
  Proof.
    destruct o; cbn; try discriminate.
    - destruct (set_reconcile eqb t i s); discriminate.
    - destruct (applied_uid eqb t i); discriminate.
    - destruct (applied_gen eqb t i); discriminate.
    - destruct (lookup eqb t i); discriminate.
  Qed.

  Theorem run_total ops : forall t, ~ In ObPanic (snd (run eqb t ops)).
  Proof.
    induction ops as [|o ops IH]; intros t; cbn; [tauto|].
    destruct (step eqb t o) as [t1 ob] eqn:S. destruct (run eqb t1 ops) as [t2 obs] eqn:R.
    cbn. intros [H|H].
    - pose proof (step_total t o) as T. rewrite S in T. cbn in T. congruence.
    - apply (IH t1). rewrite R. exact H.
  Qed.

  (* unknown ids are simply not found *)
  Theorem unknown_not_found t i : ~ In i (keys t) ->
    lookup eqb t i = None /\ applied_uid eqb t i = (0%N, false) /\
    applied_gen eqb t i = (0%Z, false) /\
    (forall s a, is_actuation eqb t i s a = false) /\
    (forall s, is_reconcile eqb t i s = false) /\
    set_reconcile eqb t i RSucceeded = None.
  Proof.
    intros H. apply lookup_None in H.
    unfold applied_uid, applied_gen, is_actuation, is_reconcile. rewrite H.
    repeat split; try reflexivity.
    pose proof (set_reconcile_some t i RSucceeded) as S.
    destruct (set_reconcile eqb t i RSucceeded); [destruct S as [S _]; contradiction|reflexivity].
  Qed.
End TableProofs.
