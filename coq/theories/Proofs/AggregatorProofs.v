(* Lemmas about the aggregation rule (C17). *)
From Coq Require Import List Bool Permutation.
From CliUtils Require Import Model.Engine Model.Aggregator Proofs.EngineProofs.
Import ListNotations.

Lemma agg_loop_spec : forall l d ad au,
  agg_loop l d ad au =
  if existsb (fun s => status_eqb s Failed) l then Failed
  else if au || existsb (fun s => status_eqb s Unknown) l then Unknown
  else if ad && forallb (fun s => status_eqb s d) l then d
  else InProgress.
Proof.
  intros l. induction l as [|s t IH]; intros d ad au; simpl.
  - rewrite orb_false_r, andb_true_r. reflexivity.
  - destruct (status_eqb s Failed) eqn:Ef; simpl; [reflexivity|].
    rewrite IH. destruct (existsb (fun s0 => status_eqb s0 Failed) t); [reflexivity|].
    destruct (status_eqb s Unknown) eqn:Eu, (status_eqb s d) eqn:Ed, au, ad; simpl; try reflexivity;
      destruct (existsb (fun s0 => status_eqb s0 Unknown) t); simpl; try reflexivity.
Qed.

Lemma aggregate_is_spec : forall l d, aggregate l d = aggregate_spec l d.
Proof.
  intros [|s t] d; [reflexivity|].
  unfold aggregate, aggregate_spec. rewrite agg_loop_spec. reflexivity.
Qed.

Lemma existsb_perm : forall (f : status -> bool) l l', Permutation l l' -> existsb f l = existsb f l'.
Proof.
  intros f l l' H. induction H as [|x a b H IH|x y a|a b c H1 IH1 H2 IH2]; simpl.
  - reflexivity.
  - now rewrite IH.
  - destruct (f x), (f y); reflexivity.
  - now rewrite IH1.
Qed.

Lemma forallb_perm : forall (f : status -> bool) l l', Permutation l l' -> forallb f l = forallb f l'.
Proof.
  intros f l l' H. induction H as [|x a b H IH|x y a|a b c H1 IH1 H2 IH2]; simpl.
  - reflexivity.
  - now rewrite IH.
  - destruct (f x), (f y); reflexivity.
  - now rewrite IH1.
Qed.

Lemma aggregate_perm : forall l l' d, Permutation l l' -> aggregate l d = aggregate l' d.
Proof.
  intros l l' d H. rewrite !aggregate_is_spec. unfold aggregate_spec.
  rewrite (existsb_perm _ _ _ H), (existsb_perm (fun s => status_eqb s Unknown) _ _ H),
    (forallb_perm _ _ _ H). reflexivity.
Qed.

Lemma existsb_status_In : forall x l, existsb (fun s => status_eqb s x) l = true <-> In x l.
Proof.
  intros x l. rewrite existsb_exists. split.
  - intros [y [Hy He]]. apply status_eqb_eq in He. now subst.
  - intros H. exists x. split; [exact H | apply status_eqb_refl].
Qed.

(* the rule, clause by clause *)
Lemma aggregate_rule : forall l d,
  (In Failed l -> aggregate l d = Failed) /\
  (~ In Failed l -> In Unknown l -> aggregate l d = Unknown) /\
  (~ In Failed l -> ~ In Unknown l -> (forall s, In s l -> s = d) -> aggregate l d = d) /\
  (~ In Failed l -> ~ In Unknown l -> (exists s, In s l /\ s <> d) -> aggregate l d = InProgress).
Proof.
  intros l d. rewrite aggregate_is_spec. unfold aggregate_spec.
  destruct (existsb (fun s => status_eqb s Failed) l) eqn:Ef.
  { apply existsb_status_In in Ef. repeat split; intros; try reflexivity; contradiction. }
  assert (Hnf : ~ In Failed l) by (intros H; apply existsb_status_In in H; congruence).
  destruct (existsb (fun s => status_eqb s Unknown) l) eqn:Eu.
  { apply existsb_status_In in Eu. repeat split; intros; try reflexivity; contradiction. }
  assert (Hnu : ~ In Unknown l) by (intros H; apply existsb_status_In in H; congruence).
  destruct (forallb (fun s => status_eqb s d) l) eqn:Ea.
  - rewrite forallb_forall in Ea. repeat split; intros; try reflexivity; try contradiction.
    destruct H1 as [s [Hs Hd]]. apply Ea in Hs. apply status_eqb_eq in Hs. contradiction.
  - repeat split; intros; try reflexivity; try contradiction.
    assert (forallb (fun s => status_eqb s d) l = true).
    { apply forallb_forall. intros s Hs. apply status_eqb_eq. now apply H1. }
    congruence.
Qed.
