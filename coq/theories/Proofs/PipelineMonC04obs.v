(* mon_C04_obs (Corr/CorrPipeline.v) holds of every run of the model for
   well-formed scenarios:
     monitor_C04_obs : forall sc c0, WF sc c0 -> mon_C04_obs sc c0 (run sc c0) = true.
   Outside dry-run, the Successful wait event that licenses the apply of a
   dependent rests on a delivered observation of the dependency that is
   Current, carries a body, at generation >= 2 and with the UID of the object
   of the final cluster.  Assembled from the state invariant of parts A / B
   (PipelineMonC04obsA.v, PipelineMonC04obsB.v: o4_run_state_G) and from
   PipelineOrder.order_apply_filter (every dependency of an applied object is
   an object of the apply set).  Everything here is proved; nothing is assumed. *)
From Coq Require Import List Bool Arith NArith ZArith Lia.
From CliUtils Require Import Model.ObjSet Model.ActuationTable Model.PipelineTypes Model.Pipeline
     Proofs.ObjSetProofs Proofs.PipelineBase Proofs.PipelineAuth Corr.CorrPipeline
     Proofs.PipelineOrphansBase Proofs.PipelineMonBase Proofs.PipelineOrphansRun
     Proofs.PipelineOrder Proofs.PipelineOrderPlan Proofs.PipelineOrderMon
     Proofs.PipelineMonC04obsA Proofs.PipelineMonC04obsB.
Import ListNotations.

(* ---- the canonical form of a cluster keeps every lookup --------------------------------------------- *)
Lemma o4_find_obj_flat_first (l : list cobj) (ids : list id) i c :
  NoDup ids -> In i ids -> find_obj l i = Some c ->
  find_obj (flat_map (fun k => match find_obj l k with Some x => [x] | None => [] end) ids) i = Some c.
Proof.
  intros ND. induction ND as [|k t Hk Ht IH]; intros Hi F; [destruct Hi|].
  cbn [flat_map]. destruct Hi as [->|Hi].
  - rewrite F. cbn [app find_obj]. rewrite (find_obj_id _ _ _ F), Nat.eqb_refl. reflexivity.
  - destruct (find_obj l k) as [x|] eqn:Fk; cbn [app]; [|apply IH; assumption].
    cbn [find_obj]. rewrite (find_obj_id _ _ _ Fk).
    destruct (Nat.eqb k i) eqn:E; [apply Nat.eqb_eq in E; subst k; contradiction|apply IH; assumption].
Qed.

Lemma o4_find_obj_flat_none (l : list cobj) (ids : list id) i :
  find_obj l i = None ->
  find_obj (flat_map (fun k => match find_obj l k with Some x => [x] | None => [] end) ids) i = None.
Proof.
  intros F. induction ids as [|k t IH]; [reflexivity|].
  cbn [flat_map]. destruct (find_obj l k) as [x|] eqn:Fk; cbn [app]; [|exact IH].
  cbn [find_obj]. rewrite (find_obj_id _ _ _ Fk).
  destruct (Nat.eqb k i) eqn:E; [apply Nat.eqb_eq in E; subst k; congruence|exact IH].
Qed.

Lemma o4_fo_norm cl i : fo (norm_cluster cl) i = fo cl i.
Proof.
  unfold fo, norm_cluster. cbn [objs].
  destruct (find_obj (objs cl) i) as [c|] eqn:F.
  - apply o4_find_obj_flat_first; [| |exact F].
    + unfold dedupn. apply (dedup_NoDup nat Nat.eqb nat_eqb_spec).
    + unfold dedupn. apply (dedup_In nat Nat.eqb nat_eqb_spec). apply sortn_In.
      pose proof (find_obj_In _ _ _ F) as H. rewrite <- (find_obj_id _ _ _ F). apply in_map. exact H.
  - apply o4_find_obj_flat_none. exact F.
Qed.

(* ---- the monitor's "last delivery for e before a position" is the cache lookup of that moment ------------ *)
Lemma o4_last_deliv (e : id) (pa : list item) k :
  match rev (filter (fun q : nat * item => match snd q with IDeliv o => Nat.eqb (s_id o) e | _ => false end)
                    (index_from k pa)) with
  | (_, IDeliv o) :: _ => o = cache_get (o4_delivs (rev pa)) e
  | [] => s_st (cache_get (o4_delivs (rev pa)) e) = SUnknown
  | _ => False
  end.
Proof.
  induction pa as [|x pa IH] using rev_ind; [reflexivity|].
  rewrite index_from_app, filter_app, rev_app_distr, rev_unit. cbn [index_from filter snd].
  destruct x as [r ok m st|o|ev|].
  - cbn [rev app]. exact IH.
  - destruct (Nat.eqb (s_id o) e) eqn:EE.
    + cbn [rev app]. unfold o4_delivs. cbn [flat_map app cache_get]. rewrite EE. reflexivity.
    + cbn [rev app]. unfold o4_delivs. cbn [flat_map app cache_get]. rewrite EE. exact IH.
  - cbn [rev app]. exact IH.
  - cbn [rev app]. exact IH.
Qed.

Lemma o4_okobs_monitor cl e o : o4_okobs cl e o -> obs_current_ok (norm_cluster cl) e o = true.
Proof.
  intros [ST [B [GE [c' [F U]]]]]. unfold obs_current_ok.
  rewrite ST, B. cbn [kst_eqb andb]. rewrite (proj2 (Z.leb_le 2 (s_gen o)) GE). cbn [andb].
  destruct (N.eqb (s_uid o) 0) eqn:S0; [reflexivity|]. cbn [negb andb].
  pose proof (o4_fo_norm cl e) as FN. unfold fo in FN, F. rewrite FN, F.
  destruct (N.eqb (c_uid c') 0) eqn:C0; [reflexivity|]. cbn [negb andb].
  destruct U as [U|[U|U]].
  - apply N.eqb_neq in S0. contradiction.
  - apply N.eqb_neq in C0. contradiction.
  - rewrite U, N.eqb_refl. reflexivity.
Qed.

Section Monitor.
  Variable sc : scenario.
  Variable c0 : cluster.
  Hypothesis HWF : WF sc c0.

  Notation pl := (plan_of sc c0).

  Theorem monitor_C04_obs_wf : mon_C04_obs sc c0 (run sc c0) = true.
  Proof.
    unfold mon_C04_obs. cbv zeta.
    destruct (is_dry (o_dry (sc_opts sc))) eqn:HD; [reflexivity|]. cbn [orb].
    apply forallb_forall. intros [n it] Hin. cbn [snd fst].
    destruct it as [r ok m st|?|?|]; try reflexivity.
    destruct (index_from_split _ _ _ _ Hin) as [pre [post [E En]]]. cbn [plus] in En. subst n.
    assert (K : forall d, ((exists f, r = RCreate d f) \/ (exists a f, r = RPatch d a f)) ->
      forallb (fun e =>
        match rev (filter (fun q => Nat.ltb (fst q) (length pre) &&
                                    match snd q with IEv (EWait _ e' _) => Nat.eqb e e' | _ => false end)
                          (index_from 0 (out_trace (run sc c0)))) with
        | (qpos, IEv (EWait _ _ WOk)) :: _ =>
            match rev (filter (fun q => Nat.ltb (fst q) qpos &&
                                        match snd q with IDeliv o => Nat.eqb (s_id o) e | _ => false end)
                              (index_from 0 (out_trace (run sc c0)))) with
            | (_, IDeliv o) :: _ => obs_current_ok (out_final (run sc c0)) e o
            | _ => false
            end
        | _ => true
        end) (g_deps (pl_graph pl) d) = true).
    { intros d Hr. apply forallb_forall. intros e He.
      (* e is an object of the apply set *)
      assert (Ha : In e (apply_ids pl)).
      { destruct (run_plan sc c0) as [[pl' locals]|] eqn:RP.
        - pose proof (run_plan_plan_of sc c0 pl' locals RP) as EPL. subst pl'.
          destruct (order_apply_filter sc c0 pl locals RP pre r ok m st post d E Hr) as [tbl [_ F]].
          destruct (F e He) as [_ [X _]]. exact X.
        - exfalso. pose proof (auth_run sc c0) as NR. rewrite RP in NR. apply (NR r ok m st). rewrite E.
          apply in_or_app. right. left. reflexivity. }
      pose proof (filter_index_lt (isw e) pre (IReq r ok m st :: post) 0) as FE.
      cbn [plus] in FE. unfold isw in FE. rewrite E, FE.
      destruct (rev (filter (fun q : nat * item => match snd q with IEv (EWait _ e' _) => Nat.eqb e e' | _ => false end)
                            (index_from 0 pre))) as [|[qpos x] rest] eqn:ER; [reflexivity|].
      destruct x as [? ? ? ?|?|ev|]; try reflexivity. destruct ev as [| | | | | |g i w| |]; try reflexivity.
      destruct w; try reflexivity.
      destruct (rev_filter_head _ _ _ _ ER) as [a [b [EI _]]].
      assert (X : In (qpos, IEv (EWait g i WOk))
                     (filter (fun q : nat * item => match snd q with IEv (EWait _ e' _) => Nat.eqb e e' | _ => false end)
                             (index_from 0 pre))).
      { apply in_rev. rewrite ER. left. reflexivity. }
      apply filter_In in X. destruct X as [X1 X2]. cbn [snd] in X2. apply Nat.eqb_eq in X2. subst i.
      destruct (index_from_split _ _ _ _ X1) as [pa [pb [EP EQ]]]. subst pre qpos.
      rewrite <- app_assoc. cbn [app].
      rewrite (filter_index_lt (fun it => match it with IDeliv o => Nat.eqb (s_id o) e | _ => false end) pa
                 (IEv (EWait g e WOk) :: pb ++ IReq r ok m st :: post) 0).
      (* the event in the run state *)
      assert (ET : exists l1, r_tr (run_state sc c0) = l1 ++ IEv (EWait g e WOk) :: rev pa).
      { pose proof (out_trace_run sc c0) as OT. rewrite E, <- app_assoc in OT. cbn [app] in OT.
        assert (NE : pb ++ IReq r ok m st :: post <> []) by (intros Z; apply app_eq_nil in Z; destruct Z; discriminate).
        destruct (exists_last NE) as [rest' [z EZ]]. rewrite EZ in OT.
        change (pa ++ IEv (EWait g e WOk) :: rest' ++ [z]) with (pa ++ (IEv (EWait g e WOk) :: rest') ++ [z]) in OT.
        rewrite app_assoc in OT. apply app_inj_tail in OT. destruct OT as [OT _].
        symmetry in OT. apply rev_split_last in OT. exists (rev rest'). exact OT. }
      destruct ET as [l1 ET].
      pose proof (o4_run_state_G sc c0 HWF HD l1 g e (rev pa) ET Ha) as OK.
      pose proof (o4_last_deliv e pa 0) as LD.
      destruct (rev (filter (fun q : nat * item => match snd q with IDeliv o => Nat.eqb (s_id o) e | _ => false end)
                            (index_from 0 pa))) as [|[p' y] rest2].
      - destruct OK as [ST _]. rewrite ST in LD. discriminate LD.
      - destruct y as [? ? ? ?|o|?|]; try contradiction. subst o.
        rewrite (out_final_run sc c0). apply o4_okobs_monitor. exact OK. }
    destruct r; try reflexivity; apply K; [left; eexists; reflexivity|right; eexists _, _; reflexivity].
  Qed.
End Monitor.

Theorem monitor_C04_obs : forall sc c0, WF sc c0 -> mon_C04_obs sc c0 (run sc c0) = true.
Proof. intros sc c0 H. exact (monitor_C04_obs_wf sc c0 H). Qed.

(* non-vacuity: a well-formed scenario outside dry-run whose run applies a dependent after the
   Successful wait of its dependency, with a delivered observation *)
Definition o4_ex_sc : scenario :=
  mkSc [mkU KPlain None None; mkU KPlain None None] None
       [mkL 0 [] false false false 1; mkL 1 [0] false false false 1]
       (mkO false true PAdoptIfNoInventory DNone VSkipInvalid false false false false PropBackground false)
       (mkE [] [mkW [mkS 0 SCurrent true 1%N 2%Z] WTimeout; mkW [mkS 1 SCurrent true 2%N 2%Z] WTimeout] CNever None).
Definition o4_ex_c0 : cluster := mkCl [] None 1%N.

Example o4_ex_run :
  mon_C04_obs o4_ex_sc o4_ex_c0 (run o4_ex_sc o4_ex_c0) = true /\
  existsb (fun it => match it with IEv (EWait _ 0 WOk) => true | _ => false end) (out_trace (run o4_ex_sc o4_ex_c0)) = true /\
  existsb (fun it => match it with IDeliv o => Nat.eqb (s_id o) 0 | _ => false end) (out_trace (run o4_ex_sc o4_ex_c0)) = true /\
  existsb (fun it => match it with IReq (RCreate 1 _) true _ _ => true | _ => false end) (out_trace (run o4_ex_sc o4_ex_c0)) = true.
Proof. vm_compute. repeat split. Qed.

Lemma o4_ex_WF : WF o4_ex_sc o4_ex_c0.
Proof. apply wf_b_spec. vm_compute. reflexivity. Qed.

Print Assumptions monitor_C04_obs.
