(* The C14 statements in their final form: Graph.Sort on a graph given as a
   vertex list and an edge list, and SortObjs on ids. *)
From Coq Require Import List Bool Arith Lia Permutation Sorting.Sorted String.
From CliUtils Require Import Model.ObjSet Model.ObjId Model.Graph Model.DepGraph
     Proofs.ObjSetProofs Proofs.ObjIdProofs Proofs.GraphProofs Proofs.DepGraphProofs.
Import ListNotations.

Section SortOfBuild.
  Variable V : Type.
  Variable eqb : V -> V -> bool.
  Hypothesis eqb_spec : forall x y, eqb x y = true <-> x = y.
  Variable ltb : V -> V -> bool.
  Hypothesis ltb_irrefl : forall x, ltb x x = false.
  Hypothesis ltb_trans : forall x y z, ltb x y = true -> ltb y z = true -> ltb x z = true.
  Hypothesis ltb_total : forall x y, x <> y -> ltb x y = true \/ ltb y x = true.

  Notation sort := (sort eqb ltb).
  Notation build := (build eqb).
  Notation hydrate := (hydrate eqb ltb).
  Notation isort := (isort ltb).

  (* the vertex set of the graph built from vs and es *)
  Definition vertex (vs : list V) (es : list (V * V)) (x : V) : Prop :=
    In x vs \/ exists e, In e es /\ (x = fst e \/ x = snd e).
  (* its edge relation *)
  Definition edge (es : list (V * V)) (v w : V) : Prop := In (v, w) es.

  Lemma gedge_edge vs es a b : gedge V eqb (build vs es) a b <-> edge es a b.
  Proof. apply (build_gedge V eqb eqb_spec). Qed.

  Lemma build_total vs es : exists L e, sort (build vs es) = Some (L, e).
  Proof. apply (sort_total V eqb eqb_spec), (build_wf V eqb eqb_spec). Qed.

  Lemma build_partition vs es L e :
    sort (build vs es) = Some (L, e) ->
    NoDup (List.concat L ++ err_ids V e)
    /\ (forall x, In x (List.concat L ++ err_ids V e) <-> vertex vs es x)
    /\ Forall (fun l => l <> []) L.
  Proof.
    intros H. apply sort_sorted_as in H.
    pose proof (build_wf V eqb eqb_spec vs es) as W.
    destruct (sa_partition V eqb eqb_spec ltb _ _ _ W H) as [P F].
    split; [|split; [|exact F]].
    - eapply Permutation_NoDup; [symmetry; exact P|apply W].
    - intros x. unfold vertex. rewrite <- (build_keys V eqb eqb_spec vs es x).
      split; apply Permutation_in; [exact P|symmetry; exact P].
  Qed.

  Lemma build_order vs es L e :
    sort (build vs es) = Some (L, e) ->
    forall i v w, In v (nth i L []) -> edge es v w -> exists j, j < i /\ In w (nth j L []).
  Proof.
    intros H i v w Hv Hvw. apply sort_sorted_as in H.
    apply (sa_order V eqb eqb_spec ltb _ _ _ (build_wf V eqb eqb_spec vs es) H i v w Hv).
    apply gedge_edge. exact Hvw.
  Qed.

  Lemma build_minimal vs es L e :
    sort (build vs es) = Some (L, e) ->
    forall i v, In v (nth (S i) L []) -> exists w, edge es v w /\ In w (nth i L []).
  Proof.
    intros H i v Hv. apply sort_sorted_as in H.
    destruct (sa_minimal V eqb eqb_spec ltb _ _ _ (build_wf V eqb eqb_spec vs es) H i v Hv) as [w [Hvw Hw]].
    exists w. split; [apply (gedge_edge vs es); exact Hvw|exact Hw].
  Qed.

  Lemma build_cycles vs es L e :
    sort (build vs es) = Some (L, e) ->
    (forall v, In v (err_ids V e) <-> reaches_cycle (edge es) v)
    /\ (e = None <-> forall v, ~ reaches_cycle (edge es) v).
  Proof.
    intros H. apply sort_sorted_as in H.
    pose proof (build_wf V eqb eqb_spec vs es) as W.
    assert (C : forall v, In v (err_ids V e) <-> reaches_cycle (edge es) v).
    { intros v. rewrite (sa_cycles V eqb eqb_spec ltb _ _ _ W H v).
      split; apply reaches_cycle_mono; intros a b; apply gedge_edge. }
    split; [exact C|]. split.
    - intros -> v Hv. apply C in Hv. destruct Hv.
    - intros Hn. destruct e as [[l0 es0]|]; [|reflexivity]. exfalso.
      assert (NE : err_ids V (Some (l0, es0)) <> []) by (apply (sa_err_nonempty V eqb ltb _ _ _ H); discriminate).
      simpl in NE. destruct l0 as [|x r]; [contradiction|].
      apply (Hn x). apply C. simpl. left. reflexivity.
  Qed.

  (* the edges listed by the error are the edges among the named vertices *)
  Lemma build_err_edges vs es L ids ees :
    sort (build vs es) = Some (L, Some (ids, ees)) ->
    forall v w, In (v, w) ees <-> edge es v w /\ In v ids /\ In w ids.
  Proof.
    intros H v w. apply sort_sorted_as in H.
    rewrite (sa_err_edges V eqb eqb_spec ltb _ _ _ _ (build_wf V eqb eqb_spec vs es) H v w).
    rewrite gedge_edge. tauto.
  Qed.

  Lemma build_perm_inv vs es vs' es' L e L' e' :
    (forall x, vertex vs es x <-> vertex vs' es' x) ->
    (forall v w, edge es v w <-> edge es' v w) ->
    sort (build vs es) = Some (L, e) -> sort (build vs' es') = Some (L', e') ->
    map isort L = map isort L'
    /\ option_map fst e = option_map fst e'
    /\ forall ids, hydrate L ids = hydrate L' ids.
  Proof.
    intros HV HE H H'. apply sort_sorted_as in H. apply sort_sorted_as in H'.
    pose proof (build_wf V eqb eqb_spec vs es) as W.
    pose proof (build_wf V eqb eqb_spec vs' es') as W'.
    assert (G : geq V eqb (build vs es) (build vs' es')).
    { split.
      - intros x. rewrite !(build_keys V eqb eqb_spec). apply HV.
      - intros v w. rewrite !gedge_edge. apply HE. }
    destruct (sa_geq V eqb eqb_spec ltb ltb_irrefl ltb_trans ltb_total _ _ _ H _ _ _ W W' G H') as [F EE].
    pose proof (sa_layers_NoDup V eqb eqb_spec ltb _ _ _ W H) as N.
    pose proof (sa_layers_NoDup V eqb eqb_spec ltb _ _ _ W' H') as N'.
    split; [|split; [exact EE|]].
    - apply (map_isort_eq V ltb ltb_irrefl ltb_trans ltb_total); assumption.
    - intros ids. apply (hydrate_eq V eqb eqb_spec ltb ltb_irrefl ltb_trans ltb_total); try assumption.
      intros x. tauto.
  Qed.

  Lemma build_layer_order vs es L e ids :
    sort (build vs es) = Some (L, e) ->
    Forall (StronglySorted (lt V ltb)) (hydrate L ids)
    /\ StronglySorted (lt V ltb) (err_ids V e).
  Proof.
    intros H. apply sort_sorted_as in H.
    pose proof (build_wf V eqb eqb_spec vs es) as W. split.
    - apply (hydrate_sorted V eqb ltb ltb_trans ltb_total).
      apply (sa_layers_NoDup V eqb eqb_spec ltb _ _ _ W H).
    - apply (sa_err_sorted V eqb eqb_spec ltb ltb_trans ltb_total _ _ _ W H).
  Qed.
End SortOfBuild.

(* ---- instances for ids -------------------------------------------------- *)
Definition id_sort_objs := sort_objs id_eqb id_ltb (fun x : id => x).
Definition id_reverse_sort_objs := reverse_sort_objs id_eqb id_ltb (fun x : id => x).
Definition id_dep_rel := dep_rel id id_eqb (fun x : id => x).
Definition id_lt := lt id id_ltb.
(* the objects DependencyGraph rejects because of their depends-on annotation
   (unparseable / a reference named twice / a reference outside the set) and
   because of their apply-time-mutation annotation (unparseable / a source
   outside the set) *)
Definition id_dep_annot_bad := dep_annot_bad id.
Definition id_mut_annot_bad := mut_annot_bad id.
Definition id_dep_errors := dep_errors id_eqb.
