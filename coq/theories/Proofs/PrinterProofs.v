(* Lemmas about the statistics and JSON printer models (C20). *)
From Coq Require Import List Bool Arith Lia.
From CliUtils Require Import Model.Stats Model.Printer.
Import ListNotations.

(* ---- counting ----------------------------------------------------------- *)
Lemma occ_snoc : forall f es e, occ f (es ++ [e]) = occ f es + (if f e then 1 else 0).
Proof.
  intros f es e. unfold occ. rewrite filter_app, app_length. simpl.
  destruct (f e); reflexivity.
Qed.

Lemma occ_cons : forall f e es, occ f (e :: es) = (if f e then 1 else 0) + occ f es.
Proof. intros f e es. unfold occ. simpl. destruct (f e); reflexivity. Qed.

Lemma occ_pos_existsb : forall f es, Nat.ltb 0 (occ f es) = existsb f es.
Proof.
  intros f es. induction es as [|e t IH]; [reflexivity|].
  rewrite occ_cons. simpl. destruct (f e); simpl; [reflexivity | exact IH].
Qed.

Lemma ltb0_add : forall a b, Nat.ltb 0 (a + b) = Nat.ltb 0 a || Nat.ltb 0 b.
Proof. intros [|a] [|b]; reflexivity. Qed.

(* the counters as functions of the events handled so far *)
Definition tri_of (k : akind) (es : list event) : tri :=
  mkTri (occ (is_act k StSuccessful) es) (occ (is_act k StSkipped) es) (occ (is_act k StFailed) es).
Definition quad_of (es : list event) : quad :=
  mkQuad (occ (is_wait WSuccessful) es) (occ (is_wait WTimeout) es)
         (occ (is_wait WFailed) es) (occ (is_wait WSkipped) es).
Definition stats_of (es : list event) : stats :=
  mkStats (tri_of KApply es) (tri_of KPrune es) (tri_of KDelete es) (quad_of es).

Lemma stats_of_nil : stats_of [] = stats0.
Proof. reflexivity. Qed.

Definition panics (e : event) : bool :=
  match e with EAct _ _ StPending _ => true | _ => false end.

Lemma handle_stats_of : forall pre e,
  handle (stats_of pre) e = if panics e then None else Some (stats_of (pre ++ [e])).
Proof.
  intros pre e. unfold stats_of, tri_of, quad_of.
  destruct e as [g|b|n a f|k i st he|i st|i st|ids]; simpl;
    try (rewrite !occ_snoc; simpl; rewrite !Nat.add_0_r; reflexivity).
  - destruct k, st; simpl; try reflexivity;
      rewrite !occ_snoc; simpl; rewrite ?Nat.add_0_r, ?Nat.add_1_r; reflexivity.
  - destruct st; simpl; rewrite !occ_snoc; simpl; rewrite ?Nat.add_0_r, ?Nat.add_1_r; reflexivity.
Qed.

Lemma handle_nocount : forall pre e,
  match e with EAct _ _ _ _ | EWait _ _ => False | _ => True end ->
  stats_of (pre ++ [e]) = stats_of pre.
Proof.
  intros pre e H. unfold stats_of, tri_of, quad_of. rewrite !occ_snoc.
  destruct e; try contradiction; simpl; rewrite !Nat.add_0_r; reflexivity.
Qed.

Lemma occ_nocount : forall f pre e,
  f e = false -> occ f (pre ++ [e]) = occ f pre.
Proof. intros f pre e H. rewrite occ_snoc, H. lia. Qed.

(* ---- lines ---------------------------------------------------------------- *)
Lemma group_line_spec : forall a fin es,
  group_line a fin (stats_of es) = LGroup a fin (if fin then counts_after a es else None).
Proof. intros a fin es. unfold group_line. destruct fin, a; reflexivity. Qed.

Lemma tri_is0_spec : forall k es, tri_is0 (tri_of k es) = counts_is0 (act_counts k es).
Proof. intros k es. unfold tri_is0, counts_is0. simpl. now rewrite andb_true_r. Qed.

Lemma quad_is0_spec : forall es, quad_is0 (quad_of es) = counts_is0 (wait_counts es).
Proof.
  intros es. unfold quad_is0, counts_is0. simpl.
  destruct (Nat.eqb (occ (is_wait WSuccessful) es) 0), (Nat.eqb (occ (is_wait WTimeout) es) 0),
    (Nat.eqb (occ (is_wait WFailed) es) 0), (Nat.eqb (occ (is_wait WSkipped) es) 0); reflexivity.
Qed.

Lemma summary_lines_spec : forall es, summary_lines (stats_of es) = summary_for es.
Proof.
  intros es. unfold summary_lines, summary_for. simpl.
  rewrite !tri_is0_spec, quad_is0_spec.
  destruct (counts_is0 (act_counts KApply es)), (counts_is0 (act_counts KPrune es)),
    (counts_is0 (act_counts KDelete es)), (counts_is0 (wait_counts es)); reflexivity.
Qed.

Lemma is_failure_split : forall e,
  is_failure e = is_act KApply StFailed e || is_act KPrune StFailed e || is_act KDelete StFailed e
                 || is_wait WFailed e || is_wait WTimeout e.
Proof.
  intros e. destruct e as [g|b|n a f|k i st he|i st|i st|ids]; try reflexivity.
  - destruct k, st; reflexivity.
  - destruct st; reflexivity.
Qed.

Lemma existsb_or : forall (f g : event -> bool) es,
  existsb (fun e => f e || g e) es = existsb f es || existsb g es.
Proof.
  intros f g es. induction es as [|e t IH]; [reflexivity|]. simpl. rewrite IH.
  destruct (f e), (g e), (existsb f t), (existsb g t); reflexivity.
Qed.

Lemma result_error_spec : forall es,
  result_error_from_stats (stats_of es) = existsb is_failure es.
Proof.
  intros es. unfold result_error_from_stats, failed_actuation_sum, failed_reconciliation_sum. simpl.
  rewrite !ltb0_add, !occ_pos_existsb.
  assert (Hx : existsb is_failure es =
               existsb (fun e => is_act KApply StFailed e || is_act KPrune StFailed e
                                 || is_act KDelete StFailed e || is_wait WFailed e
                                 || is_wait WTimeout e) es).
  { clear. induction es as [|e t IH]; [reflexivity|]. simpl. now rewrite IH, is_failure_split. }
  rewrite Hx, !existsb_or.
  destruct (existsb (is_act KApply StFailed) es), (existsb (is_act KPrune StFailed) es),
    (existsb (is_act KDelete StFailed) es), (existsb (is_wait WFailed) es),
    (existsb (is_wait WTimeout) es); reflexivity.
Qed.

(* ---- the loop --------------------------------------------------------------- *)
Lemma app_snoc_cons : forall (pre : list event) e t, (pre ++ [e]) ++ t = pre ++ e :: t.
Proof. intros. now rewrite <- app_assoc. Qed.

Lemma print_loop_spec : forall ps es pre,
  print_loop ps (stats_of pre) es =
  (body_spec ps pre es ++ (if has_stop es then [] else summary_for (pre ++ es)),
   result_spec pre es).
Proof.
  intros ps es. induction es as [|e t IH]; intros pre.
  - simpl. rewrite app_nil_r, summary_lines_spec, result_error_spec. reflexivity.
  - cbn [print_loop]. rewrite handle_stats_of.
    destruct e as [g|b|n a f|k i st he|i st|i st|ids].
    + (* init *)
      simpl. rewrite IH, app_snoc_cons. reflexivity.
    + (* error *)
      destruct b; reflexivity.
    + (* group *)
      simpl. rewrite IH, app_snoc_cons.
      rewrite (handle_nocount pre (EGroup n a f) I), group_line_spec. reflexivity.
    + (* apply / prune / delete *)
      destruct st; try reflexivity; simpl; rewrite IH, app_snoc_cons; reflexivity.
    + (* wait *)
      simpl. rewrite IH, app_snoc_cons. reflexivity.
    + (* status *)
      simpl. destruct ps; rewrite IH, app_snoc_cons; reflexivity.
    + (* validation *)
      destruct ids as [|x l]; [reflexivity|].
      simpl. rewrite IH, app_snoc_cons. reflexivity.
Qed.

Lemma print_spec : forall ps es,
  print ps es = (body_spec ps [] es ++ (if has_stop es then [] else summary_for es), result_spec [] es).
Proof. intros ps es. unfold print. rewrite <- stats_of_nil. apply print_loop_spec. Qed.

(* ---- positions -------------------------------------------------------------- *)
Lemma body_spec_nth : forall ps es1 e es2 pre,
  has_stop es1 = false -> prints ps e = true ->
  nth_error (body_spec ps pre (es1 ++ e :: es2)) (occ (prints ps) es1) = Some (line_for (pre ++ es1) e).
Proof.
  intros ps es1. induction es1 as [|x t IH]; intros e es2 pre Hs Hp.
  - simpl. rewrite Hp, app_nil_r. reflexivity.
  - simpl in Hs. apply orb_false_iff in Hs as [Hx Ht].
    simpl. rewrite Hx, occ_cons.
    rewrite <- (app_snoc_cons pre x t).
    destruct (prints ps x); simpl; apply IH; assumption.
Qed.

Lemma body_spec_length : forall ps es pre,
  List.length (body_spec ps pre es) = occ (prints ps) (processed es).
Proof.
  intros ps es. induction es as [|e t IH]; intros pre; [reflexivity|].
  simpl. rewrite app_length, occ_cons.
  destruct (stops e); [|rewrite IH]; destruct (prints ps e); reflexivity.
Qed.

Lemma processed_no_stop : forall es, has_stop es = false -> processed es = es.
Proof.
  intros es. induction es as [|e t IH]; intros H; [reflexivity|].
  simpl in *. apply orb_false_iff in H as [He Ht]. rewrite He, (IH Ht). reflexivity.
Qed.

Lemma line_for_matches : forall ps before e, prints ps e = true -> line_matches e (line_for before e).
Proof.
  intros ps before e H. destruct e as [g|b|n a f|k i st he|i st|i st|ids]; simpl in *;
    try reflexivity; try discriminate. now eexists.
Qed.

Lemma nth_error_app_left : forall (A : Type) (l l' : list A) n x,
  nth_error l n = Some x -> nth_error (l ++ l') n = Some x.
Proof.
  intros A l l' n x H. rewrite nth_error_app1; [exact H|].
  apply nth_error_Some. congruence.
Qed.

(* ---- statements used by Properties/C20.v ----------------------------------- *)
Lemma one_line_thm : forall ps es1 e es2,
  has_stop es1 = false -> prints ps e = true ->
  exists l, nth_error (fst (print ps (es1 ++ e :: es2))) (occ (prints ps) es1) = Some l /\
            line_matches e l /\ l = line_for es1 e.
Proof.
  intros ps es1 e es2 Hs Hp. exists (line_for es1 e). rewrite print_spec. simpl fst.
  split; [|split; [now apply (line_for_matches ps) | reflexivity]].
  apply nth_error_app_left. exact (body_spec_nth ps es1 e es2 [] Hs Hp).
Qed.

Lemma line_count_thm : forall ps es,
  List.length (fst (print ps es)) =
  occ (prints ps) (processed es) + (if has_stop es then 0 else List.length (summary_for es)).
Proof.
  intros ps es. rewrite print_spec. simpl fst. rewrite app_length, body_spec_length.
  now destruct (has_stop es).
Qed.

Lemma group_counts_thm : forall ps es1 n a es2,
  has_stop es1 = false ->
  nth_error (fst (print ps (es1 ++ EGroup n a true :: es2))) (occ (prints ps) es1)
  = Some (LGroup a true (counts_after a es1)).
Proof.
  intros ps es1 n a es2 Hs.
  destruct (one_line_thm ps es1 (EGroup n a true) es2 Hs eq_refl) as [l [H1 [_ H2]]].
  rewrite H1, H2. reflexivity.
Qed.

Lemma summary_thm : forall ps es,
  has_stop es = false ->
  exists body, fst (print ps es) = body ++ summary_for es /\
               List.length body = occ (prints ps) es.
Proof.
  intros ps es Hs. exists (body_spec ps [] es). rewrite print_spec, Hs. simpl fst.
  split; [reflexivity|]. rewrite body_spec_length, (processed_no_stop es Hs). reflexivity.
Qed.

Lemma no_summary_after_stop : forall ps es,
  has_stop es = true -> List.length (fst (print ps es)) = occ (prints ps) (processed es).
Proof. intros ps es Hs. rewrite line_count_thm, Hs. lia. Qed.

Lemma result_spec_wf : forall es pre,
  forallb ev_wf es = true ->
  result_spec pre es =
  if existsb is_error_event es then RErrEvent
  else if existsb is_failure (pre ++ es) then RErrResult else ROk.
Proof.
  intros es. induction es as [|e t IH]; intros pre Hwf.
  - simpl. now rewrite app_nil_r.
  - simpl in Hwf. apply andb_true_iff in Hwf as [He Ht].
    destruct e as [g|b|n a f|k i st he|i st|i st|ids]; simpl in *;
      try (rewrite (IH _ Ht), app_snoc_cons; reflexivity).
    + now subst b.
    + destruct st; try discriminate; rewrite (IH _ Ht), app_snoc_cons; reflexivity.
    + destruct ids; [discriminate|]. rewrite (IH _ Ht), app_snoc_cons; reflexivity.
Qed.

Lemma result_thm : forall ps es,
  forallb ev_wf es = true ->
  (snd (print ps es) <> ROk <->
   existsb is_error_event es = true \/ existsb is_failure es = true) /\
  snd (print ps es) <> RPanic /\ snd (print ps es) <> RErrFormat.
Proof.
  intros ps es Hwf. rewrite print_spec. simpl snd. rewrite (result_spec_wf es [] Hwf). simpl.
  destruct (existsb is_error_event es), (existsb is_failure es);
    (split; [split|split]); try discriminate; auto;
    try (intros H; exfalso; now apply H); try (intros [H|H]; discriminate).
Qed.

Lemma result_full_thm : forall ps es, snd (print ps es) = result_spec [] es.
Proof. intros ps es. now rewrite print_spec. Qed.

(* the Error field of an actuation event influences neither the counters nor
   the result: only the line shows it *)
Lemma occ_mid : forall f (es1 : list event) x es2,
  occ f (es1 ++ x :: es2) = occ f es1 + (if f x then 1 else 0) + occ f es2.
Proof.
  intros f es1 x es2. unfold occ. rewrite filter_app, app_length. simpl.
  destruct (f x); simpl; lia.
Qed.

Lemma error_field_irrelevant : forall s k id st h h',
  handle s (EAct k id st h) = handle s (EAct k id st h') /\
  is_failure (EAct k id st h) = is_failure (EAct k id st h') /\
  (forall a es1 es2, counts_after a (es1 ++ EAct k id st h :: es2) = counts_after a (es1 ++ EAct k id st h' :: es2)).
Proof.
  intros s k id st h h'. split; [destruct k; reflexivity|]. split; [destruct st; reflexivity|].
  intros a es1 es2. unfold counts_after, act_counts, wait_counts.
  rewrite !occ_mid.
  assert (Ha : forall k0 s0, is_act k0 s0 (EAct k id st h) = is_act k0 s0 (EAct k id st h')) by reflexivity.
  rewrite !Ha. destruct a; reflexivity.
Qed.
