(* The cancellation conjunct of mon_C12 (Corr/CorrPipeline.v, split in
   PipelineMonC12Defs.v) holds of every run of the model, unconditionally.

   CBeforeSync: the run state is an error after the validation / init events.
   CDuringReq i: every request for object i (create / patch / delete) is logged
   on a state on which `maybe_cancel _ i` has set the abort flag, nothing resets
   the flag, and the runner starts a task only with the flag clear: all hits
   lie in the last task that ran, after its Started event, and the run then
   ends with the error event. *)
From Coq Require Import List Bool Arith NArith ZArith Lia.
From CliUtils Require Import Model.ObjSet Model.ActuationTable Model.PipelineTypes Model.Pipeline
     Proofs.ObjSetProofs Proofs.PipelineBase Proofs.PipelineAuth Proofs.PipelineEvents Proofs.PipelineMisc
     Corr.CorrPipeline Proofs.PipelineOrphansBase Proofs.PipelineOrphansPlan Proofs.PipelineMonBase
     Proofs.PipelineMonC13 Proofs.PipelineMonC12Defs.
Import ListNotations.

(* ---- list-level facts about the monitor --------------------------------------------- *)
Definition Qk (it : item) : Prop := forall g, it <> IEv (EStarted g).

Lemma nsa_quiet hit b : Forall Qk b -> forall seen, no_started_after seen b hit = true.
Proof.
  induction 1 as [|it b Hit _ IH]; intros seen; cbn [no_started_after]; [reflexivity|].
  rewrite IH, andb_true_r.
  destruct it as [r ok m st|d|e|]; try apply orb_true_r.
  destruct e; try apply orb_true_r. exfalso. exact (Hit g eq_refl).
Qed.

Lemma nsa_nohit hit a b : existsb hit a = false ->
  no_started_after false (a ++ b) hit = no_started_after false b hit.
Proof.
  induction a as [|it a IH]; intros H; cbn [app no_started_after]; [reflexivity|].
  cbn [existsb] in H. apply orb_false_iff in H. destruct H as [H1 H2].
  rewrite H1. cbn [negb orb andb]. apply IH. exact H2.
Qed.

Lemma existsb_rev {A} (f : A -> bool) l : existsb f (rev l) = existsb f l.
Proof.
  induction l as [|x l IH]; [reflexivity|]. cbn [rev existsb].
  rewrite existsb_app, IH. cbn [existsb]. rewrite orb_false_r. apply orb_comm.
Qed.

Lemma has_error_In t : In (IEv EError) t -> has_error t = true.
Proof.
  intros H. unfold has_error. apply existsb_exists. exists EError. split; [|reflexivity].
  unfold events. apply in_flat_map. exists (IEv EError). split; [exact H|left; reflexivity].
Qed.

(* items recorded before the first task: no request, no Started event *)
Definition Pv (it : item) : Prop :=
  match it with IEv (EStarted _) => False | IReq _ _ _ _ => False | _ => True end.

Lemma Pv_nohit i l : Forall Pv l -> existsb (c12_hit i) l = false.
Proof.
  induction 1 as [|it l H _ IH]; [reflexivity|]. cbn [existsb]. rewrite IH.
  destruct it; try destruct H; reflexivity.
Qed.
Lemma Pv_nostarted l : Forall Pv l ->
  existsb (fun e => match e with EStarted _ => true | _ => false end) (events l) = false.
Proof.
  induction 1 as [|it l H _ IH]; [reflexivity|].
  destruct it as [r ok m st|d|e|]; cbn [events flat_map app]; fold (events l); try exact IH.
  cbn [existsb]. rewrite IH. destruct e; try reflexivity. destruct H.
Qed.

Lemma Pv_pre_tasks sc c0 s : r_tr s = [] -> Forall Pv (r_tr (pre_tasks sc c0 s)).
Proof.
  intros E. unfold pre_tasks. cbn [ev emit r_tr]. constructor; [exact I|].
  assert (F : Forall Pv (r_tr s)) by (rewrite E; constructor). clear E. revert s F.
  induction (pl_valerrs (plan_of sc c0)) as [|e t IH]; intros s F; cbn [fold_left]; [exact F|].
  apply IH. cbn [ev emit r_tr]. constructor; [exact I|exact F].
Qed.

(* ---- the traversal -------------------------------------------------------------------- *)
Section Cancel.
  Variable sc : scenario.
  Variable i : id.
  Hypothesis HC : e_cancel (sc_env sc) = CDuringReq i.

  Notation hit := (c12_hit i).

  (* inside a task body: the flag is monotone, no Started event is recorded, and a recorded
     hit comes with the flag set *)
  Definition kstep (s s' : rst) : Prop :=
    (r_abort s = true -> r_abort s' = true) /\
    exists l, r_tr s' = l ++ r_tr s /\ Forall Qk l /\ (existsb hit l = true -> r_abort s' = true).

  Lemma k_refl s : kstep s s.
  Proof. split; [auto|]. exists []. split; [reflexivity|]. split; [constructor|discriminate]. Qed.
  Lemma k_tr a b c : kstep a b -> kstep b c -> kstep a c.
  Proof.
    intros [M1 [l1 [E1 [F1 H1]]]] [M2 [l2 [E2 [F2 H2]]]]. split; [auto|].
    exists (l2 ++ l1). split; [rewrite E2, E1, app_assoc; reflexivity|].
    split; [apply Forall_app; split; assumption|].
    rewrite existsb_app. intros H. apply orb_true_iff in H. destruct H as [H|H]; auto.
  Qed.
  Lemma k_same s s' : r_tr s' = r_tr s -> r_abort s' = r_abort s -> kstep s s'.
  Proof.
    intros Ht Ha. split; [rewrite Ha; auto|]. exists []. split; [exact Ht|]. split; [constructor|discriminate].
  Qed.
  Lemma k_same6 s s' : same6 s s' -> kstep s s'.
  Proof. intros [_ [_ [_ [_ [T A]]]]]. apply k_same; assumption. Qed.
  Lemma k_set_abort s : kstep s (set_abort s).
  Proof. split; [reflexivity|]. exists []. split; [reflexivity|]. split; [constructor|reflexivity]. Qed.
  Lemma k_emit s it : Qk it -> (hit it = true -> r_abort s = true) -> kstep s (emit s it).
  Proof.
    intros Q H. split; [auto|]. exists [it]. split; [reflexivity|]. split; [constructor; [exact Q|constructor]|].
    cbn [existsb]. rewrite orb_false_r. exact H.
  Qed.
  Lemma k_ev s e : (forall g, e <> EStarted g) -> kstep s (ev s e).
  Proof. intros N. apply k_emit; [|discriminate]. intros g [= E]. exact (N g E). Qed.
  Lemma k_log_req s r ok :
    (hit (IReq r ok (managed (r_cl s)) (stored (r_cl s))) = true -> r_abort s = true) -> kstep s (log_req s r ok).
  Proof. intros H. apply k_emit; [intros g; discriminate|exact H]. Qed.
  Lemma k_maybe_cancel s j : kstep s (maybe_cancel sc s j).
  Proof. unfold maybe_cancel. rewrite HC. destruct (Nat.eqb j i); [apply k_set_abort|apply k_refl]. Qed.
  Lemma mc_hit s j : Nat.eqb i j = true -> r_abort (maybe_cancel sc s j) = true.
  Proof. intros H. apply Nat.eqb_eq in H. subst j. apply maybe_cancel_sets. exact HC. Qed.
  Lemma k_rec_reconcile s j r : kstep s (rec_reconcile s j r).
  Proof. unfold rec_reconcile. destruct (set_reconcile _ _ _ _); [apply k_same; reflexivity|apply k_refl]. Qed.

  Lemma k_fold {A} (f : rst -> A -> rst) (l : list A) :
    (forall s a, kstep s (f s a)) -> forall s, kstep s (fold_left f l s).
  Proof.
    intros H. induction l as [|a l IH]; intros s; cbn [fold_left]; [apply k_refl|].
    eapply k_tr; [apply H|apply IH].
  Qed.

  Ltac hitside :=
    let Hh := fresh "Hh" in
    cbn [c12_hit]; intros Hh; first [discriminate Hh | cbn [r_abort set_cl]; apply mc_hit; exact Hh].

  Ltac ks :=
    lazymatch goal with
    | |- kstep ?s ?s => apply k_refl
    | |- kstep ?s (rec_add ?x _ _ _ _ _) => apply (k_tr s x); [ks|apply k_same; reflexivity]
    | |- kstep ?s (ev ?x _) => apply (k_tr s x); [ks|apply k_ev; intros ?; discriminate]
    | |- kstep ?s (log_req ?x _ _) => apply (k_tr s x); [ks|apply k_log_req; hitside]
    | |- kstep ?s (set_cl ?x _) => apply (k_tr s x); [ks|apply k_same; reflexivity]
    | |- kstep ?s (add_aband ?x _) => apply (k_tr s x); [ks|apply k_same; reflexivity]
    | |- kstep ?s (set_abort ?x) => apply (k_tr s x); [ks|apply k_set_abort]
    | |- kstep ?s (maybe_cancel _ ?x ?j) => apply (k_tr s x); [ks|apply k_maybe_cancel]
    | |- kstep ?s ?x => first [assumption | apply k_same; reflexivity]
    end.

  Lemma k_inv_list s : kstep s (fst (inv_list sc s)).
  Proof. apply k_same6, same6_inv_list. Qed.
  Lemma k_get_obj s j : kstep s (fst (get_obj sc s j)).
  Proof. apply k_same6, same6_get_obj. Qed.

  Lemma k_inv_apply s ids : kstep s (fst (inv_apply sc s ids)).
  Proof.
    unfold inv_apply. cbv zeta. destruct (faulted sc (FInvGet _)); cbn [fst]; [ks|].
    destruct (faulted sc (FInvWrite _)); cbn [fst]; destruct (inv (r_cl s)); ks.
  Qed.
  Lemma k_inv_update s ids : kstep s (fst (inv_update sc s ids)).
  Proof.
    unfold inv_update. cbv zeta. destruct (faulted sc (FInvWrite _)); cbn [fst]; [ks|].
    cbn [r_cl]. destruct (inv (r_cl s)); cbn [fst]; ks.
  Qed.
  Lemma k_merge s ids : kstep s (fst (merge sc s ids)).
  Proof.
    unfold merge. cbv zeta.
    pose proof (k_inv_list s) as L1. destruct (inv_list sc s) as [s1 r1]. cbn [fst] in L1.
    destruct r1 as [[l|]|]; cbn [fst]; try exact L1.
    - pose proof (k_inv_list s1) as L2. destruct (inv_list sc s1) as [s2 r2]. cbn [fst] in L2.
      pose proof (k_tr _ _ _ L1 L2) as L12.
      destruct r2 as [cur0|]; cbn [fst]; [|exact L12].
      destruct (set_eqn _ _ && _); cbn [fst]; [exact L12|].
      destruct (is_dry _); cbn [fst]; [exact L12|].
      eapply k_tr; [exact L12|apply k_inv_apply].
    - destruct (is_dry _); cbn [fst]; [exact L1|]. eapply k_tr; [exact L1|apply k_inv_apply].
  Qed.
  Lemma k_replace s ids : kstep s (fst (replace sc s ids)).
  Proof.
    unfold replace. cbv zeta. destruct (is_dry _); cbn [fst]; [apply k_refl|].
    pose proof (k_inv_list s) as L1. destruct (inv_list sc s) as [s1 r1]. cbn [fst] in L1.
    destruct r1 as [x|]; cbn [fst]; [|exact L1].
    pose proof (k_inv_list s1) as L2. destruct (inv_list sc s1) as [s2 r2]. cbn [fst] in L2.
    pose proof (k_tr _ _ _ L1 L2) as L12.
    destruct r2 as [[cur|]|]; cbn [fst]; try exact L12.
    destruct (set_eqn _ _ && _); cbn [fst]; [exact L12|].
    eapply k_tr; [exact L12|apply k_inv_update].
  Qed.

  Lemma k_ssa_patch l s n : kstep s (fst (ssa_patch sc s l n)).
  Proof.
    unfold ssa_patch. cbv zeta.
    destruct (faulted sc (FStream _ _)); cbn [fst]; [ks|].
    destruct (faulted sc (FApply _)); cbn [fst]; [ks|].
    destruct (find_obj _ _); destruct (match o_dry (sc_opts sc) with DServer => true | _ => false end); cbn [fst]; ks.
  Qed.

  Lemma k_csa_apply l s : kstep s (fst (csa_apply sc s l)).
  Proof.
    unfold csa_apply. cbv zeta.
    pose proof (k_get_obj s (l_id l)) as G. destruct (get_obj sc s (l_id l)) as [s1 g]. cbn [fst] in G.
    destruct g; cbn [fst]; try exact G.
    + destruct (is_dry _); cbn [fst]; [exact G|]. destruct (faulted sc _); cbn [fst]; ks.
    + destruct (negb (patch_needed c l)); cbn [fst]; [exact G|].
      destruct (is_dry _); cbn [fst]; [exact G|]. destruct (faulted sc _); cbn [fst]; ks.
  Qed.

  Lemma k_kubectl_apply s l : kstep s (fst (kubectl_apply sc s l)).
  Proof. exact (kubectl_apply_step sc l (fun a b => kstep a b) k_tr (k_ssa_patch l) (k_csa_apply l) s). Qed.

  Lemma k_policy_apply_filter s j : kstep s (fst (policy_apply_filter sc s j)).
  Proof.
    unfold policy_apply_filter. destruct (o_policy (sc_opts sc)); cbn [fst]; try apply k_refl.
    all: pose proof (k_get_obj s j) as G; destruct (get_obj sc s j) as [s1 g]; cbn [fst] in G;
      destruct g; cbn [fst]; exact G.
  Qed.

  Lemma k_apply_one pl g s p : kstep s (apply_one sc pl g s p).
  Proof.
    unfold apply_one. destruct (p_local p) as [l|]; [|apply k_refl].
    destruct (negb (kind_known sc (r_known s) (p_id p))); [ks|].
    pose proof (k_policy_apply_filter s (p_id p)) as P.
    destruct (policy_apply_filter sc s (p_id p)) as [s1 f1]. cbn [fst] in P.
    destruct (match f1 with FPass => _ | _ => _ end); try ks.
    assert (M : kstep s1 (fst (mutate sc s1 l))) by (apply k_same; [apply mutate_tr|apply mutate_abort]).
    destruct (mutate sc s1 l) as [sm okm]. cbn [fst] in M.
    pose proof (k_tr _ _ _ P M) as PM. destruct okm; cbn [negb]; [|ks].
    pose proof (k_kubectl_apply sm l) as K. destruct (kubectl_apply sc sm l) as [s2 r]. cbn [fst] in K.
    pose proof (k_tr _ _ _ PM K) as PK. destruct r; ks.
  Qed.

  Lemma k_prune_one pl locals g uids s p : kstep s (prune_one sc pl locals g uids s p).
  Proof.
    unfold prune_one. cbv zeta. destruct (p_live p) as [c|]; [|apply k_refl].
    destruct (prune_filters sc pl locals (r_tbl s) uids c).
    all: repeat match goal with
                | |- context [if ?b then _ else _] => destruct b
                | |- context [match c_owner ?x with _ => _ end] => destruct (c_owner x)
                | |- context [match find_obj ?a ?b with _ => _ end] => destruct (find_obj a b)
                end.
    all: ks.
  Qed.

  Lemma k_inv_add_task pl s : kstep s (fst (inv_add_task sc pl s)).
  Proof.
    unfold inv_add_task. cbv zeta.
    match goal with |- kstep s (fst (let '(s1, ok1) := ?X in _)) =>
      assert (H : kstep s (fst X)); [|destruct X as [s1 ok1]; cbn [fst] in H] end.
    { destruct (match sc_inv_ns sc with Some n => _ | None => None end) as [p|]; [|apply k_refl].
      destruct (p_local p); [|apply k_refl].
      destruct (is_dry _); cbn [fst]; [apply k_refl|].
      destruct (faulted sc FNsCreate); cbn [fst]; [ks|].
      destruct (find_obj _ _); cbn [fst]; ks. }
    destruct ok1; cbn [fst]; [|exact H]. eapply k_tr; [exact H|apply k_merge].
  Qed.

  Lemma k_delete_inventory s : kstep s (fst (delete_inventory sc s)).
  Proof.
    unfold delete_inventory. cbv zeta.
    pose proof (k_inv_list s) as L1. destruct (inv_list sc s) as [s1 r1]. cbn [fst] in L1.
    destruct r1 as [[l|]|]; cbn [fst]; try exact L1.
    destruct (is_dry _); cbn [fst]; [exact L1|].
    destruct (faulted sc FInvDelete); cbn [fst]; ks.
  Qed.

  Lemma k_inv_set_task pl prev s : kstep s (fst (inv_set_task sc pl prev s)).
  Proof.
    unfold inv_set_task. destruct prev as [pv|]; cbn [fst]; [|apply k_refl].
    destruct (o_destroy (sc_opts sc) && destroy_successful pl pv s); [apply k_delete_inventory|apply k_replace].
  Qed.

  (* ---- the wait machine: wait / status events and deliveries only ---- *)
  Lemma k_rr_ev s j r e : (forall g, e <> EStarted g) -> kstep s (ev (rec_reconcile s j r) e).
  Proof. intros N. eapply k_tr; [apply k_rec_reconcile|apply k_ev; exact N]. Qed.

  Lemma k_handle_changed_uid c g s j : kstep s (handle_changed_uid c g s j).
  Proof. unfold handle_changed_uid. destruct c; apply k_rr_ev; intros ?; discriminate. Qed.

  Lemma k_wait_start c g ids s : kstep s (fst (wait_start c g ids s)).
  Proof.
    unfold wait_start.
    set (stepf := fun (acc : rst * list id) (j : id) => _).
    assert (H : forall l acc, kstep (fst acc) (fst (fold_left stepf l acc))).
    { induction l as [|j l IH]; intros acc; cbn [fold_left]; [apply k_refl|].
      eapply k_tr; [|apply IH].
      destruct acc as [s0 pend]. unfold stepf. cbn [fst].
      destruct (w_skipped c s0 j); cbn [fst]; [apply k_rr_ev; intros ?; discriminate|].
      destruct (changed_uid s0 j); cbn [fst]; [apply k_handle_changed_uid|].
      destruct (cond_met c s0 j); cbn [fst]; apply k_rr_ev; intros ?; discriminate. }
    specialize (H ids (s, [])). destruct (fold_left stepf ids (s, [])) as [s' pend]. exact H.
  Qed.

  Lemma k_wait_update c g ids s w j : kstep s (fst (wait_update c g ids s w j)).
  Proof.
    unfold wait_update.
    repeat match goal with
           | |- context [if ?b then _ else _] => destruct b
           | |- context [match ?c with AllCurrent => _ | AllNotFound => _ end] => destruct c
           end; cbn [fst];
      first [apply k_refl | apply k_handle_changed_uid | apply k_rr_ev; intros ?; discriminate].
  Qed.

  Lemma k_wait_timeout g s w : kstep s (wait_timeout g s w).
  Proof. unfold wait_timeout. apply k_fold. intros s0 j. apply k_rr_ev; intros ?; discriminate. Qed.

  Lemma k_deliver c g ids ds : forall s w, kstep s (fst (deliver sc c g ids ds s w)).
  Proof.
    induction ds as [|d t IH]; intros s w; cbn [deliver]; [apply k_refl|].
    destruct (w_pending w); [apply k_refl|].
    match goal with |- kstep _ (fst (let '(s4, w4) := ?X in _)) => destruct X as [s4 w4] eqn:E end.
    eapply k_tr; [|apply IH].
    assert (D : kstep s (emit s (IDeliv d))) by (apply k_emit; [intros ?; discriminate|discriminate]).
    assert (S3 : kstep s (set_cache (if o_status_events (sc_opts sc) then ev (emit s (IDeliv d)) (EStatus (s_id d) (s_st d)) else emit s (IDeliv d))
                                   (d :: r_cache (if o_status_events (sc_opts sc) then ev (emit s (IDeliv d)) (EStatus (s_id d) (s_st d)) else emit s (IDeliv d))))).
    { eapply k_tr; [|apply k_same; reflexivity].
      destruct (o_status_events (sc_opts sc)); [|exact D].
      eapply k_tr; [exact D|apply k_ev; intros ?; discriminate]. }
    destruct (memn (s_id d) ids).
    - eapply k_tr; [exact S3|].
      change s4 with (fst (s4, w4)). rewrite <- E. apply k_wait_update.
    - injection E as <- <-. exact S3.
  Qed.

  Lemma k_wait_reset c ids s : kstep s (wait_reset sc c ids s).
  Proof. apply k_same; [apply wait_reset_tr|apply wait_reset_abort]. Qed.

  Lemma k_wait_task c g ids s : kstep s (wait_task sc c g ids s).
  Proof.
    unfold wait_task.
    pose proof (k_wait_start c g ids s) as S1.
    destruct (wait_start c g ids s) as [s1 w1]. cbn [fst] in S1.
    destruct (w_pending w1); [eapply k_tr; [exact S1|apply k_wait_reset]|].
    destruct (match e_watch_err_at (sc_env sc) with Some n => Nat.eqb n (snd g) | None => false end);
      [eapply k_tr; [exact S1|apply k_set_abort]|].
    pose proof (k_deliver c g ids (w_deliv (nth (snd g) (e_waits (sc_env sc)) (mkW [] WTimeout))) s1 w1) as S2.
    destruct (deliver sc c g ids _ s1 w1) as [s2 w2]. cbn [fst] in S2.
    eapply k_tr; [exact S1|]. eapply k_tr; [exact S2|].
    destruct (w_pending w2); [apply k_wait_reset|].
    destruct (w_end _).
    - destruct (match c with AllCurrent => _ | AllNotFound => _ end); [eapply k_tr; [apply k_wait_timeout|apply k_wait_reset]|apply k_set_abort].
    - apply k_set_abort.
  Qed.

  (* ---- one task: the Started event, then a body in which a hit sets the flag ---- *)
  Lemma k_run_task pl locals prev s t :
    kstep (ev s (EStarted (task_name t))) (fst (run_task sc pl locals prev s t)).
  Proof.
    unfold run_task. cbv zeta. set (s0 := ev s (EStarted (task_name t))).
    destruct t.
    - pose proof (k_inv_add_task pl s0) as T.
      destruct (inv_add_task sc pl s0) as [s1 ok]. cbn [fst] in *. ks.
    - cbn [fst]. eapply k_tr; [|apply k_ev; intros ?; discriminate].
      unfold apply_task. apply k_fold. intros; apply k_apply_one.
    - cbn [fst]. eapply k_tr; [|apply k_ev; intros ?; discriminate]. apply k_wait_task.
    - cbn [fst]. eapply k_tr; [|apply k_ev; intros ?; discriminate].
      unfold prune_task. apply k_fold. intros; apply k_prune_one.
    - pose proof (k_inv_set_task pl prev s0) as T.
      destruct (inv_set_task sc pl prev s0) as [s1 ok]. cbn [fst] in *. ks.
  Qed.

  (* ---- the runner: no hit before the last task that ran; a hit ends the run with an error ---- *)
  Lemma k_run_tasks pl locals prev ts : forall s,
    existsb hit (r_tr s) = false ->
    exists b a, r_tr (run_tasks sc pl locals prev s ts) = b ++ a /\
      existsb hit a = false /\ Forall Qk b /\ (existsb hit b = true -> In (IEv EError) b).
  Proof.
    induction ts as [|t rest IH]; intros s NH; cbn [run_tasks].
    - exists [], (r_tr s). split; [reflexivity|]. split; [exact NH|]. split; [constructor|discriminate].
    - pose proof (k_run_task pl locals prev s t) as T.
      destruct (run_task sc pl locals prev s t) as [s1 ok]. cbn [fst] in T.
      destruct T as [_ [l [El [Fl Hl]]]]. cbn [ev emit r_tr] in El.
      assert (STOP : exists b a, r_tr (ev s1 EError) = b ++ a /\
                existsb hit a = false /\ Forall Qk b /\ (existsb hit b = true -> In (IEv EError) b)).
      { exists (IEv EError :: l), (IEv (EStarted (task_name t)) :: r_tr s).
        split; [cbn [ev emit r_tr]; rewrite El; reflexivity|].
        split; [cbn [existsb c12_hit orb]; exact NH|].
        split; [constructor; [intros g; discriminate|exact Fl]|]. intros _. left. reflexivity. }
      destruct (negb ok); [exact STOP|]. destruct (r_abort s1) eqn:AB; [exact STOP|].
      apply IH. rewrite El, existsb_app. cbn [existsb c12_hit orb]. rewrite NH, orb_false_r.
      destruct (existsb hit l); [|reflexivity]. symmetry. apply Hl. reflexivity.
  Qed.

  Lemma cancel_during c0 :
    let t := out_trace (run sc c0) in
    no_started_after false t hit && (negb (existsb hit t) || has_error t) = true.
  Proof.
    cbv zeta. rewrite out_trace_run.
    destruct (run_state_shape sc c0) as [s C T|s C T _ _|s4 SO CB _|s4 prev SO _ _ _].
    - cbn [ev emit r_tr]. rewrite T. reflexivity.
    - cbn [ev emit r_tr]. rewrite T. reflexivity.
    - rewrite HC in CB. discriminate.
    - pose proof (Pv_pre_tasks sc c0 s4 (so_tr _ _ _ SO)) as PV.
      destruct (k_run_tasks (plan_of sc c0) (locals_of sc) prev (tasks_of sc (plan_of sc c0)) (pre_tasks sc c0 s4)
                            (Pv_nohit i _ PV)) as [b [a [E [NA [FB HB]]]]].
      rewrite E, rev_app_distr, <- app_assoc.
      assert (NRA : existsb hit (rev a) = false) by (rewrite existsb_rev; exact NA).
      apply andb_true_iff. split.
      + rewrite (nsa_nohit _ _ _ NRA). apply nsa_quiet.
        apply Forall_app. split; [apply Forall_rev; exact FB|]. constructor; [intros g; discriminate|constructor].
      + rewrite existsb_app, NRA, existsb_app, existsb_rev. cbn [orb existsb c12_hit]. rewrite orb_false_r.
        destruct (existsb hit b); [|reflexivity]. cbn [negb orb].
        apply has_error_In. apply in_or_app. right. apply in_or_app. left. apply -> in_rev. apply HB. reflexivity.
  Qed.
End Cancel.

(* ---- cancellation before the first task ------------------------------------------------- *)
Lemma cancel_before sc c0 : e_cancel (sc_env sc) = CBeforeSync ->
  let t := out_trace (run sc c0) in
  negb (existsb (fun e => match e with EStarted _ => true | _ => false end) (events t)) && has_error t = true.
Proof.
  intros HC. cbv zeta. rewrite out_trace_run.
  destruct (run_state_shape sc c0) as [s C T|s C T _ _|s4 SO _ _|s4 prev SO NC _ _].
  - cbn [ev emit r_tr]. rewrite T. reflexivity.
  - cbn [ev emit r_tr]. rewrite T. reflexivity.
  - pose proof (Pv_pre_tasks sc c0 s4 (so_tr _ _ _ SO)) as PV.
    apply andb_true_iff. split.
    + apply negb_true_iff. apply Pv_nostarted.
      apply Forall_app. split; [|constructor; [exact I|constructor]].
      apply Forall_rev. cbn [ev emit r_tr]. constructor; [exact I|exact PV].
    + apply has_error_In. apply in_or_app. left. apply -> in_rev. left. reflexivity.
  - exfalso. exact (NC HC).
Qed.

Theorem cancel_clause : forall sc c0, c12_cancel sc (run sc c0) = true.
Proof.
  intros sc c0. unfold c12_cancel. cbv zeta.
  destruct (e_cancel (sc_env sc)) as [| |i] eqn:HC.
  - reflexivity.
  - apply (cancel_before sc c0 HC).
  - apply (cancel_during sc i HC c0).
Qed.

Print Assumptions cancel_clause.
