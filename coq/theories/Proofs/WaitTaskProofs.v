(* Proofs about Model/WaitTask.v.  Part 1: specification predicates, facts about
   the table / the event log / swap-removal, and everything that is a property
   of a single step from ANY state (success soundness, completion, timeout). *)
From Coq Require Import List Bool Arith Lia Permutation NArith ZArith.
From CliUtils Require Import Model.ObjSet Model.ActuationTable Model.WaitTask
     Proofs.ObjSetProofs Proofs.ActuationTableProofs.
Import ListNotations.

Section WaitTaskProofs.
  Variable A : Type.
  Variable eqb : A -> A -> bool.
  Hypothesis eqb_spec : forall x y, eqb x y = true <-> x = y.

  Notation table := (table A).
  Notation cache := (A -> cobs).
  Notation state := (state A).
  Notation wevent := (A * wstatus)%type.
  Notation input := (input A).

  Let eqb_refl := eqb_refl A eqb eqb_spec.
  Let eqb_neq := eqb_neq A eqb eqb_spec.

  (* ---- specification predicates (Prop) ---------------------------------- *)
  (* the UID recorded at actuation and the observed UID are both known and differ *)
  Definition uid_replaced (t : table) (ca : cache) (i : A) : Prop :=
    exists r, lookup eqb t i = Some r /\ r_uid r <> 0%N /\ o_has (ca i) = true /\
              o_uid (ca i) <> 0%N /\ r_uid r <> o_uid (ca i).
  (* the generation returned by the apply (0 for an unknown object) *)
  Definition applied_generation (t : table) (i : A) : Z :=
    match lookup eqb t i with Some r => r_gen r | None => 0%Z end.
  Definition gen_fresh (t : table) (ca : cache) (i : A) : Prop :=
    (applied_generation t i <= cached_gen (ca i))%Z.

  (* the phase condition as the property words it: necessary for Successful *)
  Definition cond_holds (c : cond) (t : table) (ca : cache) (i : A) : Prop :=
    match c with
    | AllCurrent => o_status (ca i) = KCurrent /\ gen_fresh t ca i /\ ~ uid_replaced t ca i
    | AllNotFound => o_status (ca i) = KNotFound \/ uid_replaced t ca i
    end.
  (* ... and in its sufficient form: the generation comparison is also made for
     NotFound (vacuous for the records a delete writes: generation 0) *)
  Definition cond_holds_exact (c : cond) (t : table) (ca : cache) (i : A) : Prop :=
    match c with
    | AllCurrent => o_status (ca i) = KCurrent /\ gen_fresh t ca i /\ ~ uid_replaced t ca i
    | AllNotFound => uid_replaced t ca i \/ (o_status (ca i) = KNotFound /\ gen_fresh t ca i)
    end.
  (* what the task evaluates before it reports Successful from pending/failed *)
  Definition cond_met (c : cond) (t : table) (ca : cache) (i : A) : bool :=
    match c with
    | AllCurrent => negb (changed_uid eqb t ca i) && reconciled_by_id eqb c t ca i
    | AllNotFound => changed_uid eqb t ca i || reconciled_by_id eqb c t ca i
    end.

  Definition strategy_of (c : cond) : strategy :=
    match c with AllCurrent => SApply | AllNotFound => SDelete end.

  Lemma kstatus_eqb_eq a b : kstatus_eqb a b = true <-> a = b.
  Proof. destruct a, b; cbn; split; intros H; try reflexivity; discriminate. Qed.

  Lemma changed_uid_spec t ca i : changed_uid eqb t ca i = true <-> uid_replaced t ca i.
  Proof.
    unfold changed_uid, uid_replaced. destruct (lookup eqb t i) as [r|].
    - destruct (N.eqb (r_uid r) 0) eqn:E1.
      + apply N.eqb_eq in E1. split; [discriminate|]. intros [r' [[= <-] [H _]]]. contradiction.
      + apply N.eqb_neq in E1. destruct (o_has (ca i)) eqn:E2; cbn.
        * destruct (N.eqb (o_uid (ca i)) 0) eqn:E3.
          -- apply N.eqb_eq in E3. split; [discriminate|]. intros [r' [_ [_ [_ [H _]]]]]. contradiction.
          -- apply N.eqb_neq in E3. destruct (N.eqb (r_uid r) (o_uid (ca i))) eqn:E4; cbn.
             ++ apply N.eqb_eq in E4. split; [discriminate|].
                intros [r' [[= <-] [_ [_ [_ H]]]]]. contradiction.
             ++ apply N.eqb_neq in E4. split; [|reflexivity]. intros _. exists r. repeat split; assumption.
        * split; [discriminate|]. intros [r' [_ [_ [H _]]]]. discriminate.
    - split; [discriminate|]. intros [r [H _]]. discriminate.
  Qed.

  Lemma match_status_spec t ca i s :
    match_status eqb t ca i s = true <-> o_status (ca i) = s /\ gen_fresh t ca i.
  Proof.
    unfold match_status, gen_fresh, applied_generation, applied_gen.
    destruct (kstatus_eqb (o_status (ca i)) s) eqn:E; cbn.
    - apply kstatus_eqb_eq in E.
      destruct (lookup eqb t i) as [r|]; cbn;
        (destruct (Z.ltb_spec (cached_gen (ca i)) (match Some r with Some r => r_gen r | None => 0%Z end))
         || destruct (Z.ltb_spec (cached_gen (ca i)) 0%Z));
        cbn in *; split; try discriminate; try (intros _; split; [exact E|lia]); intros [_ H']; lia.
    - split; [discriminate|]. intros [H _]. apply kstatus_eqb_eq in H. congruence.
  Qed.

  Lemma cond_met_spec c t ca i : cond_met c t ca i = true <-> cond_holds_exact c t ca i.
  Proof.
    unfold cond_met, cond_holds_exact, reconciled_by_id. destruct c.
    - rewrite andb_true_iff, negb_true_iff, match_status_spec.
      pose proof (changed_uid_spec t ca i) as H.
      destruct (changed_uid eqb t ca i).
      + split; [intros [? _]; discriminate|]. intros [_ [_ Hn]]. exfalso. apply Hn, H. reflexivity.
      + split.
        * intros [_ [H1 H2]]. repeat split; try assumption. intros Hr. apply H in Hr. discriminate.
        * intros [H1 [H2 _]]. repeat split; assumption.
    - rewrite orb_true_iff, match_status_spec, changed_uid_spec. reflexivity.
  Qed.

  Lemma cond_holds_exact_holds c t ca i : cond_holds_exact c t ca i -> cond_holds c t ca i.
  Proof. destruct c; cbn; [tauto|]. intros [H|[H _]]; [right|left]; exact H. Qed.

  (* for a delete record (generation 0) and an observation without a negative
     generation the two readings coincide *)
  Lemma cond_holds_exact_delete t ca i :
    applied_generation t i = 0%Z -> (0 <= cached_gen (ca i))%Z ->
    cond_holds AllNotFound t ca i -> cond_holds_exact AllNotFound t ca i.
  Proof.
    unfold cond_holds, cond_holds_exact, gen_fresh. intros H0 H1 [H|H]; [right|left; exact H].
    split; [exact H|lia].
  Qed.

  (* ---- the table: only the reconcile field is ever written --------------- *)
  Definition upd_rec (r : rec A) (s : reconcile) : rec A :=
    mkRec (r_id r) (r_str r) (r_act r) s (r_uid r) (r_gen r).

  Lemma lookup_set_rec t i s j :
    lookup eqb (set_rec eqb t i s) j =
    if eqb i j then match lookup eqb t i with Some r => Some (upd_rec r s) | None => None end
    else lookup eqb t j.
  Proof.
    unfold set_rec. pose proof (set_reconcile_some A eqb eqb_spec t i s) as H.
    destruct (set_reconcile eqb t i s) as [t'|].
    - destruct H as [_ [H _]]. rewrite H. unfold spec_set_rec. reflexivity.
    - destruct (eqb i j) eqn:E; [|reflexivity]. apply eqb_spec in E. subst j. rewrite H. reflexivity.
  Qed.

  (* the actuation view of a record *)
  Definition act_view (t : table) (j : A) : option (strategy * actuation * N * Z) :=
    match lookup eqb t j with
    | Some r => Some (r_str r, r_act r, r_uid r, r_gen r)
    | None => None
    end.
  Definition same_act (t t' : table) : Prop := forall j, act_view t' j = act_view t j.

  Lemma same_act_refl t : same_act t t.
  Proof. intros j. reflexivity. Qed.
  Lemma same_act_trans t1 t2 t3 : same_act t1 t2 -> same_act t2 t3 -> same_act t1 t3.
  Proof. intros H1 H2 j. rewrite H2. apply H1. Qed.

  Lemma same_act_set_rec t i s : same_act t (set_rec eqb t i s).
  Proof.
    intros j. unfold act_view. rewrite lookup_set_rec.
    destruct (eqb i j) eqn:E; [|reflexivity]. apply eqb_spec in E. subst j.
    destruct (lookup eqb t i); reflexivity.
  Qed.

  Lemma same_act_is_actuation t t' i s a :
    same_act t t' -> is_actuation eqb t' i s a = is_actuation eqb t i s a.
  Proof.
    intros H. specialize (H i). unfold act_view, is_actuation in *.
    destruct (lookup eqb t' i), (lookup eqb t i); try discriminate; [|reflexivity].
    injection H as -> -> _ _. reflexivity.
  Qed.

  Lemma same_act_skipped c t t' i : same_act t t' -> skipped eqb c t' i = skipped eqb c t i.
  Proof. intros H. unfold skipped. rewrite !(same_act_is_actuation t t' i _ _ H). reflexivity. Qed.

  Lemma same_act_changed_uid t t' ca i : same_act t t' -> changed_uid eqb t' ca i = changed_uid eqb t ca i.
  Proof.
    intros H. specialize (H i). unfold act_view, changed_uid in *.
    destruct (lookup eqb t' i), (lookup eqb t i); try discriminate; [|reflexivity].
    injection H as _ _ -> _. reflexivity.
  Qed.

  Lemma same_act_reconciled c t t' ca i :
    same_act t t' -> reconciled_by_id eqb c t' ca i = reconciled_by_id eqb c t ca i.
  Proof.
    intros H. specialize (H i). unfold act_view, reconciled_by_id, match_status, applied_gen in *.
    destruct (lookup eqb t' i), (lookup eqb t i); try discriminate; [|reflexivity].
    injection H as _ _ _ ->. reflexivity.
  Qed.

  Lemma same_act_uid_replaced t t' ca i : same_act t t' -> uid_replaced t' ca i <-> uid_replaced t ca i.
  Proof. intros H. rewrite <- !changed_uid_spec, (same_act_changed_uid _ _ _ _ H). reflexivity. Qed.

  Lemma same_act_applied_generation t t' i : same_act t t' -> applied_generation t' i = applied_generation t i.
  Proof.
    intros H. specialize (H i). unfold act_view, applied_generation in *.
    destruct (lookup eqb t' i), (lookup eqb t i); try discriminate; [|reflexivity].
    injection H as _ _ _ ->. reflexivity.
  Qed.

  Lemma same_act_cond_holds c t t' ca i : same_act t t' -> cond_holds c t' ca i <-> cond_holds c t ca i.
  Proof.
    intros H. unfold cond_holds, gen_fresh.
    rewrite (same_act_applied_generation _ _ i H). destruct c; rewrite (same_act_uid_replaced _ _ ca i H); reflexivity.
  Qed.

  Lemma same_act_cond_met c t t' ca i : same_act t t' -> cond_met c t' ca i = cond_met c t ca i.
  Proof.
    intros H. unfold cond_met.
    rewrite (same_act_changed_uid _ _ ca i H), (same_act_reconciled c _ _ ca i H). reflexivity.
  Qed.

  Lemma same_act_fold_set_rec l s : forall t, same_act t (fold_left (fun t i => set_rec eqb t i s) l t).
  Proof.
    induction l as [|a l IH]; intros t; cbn; [apply same_act_refl|].
    eapply same_act_trans; [apply same_act_set_rec|apply IH].
  Qed.

  (* ---- the event log ----------------------------------------------------- *)
  Lemma last_status_app (e1 e2 : list wevent) i :
    last_status eqb (e1 ++ e2) i =
    match last_status eqb e2 i with Some w => Some w | None => last_status eqb e1 i end.
  Proof.
    induction e1 as [|[j w] e1 IH]; cbn.
    - destruct (last_status eqb e2 i); reflexivity.
    - rewrite IH. destruct (last_status eqb e2 i); reflexivity.
  Qed.

  Lemma last_status_one j w i : last_status eqb [(j, w)] i = if eqb j i then Some w else None.
  Proof. reflexivity. Qed.

  Lemma last_status_snoc evs j w i :
    last_status eqb (evs ++ [(j, w)]) i = if eqb j i then Some w else last_status eqb evs i.
  Proof. rewrite last_status_app, last_status_one. destruct (eqb j i); reflexivity. Qed.

  Lemma last_status_In evs i w : last_status eqb evs i = Some w -> In (i, w) evs.
  Proof.
    induction evs as [|[j w'] evs IH]; cbn; [discriminate|].
    destruct (last_status eqb evs i) as [w''|].
    - intros [= <-]. right. apply IH. reflexivity.
    - destruct (eqb j i) eqn:E; [|discriminate]. intros [= <-]. apply eqb_spec in E. subst. left. reflexivity.
  Qed.

  Lemma last_status_None evs i : last_status eqb evs i = None <-> forall w, ~ In (i, w) evs.
  Proof.
    induction evs as [|[j w'] evs IH]; cbn.
    - split; [intros _ w H; exact H|reflexivity].
    - destruct (last_status eqb evs i) as [w''|] eqn:L.
      + split; [discriminate|]. intros H. exfalso. apply (H w''). right. apply last_status_In. exact L.
      + destruct (eqb j i) eqn:E.
        * apply eqb_spec in E. subst. split; [discriminate|]. intros H. exfalso. apply (H w'). left. reflexivity.
        * split; [|reflexivity]. intros _ w [H|H].
          -- injection H as -> _. rewrite eqb_refl in E. discriminate.
          -- apply (proj1 IH eq_refl w H).
  Qed.

  (* events of one object *)
  Definition events_for (i : A) (evs : list wevent) : list wevent :=
    filter (fun e => eqb (fst e) i) evs.

  Lemma events_for_app i e1 e2 : events_for i (e1 ++ e2) = events_for i e1 ++ events_for i e2.
  Proof. apply filter_app. Qed.

  Lemma events_for_none i evs : (forall j w, In (j, w) evs -> j <> i) -> events_for i evs = [].
  Proof.
    induction evs as [|[j w] evs IH]; intros H; cbn; [reflexivity|].
    rewrite (eqb_neq j i) by (apply (H j w); left; reflexivity).
    apply IH. intros j' w' Hin. apply (H j' w'). right. exact Hin.
  Qed.

  (* ---- swap-removal ------------------------------------------------------ *)
  Lemma remove_In_sub l x y : In y (remove eqb l x) -> In y l.
  Proof.
    intros H. destruct (mem eqb x l) eqn:M.
    - apply (mem_In A eqb eqb_spec) in M.
      eapply Permutation_in; [apply (remove_present A eqb eqb_spec l x M)|]. right. exact H.
    - apply (mem_false A eqb eqb_spec) in M. rewrite (remove_absent A eqb eqb_spec l x M) in H. exact H.
  Qed.

  Lemma remove_NoDup l x : NoDup l -> NoDup (remove eqb l x).
  Proof.
    intros ND. destruct (mem eqb x l) eqn:M.
    - apply (mem_In A eqb eqb_spec) in M.
      assert (ND' : NoDup (x :: remove eqb l x)).
      { eapply Permutation_NoDup; [symmetry; apply (remove_present A eqb eqb_spec l x M)|exact ND]. }
      inversion ND'; assumption.
    - apply (mem_false A eqb eqb_spec) in M. rewrite (remove_absent A eqb eqb_spec l x M). exact ND.
  Qed.

  Lemma NoDup_snoc (l : list A) x : NoDup l -> ~ In x l -> NoDup (l ++ [x]).
  Proof.
    intros ND Hn. eapply Permutation_NoDup; [apply Permutation_cons_append|]. constructor; assumption.
  Qed.

  Lemma contains_In l x : contains eqb l x = true <-> In x l.
  Proof. apply (contains_spec A eqb eqb_spec). Qed.
  Lemma contains_not_In l x : contains eqb l x = false <-> ~ In x l.
  Proof. rewrite <- contains_In. destruct (contains eqb l x); split; congruence. Qed.

  Lemma nil_b_true (l : list A) : nil_b l = true <-> l = [].
  Proof. destruct l; cbn; split; congruence. Qed.

  (* ---- shape of startInner ----------------------------------------------- *)
  (* what one iteration emits, in terms of the (unchanging) actuation view *)
  Definition start_status (c : cond) (t : table) (ca : cache) (i : A) : wstatus :=
    if skipped eqb c t i then WSkipped
    else if changed_uid eqb t ca i then match c with AllNotFound => WSuccessful | AllCurrent => WFailed end
    else if reconciled_by_id eqb c t ca i then WSuccessful
    else WPending.

  Lemma start_one_shape c ca t pend evs i :
    start_one eqb c ca (t, pend, evs) i =
    (set_rec eqb t i (rec_of (start_status c t ca i)),
     match start_status c t ca i with WPending => pend ++ [i] | _ => pend end,
     evs ++ [(i, start_status c t ca i)]).
  Proof.
    unfold start_one, start_status, handle_changed_uid.
    destruct (skipped eqb c t i); [reflexivity|].
    destruct (changed_uid eqb t ca i); [destruct c; reflexivity|].
    destruct (reconciled_by_id eqb c t ca i); reflexivity.
  Qed.

  Lemma start_status_same_act c t t' ca i : same_act t t' -> start_status c t' ca i = start_status c t ca i.
  Proof.
    intros H. unfold start_status.
    rewrite (same_act_skipped c _ _ i H), (same_act_changed_uid _ _ ca i H), (same_act_reconciled c _ _ ca i H).
    reflexivity.
  Qed.

  (* the whole loop, relative to the table it started from *)
  Lemma start_fold_shape c ca t0 l : forall t pend evs,
    same_act t0 t ->
    let '(t', pend', evs') := fold_left (start_one eqb c ca) l (t, pend, evs) in
    same_act t0 t' /\
    pend' = pend ++ filter (fun i => wstatus_eqb (start_status c t0 ca i) WPending) l /\
    evs' = evs ++ map (fun i => (i, start_status c t0 ca i)) l.
  Proof.
    induction l as [|a l IH]; intros t pend evs H; cbn [fold_left].
    - rewrite !app_nil_r. repeat split. exact H.
    - rewrite start_one_shape. rewrite (start_status_same_act c t0 t ca a H).
      specialize (IH (set_rec eqb t a (rec_of (start_status c t0 ca a)))
                     (match start_status c t0 ca a with WPending => pend ++ [a] | _ => pend end)
                     (evs ++ [(a, start_status c t0 ca a)])
                     (same_act_trans _ _ _ H (same_act_set_rec _ _ _))).
      destruct (fold_left _ l _) as [[t' pend'] evs'].
      destruct IH as [H1 [H2 H3]]. split; [exact H1|]. split.
      + rewrite H2. cbn [filter map]. destruct (start_status c t0 ca a); cbn; rewrite <- ?app_assoc; reflexivity.
      + rewrite H3. cbn [map]. rewrite <- app_assoc. reflexivity.
  Qed.

  Lemma start_shape c ids s :
    let '(s', evs) := start eqb c ids s in
    same_act (st_table s) (st_table s') /\
    st_pending s' = filter (fun i => wstatus_eqb (start_status c (st_table s) (st_cache s) i) WPending) ids /\
    st_failed s' = st_failed s /\ st_cache s' = st_cache s /\
    st_done s' = nil_b (st_pending s') /\
    evs = map (fun i => (i, start_status c (st_table s) (st_cache s) i)) ids.
  Proof.
    unfold start.
    pose proof (start_fold_shape c (st_cache s) (st_table s) ids (st_table s) [] [] (same_act_refl _)) as H.
    destruct (fold_left _ ids _) as [[t' pend'] evs']. destruct H as [H1 [H2 H3]]. cbn in *.
    subst. repeat split. exact H1.
  Qed.

  Lemma start_status_successful c t ca i :
    start_status c t ca i = WSuccessful -> cond_met c t ca i = true.
  Proof.
    unfold start_status, cond_met.
    destruct (skipped eqb c t i); [discriminate|].
    destruct (changed_uid eqb t ca i); [destruct c; [discriminate|reflexivity]|].
    destruct (reconciled_by_id eqb c t ca i); [destruct c; reflexivity|discriminate].
  Qed.

  (* ---- StatusUpdate: every leaf of the switch ----------------------------- *)
  (* how a set changes in one update *)
  Inductive delta := DKeep | DRem | DAdd.
  Definition app_delta (d : delta) (l : list A) (j : A) : list A :=
    match d with DKeep => l | DRem => remove eqb l j | DAdd => l ++ [j] end.
  Definition next_table (t : table) (j : A) (ow : option wstatus) : table :=
    match ow with Some w => set_rec eqb t j (rec_of w) | None => t end.
  Definition next_events (j : A) (ow : option wstatus) : list wevent :=
    match ow with Some w => [(j, w)] | None => [] end.

  (* the outcome of status_update as (pending delta, failed delta, event) *)
  Definition su_outcome (c : cond) (ids : list A) (s : state) (j : A) : delta * delta * option wstatus :=
    let t := st_table s in
    let ca := st_cache s in
    if contains eqb (st_pending s) j then
      if changed_uid eqb t ca j then (DRem, DKeep, Some match c with AllNotFound => WSuccessful | AllCurrent => WFailed end)
      else if reconciled_by_id eqb c t ca j then (DRem, DKeep, Some WSuccessful)
      else if failed_by_id ca j then (DRem, DAdd, Some WFailed)
      else (DKeep, DKeep, None)
    else if negb (contains eqb ids j) then (DKeep, DKeep, None)
    else if skipped eqb c t j then (DKeep, DKeep, None)
    else if contains eqb (st_failed s) j then
      if changed_uid eqb t ca j then (DKeep, DRem, Some match c with AllNotFound => WSuccessful | AllCurrent => WFailed end)
      else if reconciled_by_id eqb c t ca j then (DKeep, DRem, Some WSuccessful)
      else if negb (failed_by_id ca j) then (DAdd, DRem, Some WPending)
      else (DKeep, DKeep, None)
    else if changed_uid eqb t ca j then
      if is_current c && negb (is_reconcile eqb t j RFailed)
      then (DKeep, DKeep, Some match c with AllNotFound => WSuccessful | AllCurrent => WFailed end)
      else (DKeep, DKeep, None)
    else if negb (reconciled_by_id eqb c t ca j) then (DAdd, DKeep, Some WPending)
    else if is_reconcile eqb t j RFailed then (DKeep, DKeep, Some WSuccessful)
    else (DKeep, DKeep, None).

  (* the two early returns: no completion check *)
  Definition su_returns_early (c : cond) (ids : list A) (s : state) (j : A) : bool :=
    negb (contains eqb (st_pending s) j)
    && (negb (contains eqb ids j) || skipped eqb c (st_table s) j).

  Lemma status_update_shape c ids s j :
    let '(dp, df, ow) := su_outcome c ids s j in
    let '(s', evs) := status_update eqb c ids s j in
    st_pending s' = app_delta dp (st_pending s) j /\
    st_failed s' = app_delta df (st_failed s) j /\
    st_table s' = next_table (st_table s) j ow /\
    st_cache s' = st_cache s /\
    evs = next_events j ow /\
    st_done s' = (if su_returns_early c ids s j then st_done s
                  else st_done s || nil_b (st_pending s')).
  Proof.
    unfold su_outcome, status_update, su_returns_early, finish, handle_changed_uid.
    destruct s as [pend fl t ca d]; cbn [st_pending st_failed st_table st_cache st_done].
    destruct (contains eqb pend j); cbn [negb andb].
    - destruct (changed_uid eqb t ca j); [destruct c; cbn; repeat split|].
      destruct (reconciled_by_id eqb c t ca j); [cbn; repeat split|].
      destruct (failed_by_id ca j); cbn; repeat split.
    - destruct (contains eqb ids j); cbn [negb orb].
      + destruct (skipped eqb c t j); [cbn; repeat split|].
        destruct (contains eqb fl j).
        * destruct (changed_uid eqb t ca j); [destruct c; cbn; repeat split|].
          destruct (reconciled_by_id eqb c t ca j); [cbn; repeat split|].
          destruct (failed_by_id ca j); cbn; repeat split.
        * destruct (changed_uid eqb t ca j).
          -- destruct (is_current c && negb (is_reconcile eqb t j RFailed)); [destruct c|]; cbn; repeat split.
          -- destruct (reconciled_by_id eqb c t ca j); [|cbn; repeat split].
             destruct (is_reconcile eqb t j RFailed); cbn; repeat split.
      + cbn. repeat split.
  Qed.

  Lemma same_act_next_table t j ow : same_act t (next_table t j ow).
  Proof. destruct ow; cbn; [apply same_act_set_rec|apply same_act_refl]. Qed.

  (* ---- one step never touches the actuation view, and only Update touches
     the cache -------------------------------------------------------------- *)
  Lemma step_same_act c ids s x : same_act (st_table s) (st_table (fst (step eqb c ids s x))).
  Proof.
    destruct x as [|j o| |]; cbn [step].
    - pose proof (start_shape c ids s) as H. destruct (start eqb c ids s) as [s' evs]. apply H.
    - pose proof (status_update_shape c ids (with_cache s (cache_put eqb (st_cache s) j o)) j) as H.
      destruct (su_outcome _ _ _ _) as [[dp df] ow].
      destruct (status_update _ _ _ _ _) as [s' evs]. destruct H as [_ [_ [H _]]]. cbn in *.
      rewrite H. apply same_act_next_table.
    - destruct (st_done s); cbn; [apply same_act_refl|apply same_act_fold_set_rec].
    - apply same_act_refl.
  Qed.

  (* ---- C06_success_sound: a property of one step from any state ---------- *)
  Lemma su_outcome_successful c ids s j :
    snd (su_outcome c ids s j) = Some WSuccessful -> cond_met c (st_table s) (st_cache s) j = true.
  Proof.
    unfold su_outcome, cond_met.
    destruct (contains eqb (st_pending s) j).
    - destruct (changed_uid eqb (st_table s) (st_cache s) j); [destruct c; cbn; [discriminate|reflexivity]|].
      destruct (reconciled_by_id eqb c (st_table s) (st_cache s) j); [destruct c; reflexivity|].
      destruct (failed_by_id (st_cache s) j); discriminate.
    - destruct (negb (contains eqb ids j)); [discriminate|].
      destruct (skipped eqb c (st_table s) j); [discriminate|].
      destruct (contains eqb (st_failed s) j).
      + destruct (changed_uid eqb (st_table s) (st_cache s) j); [destruct c; cbn; [discriminate|reflexivity]|].
        destruct (reconciled_by_id eqb c (st_table s) (st_cache s) j); [destruct c; reflexivity|].
        destruct (negb (failed_by_id (st_cache s) j)); discriminate.
      + destruct (changed_uid eqb (st_table s) (st_cache s) j).
        * destruct c; cbn; [destruct (negb _); discriminate|discriminate].
        * destruct (reconciled_by_id eqb c (st_table s) (st_cache s) j); cbn; [|discriminate].
          destruct c; reflexivity.
  Qed.

  Lemma step_success_met c ids s x i :
    In (i, WSuccessful) (snd (step eqb c ids s x)) ->
    cond_met c (st_table (fst (step eqb c ids s x))) (st_cache (fst (step eqb c ids s x))) i = true.
  Proof.
    pose proof (step_same_act c ids s x) as SA.
    destruct x as [|j o| |]; cbn [step] in *.
    - pose proof (start_shape c ids s) as H. destruct (start eqb c ids s) as [s' evs].
      destruct H as [_ [_ [_ [Hc [_ He]]]]]. cbn [fst snd] in *. subst evs. intros Hin.
      apply in_map_iff in Hin. destruct Hin as [i' [[= -> Hs] _]].
      rewrite (same_act_cond_met c _ _ _ i SA), Hc. apply start_status_successful. exact Hs.
    - set (s1 := with_cache s (cache_put eqb (st_cache s) j o)) in *.
      pose proof (status_update_shape c ids s1 j) as H.
      pose proof (su_outcome_successful c ids s1 j) as Hs.
      destruct (su_outcome c ids s1 j) as [[dp df] ow].
      destruct (status_update eqb c ids s1 j) as [s' evs].
      destruct H as [_ [_ [_ [Hc [He _]]]]]. cbn [fst snd] in *. subst evs. intros Hin.
      destruct ow as [w|]; cbn in Hin; [|contradiction]. destruct Hin as [[= -> ->]|[]].
      rewrite (same_act_cond_met c _ _ _ i SA), Hc. apply Hs. reflexivity.
    - destruct (st_done s); cbn; [intros []|]. intros Hin. apply in_map_iff in Hin.
      destruct Hin as [i' [[=] _]].
    - intros [].
  Qed.

  Lemma step_success_sound c ids s x i :
    In (i, WSuccessful) (snd (step eqb c ids s x)) ->
    cond_holds c (st_table (fst (step eqb c ids s x))) (st_cache (fst (step eqb c ids s x))) i.
  Proof. intros H. apply cond_holds_exact_holds, cond_met_spec, step_success_met. exact H. Qed.

  (* ---- C06_done: completion is signalled only when nothing is pending ---- *)
  Lemma step_done c ids s x :
    st_done s = false -> st_done (fst (step eqb c ids s x)) = true ->
    x <> Cancel -> x <> Timeout -> st_pending (fst (step eqb c ids s x)) = [].
  Proof.
    intros Hd Hd' Hc Ht. destruct x as [|j o| |]; cbn [step] in *; try congruence.
    - pose proof (start_shape c ids s) as H. destruct (start eqb c ids s) as [s' evs].
      destruct H as [_ [_ [_ [_ [H _]]]]]. cbn [fst] in *. apply nil_b_true. congruence.
    - set (s1 := with_cache s (cache_put eqb (st_cache s) j o)) in *.
      pose proof (status_update_shape c ids s1 j) as H.
      destruct (su_outcome c ids s1 j) as [[dp df] ow].
      destruct (status_update eqb c ids s1 j) as [s' evs].
      destruct H as [_ [_ [_ [_ [_ H]]]]]. cbn [fst] in *. subst s1. cbn [st_done with_cache] in H.
      rewrite Hd in H. destruct (su_returns_early _ _ _ _); [congruence|].
      cbn in H. apply nil_b_true. congruence.
  Qed.

  (* ---- C06_timeout_exact -------------------------------------------------- *)
  Lemma step_timeout c ids s :
    (st_done s = false ->
       snd (step eqb c ids s Timeout) = map (fun i => (i, WTimeout)) (st_pending s) /\
       st_pending (fst (step eqb c ids s Timeout)) = st_pending s /\
       st_done (fst (step eqb c ids s Timeout)) = true) /\
    (st_done s = true -> step eqb c ids s Timeout = (s, [])).
  Proof. cbn [step]. split; intros ->; cbn; repeat split. Qed.

  Lemma step_cancel c ids s : step eqb c ids s Cancel = (with_done s, []).
  Proof. reflexivity. Qed.
End WaitTaskProofs.
