(* C01 (no orphans), part 2: what each operation of the model does to the four
   components of the run state the property depends on (cluster, actuation
   table, abandoned set, trace), as relations between the state before and
   after.  Pure case analysis of Model/Pipeline.v; no invariants here. *)
From Coq Require Import List Bool Arith NArith ZArith Lia Permutation.
From CliUtils Require Import Model.ObjSet Model.ActuationTable Model.PipelineTypes Model.Pipeline
     Proofs.ObjSetProofs Proofs.ActuationTableProofs Proofs.PipelineBase Proofs.PipelineAuth
     Corr.CorrPipeline Proofs.PipelineOrphansBase.
Import ListNotations.

(* requests other than an accepted inventory-namespace create / inventory delete *)
Definition harmless (r : req) (ok : bool) : Prop :=
  match r with RInvDelete | RNsCreate _ => ok = false | _ => True end.
(* an item logged with the snapshot of cluster cl *)
Definition snap_of (cl : cluster) (it : item) : Prop :=
  exists r ok, it = IReq r ok (managed cl) (stored cl) /\ harmless r ok.
Definition noreq (it : item) : Prop := match it with IReq _ _ _ _ => False | _ => True end.

Definition ast_of (a : actuation) : ast :=
  match a with ASucceeded => AOk | ASkipped => ASkip | _ => AFail end.

(* ---- cluster changes ---------------------------------------------------------- *)
Definition frame (cl cl' : cluster) (i : id) : Prop :=
  inv cl' = inv cl /\ (forall j, j <> i -> fo cl' j = fo cl j) /\
  (NoDup (ids_of cl) -> NoDup (ids_of cl')) /\ (next_uid cl <= next_uid cl')%N.

(* object i was created or patched by an apply: live, owned, uid u *)
Definition applied (cl cl' : cluster) (i : id) (u : N) : Prop :=
  frame cl cl' i /\
  exists n, fo cl' i = Some n /\ c_owner n = OOurs /\ c_uid n = u /\
            ((exists c, fo cl i = Some c /\ c_uid c = u) \/ (fo cl i = None /\ (next_uid cl <= u)%N)).
(* the owning-inventory annotation of i was removed *)
Definition detached (cl cl' : cluster) (i : id) (u : N) : Prop :=
  frame cl cl' i /\ exists n, fo cl' i = Some n /\ c_owner n = ONone /\ c_uid n = u.
Definition deleted (cl cl' : cluster) (i : id) : Prop :=
  frame cl cl' i /\ fo cl' i = None.
(* only the stored inventory may differ *)
Definition invchg (cl cl' : cluster) : Prop := objs cl' = objs cl /\ next_uid cl' = next_uid cl.

Lemma frame_refl cl i : frame cl cl i.
Proof. repeat split; auto. apply N.le_refl. Qed.

Lemma frame_put cl n nu : (next_uid cl <= nu)%N ->
  frame cl (mkCl (put_obj (objs cl) n) (inv cl) nu) (c_id n).
Proof.
  intros Hu. split; [reflexivity|]. split; [|split; [|exact Hu]].
  - intros j Hj. unfold fo. cbn [objs]. rewrite find_obj_put.
    destruct (Nat.eqb (c_id n) j) eqn:E; [apply Nat.eqb_eq in E; congruence|reflexivity].
  - unfold ids_of. cbn [objs]. apply put_obj_NoDup.
Qed.

Lemma fo_put_same cl n nu : fo (mkCl (put_obj (objs cl) n) (inv cl) nu) (c_id n) = Some n.
Proof. unfold fo. cbn [objs]. rewrite find_obj_put, Nat.eqb_refl. reflexivity. Qed.

Lemma frame_del cl i : frame cl (mkCl (del_obj (objs cl) i) (inv cl) (next_uid cl)) i.
Proof.
  split; [reflexivity|]. split; [|split; [|apply N.le_refl]].
  - intros j Hj. unfold fo. cbn [objs]. rewrite find_obj_del.
    destruct (Nat.eqb i j) eqn:E; [apply Nat.eqb_eq in E; congruence|reflexivity].
  - unfold ids_of. cbn [objs]. apply del_obj_NoDup.
Qed.

Lemma merged_id c l : c_id (merged c l) = c_id c.
Proof. unfold merged. destruct (has_deps_annot _ _); [reflexivity|]. destruct (match c_last c with Some _ => _ | None => _ end); reflexivity. Qed.
Lemma merged_uid c l : c_uid (merged c l) = c_uid c.
Proof. unfold merged. destruct (has_deps_annot _ _); [reflexivity|]. destruct (match c_last c with Some _ => _ | None => _ end); reflexivity. Qed.
Lemma merged_owner c l : c_owner (merged c l) = OOurs.
Proof. unfold merged. destruct (has_deps_annot _ _); [reflexivity|]. destruct (match c_last c with Some _ => _ | None => _ end); reflexivity. Qed.

Lemma no_patch_owned c l : patch_needed c l = false -> c_owner c = OOurs.
Proof.
  unfold patch_needed. intros H. apply negb_false_iff in H. apply andb_true_iff in H. destruct H as [H _].
  unfold live_eqb in H. repeat (apply andb_true_iff in H; destruct H as [H _]).
  rewrite merged_owner in H. destruct (c_owner c); cbn in H; congruence.
Qed.

Section Spec.
  Variable sc : scenario.
  Notation dry := (is_dry (o_dry (sc_opts sc))).

  (* ---- operations that touch none of the four components --------------------- *)
  Definition same4 (s s' : rst) : Prop :=
    r_cl s' = r_cl s /\ r_tbl s' = r_tbl s /\ r_aband s' = r_aband s /\ r_tr s' = r_tr s.

  Lemma same4_refl s : same4 s s.
  Proof. repeat split. Qed.
  Lemma same4_trans a b c : same4 a b -> same4 b c -> same4 a c.
  Proof. unfold same4. intuition congruence. Qed.
  Lemma same4_inv_list s : same4 s (fst (inv_list sc s)).
  Proof. unfold inv_list. destruct (faulted sc _); repeat split. Qed.
  Lemma same4_get_obj s i : same4 s (fst (get_obj sc s i)).
  Proof.
    unfold get_obj. destruct (faulted sc _); [repeat split|]. destruct (find_obj _ _); repeat split.
  Qed.
  Lemma same4_maybe_cancel s i : same4 s (maybe_cancel sc s i).
  Proof.
    unfold maybe_cancel. destruct (e_cancel (sc_env sc)); try apply same4_refl.
    destruct (Nat.eqb i i0); [repeat split|apply same4_refl].
  Qed.
  Lemma same4_policy_apply_filter s i : same4 s (fst (policy_apply_filter sc s i)).
  Proof.
    unfold policy_apply_filter. destruct (o_policy (sc_opts sc)); cbn [fst]; try apply same4_refl.
    all: pose proof (same4_get_obj s i) as G; destruct (get_obj sc s i) as [s1 g]; cbn [fst] in G;
      destruct g; cbn [fst]; exact G.
  Qed.

  Lemma same4_mutate s l : same4 s (fst (mutate sc s l)).
  Proof.
    split; [apply mutate_cl|]. split; [apply mutate_tbl|]. split; [apply mutate_aband|apply mutate_tr].
  Qed.

  Lemma mc_cl s i : r_cl (maybe_cancel sc s i) = r_cl s.
  Proof. apply (same4_maybe_cancel s i). Qed.
  Lemma mc_tbl s i : r_tbl (maybe_cancel sc s i) = r_tbl s.
  Proof. apply (same4_maybe_cancel s i). Qed.
  Lemma mc_ab s i : r_aband (maybe_cancel sc s i) = r_aband s.
  Proof. apply (same4_maybe_cancel s i). Qed.
  Lemma mc_tr s i : r_tr (maybe_cancel sc s i) = r_tr s.
  Proof. apply (same4_maybe_cancel s i). Qed.

  Lemma inv_list_result s : snd (inv_list sc s) = None \/ snd (inv_list sc s) = Some (inv (r_cl s)).
  Proof. unfold inv_list. destruct (faulted sc _); cbn; auto. Qed.

  (* ---- the wait machine: reconcile fields, cache and events only --------------- *)
  Definition quiet (s s' : rst) : Prop :=
    r_cl s' = r_cl s /\ r_aband s' = r_aband s /\ tkeys (r_tbl s') = tkeys (r_tbl s) /\
    (forall j, tv s' j = tv s j) /\ exists l, r_tr s' = l ++ r_tr s /\ Forall noreq l.

  Lemma quiet_refl s : quiet s s.
  Proof. repeat split. exists []. split; [reflexivity|constructor]. Qed.
  Lemma quiet_trans a b c : quiet a b -> quiet b c -> quiet a c.
  Proof.
    intros [A1 [A2 [A3 [A4 [l1 [A5 A6]]]]]] [B1 [B2 [B3 [B4 [l2 [B5 B6]]]]]].
    split; [congruence|]. split; [congruence|]. split; [congruence|]. split; [intros j; rewrite B4; apply A4|].
    exists (l2 ++ l1). split; [rewrite B5, A5, app_assoc; reflexivity|apply Forall_app; split; assumption].
  Qed.
  Lemma quiet_same4 s s' : same4 s s' -> quiet s s'.
  Proof.
    intros [A [B [C D]]]. split; [exact A|]. split; [exact C|]. split; [rewrite B; reflexivity|].
    split; [intros j; unfold tv; rewrite B; reflexivity|]. exists []. split; [exact D|constructor].
  Qed.
  Lemma quiet_emit s it : noreq it -> quiet s (emit s it).
  Proof. intros H. repeat split. exists [it]. split; [reflexivity|]. constructor; [exact H|constructor]. Qed.
  Lemma quiet_ev s e : quiet s (ev s e).
  Proof. apply quiet_emit. exact I. Qed.
  Lemma quiet_rec_reconcile s i rc : quiet s (rec_reconcile s i rc).
  Proof.
    unfold rec_reconcile. destruct (set_reconcile Nat.eqb (r_tbl s) i rc) as [t|] eqn:E; [|apply quiet_refl].
    destruct (tvl_set_reconcile _ _ _ _ E) as [H1 H2].
    split; [reflexivity|]. split; [reflexivity|]. split; [exact H2|]. split; [exact H1|].
    exists []. split; [reflexivity|constructor].
  Qed.
  Lemma quiet_set_cache s c : quiet s (set_cache s c).
  Proof. apply quiet_same4. repeat split. Qed.
  Lemma quiet_set_abort s : quiet s (set_abort s).
  Proof. apply quiet_same4. repeat split. Qed.
  Lemma quiet_fold {A} (f : rst -> A -> rst) (l : list A) :
    (forall s a, In a l -> quiet s (f s a)) -> forall s, quiet s (fold_left f l s).
  Proof.
    induction l as [|a l IH]; intros H s; cbn; [apply quiet_refl|].
    eapply quiet_trans; [apply H; left; reflexivity|]. apply IH. intros; apply H; right; assumption.
  Qed.

  Ltac tr := eapply quiet_trans.

  Lemma q_handle_changed_uid c g s i : quiet s (handle_changed_uid c g s i).
  Proof. unfold handle_changed_uid. destruct c; (tr; [apply quiet_rec_reconcile|apply quiet_ev]). Qed.

  Lemma q_wait_start c g ids s : quiet s (fst (wait_start c g ids s)).
  Proof.
    unfold wait_start.
    set (stepf := fun (acc : rst * list id) (i : id) => _).
    assert (H : forall l acc, quiet (fst acc) (fst (fold_left stepf l acc))).
    { induction l as [|i l IH]; intros acc; cbn [fold_left]; [apply quiet_refl|].
      tr; [|apply IH]. destruct acc as [s0 pend]. unfold stepf. cbn [fst].
      destruct (w_skipped c s0 i); cbn [fst]; [tr; [apply quiet_rec_reconcile|apply quiet_ev]|].
      destruct (changed_uid s0 i); cbn [fst]; [apply q_handle_changed_uid|].
      destruct (cond_met c s0 i); cbn [fst]; (tr; [apply quiet_rec_reconcile|apply quiet_ev]). }
    specialize (H ids (s, [])). destruct (fold_left stepf ids (s, [])) as [s' pend]. exact H.
  Qed.

  Lemma q_wait_update c g ids s w i : quiet s (fst (wait_update c g ids s w i)).
  Proof.
    unfold wait_update.
    assert (H1 : forall r st, quiet s (ev (rec_reconcile s i r) (EWait g i st)))
      by (intros; tr; [apply quiet_rec_reconcile|apply quiet_ev]).
    pose proof (q_handle_changed_uid c g s i) as H2.
    pose proof (quiet_refl s) as H0.
    repeat match goal with
           | |- context [if ?b then _ else _] => destruct b
           | |- context [match ?c with AllCurrent => _ | AllNotFound => _ end] => destruct c
           end; cbn [fst]; first [exact H0 | exact H2 | apply H1].
  Qed.

  Lemma q_wait_timeout g s w : quiet s (wait_timeout g s w).
  Proof.
    unfold wait_timeout. apply quiet_fold. intros s0 i _. tr; [apply quiet_rec_reconcile|apply quiet_ev].
  Qed.

  Lemma q_deliver c g ids ds : forall s w, quiet s (fst (deliver sc c g ids ds s w)).
  Proof.
    induction ds as [|d t IH]; intros s w; cbn [deliver]; [apply quiet_refl|].
    destruct (w_pending w); [apply quiet_refl|].
    set (s2 := if o_status_events (sc_opts sc) then ev (emit s (IDeliv d)) (EStatus (s_id d) (s_st d)) else emit s (IDeliv d)).
    set (s3 := set_cache s2 (d :: r_cache s2)).
    assert (S3 : quiet s s3).
    { unfold s3, s2. tr; [|apply quiet_set_cache]. destruct (o_status_events (sc_opts sc)).
      - tr; [apply (quiet_emit s (IDeliv d) I)|apply quiet_ev].
      - apply (quiet_emit s (IDeliv d) I). }
    destruct (memn (s_id d) ids).
    - pose proof (q_wait_update c g ids s3 w (s_id d)) as U.
      destruct (wait_update c g ids s3 w (s_id d)) as [s4 w4]. cbn [fst] in U.
      tr; [exact S3|]. tr; [exact U|apply IH].
    - tr; [exact S3|apply IH].
  Qed.

  Lemma same4_wait_reset c ids s : same4 s (wait_reset sc c ids s).
  Proof.
    split; [apply wait_reset_cl|]. split; [apply wait_reset_tbl|]. split; [apply wait_reset_aband|apply wait_reset_tr].
  Qed.
  Lemma q_wait_reset c ids s : quiet s (wait_reset sc c ids s).
  Proof. apply quiet_same4, same4_wait_reset. Qed.

  Lemma q_wait_task c g ids s : quiet s (wait_task sc c g ids s).
  Proof.
    unfold wait_task. cbv zeta.
    pose proof (q_wait_start c g ids s) as S1.
    destruct (wait_start c g ids s) as [s1 w1]. cbn [fst] in S1.
    destruct (w_pending w1); [tr; [exact S1|apply q_wait_reset]|].
    destruct (match e_watch_err_at (sc_env sc) with Some n => Nat.eqb n (snd g) | None => false end);
      [tr; [exact S1|apply quiet_set_abort]|].
    pose proof (q_deliver c g ids (w_deliv (nth (snd g) (e_waits (sc_env sc)) (mkW [] WTimeout))) s1 w1) as S2.
    destruct (deliver sc c g ids _ s1 w1) as [s2 w2]. cbn [fst] in S2.
    tr; [exact S1|]. tr; [exact S2|].
    destruct (w_pending w2); [apply q_wait_reset|].
    destruct (w_end _).
    - destruct (match c with AllCurrent => _ | AllNotFound => _ end); [tr; [apply q_wait_timeout|apply q_wait_reset]|apply quiet_set_abort].
    - apply quiet_set_abort.
  Qed.

  (* ---- kubectl apply of one manifest -------------------------------------------- *)
  Lemma applied_put cl n nu i u : c_id n = i -> c_owner n = OOurs -> c_uid n = u -> (next_uid cl <= nu)%N ->
    ((exists c, fo cl i = Some c /\ c_uid c = u) \/ (fo cl i = None /\ (next_uid cl <= u)%N)) ->
    applied cl (mkCl (put_obj (objs cl) n) (inv cl) nu) i u.
  Proof.
    intros <- Ho Hu Hn Hd. split; [apply frame_put; exact Hn|].
    exists n. split; [apply fo_put_same|]. auto.
  Qed.

  Lemma get_obj_notfound s i : snd (get_obj sc s i) = GNotFound -> fo (r_cl s) i = None.
  Proof.
    unfold get_obj, fo. destruct (faulted sc _); cbn; [discriminate|].
    destruct (find_obj (objs (r_cl s)) i); cbn; congruence.
  Qed.

  Ltac leaf := cbn [fst snd log_req emit ev rec_add set_tbl set_cl add_aband r_cl r_tbl r_aband r_tr];
               rewrite ?mc_cl, ?mc_tbl, ?mc_ab, ?mc_tr.
  Ltac snap1 := constructor; [eexists _, _; split; [reflexivity|exact I]|constructor].

  (* a request item logged with the snapshot of the cluster before or after the operation
     (APIService fallback: the rejected apply PATCH is logged before the second attempt changes
     the cluster) *)
  Definition snap2 (cl cl' : cluster) (it : item) : Prop := snap_of cl it \/ snap_of cl' it.

  Lemma snap2_same cl it : snap2 cl cl it -> snap_of cl it.
  Proof. intros [H|H]; exact H. Qed.
  Lemma Forall_snap2_r cl cl' lt : Forall (snap_of cl') lt -> Forall (snap2 cl cl') lt.
  Proof. intros F. eapply Forall_impl; [|exact F]. intros it H. right. exact H. Qed.
  Lemma Forall_snap2_l cl cl' lt : Forall (snap_of cl) lt -> Forall (snap2 cl cl') lt.
  Proof. intros F. eapply Forall_impl; [|exact F]. intros it H. left. exact H. Qed.
  Lemma Forall_snap2_same cl lt : Forall (snap2 cl cl) lt -> Forall (snap_of cl) lt.
  Proof. intros F. eapply Forall_impl; [|exact F]. apply snap2_same. Qed.
  (* what holds of every snapshot item whatever the cluster *)
  Lemma Forall_snap2_shape (P : item -> Prop) cl cl' lt :
    (forall c it, snap_of c it -> P it) -> Forall (snap2 cl cl') lt -> Forall P lt.
  Proof. intros H F. eapply Forall_impl; [|exact F]. intros it [X|X]; eapply H; exact X. Qed.

  (* one attempt (a server-side PATCH or a client-side apply): every logged request carries the
     snapshot of the cluster after it *)
  Definition ka_spec (l : lobj) (s s2 : rst) (r : option N) : Prop :=
    r_tbl s2 = r_tbl s /\ r_aband s2 = r_aband s /\
    exists lt, r_tr s2 = lt ++ r_tr s /\ Forall (snap_of (r_cl s2)) lt /\
    match r with
    | None => r_cl s2 = r_cl s
    | Some u => (dry = true /\ r_cl s2 = r_cl s) \/ (dry = false /\ applied (r_cl s) (r_cl s2) (l_id l) u)
    end.

  Lemma ssa_patch_spec s l n : ssa_mode sc = true ->
    ka_spec l s (fst (ssa_patch sc s l n)) (ssa_result (snd (ssa_patch sc s l n))).
  Proof.
    unfold ka_spec, ssa_patch, ssa_mode. cbv zeta.
    destruct (o_dry (sc_opts sc)) eqn:ED; cbn [is_dry]; intros M.
    - (* no dry-run *)
      destruct (faulted sc (FStream (l_id l) n)); leaf.
      { split; [reflexivity|]. split; [reflexivity|]. eexists [_]. split; [reflexivity|]. split; [snap1|reflexivity]. }
      destruct (faulted sc (FApply (l_id l))); leaf.
      * split; [reflexivity|]. split; [reflexivity|]. eexists [_]. split; [reflexivity|]. split; [snap1|reflexivity].
      * destruct (find_obj (objs (r_cl s)) (l_id l)) as [c|] eqn:EF; leaf.
        -- split; [reflexivity|]. split; [reflexivity|]. eexists [_]. split; [reflexivity|]. split; [snap1|].
           right. split; [reflexivity|]. apply applied_put; try reflexivity.
           left. exists c. split; [exact EF|reflexivity].
        -- split; [reflexivity|]. split; [reflexivity|]. eexists [_]. split; [reflexivity|]. split; [snap1|].
           right. split; [reflexivity|]. apply applied_put; try reflexivity; try apply N.le_succ_diag_r.
           right. split; [exact EF|apply N.le_refl].
    - discriminate M.
    - (* server dry-run *)
      destruct (faulted sc (FStream (l_id l) n)); leaf.
      { split; [reflexivity|]. split; [reflexivity|]. eexists [_]. split; [reflexivity|]. split; [snap1|reflexivity]. }
      destruct (faulted sc (FApply (l_id l))); leaf.
      + split; [reflexivity|]. split; [reflexivity|]. eexists [_]. split; [reflexivity|]. split; [snap1|reflexivity].
      + destruct (find_obj (objs (r_cl s)) (l_id l)) as [c|] eqn:EF; leaf;
          (split; [reflexivity|]; split; [reflexivity|]; eexists [_]; split; [reflexivity|]; split; [snap1|]; left; split; reflexivity).
  Qed.

  Lemma csa_apply_spec s l : ka_spec l s (fst (csa_apply sc s l)) (snd (csa_apply sc s l)).
  Proof.
    unfold ka_spec, csa_apply. cbv zeta.
    pose proof (same4_get_obj s (l_id l)) as G. pose proof (get_obj_found sc s (l_id l)) as GF.
    pose proof (get_obj_notfound s (l_id l)) as GN.
    destruct (get_obj sc s (l_id l)) as [s1 g]. cbn [fst snd] in G, GF, GN. destruct G as [G1 [G2 [G3 G4]]].
    destruct (is_dry (o_dry (sc_opts sc))) eqn:ED.
    - (* dry-run: nothing is sent after the read *)
      destruct g as [| |c]; leaf; rewrite ?G1, ?G2, ?G3, ?G4.
      + split; [reflexivity|]. split; [reflexivity|]. exists []. split; [reflexivity|]. split; [constructor|reflexivity].
      + split; [reflexivity|]. split; [reflexivity|]. exists []. split; [reflexivity|]. split; [constructor|]. left. split; reflexivity.
      + destruct (negb (patch_needed c l)); leaf; rewrite ?G1, ?G2, ?G3, ?G4;
          (split; [reflexivity|]; split; [reflexivity|]; exists []; split; [reflexivity|]; split; [constructor|]; left; split; reflexivity).
    - destruct g as [| |c]; leaf.
      * rewrite G1, G2, G3, G4. split; [reflexivity|]. split; [reflexivity|]. exists []. split; [reflexivity|]. split; [constructor|reflexivity].
      * destruct (faulted sc (FApply (l_id l))); leaf; rewrite ?G1, ?G2, ?G3, ?G4.
        -- split; [reflexivity|]. split; [reflexivity|]. eexists [_]. split; [reflexivity|]. split; [snap1|reflexivity].
        -- split; [reflexivity|]. split; [reflexivity|]. eexists [_]. split; [reflexivity|]. split; [snap1|].
           right. split; [reflexivity|]. apply applied_put; try reflexivity; try apply N.le_succ_diag_r.
           right. split; [apply GN; reflexivity|apply N.le_refl].
      * pose proof (GF c eq_refl) as EF. pose proof (find_obj_id _ _ _ EF) as EI.
        destruct (patch_needed c l) eqn:PN; cbn [negb]; leaf.
        -- destruct (faulted sc (FApply (l_id l))); leaf; rewrite ?G1, ?G2, ?G3, ?G4.
           ++ split; [reflexivity|]. split; [reflexivity|]. eexists [_]. split; [reflexivity|]. split; [snap1|reflexivity].
           ++ split; [reflexivity|]. split; [reflexivity|]. eexists [_]. split; [reflexivity|]. split; [snap1|].
              right. split; [reflexivity|]. apply applied_put.
              ** rewrite merged_id. exact EI.
              ** apply merged_owner.
              ** apply merged_uid.
              ** apply N.le_refl.
              ** left. exists c. split; [exact EF|reflexivity].
        -- rewrite G1, G2, G3, G4. split; [reflexivity|]. split; [reflexivity|]. exists []. split; [reflexivity|]. split; [constructor|].
           right. split; [reflexivity|]. split; [apply frame_refl|].
           exists c. split; [exact EF|]. split; [eapply no_patch_owned; exact PN|]. split; [reflexivity|].
           left. exists c. split; [exact EF|reflexivity].
  Qed.

  (* the whole apply: the same, with snapshots of the cluster before or after it *)
  Definition ka_spec2 (l : lobj) (s s2 : rst) (r : option N) : Prop :=
    r_tbl s2 = r_tbl s /\ r_aband s2 = r_aband s /\
    exists lt, r_tr s2 = lt ++ r_tr s /\ Forall (snap2 (r_cl s) (r_cl s2)) lt /\
    match r with
    | None => r_cl s2 = r_cl s
    | Some u => (dry = true /\ r_cl s2 = r_cl s) \/ (dry = false /\ applied (r_cl s) (r_cl s2) (l_id l) u)
    end.

  Lemma ka_spec_weaken l s s2 r : ka_spec l s s2 r -> ka_spec2 l s s2 r.
  Proof.
    intros [A [B [lt [C [D E]]]]]. split; [exact A|]. split; [exact B|]. exists lt.
    split; [exact C|]. split; [apply Forall_snap2_r; exact D|exact E].
  Qed.

  Lemma ka_spec_after_reject l s s1 s2 r : ka_spec l s s1 None -> ka_spec l s1 s2 r -> ka_spec2 l s s2 r.
  Proof.
    intros [A1 [B1 [lt1 [C1 [D1 E1]]]]] [A2 [B2 [lt2 [C2 [D2 E2]]]]].
    split; [congruence|]. split; [congruence|]. exists (lt2 ++ lt1).
    split; [rewrite C2, C1, app_assoc; reflexivity|]. split.
    - apply Forall_app. split; [apply Forall_snap2_r; exact D2|apply Forall_snap2_l; rewrite <- E1; exact D1].
    - rewrite <- E1. exact E2.
  Qed.

  Lemma kubectl_apply_spec s l :
    ka_spec2 l s (fst (kubectl_apply sc s l)) (snd (kubectl_apply sc s l)).
  Proof.
    destruct (kubectl_apply_cases sc l s) as [[_ ->]|[[M [-> _]]|[M [E [_ [_ ->]]]]]].
    - apply ka_spec_weaken, csa_apply_spec.
    - cbn [fst snd]. apply ka_spec_weaken, ssa_patch_spec, M.
    - pose proof (ssa_patch_spec s l 0 M) as S1. rewrite E in S1. cbn [ssa_result] in S1.
      destruct (apisvc_fallback_cases sc l (fst (ssa_patch sc s l 0))) as [[_ ->]|[_ ->]].
      + cbn [fst snd]. eapply ka_spec_after_reject; [exact S1|apply ssa_patch_spec, M].
      + eapply ka_spec_after_reject; [exact S1|apply csa_apply_spec].
  Qed.

  (* ---- one object of an apply task ------------------------------------------------ *)
  Lemma apply_one_spec pl g s p l : p_local p = Some l -> l_id l = p_id p ->
    let i := p_id p in
    let s' := apply_one sc pl g s p in
    r_aband s' = r_aband s /\
    exists a u gen lt,
      r_tbl s' = set_status Nat.eqb (r_tbl s) (mkRec i SApply a RPending u gen) /\
      r_tr s' = IEv (EApply g i (ast_of a)) :: lt ++ r_tr s /\
      Forall (snap2 (r_cl s) (r_cl s')) lt /\
      ( (a = AFailed \/ a = ASkipped) /\ r_cl s' = r_cl s
        \/ a = ASucceeded /\ dry = true /\ r_cl s' = r_cl s
        \/ a = ASucceeded /\ dry = false /\ applied (r_cl s) (r_cl s') i u ).
  Proof.
    intros EL EI. cbv zeta. unfold apply_one. rewrite EL.
    destruct (negb (kind_known sc (r_known s) (p_id p))).
    { (* no REST mapping: ApplyFailed, nothing sent *)
      leaf. split; [reflexivity|]. exists AFailed, 0%N, 0%Z, [].
      split; [reflexivity|]. split; [reflexivity|]. split; [constructor|]. left. split; [left; reflexivity|reflexivity]. }
    pose proof (same4_policy_apply_filter s (p_id p)) as P.
    destruct (policy_apply_filter sc s (p_id p)) as [s1 f1]. cbn [fst] in P. destruct P as [P1 [P2 [P3 P4]]].
    destruct (match f1 with FPass => _ | _ => _ end).
    - (* passes the filters; the source lookups of the mutator touch none of the four components *)
      pose proof (same4_mutate s1 l) as M.
      destruct (mutate sc s1 l) as [sm okm]. cbn [fst] in M. destruct M as [M1 [M2 [M3 M4]]].
      destruct okm; cbn [negb].
      2:{ leaf. split; [congruence|]. exists AFailed, 0%N, 0%Z, []. rewrite M1, M2, M4, P1, P2, P4.
          split; [reflexivity|]. split; [reflexivity|]. split; [constructor|]. left. split; [left; reflexivity|reflexivity]. }
      pose proof (kubectl_apply_spec sm l) as K. unfold ka_spec2 in K.
      destruct (kubectl_apply sc sm l) as [s2 r]. cbn [fst snd] in K.
      destruct K as [K1 [K2 [lt [K3 [K4 K5]]]]]. rewrite M1, P1 in K4.
      destruct r as [u|]; leaf.
      + split; [congruence|]. exists ASucceeded, u, harness_gen, lt.
        split; [rewrite K1, M2, P2; reflexivity|]. split; [rewrite K3, M4, P4; reflexivity|]. split; [exact K4|].
        rewrite <- EI, <- P1, <- M1. destruct K5 as [[D C]|[D C]]; [right; left|right; right]; auto.
      + split; [congruence|]. exists AFailed, 0%N, 0%Z, lt.
        split; [rewrite K1, M2, P2; reflexivity|]. split; [rewrite K3, M4, P4; reflexivity|]. split; [exact K4|].
        left. split; [left; reflexivity|congruence].
    - leaf. split; [exact P3|]. exists ASkipped, 0%N, 0%Z, []. rewrite P1, P2, P4.
      split; [reflexivity|]. split; [reflexivity|]. split; [constructor|]. left. split; [right; reflexivity|reflexivity].
    - leaf. split; [exact P3|]. exists AFailed, 0%N, 0%Z, []. rewrite P1, P2, P4.
      split; [reflexivity|]. split; [reflexivity|]. split; [constructor|]. left. split; [left; reflexivity|reflexivity].
  Qed.

  (* ---- one object of a prune task -------------------------------------------------- *)
  Lemma prune_filters_alias pl locals tbl uids c :
    prune_filters sc pl locals tbl uids c = PSkipAlias -> In (c_uid c) uids.
  Proof.
    unfold prune_filters. destruct (c_keep c); [discriminate|].
    destruct (negb (can_prune sc (c_owner c))); [discriminate|].
    destruct (negb (o_destroy (sc_opts sc)) && _); [discriminate|].
    destruct (dep_filter _ _ _ _ _); try discriminate.
    destruct (existsb (N.eqb (c_uid c)) uids) eqn:EX; [|discriminate]. intros _.
    apply existsb_exists in EX. destruct EX as [u [Hu E]]. apply N.eqb_eq in E. subst u. exact Hu.
  Qed.

  Lemma prune_one_spec pl locals g uids s c :
    let i := c_id c in
    let s' := prune_one sc pl locals g uids s (pobj_of_live c) in
    exists a u (ab : bool) lt,
      r_tbl s' = set_status Nat.eqb (r_tbl s) (mkRec i SDelete a RPending u 0%Z) /\
      r_aband s' = (if ab then i :: r_aband s else r_aband s) /\
      r_tr s' = IEv (EPrune g i (ast_of a)) :: lt ++ r_tr s /\
      Forall (snap_of (r_cl s')) lt /\
      (dry = true -> r_cl s' = r_cl s) /\
      ( (a = AFailed \/ a = ASkipped) /\ ab = false /\ r_cl s' = r_cl s
        \/ a = ASkipped /\ ab = true /\ r_cl s' = r_cl s /\ (In (c_uid c) uids \/ c_owner c = ONone)
        \/ a = ASkipped /\ ab = true /\ detached (r_cl s) (r_cl s') i (c_uid c)
        \/ a = ASucceeded /\ ab = false /\ r_cl s' = r_cl s /\ (dry = true \/ fo (r_cl s) i = None)
        \/ a = ASucceeded /\ ab = false /\ deleted (r_cl s) (r_cl s') i
        (* accepted, but a finalizer holds the object: nothing changes in the cluster *)
        \/ a = ASucceeded /\ ab = false /\ r_cl s' = r_cl s /\ dry = false /\ u = c_uid c /\
           u_fin (uinfo_of sc i) = true /\ fo (r_cl s) i <> None ).
  Proof.
    cbv zeta. unfold prune_one. cbn [p_live pobj_of_live].
    destruct (prune_filters sc pl locals (r_tbl s) uids c) eqn:PF.
    - (* delete *)
      destruct (is_dry (o_dry (sc_opts sc))) eqn:ED; leaf.
      { exists ASucceeded, (c_uid c), false, []. repeat (split; [reflexivity|]). split; [constructor|]. split; [reflexivity|].
        right; right; right; left. repeat (split; [reflexivity|]). left. reflexivity. }
      destruct (faulted sc (FDelete (c_id c))); leaf.
      { exists AFailed, 0%N, false. eexists [_]. repeat (split; [reflexivity|]). split; [snap1|]. split; [discriminate|].
        left. split; [left; reflexivity|]. split; reflexivity. }
      destruct (find_obj (objs (r_cl s)) (c_id c)) as [live|] eqn:EF; leaf.
      + destruct (N.eqb (c_uid live) (c_uid c)); leaf.
        * destruct (u_fin (uinfo_of sc (c_id c))) eqn:EU; leaf.
          -- exists ASucceeded, (c_uid c), false. eexists [_]. repeat (split; [reflexivity|]). split; [snap1|]. split; [discriminate|].
             right; right; right; right; right. repeat (split; [reflexivity|]). unfold fo. rewrite EF. discriminate.
          -- exists ASucceeded, (c_uid c), false. eexists [_]. repeat (split; [reflexivity|]). split; [snap1|]. split; [discriminate|].
             right; right; right; right; left. repeat (split; [reflexivity|]). split; [apply frame_del|].
             unfold fo. cbn [objs]. rewrite find_obj_del, Nat.eqb_refl. reflexivity.
        * exists AFailed, 0%N, false. eexists [_]. repeat (split; [reflexivity|]). split; [snap1|]. split; [discriminate|].
          left. split; [left; reflexivity|]. split; reflexivity.
      + exists ASucceeded, (c_uid c), false. eexists [_]. repeat (split; [reflexivity|]). split; [snap1|]. split; [discriminate|].
        right; right; right; left. repeat (split; [reflexivity|]). right. exact EF.
    - (* deletion prevented: detach *)
      destruct (is_dry (o_dry (sc_opts sc))) eqn:ED; leaf.
      { exists ASkipped, 0%N, false, []. repeat (split; [reflexivity|]). split; [constructor|]. split; [reflexivity|].
        left. split; [right; reflexivity|]. split; reflexivity. }
      destruct (c_owner c) eqn:EO.
      + leaf. exists ASkipped, 0%N, true, []. repeat (split; [reflexivity|]). split; [constructor|]. split; [discriminate|].
        right; left. repeat (split; [reflexivity|]). right. reflexivity.
      + destruct (faulted sc (FUpdate (c_id c))); leaf.
        { exists AFailed, 0%N, false. eexists [_]. repeat (split; [reflexivity|]). split; [snap1|]. split; [discriminate|].
          left. split; [left; reflexivity|]. split; reflexivity. }
        destruct (find_obj (objs (r_cl s)) (c_id c)) eqn:EF; leaf.
        * exists ASkipped, 0%N, true. eexists [_]. repeat (split; [reflexivity|]). split; [snap1|]. split; [discriminate|].
          right; right; left. repeat (split; [reflexivity|]).
          split; [exact (frame_put (r_cl s) (mkC (c_id c) (c_uid c) ONone (c_keep c) (c_deps c) (c_baddep c) (c_ver c) (c_last c)) _ (N.le_refl _))|].
          eexists. split; [apply (fo_put_same (r_cl s) (mkC (c_id c) (c_uid c) ONone (c_keep c) (c_deps c) (c_baddep c) (c_ver c) (c_last c)))|].
          split; reflexivity.
        * exists AFailed, 0%N, false. eexists [_]. repeat (split; [reflexivity|]). split; [snap1|]. split; [discriminate|].
          left. split; [left; reflexivity|]. split; reflexivity.
      + destruct (faulted sc (FUpdate (c_id c))); leaf.
        { exists AFailed, 0%N, false. eexists [_]. repeat (split; [reflexivity|]). split; [snap1|]. split; [discriminate|].
          left. split; [left; reflexivity|]. split; reflexivity. }
        destruct (find_obj (objs (r_cl s)) (c_id c)) eqn:EF; leaf.
        * exists ASkipped, 0%N, true. eexists [_]. repeat (split; [reflexivity|]). split; [snap1|]. split; [discriminate|].
          right; right; left. repeat (split; [reflexivity|]).
          split; [exact (frame_put (r_cl s) (mkC (c_id c) (c_uid c) ONone (c_keep c) (c_deps c) (c_baddep c) (c_ver c) (c_last c)) _ (N.le_refl _))|].
          eexists. split; [apply (fo_put_same (r_cl s) (mkC (c_id c) (c_uid c) ONone (c_keep c) (c_deps c) (c_baddep c) (c_ver c) (c_last c)))|].
          split; reflexivity.
        * exists AFailed, 0%N, false. eexists [_]. repeat (split; [reflexivity|]). split; [snap1|]. split; [discriminate|].
          left. split; [left; reflexivity|]. split; reflexivity.
    - (* same object as one just applied *)
      pose proof (prune_filters_alias _ _ _ _ _ PF) as AL.
      destruct (is_dry (o_dry (sc_opts sc))) eqn:ED; leaf.
      + exists ASkipped, 0%N, false, []. repeat (split; [reflexivity|]). split; [constructor|]. split; [reflexivity|].
        left. split; [right; reflexivity|]. split; reflexivity.
      + exists ASkipped, 0%N, true, []. repeat (split; [reflexivity|]). split; [constructor|]. split; [discriminate|].
        right; left. repeat (split; [reflexivity|]). left. exact AL.
    - leaf. exists ASkipped, 0%N, false, []. repeat (split; [reflexivity|]). split; [constructor|]. split; [reflexivity|].
      left. split; [right; reflexivity|]. split; reflexivity.
    - leaf. exists AFailed, 0%N, false, []. repeat (split; [reflexivity|]). split; [constructor|]. split; [reflexivity|].
      left. split; [left; reflexivity|]. split; reflexivity.
  Qed.

  (* ---- inventory writes --------------------------------------------------------------- *)
  Lemma invchg_refl cl : invchg cl cl.
  Proof. split; reflexivity. Qed.
  Lemma invchg_trans a b c : invchg a b -> invchg b c -> invchg a c.
  Proof. unfold invchg. intuition congruence. Qed.

  Ltac snapw := constructor; [eexists _, _; split; [reflexivity|]; try exact I|constructor].

  Lemma inv_apply_spec s ids :
    let s' := fst (inv_apply sc s ids) in
    let ok := snd (inv_apply sc s ids) in
    r_tbl s' = r_tbl s /\ r_aband s' = r_aband s /\ invchg (r_cl s) (r_cl s') /\
    exists lt, r_tr s' = lt ++ r_tr s /\ Forall (snap_of (r_cl s')) lt /\
    (ok = false -> r_cl s' = r_cl s) /\ (ok = true -> inv (r_cl s') = Some (sortn ids)).
  Proof.
    cbv zeta. unfold inv_apply. cbv zeta.
    destruct (faulted sc (FInvGet _)); leaf.
    { split; [reflexivity|]. split; [reflexivity|]. split; [split; reflexivity|]. exists []. split; [reflexivity|]. split; [constructor|]. split; [reflexivity|discriminate]. }
    destruct (faulted sc (FInvWrite _)); leaf.
    - split; [reflexivity|]. split; [reflexivity|]. split; [split; reflexivity|]. eexists [_]. split; [reflexivity|]. split; [snapw; destruct (inv (r_cl s)); exact I|].
      split; [reflexivity|discriminate].
    - split; [reflexivity|]. split; [reflexivity|]. split; [split; reflexivity|]. eexists [_]. split; [reflexivity|]. split; [snapw; destruct (inv (r_cl s)); exact I|].
      split; [discriminate|reflexivity].
  Qed.

  Lemma inv_update_spec s ids :
    let s' := fst (inv_update sc s ids) in
    r_tbl s' = r_tbl s /\ r_aband s' = r_aband s /\ invchg (r_cl s) (r_cl s') /\
    exists lt, r_tr s' = lt ++ r_tr s /\ Forall (snap_of (r_cl s')) lt /\
    (r_cl s' = r_cl s \/ inv (r_cl s') = Some (sortn ids)).
  Proof.
    cbv zeta. unfold inv_update. cbv zeta.
    destruct (faulted sc (FInvWrite _)); leaf.
    { split; [reflexivity|]. split; [reflexivity|]. split; [split; reflexivity|]. eexists [_]. split; [reflexivity|]. split; [snapw|]. left. reflexivity. }
    destruct (inv (r_cl s)); leaf.
    - split; [reflexivity|]. split; [reflexivity|]. split; [split; reflexivity|]. eexists [_]. split; [reflexivity|]. split; [snapw|]. right. reflexivity.
    - split; [reflexivity|]. split; [reflexivity|]. split; [split; reflexivity|]. eexists [_]. split; [reflexivity|]. split; [snapw|]. left. reflexivity.
  Qed.

  Lemma set_eqn_sub a b : set_eqn a b = true -> forall j, In j a -> In j b.
  Proof.
    unfold set_eqn. intros H j Hj. apply (proj1 (equal_spec nat Nat.eqb nat_eqb_spec a b) H). exact Hj.
  Qed.

  Definition merged_ok (cl cl' : cluster) (ids : list id) : Prop :=
    (dry = true /\ cl' = cl) \/
    exists L, inv cl' = Some L /\ (forall j, In j ids -> In j L) /\
              (forall cur, inv cl = Some cur -> forall j, In j cur -> In j L).

  Lemma merge_spec s ids :
    let s' := fst (merge sc s ids) in
    let ok := snd (merge sc s ids) in
    r_tbl s' = r_tbl s /\ r_aband s' = r_aband s /\ invchg (r_cl s) (r_cl s') /\
    exists lt, r_tr s' = lt ++ r_tr s /\ Forall (snap_of (r_cl s')) lt /\
    (ok = false -> r_cl s' = r_cl s) /\ (ok = true -> merged_ok (r_cl s) (r_cl s') ids) /\
    (dry = true -> r_cl s' = r_cl s).
  Proof.
    cbv zeta. unfold merge. cbv zeta.
    pose proof (same4_inv_list s) as L1. pose proof (inv_list_result s) as R1.
    destruct (inv_list sc s) as [s1 r1]. cbn [fst snd] in L1, R1. destruct L1 as [A1 [A2 [A3 A4]]].
    assert (NOOP : forall (sx : rst) (b : bool), r_cl sx = r_cl s -> r_tbl sx = r_tbl s -> r_aband sx = r_aband s -> r_tr sx = r_tr s ->
              (b = true -> merged_ok (r_cl s) (r_cl sx) ids) ->
              r_tbl sx = r_tbl s /\ r_aband sx = r_aband s /\ invchg (r_cl s) (r_cl sx) /\
              exists lt, r_tr sx = lt ++ r_tr s /\ Forall (snap_of (r_cl sx)) lt /\
              (b = false -> r_cl sx = r_cl s) /\ (b = true -> merged_ok (r_cl s) (r_cl sx) ids) /\
              (dry = true -> r_cl sx = r_cl s)).
    { intros sx b B1 B2 B3 B4 B5. split; [exact B2|]. split; [exact B3|]. split; [rewrite B1; apply invchg_refl|].
      exists []. split; [exact B4|]. split; [constructor|]. split; [intros _; exact B1|]. split; [exact B5|intros _; exact B1]. }
    assert (WRITE : forall (sx : rst) ids', dry = false -> r_cl sx = r_cl s -> r_tbl sx = r_tbl s -> r_aband sx = r_aband s -> r_tr sx = r_tr s ->
              (forall j, In j ids -> In j ids') -> (forall cur, inv (r_cl s) = Some cur -> forall j, In j cur -> In j ids') ->
              let s' := fst (inv_apply sc sx ids') in let ok := snd (inv_apply sc sx ids') in
              r_tbl s' = r_tbl s /\ r_aband s' = r_aband s /\ invchg (r_cl s) (r_cl s') /\
              exists lt, r_tr s' = lt ++ r_tr s /\ Forall (snap_of (r_cl s')) lt /\
              (ok = false -> r_cl s' = r_cl s) /\ (ok = true -> merged_ok (r_cl s) (r_cl s') ids) /\
              (dry = true -> r_cl s' = r_cl s)).
    { intros sx ids' DF B1 B2 B3 B4 B5 B6. cbv zeta.
      destruct (inv_apply_spec sx ids') as [C1 [C2 [C3 [lt [C4 [C5 [C6 C7]]]]]]]. cbv zeta in *.
      split; [congruence|]. split; [congruence|]. split; [rewrite <- B1; exact C3|].
      exists lt. split; [rewrite C4, B4; reflexivity|]. split; [exact C5|].
      split; [intros E; rewrite (C6 E); exact B1|]. split; [|intros X; congruence].
      intros E. right. exists (sortn ids'). split; [exact (C7 E)|].
      split; [intros j Hj; apply sortn_In; auto|intros cur Hc j Hj; apply sortn_In; eauto]. }
    destruct r1 as [[x|]|].
    - (* an inventory exists: read again, union *)
      pose proof (same4_inv_list s1) as L2. pose proof (inv_list_result s1) as R2.
      destruct (inv_list sc s1) as [s2 r2]. cbn [fst snd] in L2, R2. destruct L2 as [B1 [B2 [B3 B4]]].
      assert (D1 : r_cl s2 = r_cl s) by congruence. assert (D2 : r_tbl s2 = r_tbl s) by congruence.
      assert (D3 : r_aband s2 = r_aband s) by congruence. assert (D4 : r_tr s2 = r_tr s) by congruence.
      assert (EX : inv (r_cl s) = Some x) by (destruct R1 as [R1|R1]; [discriminate|]; congruence).
      destruct r2 as [cur0|]; cbn [fst snd].
      2:{ apply NOOP; auto. discriminate. }
      assert (EC : cur0 = Some x) by (destruct R2 as [R2|R2]; [discriminate|]; injection R2 as ->; rewrite A1; exact EX).
      subst cur0.
      destruct (set_eqn ids x && negb (o_status_policy_all (sc_opts sc))) eqn:EQ; cbn [fst snd].
      { apply NOOP; auto. intros _. right. exists x. split; [rewrite D1; exact EX|].
        apply andb_true_iff in EQ. destruct EQ as [EQ _].
        split; [apply set_eqn_sub; exact EQ|]. intros cur Hc. rewrite EX in Hc. injection Hc as <-. auto. }
      destruct (is_dry (o_dry (sc_opts sc))) eqn:ED; cbn [fst snd].
      { apply NOOP; auto. intros _. left. split; [exact ED|exact D1]. }
      apply WRITE; auto.
      + intros j Hj. apply unionn_In. right. exact Hj.
      + intros cur Hc j Hj. rewrite EX in Hc. injection Hc as <-. apply unionn_In. left. exact Hj.
    - (* no inventory yet *)
      assert (EX : inv (r_cl s) = None) by (destruct R1 as [R1|R1]; [discriminate|]; congruence).
      destruct (is_dry (o_dry (sc_opts sc))) eqn:ED; cbn [fst snd].
      { apply NOOP; auto. intros _. left. split; [exact ED|exact A1]. }
      apply WRITE; auto. intros cur Hc. congruence.
    - cbn [fst snd]. apply NOOP; auto. discriminate.
  Qed.

  Lemma replace_spec s ids :
    let s' := fst (replace sc s ids) in
    r_tbl s' = r_tbl s /\ r_aband s' = r_aband s /\ invchg (r_cl s) (r_cl s') /\
    exists lt, r_tr s' = lt ++ r_tr s /\ Forall (snap_of (r_cl s')) lt /\
    (r_cl s' = r_cl s \/ dry = false /\ inv (r_cl s') = Some (sortn ids)).
  Proof.
    cbv zeta. unfold replace. cbv zeta.
    assert (NOOP : forall sx : rst, r_cl sx = r_cl s -> r_tbl sx = r_tbl s -> r_aband sx = r_aband s -> r_tr sx = r_tr s ->
              r_tbl sx = r_tbl s /\ r_aband sx = r_aband s /\ invchg (r_cl s) (r_cl sx) /\
              exists lt, r_tr sx = lt ++ r_tr s /\ Forall (snap_of (r_cl sx)) lt /\
              (r_cl sx = r_cl s \/ dry = false /\ inv (r_cl sx) = Some (sortn ids))).
    { intros sx B1 B2 B3 B4. split; [exact B2|]. split; [exact B3|]. split; [rewrite B1; apply invchg_refl|].
      exists []. split; [exact B4|]. split; [constructor|]. left. exact B1. }
    destruct (is_dry (o_dry (sc_opts sc))) eqn:ED; cbn [fst]; [apply NOOP; reflexivity|].
    pose proof (same4_inv_list s) as L1.
    destruct (inv_list sc s) as [s1 r1]. cbn [fst] in L1. destruct L1 as [A1 [A2 [A3 A4]]].
    destruct r1 as [x|]; cbn [fst]; [|apply NOOP; assumption].
    pose proof (same4_inv_list s1) as L2.
    destruct (inv_list sc s1) as [s2 r2]. cbn [fst] in L2. destruct L2 as [B1 [B2 [B3 B4]]].
    assert (D1 : r_cl s2 = r_cl s) by congruence. assert (D2 : r_tbl s2 = r_tbl s) by congruence.
    assert (D3 : r_aband s2 = r_aband s) by congruence. assert (D4 : r_tr s2 = r_tr s) by congruence.
    destruct r2 as [[cur|]|]; cbn [fst]; try (apply NOOP; assumption).
    destruct (set_eqn ids cur && _); cbn [fst]; [apply NOOP; assumption|].
    destruct (inv_update_spec s2 ids) as [C1 [C2 [C3 [lt [C4 [C5 C6]]]]]]. cbv zeta in *.
    split; [congruence|]. split; [congruence|]. split; [rewrite <- D1; exact C3|].
    exists lt. split; [rewrite C4, D4; reflexivity|]. split; [exact C5|].
    destruct C6 as [C6|C6]; [left; congruence|right; split; [reflexivity|exact C6]].
  Qed.

  Lemma delete_inventory_spec s :
    let s' := fst (delete_inventory sc s) in
    r_tbl s' = r_tbl s /\ r_aband s' = r_aband s /\ invchg (r_cl s) (r_cl s') /\
    exists lt, r_tr s' = lt ++ r_tr s /\
    ( r_cl s' = r_cl s /\ Forall (snap_of (r_cl s')) lt
      \/ dry = false /\ inv (r_cl s') = None /\ lt = [IReq RInvDelete true (managed (r_cl s')) (stored (r_cl s'))] ).
  Proof.
    cbv zeta. unfold delete_inventory. cbv zeta.
    pose proof (same4_inv_list s) as L1.
    destruct (inv_list sc s) as [s1 r1]. cbn [fst] in L1. destruct L1 as [A1 [A2 [A3 A4]]].
    assert (NOOP : r_tbl s1 = r_tbl s /\ r_aband s1 = r_aband s /\ invchg (r_cl s) (r_cl s1) /\
              exists lt, r_tr s1 = lt ++ r_tr s /\
              ( r_cl s1 = r_cl s /\ Forall (snap_of (r_cl s1)) lt
                \/ dry = false /\ inv (r_cl s1) = None /\ lt = [IReq RInvDelete true (managed (r_cl s1)) (stored (r_cl s1))] )).
    { split; [exact A2|]. split; [exact A3|]. split; [rewrite A1; apply invchg_refl|].
      exists []. split; [exact A4|]. left. split; [exact A1|constructor]. }
    destruct r1 as [[x|]|]; cbn [fst]; try exact NOOP.
    destruct (is_dry (o_dry (sc_opts sc))) eqn:ED; cbn [fst]; [exact NOOP|].
    destruct (faulted sc FInvDelete); leaf; rewrite ?A1, ?A2, ?A3, ?A4.
    - split; [reflexivity|]. split; [reflexivity|]. split; [split; reflexivity|]. eexists [_]. split; [reflexivity|]. left. split; [reflexivity|].
      constructor; [eexists _, _; split; [reflexivity|reflexivity]|constructor].
    - split; [reflexivity|]. split; [reflexivity|]. split; [split; reflexivity|]. eexists [_]. split; [reflexivity|]. right. split; [reflexivity|]. split; reflexivity.
  Qed.

  Lemma inv_set_task_spec pl prev s :
    let s' := fst (inv_set_task sc pl prev s) in
    r_tbl s' = r_tbl s /\ r_aband s' = r_aband s /\ invchg (r_cl s) (r_cl s') /\
    exists lt, r_tr s' = lt ++ r_tr s /\
    ( r_cl s' = r_cl s /\ Forall (snap_of (r_cl s')) lt
      \/ (exists pv, prev = Some pv /\ dry = false /\ o_destroy (sc_opts sc) = true /\ destroy_successful pl pv s = true /\
                     inv (r_cl s') = None /\ lt = [IReq RInvDelete true (managed (r_cl s')) (stored (r_cl s'))])
      \/ (exists pv, prev = Some pv /\ dry = false /\
                     inv (r_cl s') = Some (sortn (final_inventory pl pv s)) /\ Forall (snap_of (r_cl s')) lt) ).
  Proof.
    cbv zeta. unfold inv_set_task. destruct prev as [pv|]; cbn [fst].
    2:{ split; [reflexivity|]. split; [reflexivity|]. split; [split; reflexivity|]. exists []. split; [reflexivity|]. left. split; [reflexivity|constructor]. }
    destruct (o_destroy (sc_opts sc) && destroy_successful pl pv s) eqn:EDS.
    - destruct (delete_inventory_spec s) as [C1 [C2 [C3 [lt [C4 C5]]]]]. cbv zeta in *.
      split; [exact C1|]. split; [exact C2|]. split; [exact C3|]. exists lt. split; [exact C4|].
      destruct C5 as [C5|[D [C5 C6]]]; [left; exact C5|right; left].
      exists pv. apply andb_true_iff in EDS. destruct EDS as [EDS1 EDS]. auto 10.
    - destruct (replace_spec s (final_inventory pl pv s)) as [C1 [C2 [C3 [lt [C4 [C5 C6]]]]]]. cbv zeta in *.
      split; [exact C1|]. split; [exact C2|]. split; [exact C3|]. exists lt. split; [exact C4|].
      destruct C6 as [C6|[D C6]]; [left; auto|right; right]. exists pv. auto.
  Qed.

  (* ---- the inventory-add task ---------------------------------------------------------- *)
  Definition add_result (pl : plan) (s : rst) (s' : rst) (ok : bool) : Prop :=
    r_tbl s' = r_tbl s /\ r_aband s' = r_aband s /\
    exists cl1 lt1 lt2,
      r_tr s' = lt2 ++ lt1 ++ r_tr s /\
      ( cl1 = r_cl s /\ Forall (snap_of cl1) lt1
        \/ dry = false /\ exists n u, sc_inv_ns sc = Some n /\ In n (apply_ids pl) /\ fo (r_cl s) n = None /\
               applied (r_cl s) cl1 n u /\ lt1 = [IReq (RNsCreate n) true (managed cl1) (stored cl1)] ) /\
      invchg cl1 (r_cl s') /\ Forall (snap_of (r_cl s')) lt2 /\
      (ok = false -> r_cl s' = cl1) /\
      (ok = true -> merged_ok cl1 (r_cl s') (apply_ids pl)) /\
      (dry = true -> r_cl s' = cl1).

  Lemma inv_add_tail pl s s1 (ok1 : bool) lt1 :
    r_tbl s1 = r_tbl s -> r_aband s1 = r_aband s -> r_tr s1 = lt1 ++ r_tr s ->
    ( r_cl s1 = r_cl s /\ Forall (snap_of (r_cl s1)) lt1
      \/ dry = false /\ exists n u, sc_inv_ns sc = Some n /\ In n (apply_ids pl) /\ fo (r_cl s) n = None /\
             applied (r_cl s) (r_cl s1) n u /\ lt1 = [IReq (RNsCreate n) true (managed (r_cl s1)) (stored (r_cl s1))] ) ->
    let res := if ok1 then merge sc s1 (map p_id (pl_apply pl)) else (s1, false) in
    add_result pl s (fst res) (snd res).
  Proof.
    intros A2 A3 A4 NS. cbv zeta. unfold add_result. destruct ok1; cbn [fst snd].
    - destruct (merge_spec s1 (map p_id (pl_apply pl))) as [C1 [C2 [C3 [lt [C4 [C5 [C6 [C7 C8]]]]]]]]. cbv zeta in *.
      split; [congruence|]. split; [congruence|]. exists (r_cl s1), lt1, lt.
      split; [rewrite C4, A4; reflexivity|]. split; [destruct NS as [[N1 N2]|N]; [left; split; [exact N1|exact N2]|right; exact N]|].
      split; [exact C3|]. split; [exact C5|]. split; [exact C6|]. split; [exact C7|exact C8].
    - split; [exact A2|]. split; [exact A3|]. exists (r_cl s1), lt1, [].
      split; [exact A4|]. split; [destruct NS as [[N1 N2]|N]; [left; split; [exact N1|exact N2]|right; exact N]|].
      split; [apply invchg_refl|]. split; [constructor|]. split; [reflexivity|]. split; [discriminate|reflexivity].
  Qed.

  Lemma inv_add_task_spec pl s :
    (forall p l, In p (pl_apply pl) -> p_local p = Some l -> l_id l = p_id p) ->
    add_result pl s (fst (inv_add_task sc pl s)) (snd (inv_add_task sc pl s)).
  Proof.
    intros Hloc. unfold inv_add_task. cbv zeta.
    assert (NOOP : forall ok1 : bool,
              add_result pl s (fst (if ok1 then merge sc s (map p_id (pl_apply pl)) else (s, false)))
                              (snd (if ok1 then merge sc s (map p_id (pl_apply pl)) else (s, false)))).
    { intros ok1. apply (inv_add_tail pl s s ok1 []); try reflexivity. left. split; [reflexivity|constructor]. }
    destruct (sc_inv_ns sc) as [n|] eqn:EN; [|apply (NOOP true)].
    destruct (find (fun p => Nat.eqb (p_id p) n) (pl_apply pl)) as [p|] eqn:EF; [|apply (NOOP true)].
    apply find_some in EF. destruct EF as [Hin Hid]. apply Nat.eqb_eq in Hid.
    destruct (p_local p) as [l|] eqn:EL; [|apply (NOOP true)].
    destruct (is_dry (o_dry (sc_opts sc))) eqn:ED; [apply (NOOP true)|].
    destruct (faulted sc FNsCreate).
    { apply (inv_add_tail pl s (log_req s (RNsCreate (p_id p)) false) false [IReq (RNsCreate (p_id p)) false (managed (r_cl s)) (stored (r_cl s))]);
        try reflexivity.
      left. split; [reflexivity|]. constructor; [eexists _, _; split; [reflexivity|reflexivity]|constructor]. }
    destruct (find_obj (objs (r_cl s)) (p_id p)) eqn:EO.
    { apply (inv_add_tail pl s (log_req s (RNsCreate (p_id p)) false) true [IReq (RNsCreate (p_id p)) false (managed (r_cl s)) (stored (r_cl s))]);
        try reflexivity.
      left. split; [reflexivity|]. constructor; [eexists _, _; split; [reflexivity|reflexivity]|constructor]. }
    set (s1 := log_req (set_cl s _) (RNsCreate (p_id p)) true).
    apply (inv_add_tail pl s s1 true [IReq (RNsCreate (p_id p)) true (managed (r_cl s1)) (stored (r_cl s1))]); try reflexivity.
    unfold s1.
    right. split; [exact ED|]. exists n, (next_uid (r_cl s)). split; [exact EN|].
    split; [subst n; apply in_map; exact Hin|]. split; [subst n; exact EO|].
    split; [|subst n; reflexivity].
    cbn [log_req emit set_cl r_cl]. subst n. apply applied_put; try reflexivity.
    - cbn. apply Hloc; assumption.
    - apply N.le_succ_diag_r.
    - right. split; [exact EO|reflexivity].
  Qed.

  (* ---- the status cache is written by the wait machine only ------------------------------ *)
  Ltac cch :=
    repeat match goal with
           | |- context [if ?b then _ else _] => destruct b
           | |- context [match ?x with Some _ => _ | None => _ end] => destruct x
           | |- context [match ?x with GFault => _ | GNotFound => _ | GFound _ => _ end] => destruct x
           | |- context [match ?x with FPass => _ | FSkip => _ | FFatal => _ end] => destruct x
           | |- context [match ?x with ONone => _ | OOurs => _ | OOther => _ end] => destruct x
           | |- context [match ?x with DNone => _ | DClient => _ | DServer => _ end] => destruct x
           | |- context [let '(_, _) := ?x in _] => destruct x
           end.

  Lemma cache_inv_list s : r_cache (fst (inv_list sc s)) = r_cache s.
  Proof. unfold inv_list. destruct (faulted sc _); reflexivity. Qed.
  Lemma cache_get_obj s i : r_cache (fst (get_obj sc s i)) = r_cache s.
  Proof. unfold get_obj. destruct (faulted sc _); [reflexivity|]. destruct (find_obj _ _); reflexivity. Qed.
  Lemma cache_maybe_cancel s i : r_cache (maybe_cancel sc s i) = r_cache s.
  Proof. unfold maybe_cancel. destruct (e_cancel _); try reflexivity. destruct (Nat.eqb _ _); reflexivity. Qed.
  Lemma cache_policy_apply_filter s i : r_cache (fst (policy_apply_filter sc s i)) = r_cache s.
  Proof.
    unfold policy_apply_filter. destruct (o_policy _); cbn [fst]; try reflexivity;
      (pose proof (cache_get_obj s i) as G; destruct (get_obj sc s i) as [s1 g]; cbn [fst] in G; destruct g; exact G).
  Qed.
  Lemma cache_ssa_patch l s n : r_cache (fst (ssa_patch sc s l n)) = r_cache s.
  Proof.
    unfold ssa_patch. cbv zeta. cch;
      cbn [fst log_req emit set_cl r_cache]; rewrite ?cache_maybe_cancel; reflexivity.
  Qed.
  Lemma cache_csa_apply l s : r_cache (fst (csa_apply sc s l)) = r_cache s.
  Proof.
    unfold csa_apply. cbv zeta.
    pose proof (cache_get_obj s (l_id l)) as G. destruct (get_obj sc s (l_id l)) as [s1 g]. cbn [fst] in G.
    cch; cbn [fst log_req emit set_cl r_cache]; rewrite ?cache_maybe_cancel; try reflexivity; exact G.
  Qed.
  Lemma cache_kubectl_apply s l : r_cache (fst (kubectl_apply sc s l)) = r_cache s.
  Proof. apply (kubectl_apply_keeps sc l r_cache (cache_ssa_patch l) (cache_csa_apply l)). Qed.
  (* the apply of one object leaves in the cache what the source lookups of its mutator Put there: entries
     about sources of a mutation-spelled manifest that passed the dependency filter *)
  Lemma cache_apply_one pl g s p :
    exists ex, r_cache (apply_one sc pl g s p) = ex ++ r_cache s /\
      forall o, In o ex -> exists l, p_local p = Some l /\ l_mut l = true /\ In (s_id o) (l_deps l) /\
        mut_entry (r_cl s) o /\
        dep_filter sc pl (r_tbl s) SApply (g_deps (pl_graph pl) (p_id p)) = FPass.
  Proof.
    assert (NIL : forall s', r_cache s' = r_cache s ->
              exists ex, r_cache s' = ex ++ r_cache s /\
                forall o, In o ex -> exists l, p_local p = Some l /\ l_mut l = true /\ In (s_id o) (l_deps l) /\
                  mut_entry (r_cl s) o /\ dep_filter sc pl (r_tbl s) SApply (g_deps (pl_graph pl) (p_id p)) = FPass)
      by (intros s' E; exists []; split; [exact E|intros o []]).
    unfold apply_one. destruct (p_local p) as [l|]; [|apply NIL; reflexivity].
    destruct (negb (kind_known sc (r_known s) (p_id p))); [apply NIL; reflexivity|].
    pose proof (cache_policy_apply_filter s (p_id p)) as P. pose proof (same4_policy_apply_filter s (p_id p)) as [P1 [P2 _]].
    destruct (policy_apply_filter sc s (p_id p)) as [s1 f1]. cbn [fst] in P, P1, P2.
    destruct (match f1 with FPass => _ | _ => _ end) eqn:EF.
    - assert (DF : dep_filter sc pl (r_tbl s) SApply (g_deps (pl_graph pl) (p_id p)) = FPass)
        by (rewrite <- P2; destruct f1; try discriminate; exact EF).
      destruct (mutate_cache sc s1 l) as [ex [EC HX]].
      destruct (mutate sc s1 l) as [sm okm]. cbn [fst] in EC.
      assert (G : forall s', r_cache s' = r_cache sm ->
                exists ex0, r_cache s' = ex0 ++ r_cache s /\
                  forall o, In o ex0 -> exists l0, Some l = Some l0 /\ l_mut l0 = true /\ In (s_id o) (l_deps l0) /\
                    mut_entry (r_cl s) o /\ dep_filter sc pl (r_tbl s) SApply (g_deps (pl_graph pl) (p_id p)) = FPass).
      { intros s' E. exists ex. split; [rewrite E, EC, P; reflexivity|].
        intros o Ho. destruct (HX o Ho) as [A [B C]]. rewrite P1 in C. exists l. auto. }
      destruct okm; cbn [negb]; [|apply G; reflexivity].
      pose proof (cache_kubectl_apply sm l) as K. destruct (kubectl_apply sc sm l) as [s2 r]. cbn [fst] in K.
      destruct r; apply G; cbn [rec_add set_tbl ev emit r_cache]; exact K.
    - apply NIL. cbn [rec_add set_tbl ev emit r_cache]. exact P.
    - apply NIL. cbn [rec_add set_tbl ev emit r_cache]. exact P.
  Qed.

  Lemma cache_prune_one pl locals g uids s p : r_cache (prune_one sc pl locals g uids s p) = r_cache s.
  Proof.
    unfold prune_one. destruct (p_live p) as [c|]; [|reflexivity].
    destruct (prune_filters sc pl locals (r_tbl s) uids c); cch;
      cbn [rec_add set_tbl ev emit log_req set_cl add_aband r_cache]; rewrite ?cache_maybe_cancel; reflexivity.
  Qed.
  Lemma cache_inv_apply s ids : r_cache (fst (inv_apply sc s ids)) = r_cache s.
  Proof. unfold inv_apply. cbv zeta. cch; reflexivity. Qed.
  Lemma cache_inv_update s ids : r_cache (fst (inv_update sc s ids)) = r_cache s.
  Proof. unfold inv_update. cbv zeta. cch; reflexivity. Qed.
  Lemma cache_merge s ids : r_cache (fst (merge sc s ids)) = r_cache s.
  Proof.
    unfold merge. pose proof (cache_inv_list s) as L1. destruct (inv_list sc s) as [s1 r1]. cbn [fst] in L1.
    destruct r1 as [[x|]|]; cbn [fst]; try exact L1.
    - pose proof (cache_inv_list s1) as L2. destruct (inv_list sc s1) as [s2 r2]. cbn [fst] in L2.
      destruct r2 as [cur0|]; cbn [fst]; [|congruence].
      destruct (set_eqn _ _ && _); cbn [fst]; [congruence|].
      destruct (is_dry _); cbn [fst]; [congruence|]. rewrite cache_inv_apply. congruence.
    - destruct (is_dry _); cbn [fst]; [exact L1|]. rewrite cache_inv_apply. exact L1.
  Qed.
  Lemma cache_replace s ids : r_cache (fst (replace sc s ids)) = r_cache s.
  Proof.
    unfold replace. destruct (is_dry _); [reflexivity|].
    pose proof (cache_inv_list s) as L1. destruct (inv_list sc s) as [s1 r1]. cbn [fst] in L1.
    destruct r1 as [x|]; cbn [fst]; [|exact L1].
    pose proof (cache_inv_list s1) as L2. destruct (inv_list sc s1) as [s2 r2]. cbn [fst] in L2.
    destruct r2 as [[cur|]|]; cbn [fst]; try congruence.
    destruct (set_eqn _ _ && _); cbn [fst]; [congruence|]. rewrite cache_inv_update. congruence.
  Qed.
  Lemma cache_delete_inventory s : r_cache (fst (delete_inventory sc s)) = r_cache s.
  Proof.
    unfold delete_inventory. pose proof (cache_inv_list s) as L1. destruct (inv_list sc s) as [s1 r1]. cbn [fst] in L1.
    destruct r1 as [[x|]|]; cbn [fst]; try exact L1.
    destruct (is_dry _); cbn [fst]; [exact L1|]. destruct (faulted sc FInvDelete); cbn; exact L1.
  Qed.
  Lemma cache_inv_set_task pl prev s : r_cache (fst (inv_set_task sc pl prev s)) = r_cache s.
  Proof.
    unfold inv_set_task. destruct prev as [pv|]; [|reflexivity].
    destruct (_ && _); [apply cache_delete_inventory|apply cache_replace].
  Qed.
  Lemma cache_inv_add_task pl s : r_cache (fst (inv_add_task sc pl s)) = r_cache s.
  Proof.
    unfold inv_add_task. cbv zeta.
    assert (M : forall s1 (b : bool), r_cache s1 = r_cache s ->
              r_cache (fst (if b then merge sc s1 (map p_id (pl_apply pl)) else (s1, false))) = r_cache s).
    { intros s1 b E. destruct b; cbn [fst]; [rewrite cache_merge|]; exact E. }
    destruct (sc_inv_ns sc) as [n|]; [|apply (M s true); reflexivity].
    destruct (find _ _) as [p|]; [|apply (M s true); reflexivity].
    destruct (p_local p) as [l|]; [|apply (M s true); reflexivity].
    destruct (is_dry _); [apply (M s true); reflexivity|].
    destruct (faulted sc FNsCreate); [apply (M (log_req s (RNsCreate (p_id p)) false) false); reflexivity|].
    destruct (find_obj _ _); [apply (M (log_req s (RNsCreate (p_id p)) false) true); reflexivity|].
    match goal with |- context [log_req ?X (RNsCreate (p_id p)) true] => apply (M (log_req X (RNsCreate (p_id p)) true) true) end.
    reflexivity.
  Qed.
End Spec.
