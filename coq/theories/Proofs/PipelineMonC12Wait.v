(* C12 monitor, timeout conjunct, part 1: the exact shape of the events of a wait
   phase.  events = es1 ++ es2 where es1 holds no Timeout event, `pending` is
   exactly the set of group ids whose last wait event in es1 is Pending, and
   - pending = [] and es2 = [], or
   - a timeout is configured, es2 = Timeout events for exactly `pending`, or
   - es2 = [] and the abort flag is set (cancelled / watcher error / no timeout configured). *)
From Coq Require Import List Bool Arith NArith ZArith Lia Permutation.
From CliUtils Require Import Model.ObjSet Model.ActuationTable Model.PipelineTypes Model.Pipeline
     Proofs.ObjSetProofs Proofs.PipelineBase Proofs.PipelineAuth Proofs.PipelineEvents Proofs.PipelineMisc
     Corr.CorrPipeline Proofs.PipelineOrphansBase Proofs.PipelineOrphansPlan.
Import ListNotations.

(* ---- sorting: permutations sort to the same list ------------------------------------------ *)
Inductive sorted_n : list nat -> Prop :=
| sn_nil : sorted_n []
| sn_cons x l : (forall y, In y l -> x <= y) -> sorted_n l -> sorted_n (x :: l).

Lemma insn_sorted x l : sorted_n l -> sorted_n (insn x l).
Proof.
  induction 1 as [|h l Hh Hl IH]; cbn.
  - constructor; [intros y []|constructor].
  - destruct (Nat.leb x h) eqn:E.
    + apply Nat.leb_le in E. constructor; [|constructor; assumption].
      intros y [<-|Hy]; [exact E|]. specialize (Hh y Hy). lia.
    + apply Nat.leb_gt in E. constructor; [|exact IH].
      intros y Hy. apply insn_In in Hy. destruct Hy as [->|Hy]; [lia|apply Hh; exact Hy].
Qed.
Lemma sortn_sorted l : sorted_n (sortn l).
Proof. induction l as [|x l IH]; cbn; [constructor|]. apply insn_sorted. exact IH. Qed.

Lemma insn_perm' x l : Permutation (insn x l) (x :: l).
Proof.
  induction l as [|h t IH]; cbn; [apply Permutation_refl|].
  destruct (Nat.leb x h); [apply Permutation_refl|].
  eapply Permutation_trans; [apply perm_skip; exact IH|apply perm_swap].
Qed.
Lemma sortn_perm' l : Permutation (sortn l) l.
Proof.
  induction l as [|h t IH]; cbn; [constructor|].
  eapply Permutation_trans; [apply insn_perm'|apply perm_skip; exact IH].
Qed.

Lemma sorted_n_perm_eq l1 : forall l2, sorted_n l1 -> sorted_n l2 -> Permutation l1 l2 -> l1 = l2.
Proof.
  induction l1 as [|a l1 IH]; intros l2 S1 S2 P.
  - apply Permutation_nil in P. subst. reflexivity.
  - destruct l2 as [|b l2]; [apply Permutation_sym, Permutation_nil in P; discriminate|].
    inversion S1 as [|? ? Ha S1']; subst. inversion S2 as [|? ? Hb S2']; subst.
    assert (a = b).
    { assert (In a (b :: l2)) as Hab by (eapply Permutation_in; [exact P|left; reflexivity]).
      assert (In b (a :: l1)) as Hba by (eapply Permutation_in; [symmetry; exact P|left; reflexivity]).
      destruct Hab as [->|Hab]; [reflexivity|].
      destruct Hba as [->|Hba]; [reflexivity|].
      specialize (Ha b Hba). specialize (Hb a Hab). lia. }
    subst b. f_equal. apply IH; try assumption.
    eapply Permutation_cons_inv. exact P.
Qed.

Lemma sortn_perm_eq l1 l2 : Permutation l1 l2 -> sortn l1 = sortn l2.
Proof.
  intros P. apply sorted_n_perm_eq; try apply sortn_sorted.
  eapply Permutation_trans; [apply sortn_perm'|]. eapply Permutation_trans; [exact P|].
  apply Permutation_sym, sortn_perm'.
Qed.

(* ---- the last wait event of an id ------------------------------------------------------------ *)
Definition wsel (i : id) (e : evt) : list wst :=
  match e with EWait _ j s => if Nat.eqb i j then [s] else [] | _ => [] end.

Lemma last_wait_in_eq body i :
  last_wait_in body i = match rev (flat_map (wsel i) body) with s :: _ => Some s | [] => None end.
Proof. reflexivity. Qed.

Lemma last_wait_in_snoc es e i :
  last_wait_in (es ++ [e]) i =
  match e with
  | EWait _ j s => if Nat.eqb i j then Some s else last_wait_in es i
  | _ => last_wait_in es i
  end.
Proof.
  rewrite !last_wait_in_eq, flat_map_app, rev_app_distr. cbn [flat_map]. rewrite app_nil_r.
  destruct e; cbn [wsel rev app]; try reflexivity.
  destruct (Nat.eqb i i0); reflexivity.
Qed.

Lemma last_wait_in_app_other es es' i :
  (forall e, In e es' -> wsel i e = []) -> last_wait_in (es ++ es') i = last_wait_in es i.
Proof.
  intros H. rewrite !last_wait_in_eq, flat_map_app.
  assert (E : flat_map (wsel i) es' = []).
  { induction es' as [|e t IH]; [reflexivity|]. cbn [flat_map]. rewrite (H e) by (left; reflexivity).
    apply IH. intros; apply H; right; assumption. }
  rewrite E, app_nil_r. reflexivity.
Qed.

(* ---- the pending set follows the wait events ------------------------------------------------- *)
Definition Pinv (ids : list id) (es : list evt) (pend : list id) : Prop :=
  NoDup pend /\ forall i, In i pend <-> In i ids /\ last_wait_in es i = Some WPending.

Lemma Pinv_add ids es pend g i : Pinv ids es pend -> In i ids -> ~ In i pend ->
  Pinv ids (es ++ [EWait g i WPending]) (pend ++ [i]).
Proof.
  intros [ND H] Hi Hn. split.
  - apply NoDup_app_intro; [exact ND|constructor; [intros []|constructor]|].
    intros x Hx [<-|[]]. contradiction.
  - intros j. rewrite in_app_iff, last_wait_in_snoc. cbn [In].
    destruct (Nat.eqb j i) eqn:E.
    + apply Nat.eqb_eq in E. subst j. split; [intros _; auto|intros _; right; left; reflexivity].
    + apply Nat.eqb_neq in E. rewrite H. split; [intros [X|[X|[]]]; [exact X|congruence]|intros X; left; exact X].
Qed.

Lemma Pinv_drop ids es pend pend' g i st : Pinv ids es pend -> st <> WPending ->
  NoDup pend' -> (forall j, In j pend' <-> In j pend /\ j <> i) ->
  Pinv ids (es ++ [EWait g i st]) pend'.
Proof.
  intros [ND H] Hs ND' H'. split; [exact ND'|].
  intros j. rewrite H', last_wait_in_snoc. destruct (Nat.eqb j i) eqn:E.
  - apply Nat.eqb_eq in E. subst j. split; [intros [_ X]; congruence|intros [_ X]; congruence].
  - apply Nat.eqb_neq in E. rewrite H. tauto.
Qed.

Lemma Pinv_other ids es pend e : Pinv ids es pend -> (forall g i s, e <> EWait g i s) ->
  Pinv ids (es ++ [e]) pend.
Proof.
  intros [ND H] He. split; [exact ND|]. intros j. rewrite H, last_wait_in_snoc.
  destruct e; try tauto. exfalso. eapply He. reflexivity.
Qed.

(* ---- the operations of the wait machine ------------------------------------------------------ *)
Definition ntw (e : evt) : Prop := not_timeout e.

Lemma ntw_wait g i st : st <> WTimedOut -> ntw (EWait g i st).
Proof. intros H g' i' [= _ _ ->]. congruence. Qed.
Lemma ntw_status i st : ntw (EStatus i st).
Proof. intros g' i'. discriminate. Qed.

Lemma abort_rec_reconcile s i r : r_abort (rec_reconcile s i r) = r_abort s.
Proof. unfold rec_reconcile. destruct (set_reconcile _ _ _ _); reflexivity. Qed.

Lemma e_rr_ev s i r g st : emits s (ev (rec_reconcile s i r) (EWait g i st)) [EWait g i st].
Proof. eapply emits_nil_l; [apply e_rec_reconcile|apply emits_ev]. Qed.

Lemma hcu_spec c g s i : exists st, st <> WPending /\ st <> WTimedOut /\
  emits s (handle_changed_uid c g s i) [EWait g i st] /\ r_abort (handle_changed_uid c g s i) = r_abort s.
Proof.
  unfold handle_changed_uid. destruct c; eexists; (split; [|split; [|split; [apply e_rr_ev|cbn; apply abort_rec_reconcile]]]); discriminate.
Qed.

Lemma memn_false' x l : memn x l = false <-> ~ In x l.
Proof. rewrite <- memn_In. destruct (memn x l); split; congruence. Qed.

Section Wait.
  Variable sc : scenario.

  (* startInner *)
  Lemma wait_start_spec c g ids s : NoDup ids ->
    exists es, emits s (fst (wait_start c g ids s)) es /\
      Forall2 (fun i e => exists st, e = EWait g i st) ids es /\ Forall ntw es /\
      Pinv ids es (w_pending (snd (wait_start c g ids s))) /\
      r_abort (fst (wait_start c g ids s)) = r_abort s.
  Proof.
    intros ND. unfold wait_start.
    set (stepf := fun (acc : rst * list id) (i : id) => _).
    assert (H : forall l acc es0, NoDup l -> incl l ids -> (forall i, In i l -> ~ In i (snd acc)) ->
                Pinv ids es0 (snd acc) ->
                exists es, emits (fst acc) (fst (fold_left stepf l acc)) es /\
                  Forall2 (fun i e => exists st, e = EWait g i st) l es /\ Forall ntw es /\
                  Pinv ids (es0 ++ es) (snd (fold_left stepf l acc)) /\
                  r_abort (fst (fold_left stepf l acc)) = r_abort (fst acc)).
    { induction l as [|i l IH]; intros acc es0 NDl Hincl Hfresh P; cbn [fold_left].
      - exists []. rewrite app_nil_r.
        split; [apply emits_refl|]. split; [constructor|]. split; [constructor|]. split; [exact P|reflexivity].
      - inversion NDl as [|? ? Hi Hl]; subst.
        assert (Hin : In i ids) by (apply Hincl; left; reflexivity).
        assert (STEP : exists st, st <> WTimedOut /\ emits (fst acc) (fst (stepf acc i)) [EWait g i st] /\
                         Pinv ids (es0 ++ [EWait g i st]) (snd (stepf acc i)) /\
                         r_abort (fst (stepf acc i)) = r_abort (fst acc) /\
                         (forall j, In j (snd (stepf acc i)) -> In j (snd acc) \/ j = i)).
        { destruct acc as [s0 pend]. cbn [fst snd] in *. unfold stepf.
          assert (DROP : forall st, st <> WPending -> Pinv ids (es0 ++ [EWait g i st]) pend).
          { intros st Hs. apply (Pinv_drop ids es0 pend pend g i st P Hs); [apply P|].
            intros j. split; [intros X; split; [exact X|intros ->; exact (Hfresh i (or_introl eq_refl) X)]|tauto]. }
          destruct (w_skipped c s0 i); cbn [fst snd].
          { exists WSkipped. split; [discriminate|]. split; [apply e_rr_ev|]. split; [apply DROP; discriminate|].
            split; [cbn; apply abort_rec_reconcile|auto]. }
          destruct (changed_uid s0 i); cbn [fst snd].
          { destruct (hcu_spec c g s0 i) as [st [A [B [C D]]]]. exists st. split; [exact B|]. split; [exact C|].
            split; [apply DROP; exact A|]. split; [exact D|auto]. }
          destruct (cond_met c s0 i); cbn [fst snd].
          { exists WOk. split; [discriminate|]. split; [apply e_rr_ev|]. split; [apply DROP; discriminate|].
            split; [cbn; apply abort_rec_reconcile|auto]. }
          exists WPending. split; [discriminate|]. split; [apply e_rr_ev|].
          split; [apply Pinv_add; [exact P|exact Hin|apply Hfresh; left; reflexivity]|].
          split; [cbn; apply abort_rec_reconcile|]. intros j Hj. apply in_app_or in Hj. destruct Hj as [Hj|[<-|[]]]; auto. }
        destruct STEP as [st [NT [E1 [P1 [A1 SUB]]]]].
        destruct (IH (stepf acc i) (es0 ++ [EWait g i st]) Hl) as [es [E2 [F2 [N2 [P2 A2]]]]].
        + intros x Hx. apply Hincl. right. exact Hx.
        + intros j Hj X. destruct (SUB j X) as [Y| ->]; [exact (Hfresh j (or_intror Hj) Y)|contradiction].
        + exact P1.
        + exists (EWait g i st :: es). split; [exact (emits_trans _ _ _ [_] _ E1 E2)|].
          split; [constructor; [eauto|exact F2]|]. split; [constructor; [apply ntw_wait; exact NT|exact N2]|].
          split; [|congruence]. rewrite <- app_assoc in P2. exact P2. }
    destruct (H ids (s, []) [] ND (fun x Hx => Hx) (fun i _ X => X)) as [es [E [F [N [P A]]]]].
    { split; [constructor|]. intros i. cbn. split; [intros []|]. intros [_ X]. discriminate. }
    cbn [fst snd app] in *.
    destruct (fold_left stepf ids (s, [])) as [s' pend]. cbn [fst snd w_pending] in *.
    exists es. auto.
  Qed.

  (* StatusUpdate *)
  Lemma wait_update_spec c g ids s w i : In i ids -> NoDup (w_pending w) ->
    r_abort (fst (wait_update c g ids s w i)) = r_abort s /\
    ( (emits s (fst (wait_update c g ids s w i)) [] /\ w_pending (snd (wait_update c g ids s w i)) = w_pending w)
    \/ (exists st, st <> WPending /\ st <> WTimedOut /\
          emits s (fst (wait_update c g ids s w i)) [EWait g i st] /\
          NoDup (w_pending (snd (wait_update c g ids s w i))) /\
          forall j, In j (w_pending (snd (wait_update c g ids s w i))) <-> In j (w_pending w) /\ j <> i)
    \/ (emits s (fst (wait_update c g ids s w i)) [EWait g i WPending] /\ ~ In i (w_pending w) /\
        w_pending (snd (wait_update c g ids s w i)) = w_pending w ++ [i]) ).
  Proof.
    intros Hi ND. unfold wait_update.
    (* the three kinds of outcome, for arbitrary result states *)
    assert (NONE : forall f, r_abort (fst (s, mkWS (w_pending w) f)) = r_abort s /\
              ( (emits s (fst (s, mkWS (w_pending w) f)) [] /\ w_pending (snd (s, mkWS (w_pending w) f)) = w_pending w) \/
                (exists st, st <> WPending /\ st <> WTimedOut /\ emits s (fst (s, mkWS (w_pending w) f)) [EWait g i st] /\
                   NoDup (w_pending (snd (s, mkWS (w_pending w) f))) /\
                   forall j, In j (w_pending (snd (s, mkWS (w_pending w) f))) <-> In j (w_pending w) /\ j <> i) \/
                (emits s (fst (s, mkWS (w_pending w) f)) [EWait g i WPending] /\ ~ In i (w_pending w) /\
                 w_pending (snd (s, mkWS (w_pending w) f)) = w_pending w ++ [i]) )).
    { intros f. split; [reflexivity|]. left. split; [apply emits_refl|reflexivity]. }
    assert (NONE' : r_abort (fst (s, w)) = r_abort s /\
              ( (emits s (fst (s, w)) [] /\ w_pending (snd (s, w)) = w_pending w) \/
                (exists st, st <> WPending /\ st <> WTimedOut /\ emits s (fst (s, w)) [EWait g i st] /\
                   NoDup (w_pending (snd (s, w))) /\
                   forall j, In j (w_pending (snd (s, w))) <-> In j (w_pending w) /\ j <> i) \/
                (emits s (fst (s, w)) [EWait g i WPending] /\ ~ In i (w_pending w) /\
                 w_pending (snd (s, w)) = w_pending w ++ [i]) )).
    { split; [reflexivity|]. left. split; [apply emits_refl|reflexivity]. }
    assert (DROP : forall s' pend' f st, st <> WPending -> st <> WTimedOut -> emits s s' [EWait g i st] -> r_abort s' = r_abort s ->
              NoDup pend' -> (forall j, In j pend' <-> In j (w_pending w) /\ j <> i) ->
              r_abort (fst (s', mkWS pend' f)) = r_abort s /\
              ( (emits s (fst (s', mkWS pend' f)) [] /\ w_pending (snd (s', mkWS pend' f)) = w_pending w) \/
                (exists st, st <> WPending /\ st <> WTimedOut /\ emits s (fst (s', mkWS pend' f)) [EWait g i st] /\
                   NoDup (w_pending (snd (s', mkWS pend' f))) /\
                   forall j, In j (w_pending (snd (s', mkWS pend' f))) <-> In j (w_pending w) /\ j <> i) \/
                (emits s (fst (s', mkWS pend' f)) [EWait g i WPending] /\ ~ In i (w_pending w) /\
                 w_pending (snd (s', mkWS pend' f)) = w_pending w ++ [i]) )).
    { intros s' pend' f st A B C D E F. split; [exact D|]. right; left. exists st. cbn [fst snd w_pending]. auto. }
    assert (ADD : forall s' f, ~ In i (w_pending w) -> emits s s' [EWait g i WPending] -> r_abort s' = r_abort s ->
              r_abort (fst (s', mkWS (w_pending w ++ [i]) f)) = r_abort s /\
              ( (emits s (fst (s', mkWS (w_pending w ++ [i]) f)) [] /\ w_pending (snd (s', mkWS (w_pending w ++ [i]) f)) = w_pending w) \/
                (exists st, st <> WPending /\ st <> WTimedOut /\ emits s (fst (s', mkWS (w_pending w ++ [i]) f)) [EWait g i st] /\
                   NoDup (w_pending (snd (s', mkWS (w_pending w ++ [i]) f))) /\
                   forall j, In j (w_pending (snd (s', mkWS (w_pending w ++ [i]) f))) <-> In j (w_pending w) /\ j <> i) \/
                (emits s (fst (s', mkWS (w_pending w ++ [i]) f)) [EWait g i WPending] /\ ~ In i (w_pending w) /\
                 w_pending (snd (s', mkWS (w_pending w ++ [i]) f)) = w_pending w ++ [i]) )).
    { intros s' f A B C. split; [exact C|]. right; right. cbn [fst snd w_pending]. auto. }
    (* removal from the pending list *)
    assert (RM : NoDup (remove Nat.eqb (w_pending w) i) /\
                 forall j, In j (remove Nat.eqb (w_pending w) i) <-> In j (w_pending w) /\ j <> i).
    { split; [|intros j; apply (remove_NoDup_In nat Nat.eqb nat_eqb_spec); exact ND].
      destruct (in_dec Nat.eq_dec i (w_pending w)) as [X|X].
      - pose proof (remove_present nat Nat.eqb nat_eqb_spec _ _ X) as P.
        apply (Permutation_NoDup (Permutation_sym P)) in ND. inversion ND; assumption.
      - rewrite (remove_absent nat Nat.eqb nat_eqb_spec _ _ X). exact ND. }
    destruct RM as [RM1 RM2].
    assert (KEEP : ~ In i (w_pending w) -> forall j, In j (w_pending w) <-> In j (w_pending w) /\ j <> i).
    { intros X j. split; [intros Y; split; [exact Y|intros ->; contradiction]|tauto]. }
    destruct (hcu_spec c g s i) as [sth [H1 [H2 [H3 H4]]]].
    assert (AB : forall r st, r_abort (ev (rec_reconcile s i r) (EWait g i st)) = r_abort s)
      by (intros; cbn; apply abort_rec_reconcile).
    assert (ERR : forall r st, emits s (ev (rec_reconcile s i r) (EWait g i st)) [EWait g i st]) by (intros; apply e_rr_ev).
    destruct (memn i (w_pending w)) eqn:M.
    - destruct (changed_uid s i); [apply (DROP _ _ _ sth); auto|].
      destruct (cond_met c s i); [apply (DROP _ _ _ WOk); auto; discriminate|].
      destruct (failed_by_id s i); [apply (DROP _ _ _ WFailed); auto; discriminate|].
      exact NONE'.
    - apply memn_false' in M. pose proof (KEEP M) as KM.
      destruct (negb (memn i ids)); [exact NONE'|].
      destruct (w_skipped c s i); [exact NONE'|].
      destruct (memn i (w_failed w)).
      + destruct (changed_uid s i); [apply (DROP _ _ _ sth); auto|].
        destruct (cond_met c s i); [apply (DROP _ _ _ WOk); auto; discriminate|].
        destruct (negb (failed_by_id s i)); [apply ADD; auto|].
        exact NONE'.
      + destruct (changed_uid s i).
        * destruct c; [|exact NONE'].
          destruct (is_reconcile Nat.eqb (r_tbl s) i RFailed); [exact NONE'|].
          destruct w as [wp wf]. apply (DROP _ _ _ sth); auto.
        * destruct (negb (cond_met c s i)); [apply ADD; auto|].
          destruct (is_reconcile Nat.eqb (r_tbl s) i RFailed); [|exact NONE'].
          destruct w as [wp wf]. apply (DROP _ _ _ WOk); auto; discriminate.
  Qed.

  Lemma wait_ev_in g ids i st : In i ids -> wait_ev g ids (EWait g i st).
  Proof. intros H. left. eauto. Qed.

  (* the deliveries handled while the phase is current *)
  Lemma deliver_spec c g ids ds : forall s w es0, Pinv ids es0 (w_pending w) ->
    exists es, emits s (fst (deliver sc c g ids ds s w)) es /\ Forall (wait_ev g ids) es /\ Forall ntw es /\
      Pinv ids (es0 ++ es) (w_pending (snd (deliver sc c g ids ds s w))) /\
      r_abort (fst (deliver sc c g ids ds s w)) = r_abort s.
  Proof.
    induction ds as [|d t IH]; intros s w es0 P; cbn [deliver].
    - exists []. rewrite app_nil_r.
      split; [apply emits_refl|]. split; [constructor|]. split; [constructor|]. split; [exact P|reflexivity].
    - destruct (w_pending w) eqn:EP.
      + exists []. rewrite app_nil_r. cbn [fst snd]. rewrite EP.
        split; [apply emits_refl|]. split; [constructor|]. split; [constructor|]. split; [exact P|reflexivity].
      + rewrite <- EP in *. clear EP.
        set (s2 := if o_status_events (sc_opts sc) then ev (emit s (IDeliv d)) (EStatus (s_id d) (s_st d)) else emit s (IDeliv d)).
        set (s3 := set_cache s2 (d :: r_cache s2)).
        assert (E3 : exists es3, emits s s3 es3 /\ Forall (wait_ev g ids) es3 /\ Forall ntw es3 /\
                       Pinv ids (es0 ++ es3) (w_pending w) /\ r_abort s3 = r_abort s).
        { unfold s3, s2. destruct (o_status_events (sc_opts sc)).
          - exists [EStatus (s_id d) (s_st d)]. split; [|split; [|split; [|split]]].
            + eapply emits_nil_r; [|apply emits_same; reflexivity].
              eapply emits_nil_l; [apply (emits_item_noev s (IDeliv d)); intros e; discriminate|apply emits_ev].
            + constructor; [right; eauto|constructor].
            + constructor; [apply ntw_status|constructor].
            + apply Pinv_other; [exact P|]. intros; discriminate.
            + reflexivity.
          - exists []. rewrite app_nil_r. split; [|split; [constructor|split; [constructor|split; [exact P|reflexivity]]]].
            eapply emits_nil_r; [apply (emits_item_noev s (IDeliv d)); intros e; discriminate|apply emits_same; reflexivity]. }
        destruct E3 as [es3 [E3 [F3 [N3 [P3 A3]]]]].
        destruct (memn (s_id d) ids) eqn:M.
        * apply memn_In in M.
          destruct (wait_update_spec c g ids s3 w (s_id d) M (proj1 P3)) as [A4 U].
          destruct (wait_update c g ids s3 w (s_id d)) as [s4 w4]. cbn [fst snd] in *.
          assert (E4 : exists es4, emits s3 s4 es4 /\ Forall (wait_ev g ids) es4 /\ Forall ntw es4 /\
                         Pinv ids ((es0 ++ es3) ++ es4) (w_pending w4)).
          { destruct U as [[U1 U2]|[[st [U1 [U2 [U3 [U4 U5]]]]]|[U1 [U2 U3]]]].
            - exists []. rewrite app_nil_r, U2. split; [exact U1|]. split; [constructor|]. split; [constructor|exact P3].
            - exists [EWait g (s_id d) st]. split; [exact U3|]. split; [constructor; [apply wait_ev_in; exact M|constructor]|].
              split; [constructor; [apply ntw_wait; exact U2|constructor]|].
              apply (Pinv_drop ids _ (w_pending w) _ g (s_id d) st P3 U1 U4 U5).
            - exists [EWait g (s_id d) WPending]. split; [exact U1|]. split; [constructor; [apply wait_ev_in; exact M|constructor]|].
              split; [constructor; [apply ntw_wait; discriminate|constructor]|].
              rewrite U3. apply Pinv_add; assumption. }
          destruct E4 as [es4 [E4 [F4 [N4 P4]]]].
          destruct (IH s4 w4 ((es0 ++ es3) ++ es4) P4) as [es5 [E5 [F5 [N5 [P5 A5]]]]].
          exists (es3 ++ es4 ++ es5). split; [|split; [|split; [|split]]].
          -- eapply emits_trans; [exact E3|]. eapply emits_trans; [exact E4|exact E5].
          -- apply Forall_app. split; [exact F3|]. apply Forall_app. split; assumption.
          -- apply Forall_app. split; [exact N3|]. apply Forall_app. split; assumption.
          -- rewrite !app_assoc. rewrite <- !app_assoc in P5. rewrite !app_assoc in P5. exact P5.
          -- congruence.
        * destruct (IH s3 w (es0 ++ es3) P3) as [es5 [E5 [F5 [N5 [P5 A5]]]]].
          exists (es3 ++ es5). split; [|split; [|split; [|split]]].
          -- eapply emits_trans; [exact E3|exact E5].
          -- apply Forall_app. split; assumption.
          -- apply Forall_app. split; assumption.
          -- rewrite app_assoc. exact P5.
          -- congruence.
  Qed.

  Definition has_to (c : wcond) : bool :=
    match c with AllCurrent => o_rec_timeout (sc_opts sc) | AllNotFound => o_prune_timeout (sc_opts sc) end.

  (* the events of a wait phase *)
  Definition wspec (c : wcond) (g : gname) (ids : list id) (body : list evt) (aborted : bool) : Prop :=
    exists es1 es2 pending,
      body = es1 ++ es2 /\ Forall (wait_ev g ids) es1 /\ Forall ntw es1 /\
      (forall i, In i ids -> exists st, In (EWait g i st) es1) /\
      Pinv ids es1 pending /\
      ( (pending = [] /\ es2 = [])
      \/ (pending <> [] /\ has_to c = true /\ es2 = map (fun i => EWait g i WTimedOut) pending)
      \/ (pending <> [] /\ es2 = [] /\ aborted = true) ).

  Lemma wspec_mk c g ids es1 es2 pending ab :
    Forall (wait_ev g ids) es1 -> Forall ntw es1 -> (forall i, In i ids -> exists st, In (EWait g i st) es1) ->
    Pinv ids es1 pending ->
    ( (pending = [] /\ es2 = [])
      \/ (pending <> [] /\ has_to c = true /\ es2 = map (fun i => EWait g i WTimedOut) pending)
      \/ (pending <> [] /\ es2 = [] /\ ab = true) ) ->
    wspec c g ids (es1 ++ es2) ab.
  Proof. intros A B C D E. exists es1, es2, pending. auto 10. Qed.

  Theorem wait_task_spec c g ids s : NoDup ids ->
    exists body, emits s (wait_task sc c g ids s) body /\ wspec c g ids body (r_abort (wait_task sc c g ids s)).
  Proof.
    intros ND. unfold wait_task. cbv zeta.
    destruct (wait_start_spec c g ids s ND) as [esA [EA [FA [NA [PA AA]]]]].
    destruct (wait_start c g ids s) as [s1 w1]. cbn [fst snd] in *.
    destruct (start_events_body g ids esA FA) as [SA1 SA2].
    specialize (SA1 ids (fun x Hx => Hx)).
    assert (RS : forall s' body, emits s s' body -> emits s (wait_reset sc c ids s') body).
    { intros s' body E. rewrite <- (app_nil_r body). eapply emits_trans; [exact E|]. apply emits_same. apply wait_reset_tr. }
    destruct (w_pending w1) eqn:EP1.
    { exists (esA ++ []). split; [rewrite app_nil_r; apply RS; exact EA|]. apply (wspec_mk c g ids esA [] []); auto. }
    rewrite <- EP1 in *.
    assert (NE1 : w_pending w1 <> []) by (rewrite EP1; discriminate). clear EP1.
    destruct (match e_watch_err_at (sc_env sc) with Some n => Nat.eqb n (snd g) | None => false end).
    { exists (esA ++ []). split; [rewrite app_nil_r; eapply emits_nil_r; [exact EA|apply e_set_abort]|].
      apply (wspec_mk c g ids esA [] (w_pending w1)); auto. }
    destruct (deliver_spec c g ids (w_deliv (nth (snd g) (e_waits (sc_env sc)) (mkW [] WTimeout))) s1 w1 esA PA)
      as [esB [EB [FB [NB [PB AB]]]]].
    destruct (deliver sc c g ids _ s1 w1) as [s2 w2]. cbn [fst snd] in *.
    assert (F1 : Forall (wait_ev g ids) (esA ++ esB)) by (apply Forall_app; split; assumption).
    assert (N1 : Forall ntw (esA ++ esB)) by (apply Forall_app; split; assumption).
    assert (X1 : forall j, In j ids -> exists st, In (EWait g j st) (esA ++ esB)).
    { intros j Hj. destruct (SA2 j Hj) as [st H]. exists st. apply in_or_app. left. exact H. }
    assert (E12 : emits s s2 (esA ++ esB)) by (exact (emits_trans _ _ _ _ _ EA EB)).
    destruct (w_pending w2) eqn:EP2.
    { exists ((esA ++ esB) ++ []). split; [rewrite app_nil_r; apply RS; exact E12|]. apply (wspec_mk c g ids (esA ++ esB) [] []); auto. }
    rewrite <- EP2 in *.
    assert (NE2 : w_pending w2 <> []) by (rewrite EP2; discriminate). clear EP2.
    assert (ABORT : exists body, emits s (set_abort s2) body /\ wspec c g ids body (r_abort (set_abort s2))).
    { exists ((esA ++ esB) ++ []). split; [rewrite app_nil_r; eapply emits_nil_r; [exact E12|apply e_set_abort]|].
      apply (wspec_mk c g ids (esA ++ esB) [] (w_pending w2)); auto. }
    fold (has_to c).
    destruct (w_end _); [|exact ABORT].
    destruct (has_to c) eqn:HT; [|exact ABORT].
    exists ((esA ++ esB) ++ map (fun i => EWait g i WTimedOut) (w_pending w2)). split.
    - apply RS. eapply emits_trans; [exact E12|apply wait_timeout_events].
    - apply (wspec_mk c g ids (esA ++ esB) _ (w_pending w2)); auto.
  Qed.
End Wait.
