(* Monitors of Corr/CorrPipeline.v as theorems about the model, part 0: the
   anatomy of a run.  `plan_of sc c0` (the plan the monitors recompute from the
   initial cluster) IS the plan of the run; the run state is one of four shapes
   (fatal read error, exit-early validation, cancelled before the first task,
   task list run from a known start state). *)
From Coq Require Import List Bool Arith NArith ZArith Lia Permutation.
From CliUtils Require Import Model.ObjSet Model.ActuationTable Model.PipelineTypes Model.Pipeline
     Proofs.ObjSetProofs Proofs.PipelineBase Proofs.PipelineAuth Proofs.PipelineEvents
     Corr.CorrPipeline Proofs.PipelineOrphansBase Proofs.PipelineOrphansPlan.
Import ListNotations.

(* fields other than the read counters *)
Definition same6 (s s' : rst) : Prop :=
  r_cl s' = r_cl s /\ r_tbl s' = r_tbl s /\ r_cache s' = r_cache s /\ r_aband s' = r_aband s /\
  r_tr s' = r_tr s /\ r_abort s' = r_abort s.

Lemma same6_refl s : same6 s s.
Proof. repeat split. Qed.
Lemma same6_trans a b c : same6 a b -> same6 b c -> same6 a c.
Proof. unfold same6. intuition congruence. Qed.

Section Shape.
  Variable sc : scenario.

  Lemma same6_inv_list s : same6 s (fst (inv_list sc s)).
  Proof. unfold inv_list. destruct (faulted sc _); repeat split. Qed.
  Lemma same6_get_obj s i : same6 s (fst (get_obj sc s i)).
  Proof.
    unfold get_obj. destruct (faulted sc _); [repeat split|]. destruct (find_obj _ _); repeat split.
  Qed.
  Lemma same6_fetch_all ids : forall s, same6 s (fst (fetch_all sc s ids)).
  Proof.
    induction ids as [|i t IH]; intros s; cbn [fetch_all]; [apply same6_refl|].
    destruct (negb (kind_known sc (r_known s) i)); [apply IH|].
    pose proof (same6_get_obj s i) as G. destruct (get_obj sc s i) as [s1 g]. cbn [fst] in G.
    destruct g; cbn [fst]; [exact G|eapply same6_trans; [exact G|apply IH]|].
    specialize (IH s1). destruct (fetch_all sc s1 t) as [s2 r]. cbn [fst] in *. eapply same6_trans; eassumption.
  Qed.

  (* registration touches the table only *)
  Lemma register_fields pl s :
    r_cl (register sc pl s) = r_cl s /\ r_cache (register sc pl s) = r_cache s /\
    r_aband (register sc pl s) = r_aband s /\ r_tr (register sc pl s) = r_tr s /\
    r_abort (register sc pl s) = r_abort s.
  Proof.
    unfold register.
    assert (F : forall (l : list pobj) st a s0,
               let s' := fold_left (fun s p => rec_add s (p_id p) st a 0%N 0%Z) l s0 in
               r_cl s' = r_cl s0 /\ r_cache s' = r_cache s0 /\ r_aband s' = r_aband s0 /\ r_tr s' = r_tr s0 /\
               r_abort s' = r_abort s0).
    { induction l as [|q t IH]; intros st a s0; cbn [fold_left]; [repeat split|].
      destruct (IH st a (rec_add s0 (p_id q) st a 0%N 0%Z)) as [A [B [C [D E]]]]. cbv zeta. repeat split; assumption. }
    pose proof (F (pl_apply pl) SApply APending s) as F1. cbv zeta in F1.
    set (s1 := fold_left (fun s p => rec_add s (p_id p) SApply APending 0%N 0%Z) (pl_apply pl) s) in *.
    pose proof (F (pl_prune pl) SDelete APending s1) as F2. cbv zeta in F2.
    assert (F12 : forall s2, s2 = (if o_prune (sc_opts sc)
                                   then fold_left (fun s p => rec_add s (p_id p) SDelete APending 0%N 0%Z) (pl_prune pl) s1
                                   else s1) ->
                  r_cl s2 = r_cl s /\ r_cache s2 = r_cache s /\ r_aband s2 = r_aband s /\ r_tr s2 = r_tr s /\
                  r_abort s2 = r_abort s).
    { intros s2 ->. destruct (o_prune (sc_opts sc)); [|exact F1]. intuition congruence. }
    specialize (F12 _ eq_refl).
    destruct (negb (o_destroy (sc_opts sc)) && negb (o_prune (sc_opts sc))); [|exact F12].
    match goal with |- context [fold_left ?f (pl_prune_all pl) ?s2] =>
      pose proof (F (pl_prune_all pl) SDelete ASkipped s2) as F3 end.
    cbv zeta in F3. intuition congruence.
  Qed.

  (* ---- the prune candidates as read from the cluster ------------------------------- *)
  (* (candidates whose kind a freshly reset mapper does not know are skipped without a read) *)
  Definition found_in (cl : cluster) (ids : list id) : list cobj :=
    flat_map (fun i => if kind_known sc (live_crds sc cl) i
                       then match find_obj (objs cl) i with Some c => [c] | None => [] end
                       else []) ids.

  Lemma fetch_all_exact ids : forall s found, r_known s = live_crds sc (r_cl s) ->
    snd (fetch_all sc s ids) = Some found -> found = found_in (r_cl s) ids.
  Proof.
    induction ids as [|i t IH]; intros s found HK E; cbn [fetch_all] in E.
    - cbn in E. injection E as <-. reflexivity.
    - cbn [found_in flat_map]. fold (found_in (r_cl s) t). rewrite <- HK.
      destruct (kind_known sc (r_known s) i); cbn [negb] in E; [|cbn [app]; apply IH; assumption].
      unfold get_obj in E. destruct (faulted sc _); [cbn in E; discriminate|].
      destruct (find_obj (objs (r_cl s)) i) as [c|] eqn:F.
      + match type of E with context [fetch_all sc ?s1 t] =>
          specialize (IH s1); destruct (fetch_all sc s1 t) as [s2 r] end.
        cbn [snd] in *. destruct r as [r|]; [|discriminate]. cbn in E. injection E as <-.
        cbn [app]. f_equal. apply (IH r HK eq_refl).
      + cbn [app]. apply (IH _ found) in E; [exact E|exact HK].
  Qed.

  Lemma found_in_In_iff cl ids c : In c (found_in cl ids) <->
    In (c_id c) ids /\ find_obj (objs cl) (c_id c) = Some c /\ kind_known sc (live_crds sc cl) (c_id c) = true.
  Proof.
    unfold found_in. rewrite in_flat_map. split.
    - intros [i [Hi H]]. destruct (kind_known sc (live_crds sc cl) i) eqn:K; [|destruct H].
      destruct (find_obj (objs cl) i) as [c'|] eqn:F; [|destruct H].
      destruct H as [<-|[]]. pose proof (find_obj_id _ _ _ F) as E. subst i. auto.
    - intros [Hi [F K]]. exists (c_id c). split; [exact Hi|]. rewrite K, F. left. reflexivity.
  Qed.
  Lemma found_in_In cl ids c : In c (found_in cl ids) -> In (c_id c) ids /\ find_obj (objs cl) (c_id c) = Some c.
  Proof. intros H. apply found_in_In_iff in H. tauto. Qed.

  Lemma found_in_NoDup cl ids : NoDup ids -> NoDup (map c_id (found_in cl ids)).
  Proof.
    induction 1 as [|i t Hi Ht IH]; cbn; [constructor|].
    fold (found_in cl t). destruct (kind_known sc (live_crds sc cl) i); [|exact IH].
    destruct (find_obj (objs cl) i) as [c|] eqn:F; cbn [app map]; [|exact IH].
    constructor; [|exact IH]. pose proof (find_obj_id _ _ _ F) as E. rewrite E.
    intros H. apply in_map_iff in H. destruct H as [c' [E' H]]. apply found_in_In in H. rewrite E' in H. tauto.
  Qed.
End Shape.

Section Shape2.
  Variable sc : scenario.
  Variable c0 : cluster.

  Definition locals_of : list lobj := if o_destroy (sc_opts sc) then [] else sc_local sc.
  Definition cand_of : list id := sortn (diffn (prev_of c0) (map l_id locals_of)).

  Lemma plan_of_eq : plan_of sc c0 = build_plan sc (live_crds sc c0) locals_of (found_in sc c0 cand_of).
  Proof. reflexivity. Qed.

  Notation pl := (plan_of sc c0).

  Definition init_ev : evt := EInit (map (fun t => (task_name t, task_ids pl t)) (tasks_of sc pl)).
  Definition pre_tasks (s4 : rst) : rst :=
    ev (fold_left (fun s e => ev s (EValidation (sortn e))) (pl_valerrs pl) s4) init_ev.

  Record start_ok (s4 : rst) : Prop := mkStart {
    so_cl : r_cl s4 = c0;
    so_tr : r_tr s4 = [];
    so_abort : r_abort s4 = false;
    so_aband : r_aband s4 = [];
    so_cache : r_cache s4 = [];
    so_tbl : exists s2, r_tbl s2 = [] /\ r_tbl s4 = r_tbl (register sc pl s2)
  }.

  Inductive run_shape : rst -> Prop :=
  | rs_fatal s : r_cl s = c0 -> r_tr s = [] -> run_shape (ev s EError)
  | rs_exit s : r_cl s = c0 -> r_tr s = [] ->
      o_valpol (sc_opts sc) = VExitEarly -> pl_valerrs pl <> [] -> run_shape (ev s EError)
  | rs_cancel s4 : start_ok s4 -> e_cancel (sc_env sc) = CBeforeSync ->
      (o_valpol (sc_opts sc) = VExitEarly -> pl_valerrs pl = []) ->
      run_shape (ev (pre_tasks s4) EError)
  | rs_tasks s4 prev : start_ok s4 -> e_cancel (sc_env sc) <> CBeforeSync ->
      (o_valpol (sc_opts sc) = VExitEarly -> pl_valerrs pl = []) ->
      (prev = None \/ prev = Some (prev_of c0)) ->
      run_shape (run_tasks sc pl locals_of prev (pre_tasks s4) (tasks_of sc pl)).

  Lemma run_state_shape : run_shape (run_state sc c0).
  Proof.
    unfold run_state. cbv zeta.
    pose proof (same6_inv_list sc (init_state sc c0)) as L1. pose proof (inv_list_res sc (init_state sc c0)) as R1.
    pose proof (known_inv_list sc (init_state sc c0)) as KN1.
    destruct (inv_list sc (init_state sc c0)) as [s1 r1]. cbn [fst snd] in *.
    destruct L1 as [C1 [B1 [K1 [A1 [T1 X1]]]]]. cbn [init_state r_cl r_tbl r_cache r_aband r_tr r_abort r_known] in *.
    destruct r1 as [st|]; [|apply rs_fatal; assumption].
    specialize (R1 st eq_refl). subst st. fold (prev_of c0). fold locals_of. fold cand_of.
    pose proof (same6_fetch_all sc cand_of s1) as L2. pose proof (fetch_all_exact sc cand_of s1) as FE.
    pose proof (known_fetch_all sc cand_of s1) as KN2.
    destruct (fetch_all sc s1 cand_of) as [s2 r2]. cbn [fst snd] in *.
    destruct L2 as [C2 [B2 [K2 [A2 [T2 X2]]]]].
    destruct r2 as [pobjs|]; [|apply rs_fatal; congruence].
    assert (HK1 : r_known s1 = live_crds sc (r_cl s1)) by (rewrite KN1, C1; reflexivity).
    specialize (FE pobjs HK1 eq_refl). rewrite C1 in FE. subst pobjs.
    replace (r_known s2) with (live_crds sc c0) by (rewrite KN2, KN1; reflexivity). rewrite <- plan_of_eq.
    pose proof (register_fields sc pl s2) as [C3 [K3 [A3 [T3 X3]]]].
    pose proof (same6_inv_list sc (register sc pl s2)) as L4. pose proof (inv_list_res sc (register sc pl s2)) as R4.
    destruct (inv_list sc (register sc pl s2)) as [s4 r4]. cbn [fst snd] in *.
    destruct L4 as [C4 [B4 [K4 [A4 [T4 X4]]]]].
    assert (SO : start_ok s4).
    { constructor; try congruence. exists s2. split; congruence. }
    assert (PV : option_map (fun st0 : option (list id) => match st0 with Some l => l | None => [] end) r4 = None \/
                 option_map (fun st0 : option (list id) => match st0 with Some l => l | None => [] end) r4 = Some (prev_of c0)).
    { destruct r4 as [x|]; [right|left; reflexivity]. specialize (R4 x eq_refl).
      rewrite C3, C2, C1 in R4. subst x. reflexivity. }
    assert (TASKS : (o_valpol (sc_opts sc) = VExitEarly -> pl_valerrs pl = []) ->
              run_shape (match e_cancel (sc_env sc) with
                         | CBeforeSync => ev (pre_tasks s4) EError
                         | _ => run_tasks sc pl locals_of
                                  (option_map (fun st0 : option (list id) => match st0 with Some l => l | None => [] end) r4)
                                  (pre_tasks s4) (tasks_of sc pl)
                         end)).
    { intros HV. destruct (e_cancel (sc_env sc)) eqn:EC.
      - apply rs_tasks; [exact SO|rewrite EC; discriminate|exact HV|exact PV].
      - apply rs_cancel; assumption.
      - apply rs_tasks; [exact SO|rewrite EC; discriminate|exact HV|exact PV]. }
    unfold pre_tasks, init_ev in TASKS.
    destruct (o_valpol (sc_opts sc)) eqn:EV; destruct (pl_valerrs pl) eqn:EE.
    - apply TASKS. reflexivity.
    - apply rs_exit; [congruence|congruence|exact EV|rewrite EE; discriminate].
    - apply TASKS. discriminate.
    - apply TASKS. discriminate.
  Qed.

  (* the trace of the run, in terms of the run state *)
  Lemma out_trace_run : out_trace (run sc c0) = rev (r_tr (run_state sc c0)) ++ [IClosed].
  Proof. apply run_trace. Qed.
  Lemma out_final_run : out_final (run sc c0) = norm_cluster (r_cl (run_state sc c0)).
  Proof. rewrite (run_is_finish sc). reflexivity. Qed.

  (* ---- the plan under the only hypothesis the monitors need: an apply set names each object once *)
  Definition locals_nodup : Prop := o_destroy (sc_opts sc) = false -> NoDup (map l_id (sc_local sc)).

  Hypothesis HND : locals_nodup.

  Lemma locals_of_NoDup : NoDup (map l_id locals_of).
  Proof. unfold locals_of. destruct (o_destroy (sc_opts sc)) eqn:ED; [constructor|apply HND; exact ED]. Qed.
  Lemma cand_of_NoDup : NoDup cand_of.
  Proof. unfold cand_of. apply sortn_NoDup. apply (diff_NoDup nat Nat.eqb nat_eqb_spec). Qed.
  Lemma pobjs_NoDup : NoDup (map c_id (found_in sc c0 cand_of)).
  Proof. apply found_in_NoDup. exact cand_of_NoDup. Qed.
  Lemma pobjs_disj c : In c (found_in sc c0 cand_of) -> ~ In (c_id c) (map l_id locals_of).
  Proof.
    intros H. apply found_in_In in H. destruct H as [H _]. unfold cand_of in H.
    apply (proj1 (sortn_In _ _)) in H. apply (proj1 (diffn_In _ _ _)) in H. tauto.
  Qed.

  Lemma plan_layers :
    NoDup (map p_id (concat (pl_apply_layers pl)) ++ map p_id (concat (pl_prune_layers pl))) /\
    (forall j, In j (map p_id (concat (pl_apply_layers pl))) <-> In j (apply_ids pl)) /\
    (forall j, In j (map p_id (concat (pl_prune_layers pl))) <-> In j (map p_id (pl_prune pl))).
  Proof. rewrite plan_of_eq. apply bp_layers; [exact locals_of_NoDup|exact pobjs_NoDup|exact pobjs_disj]. Qed.
End Shape2.
