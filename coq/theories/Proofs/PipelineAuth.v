(* C02 / C11: every mutating request of the model's run is authorised.
   One traversal of the run with a state invariant (table strategies, stored
   inventory) and a per-request predicate that states, for the plan of the run:
   - apply requests and the inventory-namespace create target valid apply objects;
   - annotation-removal updates target prune objects carrying a deletion-prevention annotation;
   - deletes target valid prune objects that passed the filter chain, carry the
     plan-time UID as precondition and the configured propagation policy;
   - inventory writes add no invalid id that was not tracked before. *)
From Coq Require Import List Bool Arith NArith ZArith Lia.
From CliUtils Require Import Model.ObjSet Model.ActuationTable Model.PipelineTypes Model.Pipeline
     Proofs.ObjSetProofs Proofs.PipelineBase.
Import ListNotations.

Lemma nat_eqb_spec : forall x y, Nat.eqb x y = true <-> x = y.
Proof. intros; apply Nat.eqb_eq. Qed.

Lemma memn_In x l : memn x l = true <-> In x l.
Proof. apply (mem_In nat Nat.eqb nat_eqb_spec). Qed.
Lemma unionn_In a b x : In x (unionn a b) <-> In x a \/ In x b.
Proof. apply (union_In nat Nat.eqb nat_eqb_spec). Qed.
Lemma intern_In a b x : In x (intern a b) <-> In x a /\ In x b.
Proof. apply (intersection_In nat Nat.eqb nat_eqb_spec). Qed.
Lemma diffn_In a b x : In x (diffn a b) <-> In x a /\ ~ In x b.
Proof. apply (diff_In nat Nat.eqb nat_eqb_spec). Qed.

Lemma insn_In x l y : In y (insn x l) <-> y = x \/ In y l.
Proof.
  induction l as [|h t IH]; cbn; [intuition|].
  destruct (Nat.leb x h); cbn; rewrite ?IH; intuition.
Qed.
Lemma sortn_In l y : In y (sortn l) <-> In y l.
Proof.
  induction l as [|h t IH]; cbn; [tauto|]. rewrite insn_In, IH. intuition.
Qed.

Section Auth.
  Variable sc : scenario.
  Variable pl : plan.
  Variable locals : list lobj.
  Variable prev0 : list id.          (* the inventory as stored before the run *)

  Let o := sc_opts sc.
  Definition apply_ids : list id := map p_id (pl_apply pl).

  (* hypotheses on the plan, discharged for build_plan below *)
  Hypothesis apply_valid : forall i, In i apply_ids -> ~ In i (pl_invalid pl).

  (* what the filter chain establishes for an object that is deleted *)
  Definition delete_ok (c : cobj) (uids : list N) : Prop :=
    c_keep c = false /\ can_prune sc (c_owner c) = true /\
    (o_destroy o = false -> u_kind (uinfo_of sc (c_id c)) = KNs -> ns_in_use sc locals (c_id c) = false) /\
    ~ In (c_uid c) uids.

  Definition inv_keys_ok (l : list id) : Prop :=
    forall i, In i l -> In i (pl_invalid pl) -> In i prev0.

  Definition Qa (it : item) : Prop :=
    match it with
    | IReq r _ _ _ =>
        match r with
        | RNsCreate i | RCreate i _ | RPatch i _ _ => In i apply_ids
        | RUpdate i => exists c, In (pobj_of_live c) (pl_prune pl) /\ c_id c = i /\ c_keep c = true
        | RDelete i pre p =>
            exists c uids, In (pobj_of_live c) (pl_prune pl) /\ c_id c = i /\ delete_ok c uids /\
                           pre = c_uid c /\ p = o_prop o
        | RInvCreate l | RInvUpdate l => inv_keys_ok l
        | RInvDelete => True
        end
    | _ => True
    end.

  (* state invariant *)
  Notation Ia s :=
    ((forall r, In r (r_tbl s) -> r_str r = SApply -> In (r_id r) apply_ids) /\
     (forall l, inv (r_cl s) = Some l -> inv_keys_ok l)).

  Definition stepa (s s' : rst) : Prop :=
    Ia s -> Ia s' /\ exists l, r_tr s' = l ++ r_tr s /\ Forall Qa l.

  Lemma stepa_refl s : stepa s s.
  Proof. unfold stepa in *. intros H. split; [exact H|]. exists []. split; [reflexivity|constructor]. Qed.
  Lemma stepa_trans a b c : stepa a b -> stepa b c -> stepa a c.
  Proof. unfold stepa in *.
    intros H1 H2 I0. destruct (H1 I0) as [I1 [l1 [E1 F1]]]. destruct (H2 I1) as [I2 [l2 [E2 F2]]].
    split; [exact I2|]. exists (l2 ++ l1). split; [rewrite E2, E1, app_assoc; reflexivity|].
    apply Forall_app; split; assumption.
  Qed.
  (* operations that change neither table, cluster inventory nor trace *)
  Lemma stepa_same s s' : r_tbl s' = r_tbl s -> inv (r_cl s') = inv (r_cl s) -> r_tr s' = r_tr s -> stepa s s'.
  Proof. unfold stepa in *.
    intros Ht Hi Htr [I1 I2]. split; [split|].
    - rewrite Ht. exact I1.
    - rewrite Hi. exact I2.
    - exists []. split; [exact Htr|constructor].
  Qed.
  Lemma stepa_ev s e : stepa s (ev s e).
  Proof. unfold stepa in *.
    intros [I1 I2]. split; [split; assumption|]. exists [IEv e]. split; [reflexivity|]. constructor; [exact I|constructor].
  Qed.
  Lemma stepa_emit_deliv s d : stepa s (emit s (IDeliv d)).
  Proof. unfold stepa in *.
    intros [I1 I2]. split; [split; assumption|]. exists [IDeliv d]. split; [reflexivity|]. constructor; [exact I|constructor].
  Qed.

  Lemma set_status_In (t : table id) n r :
    In r (set_status Nat.eqb t n) -> r = n \/ In r t.
  Proof.
    induction t as [|x t IH]; simpl.
    - intros [H|H]; [left; symmetry; exact H|destruct H].
    - destruct (Nat.eqb _ _); simpl.
      + intros [H|H]; [left; symmetry; exact H|right; right; exact H].
      + intros [H|H]; [right; left; exact H|]. destruct (IH H) as [H'|H']; [left; exact H'|right; right; exact H'].
  Qed.
  Lemma set_reconcile_In (t : table id) i rc t' r :
    set_reconcile Nat.eqb t i rc = Some t' -> In r t' ->
    exists r0, In r0 t /\ r_id r = r_id r0 /\ r_str r = r_str r0.
  Proof.
    revert t'. induction t as [|x t IH]; simpl; intros t' E H; [discriminate|].
    destruct (Nat.eqb _ i).
    - injection E as E. subst t'. destruct H as [H|H].
      + subst r. exists x. simpl. auto.
      + exists r. simpl. auto.
    - destruct (set_reconcile Nat.eqb t i rc) as [t''|]; [|discriminate]. injection E as E. subst t'.
      destruct H as [H|H].
      + subst r. exists x. simpl. auto.
      + destruct (IH _ eq_refl H) as [r0 [A B]]. exists r0. simpl. auto.
  Qed.

  Lemma stepa_rec_add s i st a u g : (st = SApply -> In i apply_ids) -> stepa s (rec_add s i st a u g).
  Proof. unfold stepa in *.
    intros Hi [I1 I2]. split; [split|].
    - intros r Hr Hs. cbn in Hr. apply set_status_In in Hr. destruct Hr as [->|Hr]; [cbn in *; auto|auto].
    - exact I2.
    - exists []. split; [reflexivity|constructor].
  Qed.
  Lemma stepa_rec_reconcile s i rc : stepa s (rec_reconcile s i rc).
  Proof.
    unfold rec_reconcile. destruct (set_reconcile Nat.eqb (r_tbl s) i rc) as [t|] eqn:E; [|apply stepa_refl].
    unfold stepa. intros [I1 I2]. split; [split|].
    - intros r Hr Hs. cbn in Hr. destruct (set_reconcile_In _ _ _ _ _ E Hr) as [r0 [A [B C]]].
      unfold id in *. rewrite B. apply I1; [exact A|congruence].
    - exact I2.
    - exists []. split; [reflexivity|constructor].
  Qed.
  Lemma stepa_set_cache s c : stepa s (set_cache s c).
  Proof. apply stepa_same; reflexivity. Qed.
  Lemma stepa_add_aband s i : stepa s (add_aband s i).
  Proof. apply stepa_same; reflexivity. Qed.
  Lemma stepa_set_abort s : stepa s (set_abort s).
  Proof. apply stepa_same; reflexivity. Qed.
  Lemma stepa_maybe_cancel s i : stepa s (maybe_cancel sc s i).
  Proof.
    unfold maybe_cancel. destruct (e_cancel (sc_env sc)); try apply stepa_refl.
    destruct (Nat.eqb i i0); [apply stepa_set_abort|apply stepa_refl].
  Qed.
  Lemma stepa_inv_list s : stepa s (fst (inv_list sc s)).
  Proof. unfold inv_list. destruct (faulted sc _); cbn [fst]; apply stepa_same; reflexivity. Qed.
  Lemma stepa_get_obj s i : stepa s (fst (get_obj sc s i)).
  Proof.
    unfold get_obj. destruct (faulted sc _); cbn [fst]; [apply stepa_same; reflexivity|].
    destruct (find_obj _ _); cbn [fst]; apply stepa_same; reflexivity.
  Qed.

  (* a logged request on a cluster whose stored inventory is unchanged *)
  Lemma stepa_req s s1 r ok :
    r_tbl s1 = r_tbl s -> inv (r_cl s1) = inv (r_cl s) -> r_tr s1 = r_tr s ->
    Qa (IReq r ok (managed (r_cl s1)) (stored (r_cl s1))) -> stepa s (log_req s1 r ok).
  Proof. unfold stepa in *.
    intros Ht Hi Htr HQ [I1 I2]. split; [split|].
    - cbn. rewrite Ht. exact I1.
    - cbn. rewrite Hi. exact I2.
    - exists [IReq r ok (managed (r_cl s1)) (stored (r_cl s1))]. split; [cbn; rewrite Htr; reflexivity|].
      constructor; [exact HQ|constructor].
  Qed.

  Lemma stepa_fold {A} (f : rst -> A -> rst) (l : list A) :
    (forall s a, In a l -> stepa s (f s a)) -> forall s, stepa s (fold_left f l s).
  Proof.
    induction l as [|a l IH]; intros H s; cbn; [apply stepa_refl|].
    eapply stepa_trans; [apply H; left; reflexivity|]. apply IH. intros; apply H; right; assumption.
  Qed.

  (* ---- inventory writes --------------------------------------------------- *)
  Lemma inv_keys_sort l : inv_keys_ok l -> inv_keys_ok (sortn l).
  Proof. intros H i Hi. apply H. apply sortn_In. exact Hi. Qed.

  Lemma stepa_inv_apply s ids : inv_keys_ok ids -> stepa s (fst (inv_apply sc s ids)).
  Proof.
    intros Hk. unfold inv_apply. cbv zeta.
    destruct (faulted sc (FInvGet _)); cbn [fst]; [apply stepa_same; reflexivity|].
    destruct (faulted sc (FInvWrite _)); cbn [fst].
    - apply stepa_req; try reflexivity. destruct (inv (r_cl s)); cbn; apply inv_keys_sort; exact Hk.
    - unfold stepa. intros [I1 I2]. split; [split|].
      + exact I1.
      + cbn. intros l [= <-]. apply inv_keys_sort. exact Hk.
      + eexists [_]. split; [reflexivity|]. constructor; [|constructor].
        destruct (inv (r_cl s)); cbn; apply inv_keys_sort; exact Hk.
  Qed.

  Lemma stepa_inv_update s ids : inv_keys_ok ids -> stepa s (fst (inv_update sc s ids)).
  Proof.
    intros Hk. unfold inv_update. cbv zeta.
    destruct (faulted sc (FInvWrite _)); cbn [fst].
    - apply stepa_req; try reflexivity. cbn. apply inv_keys_sort. exact Hk.
    - cbn [r_cl]. destruct (inv (r_cl s)) eqn:EI; cbn [fst].
      + unfold stepa. intros [I1 I2]. split; [split|].
        * exact I1.
        * cbn. intros l0 [= <-]. apply inv_keys_sort. exact Hk.
        * eexists [_]. split; [reflexivity|]. constructor; [|constructor]. cbn. apply inv_keys_sort. exact Hk.
      + apply stepa_req; try reflexivity. cbn. apply inv_keys_sort. exact Hk.
  Qed.

  Lemma apply_ids_keys_ok : inv_keys_ok apply_ids.
  Proof. intros i Hi Hinv. exfalso. exact (apply_valid i Hi Hinv). Qed.

  Lemma stepa_merge s : stepa s (fst (merge sc s apply_ids)).
  Proof. unfold stepa in *.
    unfold merge. cbv zeta. intros I0.
    pose proof (stepa_inv_list s I0) as L1.
    destruct (inv_list sc s) as [s1 r1] eqn:E1. cbn [fst] in L1.
    assert (R1 : r1 = None \/ r1 = Some (inv (r_cl s)) /\ r_cl s1 = r_cl s).
    { unfold inv_list in E1. destruct (faulted sc _); injection E1 as <- <-; auto. }
    destruct r1 as [[l|]|]; cbn [fst]; try exact L1.
    - destruct L1 as [I1 [l1 [T1 F1]]].
      pose proof (stepa_inv_list s1 I1) as L2.
      destruct (inv_list sc s1) as [s2 r2] eqn:E2. cbn [fst] in L2.
      assert (R2 : r2 = None \/ r2 = Some (inv (r_cl s1)) /\ r_cl s2 = r_cl s1).
      { unfold inv_list in E2. destruct (faulted sc _); injection E2 as <- <-; auto. }
      assert (S02 : stepa s s2) by (intros _; destruct L2 as [I2 [l2 [T2 F2]]]; split; [exact I2|];
                                    exists (l2 ++ l1); split; [rewrite T2, T1, app_assoc; reflexivity|apply Forall_app; split; assumption]).
      destruct r2 as [cur0|]; cbn [fst]; [|exact (S02 I0)].
      destruct (set_eqn _ _ && _); cbn [fst]; [exact (S02 I0)|].
      destruct (is_dry _); cbn [fst]; [exact (S02 I0)|].
      refine (stepa_trans _ _ _ S02 (stepa_inv_apply s2 _ _) I0).
      (* the union of the stored keys and the valid apply ids *)
      intros i Hi Hinv. apply unionn_In in Hi. destruct Hi as [Hi|Hi]; [|exfalso; exact (apply_valid i Hi Hinv)].
      destruct R2 as [R2|[R2 C2]]; [discriminate|]. injection R2 as ->.
      destruct L2 as [[_ I2b] _].
      destruct (inv (r_cl s1)) as [cur|] eqn:EC; [|destruct Hi].
      rewrite <- C2 in EC. exact (I2b cur EC i Hi Hinv).
    - destruct (is_dry _); cbn [fst]; [exact L1|].
      destruct L1 as [I1 [l1 [T1 F1]]].
      destruct (stepa_inv_apply s1 apply_ids apply_ids_keys_ok I1) as [I2 [l2 [T2 F2]]].
      split; [exact I2|]. exists (l2 ++ l1). split; [rewrite T2, T1, app_assoc; reflexivity|apply Forall_app; split; assumption].
  Qed.

  (* the final inventory: successful applies and previously tracked ids only *)
  Lemma final_inventory_keys pv s : Ia s -> (forall i, In i pv -> In i prev0) ->
    inv_keys_ok (final_inventory pl pv s).
  Proof.
    intros [I1 _] Hpv i Hi Hinv. unfold final_inventory in Hi.
    repeat (apply unionn_In in Hi; destruct Hi as [Hi|Hi]);
      try (apply intern_In in Hi; destruct Hi as [Hi _]; apply Hpv; exact Hi).
    apply diffn_In in Hi. destruct Hi as [Hi _].
    repeat (apply unionn_In in Hi; destruct Hi as [Hi|Hi]);
      try (apply intern_In in Hi; destruct Hi as [Hi _]; apply Hpv; exact Hi).
    (* a successful apply: a valid apply object *)
    exfalso. unfold with_actuation in Hi. apply in_map_iff in Hi. destruct Hi as [r [<- Hr]].
    apply filter_In in Hr. destruct Hr as [Hr Hc]. apply andb_true_iff in Hc. destruct Hc as [Hs _].
    destruct (r_str r) eqn:ES; [|discriminate].
    exact (apply_valid _ (I1 r Hr ES) Hinv).
  Qed.

  Lemma stepa_replace s ids : inv_keys_ok ids -> stepa s (fst (replace sc s ids)).
  Proof. unfold stepa in *.
    intros Hk. unfold replace. cbv zeta. destruct (is_dry _); cbn [fst]; [apply stepa_refl|].
    intros I0. pose proof (stepa_inv_list s I0) as L1.
    destruct (inv_list sc s) as [s1 r1]. cbn [fst] in L1.
    destruct r1 as [x|]; cbn [fst]; [|exact L1].
    destruct L1 as [I1 [l1 [T1 F1]]].
    pose proof (stepa_inv_list s1 I1) as L2. destruct (inv_list sc s1) as [s2 r2]. cbn [fst] in L2.
    assert (S02 : stepa s s2) by (intros _; destruct L2 as [I2 [l2 [T2 F2]]]; split; [exact I2|];
                                  exists (l2 ++ l1); split; [rewrite T2, T1, app_assoc; reflexivity|apply Forall_app; split; assumption]).
    destruct r2 as [[cur|]|]; cbn [fst]; try exact (S02 I0).
    destruct (set_eqn _ _ && _); cbn [fst]; [exact (S02 I0)|].
    exact (stepa_trans _ _ _ S02 (stepa_inv_update s2 ids Hk) I0).
  Qed.
End Auth.

Section Auth2.
  Variable sc : scenario.
  Variable pl : plan.
  Variable locals : list lobj.
  Variable prev0 : list id.
  Hypothesis apply_valid : forall i, In i (apply_ids pl) -> ~ In i (pl_invalid pl).

  Notation stepa := (stepa sc pl locals prev0).
  Notation Qa := (Qa sc pl locals prev0).

  Ltac tr := eapply (stepa_trans sc pl locals prev0).

  (* the wait machine: table reconcile fields and cache only *)
  Lemma a_handle_changed_uid c g s i : stepa s (handle_changed_uid c g s i).
  Proof. unfold handle_changed_uid. destruct c; (tr; [apply stepa_rec_reconcile|apply stepa_ev]). Qed.

  Lemma a_wait_start c g ids s : stepa s (fst (wait_start c g ids s)).
  Proof.
    unfold wait_start.
    set (stepf := fun (acc : rst * list id) (i : id) => _).
    assert (H : forall l acc, stepa (fst acc) (fst (fold_left stepf l acc))).
    { induction l as [|i l IH]; intros acc; cbn [fold_left]; [apply stepa_refl|].
      tr; [|apply IH]. destruct acc as [s0 pend]. unfold stepf. cbn [fst].
      destruct (w_skipped c s0 i); cbn [fst]; [tr; [apply stepa_rec_reconcile|apply stepa_ev]|].
      destruct (changed_uid s0 i); cbn [fst]; [apply a_handle_changed_uid|].
      destruct (cond_met c s0 i); cbn [fst]; (tr; [apply stepa_rec_reconcile|apply stepa_ev]). }
    specialize (H ids (s, [])). destruct (fold_left stepf ids (s, [])) as [s' pend]. exact H.
  Qed.

  Lemma a_wait_update c g ids s w i : stepa s (fst (wait_update c g ids s w i)).
  Proof.
    unfold wait_update.
    assert (H1 : forall r st, stepa s (ev (rec_reconcile s i r) (EWait g i st)))
      by (intros; tr; [apply stepa_rec_reconcile|apply stepa_ev]).
    pose proof (a_handle_changed_uid c g s i) as H2.
    pose proof (stepa_refl sc pl locals prev0 s) as H0.
    repeat match goal with
           | |- context [if ?b then _ else _] => destruct b
           | |- context [match ?c with AllCurrent => _ | AllNotFound => _ end] => destruct c
           end; cbn [fst]; first [exact H0 | exact H2 | apply H1].
  Qed.

  Lemma a_wait_timeout g s w : stepa s (wait_timeout g s w).
  Proof.
    unfold wait_timeout. apply stepa_fold. intros s0 i _. tr; [apply stepa_rec_reconcile|apply stepa_ev].
  Qed.

  Lemma a_deliver c g ids ds : forall s w, stepa s (fst (deliver sc c g ids ds s w)).
  Proof.
    induction ds as [|d t IH]; intros s w; cbn [deliver]; [apply stepa_refl|].
    destruct (w_pending w); [apply stepa_refl|].
    set (s2 := if o_status_events (sc_opts sc) then ev (emit s (IDeliv d)) (EStatus (s_id d) (s_st d)) else emit s (IDeliv d)).
    set (s3 := set_cache s2 (d :: r_cache s2)).
    assert (S3 : stepa s s3).
    { unfold s3, s2. tr; [|apply stepa_set_cache]. destruct (o_status_events (sc_opts sc)).
      - tr; [apply stepa_emit_deliv|apply stepa_ev].
      - apply stepa_emit_deliv. }
    destruct (memn (s_id d) ids).
    - pose proof (a_wait_update c g ids s3 w (s_id d)) as U.
      destruct (wait_update c g ids s3 w (s_id d)) as [s4 w4]. cbn [fst] in U.
      tr; [exact S3|]. tr; [exact U|apply IH].
    - tr; [exact S3|apply IH].
  Qed.

  Lemma a_wait_reset c ids s : stepa s (wait_reset sc c ids s).
  Proof. apply stepa_same; [apply wait_reset_tbl|rewrite wait_reset_cl; reflexivity|apply wait_reset_tr]. Qed.

  Lemma a_wait_task c g ids s : stepa s (wait_task sc c g ids s).
  Proof.
    unfold wait_task. cbv zeta.
    pose proof (a_wait_start c g ids s) as S1.
    destruct (wait_start c g ids s) as [s1 w1]. cbn [fst] in S1.
    destruct (w_pending w1); [tr; [exact S1|apply a_wait_reset]|].
    destruct (match e_watch_err_at (sc_env sc) with Some n => Nat.eqb n (snd g) | None => false end);
      [tr; [exact S1|apply stepa_set_abort]|].
    pose proof (a_deliver c g ids (w_deliv (nth (snd g) (e_waits (sc_env sc)) (mkW [] WTimeout))) s1 w1) as S2.
    destruct (deliver sc c g ids _ s1 w1) as [s2 w2]. cbn [fst] in S2.
    tr; [exact S1|]. tr; [exact S2|].
    destruct (w_pending w2); [apply a_wait_reset|].
    destruct (w_end _).
    - destruct (match c with AllCurrent => _ | AllNotFound => _ end); [tr; [apply a_wait_timeout|apply a_wait_reset]|apply stepa_set_abort].
    - apply stepa_set_abort.
  Qed.

  (* ---- apply --------------------------------------------------------------- *)
  Section ApplyOf.
    Variable l : lobj.
    Hypothesis Hin : In (l_id l) (apply_ids pl).

    Let MC : forall s0, stepa s0 (maybe_cancel sc s0 (l_id l)).
    Proof. intros; apply stepa_maybe_cancel. Qed.
    Let RQ : forall s0 s1 r ok, r_tbl s1 = r_tbl s0 -> inv (r_cl s1) = inv (r_cl s0) -> r_tr s1 = r_tr s0 ->
                (match r with RCreate i _ | RPatch i _ _ => i = l_id l | _ => False end) ->
                stepa s0 (log_req s1 r ok).
    Proof.
      intros s0 s1 r ok A B C D. apply stepa_req; try assumption.
      destruct r; cbn; try contradiction; subst; exact Hin.
    Qed.

    Lemma a_ssa_patch s n : stepa s (fst (ssa_patch sc s l n)).
    Proof.
      unfold ssa_patch. cbv zeta.
      destruct (faulted sc (FStream _ _)); cbn [fst]; [tr; [apply MC|apply RQ; cbn; auto]|].
      destruct (faulted sc (FApply _)); cbn [fst]; [tr; [apply MC|apply RQ; cbn; auto]|].
      destruct (find_obj _ _); destruct (match o_dry (sc_opts sc) with DServer => true | _ => false end); cbn [fst];
        (tr; [apply MC|apply RQ; cbn; auto]).
    Qed.

    Lemma a_csa_apply s : stepa s (fst (csa_apply sc s l)).
    Proof.
      unfold csa_apply. cbv zeta.
      pose proof (stepa_get_obj sc pl locals prev0 s (l_id l)) as G.
      destruct (get_obj sc s (l_id l)) as [s1 g]. cbn [fst] in G.
      destruct g; cbn [fst]; try exact G.
      + destruct (is_dry _); cbn [fst]; [exact G|].
        destruct (faulted sc _); cbn [fst]; (tr; [exact G|]; tr; [apply MC|apply RQ; cbn; auto]).
      + destruct (negb (patch_needed c l)); cbn [fst]; [exact G|].
        destruct (is_dry _); cbn [fst]; [exact G|].
        destruct (faulted sc _); cbn [fst]; (tr; [exact G|]; tr; [apply MC|apply RQ; cbn; auto]).
    Qed.

    Lemma a_kubectl_apply_l s : stepa s (fst (kubectl_apply sc s l)).
    Proof.
      apply (kubectl_apply_step sc l stepa (stepa_trans sc pl locals prev0) a_ssa_patch a_csa_apply).
    Qed.
  End ApplyOf.

  Lemma a_kubectl_apply s l : In (l_id l) (apply_ids pl) -> stepa s (fst (kubectl_apply sc s l)).
  Proof. intros Hin. apply a_kubectl_apply_l. exact Hin. Qed.

  Lemma a_policy_apply_filter s i : stepa s (fst (policy_apply_filter sc s i)).
  Proof.
    unfold policy_apply_filter. destruct (o_policy (sc_opts sc)); cbn [fst]; try apply stepa_refl.
    all: pose proof (stepa_get_obj sc pl locals prev0 s i) as G; destruct (get_obj sc s i) as [s1 g]; cbn [fst] in G;
      destruct g; cbn [fst]; exact G.
  Qed.

  Lemma a_mutate s l : stepa s (fst (mutate sc s l)).
  Proof.
    apply (mutate_step sc stepa (stepa_refl sc pl locals prev0) (stepa_trans sc pl locals prev0)
             (stepa_get_obj sc pl locals prev0) (stepa_set_cache sc pl locals prev0)).
  Qed.

  Definition local_ok (p : pobj) : Prop :=
    In (p_id p) (apply_ids pl) /\ forall l, p_local p = Some l -> l_id l = p_id p.

  Lemma a_apply_one g s p : local_ok p -> stepa s (apply_one sc pl g s p).
  Proof.
    intros [Hin Hl]. unfold apply_one. destruct (p_local p) as [l|] eqn:EL; [|apply stepa_refl].
    assert (RA : forall s0 e a u gg, stepa s0 (rec_add (ev s0 e) (p_id p) SApply a u gg)).
    { intros. tr; [apply stepa_ev|]. apply stepa_rec_add. intros _. exact Hin. }
    destruct (negb (kind_known sc (r_known s) (p_id p))); [apply RA|].
    pose proof (a_policy_apply_filter s (p_id p)) as P.
    destruct (policy_apply_filter sc s (p_id p)) as [s1 f1]. cbn [fst] in P.
    destruct (match f1 with FPass => _ | _ => _ end).
    - pose proof (a_mutate s1 l) as M. destruct (mutate sc s1 l) as [sm okm]. cbn [fst] in M.
      destruct okm; cbn [negb]; [|tr; [exact P|]; tr; [exact M|apply RA]].
      assert (K : stepa sm (fst (kubectl_apply sc sm l))) by (apply a_kubectl_apply; rewrite (Hl l eq_refl); exact Hin).
      destruct (kubectl_apply sc sm l) as [s2 r]. cbn [fst] in K.
      destruct r; (tr; [exact P|]; tr; [exact M|]; tr; [exact K|apply RA]).
    - tr; [exact P|apply RA].
    - tr; [exact P|apply RA].
  Qed.

  Lemma a_apply_task g s layer : Forall local_ok layer -> stepa s (apply_task sc pl g s layer).
  Proof.
    intros F. unfold apply_task. apply stepa_fold. intros s0 p Hp. apply a_apply_one.
    rewrite Forall_forall in F. exact (F p Hp).
  Qed.

  (* ---- prune --------------------------------------------------------------- *)
  Lemma prune_filters_delete_ok tbl uids c :
    prune_filters sc pl locals tbl uids c = PDelete -> delete_ok sc locals c uids.
  Proof.
    unfold prune_filters, delete_ok.
    destruct (c_keep c); [discriminate|].
    destruct (can_prune sc (c_owner c)); cbn [negb]; [|discriminate].
    destruct (negb (o_destroy (sc_opts sc)) && _) eqn:NS; [discriminate|].
    destruct (dep_filter _ _ _ _ _); try discriminate.
    destruct (existsb (N.eqb (c_uid c)) uids) eqn:EX; [discriminate|]. intros _.
    split; [reflexivity|]. split; [reflexivity|]. split.
    - intros Hd Hk. rewrite Hd, Hk in NS. cbn in NS. exact NS.
    - intros Hin. assert (existsb (N.eqb (c_uid c)) uids = true); [|congruence].
      apply existsb_exists. exists (c_uid c). split; [exact Hin|apply N.eqb_refl].
  Qed.

  Definition prune_ok (p : pobj) : Prop :=
    exists c, p = pobj_of_live c /\ In (pobj_of_live c) (pl_prune pl).

  (* goals "stepa s X" where X is built from s by maybe_cancel / set_cl+log_req / add_aband *)
  Ltac solveX RQ :=
    lazymatch goal with
    | |- stepa ?s ?s => apply stepa_refl
    | |- stepa ?s (add_aband ?Y ?i) =>
        apply (stepa_trans sc pl locals prev0 s Y); [solveX RQ|apply stepa_add_aband]
    | |- stepa ?s (maybe_cancel _ ?Z _) =>
        apply (stepa_trans sc pl locals prev0 s Z); [solveX RQ|apply stepa_maybe_cancel]
    | |- stepa ?s (log_req (set_cl ?Z ?c) ?r ?ok) =>
        apply (stepa_trans sc pl locals prev0 s Z); [solveX RQ|apply (RQ Z (set_cl Z c) ok); reflexivity]
    | |- stepa ?s (log_req ?Z ?r ?ok) =>
        apply (stepa_trans sc pl locals prev0 s Z); [solveX RQ|apply (RQ Z Z ok); reflexivity]
    end.
  Ltac fin RD RQ :=
    lazymatch goal with
    | |- stepa ?s (rec_add (ev ?X ?e) ?i ?st ?a ?u ?g) =>
        apply (stepa_trans sc pl locals prev0 s X); [solveX RQ|apply RD]
    end.

  Lemma a_prune_one g uids s p : prune_ok p -> stepa s (prune_one sc pl locals g uids s p).
  Proof.
    intros [c [-> Hin]]. unfold prune_one. cbv zeta. cbn [p_live pobj_of_live].
    assert (RD : forall s0 e a u gg, stepa s0 (rec_add (ev s0 e) (c_id c) SDelete a u gg)).
    { intros. tr; [apply stepa_ev|]. apply stepa_rec_add. discriminate. }
    assert (RQ0 : forall (s0 s1 : rst) (ok : bool), r_tbl s1 = r_tbl s0 -> inv (r_cl s1) = inv (r_cl s0) -> r_tr s1 = r_tr s0 -> True)
      by (intros; exact I).
    destruct (prune_filters sc pl locals (r_tbl s) uids c) eqn:PF.
    - (* delete *)
      pose proof (prune_filters_delete_ok _ _ _ PF) as DOK.
      assert (RQ : forall s0 s1 ok, r_tbl s1 = r_tbl s0 -> inv (r_cl s1) = inv (r_cl s0) -> r_tr s1 = r_tr s0 ->
                  stepa s0 (log_req s1 (RDelete (c_id c) (c_uid c) (o_prop (sc_opts sc))) ok)).
      { intros s0 s1 ok A B C. apply stepa_req; try assumption. cbn. exists c, uids. auto. }
      destruct (is_dry _); [fin RD RQ|].
      destruct (faulted sc _); [fin RD RQ|].
      destruct (find_obj _ _) as [live|]; [destruct (N.eqb _ _); [destruct (u_fin _)|]|]; fin RD RQ.
    - (* keep *)
      assert (KEEP : c_keep c = true).
      { unfold prune_filters in PF. destruct (c_keep c); [reflexivity|].
        destruct (negb (can_prune sc (c_owner c))); [discriminate|].
        destruct (negb (o_destroy (sc_opts sc)) && _); [discriminate|].
        destruct (dep_filter _ _ _ _ _); try discriminate. destruct (existsb _ _); discriminate. }
      assert (RQ : forall s0 s1 ok, r_tbl s1 = r_tbl s0 -> inv (r_cl s1) = inv (r_cl s0) -> r_tr s1 = r_tr s0 ->
                  stepa s0 (log_req s1 (RUpdate (c_id c)) ok)).
      { intros s0 s1 ok A B C. apply stepa_req; try assumption. cbn. exists c. auto. }
      destruct (is_dry _); [fin RD RQ|].
      destruct (c_owner c); [fin RD RQ| |];
        (destruct (faulted sc _); [fin RD RQ|]; destruct (find_obj _ _); fin RD RQ).
    - assert (RQ : forall s0 s1 ok, r_tbl s1 = r_tbl s0 -> inv (r_cl s1) = inv (r_cl s0) -> r_tr s1 = r_tr s0 ->
                  stepa s0 (log_req s1 RInvDelete ok)).
      { intros s0 s1 ok A B C. apply stepa_req; try assumption. exact I. }
      destruct (is_dry _); fin RD RQ.
    - assert (RQ : forall s0 s1 ok, r_tbl s1 = r_tbl s0 -> inv (r_cl s1) = inv (r_cl s0) -> r_tr s1 = r_tr s0 ->
                  stepa s0 (log_req s1 RInvDelete ok)).
      { intros s0 s1 ok A B C. apply stepa_req; try assumption. exact I. }
      fin RD RQ.
    - assert (RQ : forall s0 s1 ok, r_tbl s1 = r_tbl s0 -> inv (r_cl s1) = inv (r_cl s0) -> r_tr s1 = r_tr s0 ->
                  stepa s0 (log_req s1 RInvDelete ok)).
      { intros s0 s1 ok A B C. apply stepa_req; try assumption. exact I. }
      fin RD RQ.
  Qed.

  Lemma a_prune_task g s layer : Forall prune_ok layer -> stepa s (prune_task sc pl locals g s layer).
  Proof.
    intros F. unfold prune_task. apply stepa_fold. intros s0 p Hp. apply a_prune_one.
    rewrite Forall_forall in F. exact (F p Hp).
  Qed.
End Auth2.

Section Auth3.
  Variable sc : scenario.
  Variable pl : plan.
  Variable locals : list lobj.
  Variable prev0 : list id.
  Hypothesis apply_valid : forall i, In i (apply_ids pl) -> ~ In i (pl_invalid pl).

  Notation stepa := (stepa sc pl locals prev0).
  Ltac tr := eapply (stepa_trans sc pl locals prev0).

  Lemma a_inv_add_task s : stepa s (fst (inv_add_task sc pl s)).
  Proof.
    unfold inv_add_task. cbv zeta.
    match goal with |- stepa s (fst (let '(s1, ok1) := ?X in _)) =>
      assert (H : stepa s (fst X)); [|destruct X as [s1 ok1]; cbn [fst] in H] end.
    { destruct (sc_inv_ns sc) as [n|]; [|apply stepa_refl].
      destruct (find (fun p => Nat.eqb (p_id p) n) (pl_apply pl)) as [p|] eqn:EF; [|apply stepa_refl].
      apply find_some in EF. destruct EF as [Hin _].
      assert (HA : In (p_id p) (apply_ids pl)) by (apply in_map; exact Hin).
      destruct (p_local p); [|apply stepa_refl].
      destruct (is_dry _); cbn [fst]; [apply stepa_refl|].
      destruct (faulted sc FNsCreate); cbn [fst]; [apply stepa_req; try reflexivity; exact HA|].
      destruct (find_obj _ _); cbn [fst]; apply stepa_req; try reflexivity; exact HA. }
    destruct ok1; cbn [fst]; [|exact H]. tr; [exact H|]. apply stepa_merge. exact apply_valid.
  Qed.

  Lemma a_delete_inventory s : stepa s (fst (delete_inventory sc s)).
  Proof.
    unfold delete_inventory. cbv zeta.
    pose proof (stepa_inv_list sc pl locals prev0 s) as L1.
    destruct (inv_list sc s) as [s1 r1]. cbn [fst] in L1.
    destruct r1 as [[l|]|]; cbn [fst]; try exact L1.
    destruct (is_dry _); cbn [fst]; [exact L1|].
    destruct (faulted sc FInvDelete); cbn [fst].
    - tr; [exact L1|]. apply stepa_req; try reflexivity; try exact I.
    - tr; [exact L1|]. unfold PipelineAuth.stepa. intros [I1 I2]. split; [split|].
      + exact I1.
      + cbn. intros l0 [=].
      + eexists [_]. split; [reflexivity|]. constructor; [exact I|constructor].
  Qed.

  Lemma a_inv_set_task prev s : (forall pv, prev = Some pv -> forall i, In i pv -> In i prev0) ->
    stepa s (fst (inv_set_task sc pl prev s)).
  Proof.
    intros Hp. unfold inv_set_task. destruct prev as [pv|]; cbn [fst]; [|apply stepa_refl].
    destruct (o_destroy (sc_opts sc) && destroy_successful pl pv s); [apply a_delete_inventory|].
    unfold PipelineAuth.stepa. intros I0.
    apply (stepa_replace sc pl locals prev0); [|exact I0].
    eapply final_inventory_keys; [exact apply_valid|exact I0|exact (Hp pv eq_refl)].
  Qed.

  Definition task_ok (t : task) : Prop :=
    match t with
    | TApply _ l => Forall (local_ok pl) l
    | TPrune _ l => Forall (prune_ok pl) l
    | _ => True
    end.

  Lemma a_run_task prev s t : task_ok t ->
    (forall pv, prev = Some pv -> forall i, In i pv -> In i prev0) ->
    stepa s (fst (run_task sc pl locals prev s t)).
  Proof.
    intros OK Hp. unfold run_task. cbv zeta.
    assert (S0 : stepa s (ev s (EStarted (task_name t)))) by apply stepa_ev.
    destruct t; cbn [task_ok] in OK.
    - pose proof (a_inv_add_task (ev s (EStarted (task_name TInvAdd)))) as T.
      destruct (inv_add_task sc pl _) as [s1 ok]. cbn [fst] in *. tr; [exact S0|]. tr; [exact T|apply stepa_ev].
    - cbn [fst]. tr; [exact S0|]. tr; [eapply a_apply_task; eauto|apply stepa_ev].
    - cbn [fst]. tr; [exact S0|]. tr; [apply a_wait_task|apply stepa_ev].
    - cbn [fst]. tr; [exact S0|]. tr; [eapply a_prune_task; eauto|apply stepa_ev].
    - pose proof (a_inv_set_task prev (ev s (EStarted (task_name TInvSet))) Hp) as T.
      destruct (inv_set_task sc pl prev _) as [s1 ok]. cbn [fst] in *. tr; [exact S0|]. tr; [exact T|apply stepa_ev].
  Qed.

  Lemma a_run_tasks prev ts : Forall task_ok ts ->
    (forall pv, prev = Some pv -> forall i, In i pv -> In i prev0) ->
    forall s, stepa s (run_tasks sc pl locals prev s ts).
  Proof.
    intros OK Hp. induction ts as [|t rest IH]; intros s; cbn [run_tasks]; [apply stepa_refl|].
    inversion OK as [|? ? Ot Or]; subst.
    pose proof (a_run_task prev s t Ot Hp) as T.
    destruct (run_task sc pl locals prev s t) as [s1 ok]. cbn [fst] in T.
    destruct (negb ok); [tr; [exact T|apply stepa_ev]|].
    destruct (r_abort s1); [tr; [exact T|apply stepa_ev]|].
    tr; [exact T|apply IH; exact Or].
  Qed.
End Auth3.

Section Auth4.
  Variable sc : scenario.

  Lemma bp_apply_valid known locals pobjs i :
    In i (apply_ids (build_plan sc known locals pobjs)) -> ~ In i (pl_invalid (build_plan sc known locals pobjs)).
  Proof.
    unfold apply_ids, build_plan. cbv zeta. destruct (kahn _ _ _) as [layers cyc]. cbn [pl_apply pl_invalid].
    intros H. apply in_map_iff in H. destruct H as [p [<- Hp]]. apply filter_In in Hp. destruct Hp as [_ Hp].
    apply negb_true_iff in Hp. intros Hin. apply memn_In in Hin. congruence.
  Qed.

  Lemma bp_prune_valid known locals pobjs c :
    In (pobj_of_live c) (pl_prune (build_plan sc known locals pobjs)) ->
    In c pobjs /\ ~ In (c_id c) (pl_invalid (build_plan sc known locals pobjs)).
  Proof.
    unfold build_plan. cbv zeta. destruct (kahn _ _ _) as [layers cyc]. cbn [pl_prune pl_invalid].
    intros H. apply filter_In in H. destruct H as [H1 H2]. split.
    - apply in_map_iff in H1. destruct H1 as [c' [E Hc']].
      assert (c' = c) by (unfold pobj_of_live in E; injection E; intros; destruct c, c'; cbn in *; congruence).
      subst. exact Hc'.
    - apply negb_true_iff in H2. cbn [p_id pobj_of_live] in H2. intros Hin. apply memn_In in Hin. congruence.
  Qed.

  Lemma pick_In' objs l p : In p (pick objs l) -> In p objs.
  Proof.
    unfold pick. intros H. apply in_flat_map in H. destruct H as [i [_ H]]. apply filter_In in H. tauto.
  Qed.
  Lemma hydrate_In' layers objs layer p : In layer (hydrate layers objs) -> In p layer -> In p objs.
  Proof.
    unfold hydrate. intros HL Hp. apply filter_In in HL. destruct HL as [HL _].
    apply in_map_iff in HL. destruct HL as [l [<- _]]. eapply pick_In'. exact Hp.
  Qed.

  Lemma bp_local_ok known locals pobjs layer p :
    In layer (pl_apply_layers (build_plan sc known locals pobjs)) -> In p layer ->
    local_ok (build_plan sc known locals pobjs) p.
  Proof.
    unfold local_ok, apply_ids, build_plan. cbv zeta. destruct (kahn _ _ _) as [layers cyc].
    cbn [pl_apply_layers pl_apply]. intros HL Hp. pose proof (hydrate_In' _ _ _ _ HL Hp) as H. split.
    - apply in_map. exact H.
    - apply filter_In in H. destruct H as [H _]. apply in_map_iff in H. destruct H as [l0 [<- _]].
      intros l [= <-]. reflexivity.
  Qed.

  Lemma bp_prune_ok known locals pobjs layer p :
    In layer (pl_prune_layers (build_plan sc known locals pobjs)) -> In p layer ->
    prune_ok (build_plan sc known locals pobjs) p.
  Proof.
    unfold prune_ok, build_plan. cbv zeta. destruct (kahn _ _ _) as [layers cyc].
    cbn [pl_prune_layers pl_prune]. intros HL Hp.
    apply in_rev in HL. apply in_map_iff in HL. destruct HL as [l0 [<- HL]]. apply in_rev in Hp.
    pose proof (hydrate_In' _ _ _ _ HL Hp) as H.
    pose proof H as H'. apply filter_In in H'. destruct H' as [H' _]. apply in_map_iff in H'. destruct H' as [c [<- _]].
    exists c. split; [reflexivity|exact H].
  Qed.

  Lemma apply_tasks_ok pl layers : (forall layer p, In layer layers -> In p layer -> local_ok pl p) ->
    forall ka kw, Forall (task_ok pl) (fst (apply_tasks sc ka kw layers)).
  Proof.
    induction layers as [|l t IH]; intros H ka kw; cbn [apply_tasks]; [constructor|].
    assert (Hl : Forall (local_ok pl) l)
      by (apply Forall_forall; intros p Hp; eapply H; [left; reflexivity|exact Hp]).
    assert (Ht : forall layer p, In layer t -> In p layer -> local_ok pl p)
      by (intros; eapply H; [right; eassumption|assumption]).
    destruct (is_dry _).
    - specialize (IH Ht (S ka) kw). destruct (apply_tasks sc (S ka) kw t) as [ts kw']. cbn [fst] in *.
      constructor; [exact Hl|exact IH].
    - specialize (IH Ht (S ka) (S kw)). destruct (apply_tasks sc (S ka) (S kw) t) as [ts kw']. cbn [fst] in *.
      constructor; [exact Hl|]. constructor; [exact I|exact IH].
  Qed.

  Lemma prune_tasks_ok pl layers : (forall layer p, In layer layers -> In p layer -> prune_ok pl p) ->
    forall kp kw, Forall (task_ok pl) (prune_tasks sc kp kw layers).
  Proof.
    induction layers as [|l t IH]; intros H kp kw; cbn [prune_tasks]; [constructor|].
    assert (Hl : Forall (prune_ok pl) l)
      by (apply Forall_forall; intros p Hp; eapply H; [left; reflexivity|exact Hp]).
    assert (Ht : forall layer p, In layer t -> In p layer -> prune_ok pl p)
      by (intros; eapply H; [right; eassumption|assumption]).
    destruct (is_dry _); constructor; try exact Hl; [apply IH; exact Ht|].
    constructor; [exact I|apply IH; exact Ht].
  Qed.

  Lemma tasks_of_ok known locals pobjs :
    Forall (task_ok (build_plan sc known locals pobjs)) (tasks_of sc (build_plan sc known locals pobjs)).
  Proof.
    unfold tasks_of. set (pl := build_plan sc known locals pobjs).
    assert (A : Forall (task_ok pl) (fst (match pl_apply pl with [] => ([], 0) | _ => apply_tasks sc 0 0 (pl_apply_layers pl) end))).
    { destruct (pl_apply pl); [constructor|]. apply apply_tasks_ok. intros layer q. apply bp_local_ok. }
    destruct (match pl_apply pl with [] => ([], 0) | _ => apply_tasks sc 0 0 (pl_apply_layers pl) end) as [at_ kw].
    cbn [fst] in A.
    apply Forall_app. split; [destruct (o_destroy _); repeat constructor|].
    apply Forall_app. split; [exact A|]. apply Forall_app. split; [|repeat constructor].
    destruct (o_prune _); [|constructor]. destruct (pl_prune pl); [constructor|].
    apply prune_tasks_ok. intros layer q. apply bp_prune_ok.
  Qed.

  (* ---- reads leave the cluster alone; what fetch_all returns --------------- *)
  Lemma inv_list_cl s : r_cl (fst (inv_list sc s)) = r_cl s /\ r_tbl (fst (inv_list sc s)) = r_tbl s.
  Proof. unfold inv_list. destruct (faulted sc _); split; reflexivity. Qed.
  Lemma inv_list_res s r : snd (inv_list sc s) = Some r -> r = inv (r_cl s).
  Proof. unfold inv_list. destruct (faulted sc _); cbn; congruence. Qed.
  Lemma get_obj_cl s i : r_cl (fst (get_obj sc s i)) = r_cl s /\ r_tbl (fst (get_obj sc s i)) = r_tbl s.
  Proof.
    unfold get_obj. destruct (faulted sc _); [split; reflexivity|]. destruct (find_obj _ _); split; reflexivity.
  Qed.
  Lemma find_obj_id l i c : find_obj l i = Some c -> c_id c = i.
  Proof.
    induction l as [|x l IHl]; cbn; [discriminate|].
    destruct (Nat.eqb (c_id x) i) eqn:E; [intros [= <-]; apply Nat.eqb_eq; exact E|exact IHl].
  Qed.

  Lemma get_obj_found s i c : snd (get_obj sc s i) = GFound c -> find_obj (objs (r_cl s)) i = Some c.
  Proof.
    unfold get_obj. destruct (faulted sc _); cbn; [discriminate|].
    destruct (find_obj (objs (r_cl s)) i); cbn; congruence.
  Qed.

  Lemma fetch_all_cl ids : forall s,
    r_cl (fst (fetch_all sc s ids)) = r_cl s /\ r_tbl (fst (fetch_all sc s ids)) = r_tbl s /\
    forall found, snd (fetch_all sc s ids) = Some found ->
      forall c, In c found -> In (c_id c) ids /\ find_obj (objs (r_cl s)) (c_id c) = Some c.
  Proof.
    induction ids as [|i t IH]; intros s; cbn [fetch_all].
    - split; [reflexivity|]. split; [reflexivity|]. intros found E c Hc. cbn in E. injection E as <-. destruct Hc.
    - destruct (negb (kind_known sc (r_known s) i)).
      { destruct (IH s) as [A [B C]]. split; [exact A|]. split; [exact B|].
        intros found E c Hc. destruct (C found E c Hc). split; [right|]; assumption. }
      pose proof (get_obj_cl s i) as [G1 G2]. pose proof (get_obj_found s i) as GF.
      destruct (get_obj sc s i) as [s1 g]. cbn [fst snd] in *.
      destruct g as [| |c]; cbn [fst snd].
      + split; [exact G1|]. split; [exact G2|]. intros found E. discriminate.
      + destruct (IH s1) as [A [B C]]. rewrite G1 in A, C. rewrite G2 in B.
        split; [exact A|]. split; [exact B|]. intros found E c Hc. destruct (C found E c Hc). split; [right|]; assumption.
      + destruct (IH s1) as [A [B C]]. destruct (fetch_all sc s1 t) as [s2 r]. cbn [fst snd] in *.
        rewrite G1 in A, C. rewrite G2 in B. split; [exact A|]. split; [exact B|].
        intros found E c0 Hc. destruct r as [r|]; cbn in E; [|discriminate]. injection E as <-.
        destruct Hc as [<-|Hc].
        * pose proof (GF c eq_refl) as F. pose proof (find_obj_id _ _ _ F) as EI. subst i.
          split; [left; reflexivity|exact F].
        * destruct (C r eq_refl c0 Hc). split; [right|]; assumption.
  Qed.
End Auth4.

Section Auth5.
  Variable sc : scenario.

  Definition inv0 (c0 : cluster) : list id := match inv c0 with Some l => l | None => [] end.

  (* the plan of a run: None when a read before planning was rejected *)
  Definition run_plan (c0 : cluster) : option (plan * list lobj) :=
    let locals := if o_destroy (sc_opts sc) then [] else sc_local sc in
    let '(s1, r1) := inv_list sc (init_state sc c0) in
    match r1 with
    | None => None
    | Some st =>
        let prev0 := match st with Some l => l | None => [] end in
        let '(s2, r2) := fetch_all sc s1 (sortn (diffn prev0 (map l_id locals))) in
        match r2 with
        | None => None
        | Some pobjs => Some (build_plan sc (r_known s2) locals pobjs, locals)
        end
    end.

  Lemma inv_list_tr s : r_tr (fst (inv_list sc s)) = r_tr s.
  Proof. unfold inv_list. destruct (faulted sc _); reflexivity. Qed.
  Lemma get_obj_tr s i : r_tr (fst (get_obj sc s i)) = r_tr s.
  Proof. unfold get_obj. destruct (faulted sc _); [reflexivity|]. destruct (find_obj _ _); reflexivity. Qed.
  Lemma fetch_all_tr ids : forall s, r_tr (fst (fetch_all sc s ids)) = r_tr s.
  Proof.
    induction ids as [|i t IH]; intros s; cbn [fetch_all]; [reflexivity|].
    destruct (negb (kind_known sc (r_known s) i)); [apply IH|].
    pose proof (get_obj_tr s i) as G. destruct (get_obj sc s i) as [s1 g]. cbn [fst] in G.
    destruct g; cbn [fst]; [exact G|rewrite IH; exact G|].
    specialize (IH s1). destruct (fetch_all sc s1 t) as [s2 r]. cbn [fst] in *. congruence.
  Qed.

  Lemma register_facts pl s :
    r_cl (register sc pl s) = r_cl s /\ r_tr (register sc pl s) = r_tr s /\
    (forall r, In r (r_tbl (register sc pl s)) -> r_str r = SApply ->
               In r (r_tbl s) \/ In (r_id r) (apply_ids pl)).
  Proof.
    unfold register.
    assert (F : forall (l : list pobj) st a s0,
               let s' := fold_left (fun s p => rec_add s (p_id p) st a 0%N 0%Z) l s0 in
               r_cl s' = r_cl s0 /\ r_tr s' = r_tr s0 /\
               forall r, In r (r_tbl s') -> r_str r = SApply -> In r (r_tbl s0) \/ (st = SApply /\ In (r_id r) (map p_id l))).
    { induction l as [|q t IH]; intros st a s0; cbn [fold_left].
      - repeat split; auto.
      - destruct (IH st a (rec_add s0 (p_id q) st a 0%N 0%Z)) as [A [B C]]. cbv zeta. repeat split; try assumption.
        intros r Hr Hs. destruct (C r Hr Hs) as [H|[H1 H2]].
        + cbn in H. apply set_status_In in H. destruct H as [->|H]; [|left; exact H].
          right. cbn in Hs. split; [exact Hs|left; reflexivity].
        + right. split; [exact H1|right; exact H2]. }
    pose proof (F (pl_apply pl) SApply APending s) as [A1 [B1 C1]].
    set (s1 := fold_left (fun s p => rec_add s (p_id p) SApply APending 0%N 0%Z) (pl_apply pl) s) in *.
    assert (S2 : forall s2, s2 = (if o_prune (sc_opts sc)
                                  then fold_left (fun s p => rec_add s (p_id p) SDelete APending 0%N 0%Z) (pl_prune pl) s1
                                  else s1) ->
                r_cl s2 = r_cl s /\ r_tr s2 = r_tr s /\
                forall r, In r (r_tbl s2) -> r_str r = SApply -> In r (r_tbl s) \/ In (r_id r) (apply_ids pl)).
    { intros s2 ->. destruct (o_prune (sc_opts sc)).
      - pose proof (F (pl_prune pl) SDelete APending s1) as [A2 [B2 C2]]. cbv zeta in *.
        repeat split; try congruence. intros r Hr Hs. destruct (C2 r Hr Hs) as [H|[H _]]; [|discriminate].
        destruct (C1 r H Hs) as [H'|[_ H']]; [left; exact H'|right; exact H'].
      - repeat split; try assumption. intros r Hr Hs. destruct (C1 r Hr Hs) as [H'|[_ H']]; [left; exact H'|right; exact H']. }
    specialize (S2 _ eq_refl). destruct S2 as [A2 [B2 C2]].
    destruct (negb (o_destroy (sc_opts sc)) && negb (o_prune (sc_opts sc))); [|repeat split; assumption].
    match goal with |- context [fold_left ?f (pl_prune_all pl) ?s2] =>
      pose proof (F (pl_prune_all pl) SDelete ASkipped s2) as [A3 [B3 C3]] end.
    cbv zeta in *. repeat split; try congruence.
    intros r Hr Hs. destruct (C3 r Hr Hs) as [H|[H _]]; [|discriminate]. exact (C2 r H Hs).
  Qed.

  Theorem auth_run c0 :
    match run_plan c0 with
    | Some (pl, locals) => Forall (Qa sc pl locals (inv0 c0)) (out_trace (run sc c0))
    | None => forall r ok m st, ~ In (IReq r ok m st) (out_trace (run sc c0))
    end.
  Proof.
    rewrite (run_is_finish sc). unfold finish. cbn [out_trace].
    unfold run_plan, run_state. cbv zeta.
    pose proof (inv_list_tr (init_state sc c0)) as T1. pose proof (inv_list_cl sc (init_state sc c0)) as [C1 B1].
    pose proof (inv_list_res sc (init_state sc c0)) as R1.
    destruct (inv_list sc (init_state sc c0)) as [s1 r1]. cbn [fst snd] in *.
    destruct r1 as [st|].
    2:{ intros r ok m st0. unfold not. intros H. apply in_rev in H. cbn in H. destruct H as [H|[H|H]]; try discriminate.
        rewrite T1 in H. destruct H. }
    specialize (R1 st eq_refl). cbn [init_state r_cl] in R1. subst st.
    set (locals := if o_destroy (sc_opts sc) then [] else sc_local sc).
    match goal with |- context [fetch_all sc s1 ?c] => set (cand := c) in * end.
    pose proof (fetch_all_tr cand s1) as T2. pose proof (fetch_all_cl sc cand s1) as [C2 [B2 _]].
    destruct (fetch_all sc s1 cand) as [s2 r2]. cbn [fst snd] in *.
    destruct r2 as [pobjs|].
    2:{ intros r ok m st0. unfold not. intros H. apply in_rev in H. cbn in H. destruct H as [H|[H|H]]; try discriminate.
        rewrite T2, T1 in H. destruct H. }
    set (pl := build_plan sc (r_known s2) locals pobjs).
    pose proof (register_facts pl s2) as [C3 [T3 B3]].
    set (s3 := register sc pl s2) in *.
    pose proof (inv_list_tr s3) as T4. pose proof (inv_list_cl sc s3) as [C4 B4].
    pose proof (inv_list_res sc s3) as R4.
    destruct (inv_list sc s3) as [s4 r4]. cbn [fst snd] in *.
    assert (CL4 : r_cl s4 = c0) by (rewrite C4, C3, C2, C1; reflexivity).
    assert (TR4 : r_tr s4 = []) by (rewrite T4, T3, T2, T1; reflexivity).
    assert (I4 : (forall r, In r (r_tbl s4) -> r_str r = SApply -> In (r_id r) (apply_ids pl)) /\
                 (forall l, inv (r_cl s4) = Some l -> inv_keys_ok pl (inv0 c0) l)).
    { split.
      - intros r Hr Hs. rewrite B4 in Hr. destruct (B3 r Hr Hs) as [H|H]; [|exact H].
        rewrite B2, B1 in H. destruct H.
      - rewrite CL4. intros l E i Hi _. unfold inv0. rewrite E. exact Hi. }
    assert (HP : forall pv, option_map (fun st0 : option (list id) => match st0 with Some l => l | None => [] end) r4 = Some pv ->
                 forall i, In i pv -> In i (inv0 c0)).
    { intros pv E i Hi. destruct r4 as [x|]; [|discriminate]. specialize (R4 x eq_refl).
      rewrite C3, C2, C1 in R4. cbn [init_state r_cl] in R4. subst x. cbn in E. injection E as <-. exact Hi. }
    assert (FIN : forall sf, stepa sc pl locals (inv0 c0) s4 sf -> Forall (Qa sc pl locals (inv0 c0)) (rev (IClosed :: r_tr sf))).
    { intros sf S. destruct (S I4) as [_ [l [E F]]]. rewrite TR4, app_nil_r in E.
      cbn [rev]. apply Forall_app. split; [|constructor; [exact I|constructor]].
      rewrite E. apply Forall_rev. exact F. }
    assert (V : forall errs s, stepa sc pl locals (inv0 c0) s (fold_left (fun s e => ev s (EValidation (sortn e))) errs s)).
    { intros errs s. apply stepa_fold. intros; apply stepa_ev. }
    assert (TASKS : forall errs,
      Forall (Qa sc pl locals (inv0 c0)) (rev (IClosed :: r_tr
        (match e_cancel (sc_env sc) with
         | CBeforeSync => ev (ev (fold_left (fun s e => ev s (EValidation (sortn e))) errs s4)
                                 (EInit (map (fun t => (task_name t, task_ids pl t)) (tasks_of sc pl)))) EError
         | _ => run_tasks sc pl locals
                  (option_map (fun st0 : option (list id) => match st0 with Some l => l | None => [] end) r4)
                  (ev (fold_left (fun s e => ev s (EValidation (sortn e))) errs s4)
                      (EInit (map (fun t => (task_name t, task_ids pl t)) (tasks_of sc pl)))) (tasks_of sc pl)
         end)))).
    { intros errs. apply FIN.
      assert (S6 : stepa sc pl locals (inv0 c0) s4
                     (ev (fold_left (fun s e => ev s (EValidation (sortn e))) errs s4)
                         (EInit (map (fun t => (task_name t, task_ids pl t)) (tasks_of sc pl)))))
        by (eapply stepa_trans; [apply V|apply stepa_ev]).
      assert (RT : stepa sc pl locals (inv0 c0) s4
                     (run_tasks sc pl locals
                        (option_map (fun st0 : option (list id) => match st0 with Some l => l | None => [] end) r4)
                        (ev (fold_left (fun s e => ev s (EValidation (sortn e))) errs s4)
                            (EInit (map (fun t => (task_name t, task_ids pl t)) (tasks_of sc pl)))) (tasks_of sc pl))).
      { eapply stepa_trans; [exact S6|]. apply a_run_tasks.
        - apply bp_apply_valid.
        - apply tasks_of_ok.
        - exact HP. }
      destruct (e_cancel (sc_env sc)); try exact RT.
      eapply stepa_trans; [exact S6|apply stepa_ev]. }
    destruct (o_valpol (sc_opts sc)); destruct (pl_valerrs pl) eqn:EV; try apply TASKS.
    apply FIN. apply stepa_ev.
  Qed.
End Auth5.

Section Auth6.
  Variable sc : scenario.

  Lemma dedupn_In l x : In x (dedupn l) <-> In x l.
  Proof. apply (dedup_In nat Nat.eqb nat_eqb_spec). Qed.

  (* prune objects of the plan are the tracked, not locally declared objects as read from the cluster *)
  Lemma run_plan_prune c0 pl locals c :
    run_plan sc c0 = Some (pl, locals) -> In (pobj_of_live c) (pl_prune pl) ->
    find_obj (objs c0) (c_id c) = Some c /\ In (c_id c) (inv0 c0) /\ ~ In (c_id c) (map l_id locals) /\
    ~ In (c_id c) (pl_invalid pl).
  Proof.
    unfold run_plan. cbv zeta.
    pose proof (inv_list_cl sc (init_state sc c0)) as [C1 _]. pose proof (inv_list_res sc (init_state sc c0)) as R1.
    destruct (inv_list sc (init_state sc c0)) as [s1 r1]. cbn [fst snd] in *.
    destruct r1 as [st|]; [|discriminate]. specialize (R1 st eq_refl). cbn [init_state r_cl] in R1. subst st.
    match goal with |- context [fetch_all sc s1 ?c] => set (cand := c) in * end.
    pose proof (fetch_all_cl sc cand s1) as [_ [_ F]].
    destruct (fetch_all sc s1 cand) as [s2 r2]. cbn [fst snd] in *.
    destruct r2 as [pobjs|]; [|discriminate]. intros [= <- <-] Hin.
    destruct (bp_prune_valid sc _ _ _ _ Hin) as [Hc Hv].
    destruct (F pobjs eq_refl c Hc) as [Hcand Hfind]. rewrite C1 in Hfind. cbn [init_state r_cl] in Hfind.
    split; [exact Hfind|]. unfold cand in Hcand. apply (proj1 (sortn_In _ _)) in Hcand. apply (proj1 (diffn_In _ _ _)) in Hcand.
    destruct Hcand as [A B]. split; [exact A|]. split; [exact B|exact Hv].
  Qed.

  Lemma run_plan_apply_valid c0 pl locals i :
    run_plan sc c0 = Some (pl, locals) -> In i (apply_ids pl) ->
    ~ In i (pl_invalid pl) /\ In i (map l_id locals).
  Proof.
    unfold run_plan. cbv zeta.
    destruct (inv_list sc (init_state sc c0)) as [s1 r1]. destruct r1 as [st|]; [|discriminate].
    destruct (fetch_all sc s1 _) as [s2 r2]. destruct r2 as [pobjs|]; [|discriminate].
    intros [= <- <-] Hin. split; [apply bp_apply_valid; exact Hin|].
    unfold apply_ids, build_plan in Hin. cbv zeta in Hin. destruct (kahn _ _ _) as [layers cyc]. cbn [pl_apply] in Hin.
    apply in_map_iff in Hin. destruct Hin as [p [<- Hp]]. apply filter_In in Hp. destruct Hp as [Hp _].
    apply in_map_iff in Hp. destruct Hp as [l [<- Hl]]. apply filter_In in Hl. destruct Hl as [Hl _].
    cbn. apply in_map. exact Hl.
  Qed.

  (* every invalid object is named by a validation error of the plan *)
  Lemma invalid_named known locals pobjs i :
    In i (pl_invalid (build_plan sc known locals pobjs)) ->
    exists e, In e (pl_valerrs (build_plan sc known locals pobjs)) /\ In i e.
  Proof.
    unfold build_plan. cbv zeta. destruct (kahn _ _ _) as [layers cyc]. cbn [pl_invalid pl_valerrs].
    intros H. apply (proj1 (dedupn_In _ _)) in H. apply in_app_or in H. destruct H as [H|H].
    - exists [i]. split; [|left; reflexivity]. apply in_or_app. left. apply in_map_iff. exists i. auto.
    - apply in_app_or in H. destruct H as [H|H].
      + exists [i]. split; [|left; reflexivity]. apply in_or_app. right. apply in_or_app. left.
        apply in_map_iff. exists i. auto.
      + exists (sortn cyc). split; [|apply (proj2 (sortn_In _ _)); exact H]. apply in_or_app. right. apply in_or_app. right.
        destruct cyc; [destruct H|left; reflexivity].
  Qed.

  (* the retention table keeps tracked invalid objects *)
  Lemma final_inventory_keeps_invalid pl prev s i :
    In i prev -> In i (pl_invalid pl) -> In i (final_inventory pl prev s).
  Proof.
    intros Hp Hi. unfold final_inventory. apply unionn_In. right. apply intern_In. split; assumption.
  Qed.

  (* exit-early: with a validation error the run ends with the error event
     before any request *)
  Lemma exit_early_trace c0 pl locals :
    run_plan sc c0 = Some (pl, locals) -> o_valpol (sc_opts sc) = VExitEarly -> pl_valerrs pl <> [] ->
    out_trace (run sc c0) = [IEv EError; IClosed].
  Proof.
    intros RP EE NE. rewrite (run_is_finish sc). unfold finish. cbn [out_trace].
    unfold run_plan, run_state in *. cbv zeta in *.
    pose proof (inv_list_tr sc (init_state sc c0)) as T1.
    destruct (inv_list sc (init_state sc c0)) as [s1 r1]. cbn [fst] in T1.
    destruct r1 as [st|]; [|discriminate].
    match goal with |- context [fetch_all sc s1 ?c] => set (cand := c) in * end.
    pose proof (fetch_all_tr sc cand s1) as T2.
    destruct (fetch_all sc s1 cand) as [s2 r2]. cbn [fst] in T2.
    destruct r2 as [pobjs|]; [|discriminate]. injection RP as <- <-.
    match goal with |- context [register sc ?p s2] => set (pl := p) in * end.
    pose proof (register_facts sc pl s2) as [_ [T3 _]].
    pose proof (inv_list_tr sc (register sc pl s2)) as T4.
    destruct (inv_list sc (register sc pl s2)) as [s4 r4]. cbn [fst] in T4.
    rewrite EE. destruct (pl_valerrs pl); [congruence|].
    cbn. rewrite T4, T3, T2, T1. reflexivity.
  Qed.
End Auth6.
