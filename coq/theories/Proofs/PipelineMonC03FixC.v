(* C03, fixpoint part, file C: two facts about ANY run (used for the first run).

   (1) the stored inventory stays duplicate-free: if the inventory of c0 is
       duplicate-free (or absent) and the manifest names each object once,
       the inventory of the final cluster is duplicate-free (every write of
       the model is `sortn` of a duplicate-free list);
   (2) with pruning disabled no object is ever removed: live objects stay live.

   One traversal of the model with the generic `step` framework (PipelineBase),
   item predicate True and cluster relation
     Cn a b := (ndi a -> ndi b) /\ (o_prune = false -> live in a -> live in b). *)
From Coq Require Import List Bool Arith NArith ZArith Lia Permutation.
From CliUtils Require Import Model.ObjSet Model.ActuationTable Model.PipelineTypes Model.Pipeline
     Proofs.ObjSetProofs Proofs.PipelineBase Proofs.PipelineAuth Proofs.PipelineEvents
     Corr.CorrPipeline Proofs.PipelineOrphansBase Proofs.PipelineOrphansSpec Proofs.PipelineOrphansPlan
     Proofs.PipelineMonBase.
Import ListNotations.

Definition ndi (cl : cluster) : Prop := match inv cl with Some l => NoDup l | None => True end.

Section Trav1.
  Variable sc : scenario.

  Definition Qt (it : item) : Prop := True.
  Definition Cn (a b : cluster) : Prop :=
    (ndi a -> ndi b) /\ (o_prune (sc_opts sc) = false -> forall i, fo a i <> None -> fo b i <> None).

  Lemma Cn_refl : forall c, Cn c c.
  Proof. intros c. split; auto. Qed.
  Lemma Cn_trans : forall a b c, Cn a b -> Cn b c -> Cn a c.
  Proof. intros a b c [A1 A2] [B1 B2]. split; [auto|]. intros P i H. apply (B2 P), (A2 P), H. Qed.
  Lemma Qt_ev : forall e, Qt (IEv e). Proof. intros; exact I. Qed.
  Lemma Qt_deliv : forall d, Qt (IDeliv d). Proof. intros; exact I. Qed.

  Notation cstep := (step Qt Cn).

  Lemma c_refl s : cstep s s. Proof. apply (step_refl Qt Cn Cn_refl). Qed.
  Lemma c_tr a b c : cstep a b -> cstep b c -> cstep a c. Proof. apply (step_trans Qt Cn Cn_trans). Qed.
  Lemma c_same s s' : r_cl s' = r_cl s -> r_tr s' = r_tr s -> cstep s s'.
  Proof. apply (step_same Qt Cn Cn_refl). Qed.
  Lemma c_ev s e : cstep s (ev s e). Proof. apply (step_ev Qt Cn Cn_refl Qt_ev). Qed.
  Lemma c_log s r ok : cstep s (log_req s r ok).
  Proof. apply (step_emit Qt Cn Cn_refl). exact I. Qed.
  Lemma c_cl s cl' : Cn (r_cl s) cl' -> cstep s (set_cl s cl').
  Proof. intros H. split; [exact H|]. exists []. split; [reflexivity|constructor]. Qed.

  Lemma Cn_put cl n nu : Cn cl (mkCl (put_obj (objs cl) n) (inv cl) nu).
  Proof.
    split; [auto|]. intros _ i H. unfold fo in *. cbn [objs]. rewrite find_obj_put.
    destruct (Nat.eqb (c_id n) i); [discriminate|exact H].
  Qed.
  Lemma Cn_del cl i nu : o_prune (sc_opts sc) = true -> Cn cl (mkCl (del_obj (objs cl) i) (inv cl) nu).
  Proof. intros P. split; [auto|]. rewrite P. discriminate. Qed.
  Lemma Cn_inv cl ids : NoDup ids -> Cn cl (mkCl (objs cl) (Some (sortn ids)) (next_uid cl)).
  Proof. intros N. split; [|auto]. intros _. unfold ndi. cbn [inv]. apply sortn_NoDup. exact N. Qed.
  Lemma Cn_invnone cl : Cn cl (mkCl (objs cl) None (next_uid cl)).
  Proof. split; [|auto]. intros _. exact I. Qed.

  (* goals "cstep s X" where X is built from s (or from a state reached by a hypothesis) by primitive operations;
     cluster writes leave a Cn side goal *)
  Ltac cs :=
    lazymatch goal with
    | |- cstep ?s ?s => apply c_refl
    | |- cstep ?s (rec_add ?x _ _ _ _ _) => apply (c_tr s x); [cs|apply c_same; reflexivity]
    | |- cstep ?s (ev ?x _) => apply (c_tr s x); [cs|apply c_ev]
    | |- cstep ?s (log_req ?x _ _) => apply (c_tr s x); [cs|apply c_log]
    | |- cstep ?s (set_cl ?x _) => apply (c_tr s x); [cs|apply c_cl]
    | |- cstep ?s (add_aband ?x _) => apply (c_tr s x); [cs|apply c_same; reflexivity]
    | |- cstep ?s (set_abort ?x) => apply (c_tr s x); [cs|apply c_same; reflexivity]
    | |- cstep ?s (maybe_cancel ?c ?x ?i) =>
        apply (c_tr s x); [cs|apply (step_maybe_cancel c Qt Cn Cn_refl)]
    | |- cstep ?s ?x => first [assumption | apply c_same; reflexivity]
    end.

  Lemma c_inv_list s : cstep s (fst (inv_list sc s)).
  Proof. apply (step_inv_list sc Qt Cn Cn_refl). Qed.
  Lemma c_get_obj s i : cstep s (fst (get_obj sc s i)).
  Proof. apply (step_get_obj sc Qt Cn Cn_refl). Qed.

  Lemma c_inv_apply s ids : NoDup ids -> cstep s (fst (inv_apply sc s ids)).
  Proof.
    intros N. unfold inv_apply. cbv zeta. destruct (faulted sc (FInvGet _)); cbn [fst]; [cs|].
    destruct (faulted sc (FInvWrite _)); cbn [fst]; [cs|]. cs. cbn [r_cl]. apply Cn_inv. exact N.
  Qed.
  Lemma c_inv_update s ids : NoDup ids -> cstep s (fst (inv_update sc s ids)).
  Proof.
    intros N. unfold inv_update. cbv zeta. destruct (faulted sc (FInvWrite _)); cbn [fst]; [cs|].
    cbn [r_cl]. destruct (inv (r_cl s)); cbn [fst]; [|cs]. cs. cbn [r_cl]. apply Cn_inv. exact N.
  Qed.

  Lemma c_merge s ids : NoDup ids -> cstep s (fst (merge sc s ids)).
  Proof.
    intros N. unfold merge. cbv zeta.
    pose proof (c_inv_list s) as L1. destruct (inv_list sc s) as [s1 r1]. cbn [fst] in L1.
    destruct r1 as [[l|]|]; cbn [fst]; try exact L1.
    - pose proof (c_inv_list s1) as L2. destruct (inv_list sc s1) as [s2 r2]. cbn [fst] in L2.
      pose proof (c_tr _ _ _ L1 L2) as L12.
      destruct r2 as [cur0|]; cbn [fst]; [|exact L12].
      destruct (set_eqn ids _ && _); cbn [fst]; [exact L12|].
      destruct (is_dry _); cbn [fst]; [exact L12|].
      eapply c_tr; [exact L12|]. apply c_inv_apply. apply (union_NoDup nat Nat.eqb nat_eqb_spec).
    - destruct (is_dry _); cbn [fst]; [exact L1|]. eapply c_tr; [exact L1|apply c_inv_apply; exact N].
  Qed.

  Lemma c_replace s ids : NoDup ids -> cstep s (fst (replace sc s ids)).
  Proof.
    intros N. unfold replace. cbv zeta. destruct (is_dry _); cbn [fst]; [apply c_refl|].
    pose proof (c_inv_list s) as L1. destruct (inv_list sc s) as [s1 r1]. cbn [fst] in L1.
    destruct r1 as [x|]; cbn [fst]; [|exact L1].
    pose proof (c_inv_list s1) as L2. destruct (inv_list sc s1) as [s2 r2]. cbn [fst] in L2.
    pose proof (c_tr _ _ _ L1 L2) as L12.
    destruct r2 as [[cur|]|]; cbn [fst]; try exact L12.
    destruct (set_eqn ids cur && _); cbn [fst]; [exact L12|].
    eapply c_tr; [exact L12|apply c_inv_update; exact N].
  Qed.

  Lemma c_ssa_patch l s n : cstep s (fst (ssa_patch sc s l n)).
  Proof.
    unfold ssa_patch. cbv zeta.
    destruct (faulted sc (FStream _ _)); cbn [fst]; [cs|].
    destruct (faulted sc (FApply _)); cbn [fst]; [cs|].
    destruct (find_obj _ _); destruct (match o_dry (sc_opts sc) with DServer => true | _ => false end); cbn [fst]; cs;
      apply Cn_put.
  Qed.

  Lemma c_csa_apply l s : cstep s (fst (csa_apply sc s l)).
  Proof.
    unfold csa_apply. cbv zeta.
    pose proof (c_get_obj s (l_id l)) as G. destruct (get_obj sc s (l_id l)) as [s1 g]. cbn [fst] in G.
    destruct g; cbn [fst]; try exact G.
    + destruct (is_dry _); cbn [fst]; [exact G|]. destruct (faulted sc _); cbn [fst]; cs. apply Cn_put.
    + destruct (negb (patch_needed c l)); cbn [fst]; [exact G|].
      destruct (is_dry _); cbn [fst]; [exact G|]. destruct (faulted sc _); cbn [fst]; cs. apply Cn_put.
  Qed.

  Lemma c_kubectl_apply s l : cstep s (fst (kubectl_apply sc s l)).
  Proof. exact (kubectl_apply_step sc l (fun a b => cstep a b) c_tr (c_ssa_patch l) (c_csa_apply l) s). Qed.

  Lemma c_apply_one pl g s p : cstep s (apply_one sc pl g s p).
  Proof.
    unfold apply_one. destruct (p_local p) as [l|]; [|apply c_refl].
    destruct (negb (kind_known sc (r_known s) (p_id p))); [cs|].
    pose proof (step_policy_apply_filter sc Qt Cn Cn_refl s (p_id p)) as P.
    destruct (policy_apply_filter sc s (p_id p)) as [s1 f1]. cbn [fst] in P.
    destruct (match f1 with FPass => _ | _ => _ end); try cs.
    pose proof (step_mutate sc Qt Cn Cn_refl Cn_trans s1 l) as M. destruct (mutate sc s1 l) as [sm okm]. cbn [fst] in M.
    pose proof (c_tr _ _ _ P M) as PM. destruct okm; cbn [negb]; [|cs].
    pose proof (c_kubectl_apply sm l) as K. destruct (kubectl_apply sc sm l) as [s2 r]. cbn [fst] in K.
    pose proof (c_tr _ _ _ PM K) as PK. destruct r; cs.
  Qed.

  Lemma c_prune_one pl locals g uids s p : o_prune (sc_opts sc) = true ->
    cstep s (prune_one sc pl locals g uids s p).
  Proof.
    intros PR. unfold prune_one. cbv zeta. destruct (p_live p) as [c|]; [|apply c_refl].
    destruct (prune_filters sc pl locals (r_tbl s) uids c).
    all: repeat match goal with
                | |- context [if ?b then _ else _] => destruct b
                | |- context [match c_owner ?x with _ => _ end] => destruct (c_owner x)
                | |- context [match find_obj ?a ?b with _ => _ end] => destruct (find_obj a b)
                end.
    all: cs.
    all: first [apply Cn_put | apply Cn_del; exact PR].
  Qed.

  Lemma c_inv_add_task pl s : NoDup (apply_ids pl) -> cstep s (fst (inv_add_task sc pl s)).
  Proof.
    intros N. unfold inv_add_task. cbv zeta.
    match goal with |- cstep s (fst (let '(s1, ok1) := ?X in _)) =>
      assert (H : cstep s (fst X)); [|destruct X as [s1 ok1]; cbn [fst] in H] end.
    { destruct (match sc_inv_ns sc with Some n => _ | None => None end) as [p|]; [|apply c_refl].
      destruct (p_local p); [|apply c_refl].
      destruct (is_dry _); cbn [fst]; [apply c_refl|].
      destruct (faulted sc FNsCreate); cbn [fst]; [cs|].
      destruct (find_obj _ _); cbn [fst]; cs. apply Cn_put. }
    destruct ok1; cbn [fst]; [|exact H]. eapply c_tr; [exact H|apply c_merge; exact N].
  Qed.

  Lemma c_delete_inventory s : cstep s (fst (delete_inventory sc s)).
  Proof.
    unfold delete_inventory. cbv zeta.
    pose proof (c_inv_list s) as L1. destruct (inv_list sc s) as [s1 r1]. cbn [fst] in L1.
    destruct r1 as [[l|]|]; cbn [fst]; try exact L1.
    destruct (is_dry _); cbn [fst]; [exact L1|]. destruct (faulted sc FInvDelete); cbn [fst]; cs. apply Cn_invnone.
  Qed.

  Lemma c_inv_set_task pl prev s : cstep s (fst (inv_set_task sc pl prev s)).
  Proof.
    unfold inv_set_task. destruct prev as [pv|]; cbn [fst]; [|apply c_refl].
    destruct (o_destroy (sc_opts sc) && destroy_successful pl pv s); [apply c_delete_inventory|].
    apply c_replace. unfold final_inventory. apply (union_NoDup nat Nat.eqb nat_eqb_spec).
  Qed.

  (* prune tasks only with pruning enabled *)
  Definition pok (t : task) : Prop :=
    match t with TPrune _ _ => o_prune (sc_opts sc) = true | _ => True end.

  Lemma c_run_task pl locals prev s t : NoDup (apply_ids pl) -> pok t ->
    cstep s (fst (run_task sc pl locals prev s t)).
  Proof.
    intros N PK. unfold run_task. cbv zeta.
    assert (S0 : cstep s (ev s (EStarted (task_name t)))) by apply c_ev.
    destruct t.
    - pose proof (c_inv_add_task pl (ev s (EStarted (task_name TInvAdd))) N) as T.
      destruct (inv_add_task sc pl _) as [s1 ok]. cbn [fst] in *. eapply c_tr; [exact S0|]. eapply c_tr; [exact T|apply c_ev].
    - cbn [fst]. eapply c_tr; [exact S0|]. eapply c_tr; [|apply c_ev].
      unfold apply_task. apply (step_fold Qt Cn Cn_refl Cn_trans). intros; apply c_apply_one.
    - cbn [fst]. eapply c_tr; [exact S0|]. eapply c_tr; [apply (step_wait_task sc Qt Cn Cn_refl Cn_trans Qt_ev Qt_deliv)|apply c_ev].
    - cbn [fst]. eapply c_tr; [exact S0|]. eapply c_tr; [|apply c_ev].
      unfold prune_task. apply (step_fold Qt Cn Cn_refl Cn_trans). intros; apply c_prune_one. exact PK.
    - pose proof (c_inv_set_task pl prev (ev s (EStarted (task_name TInvSet)))) as T.
      destruct (inv_set_task sc pl prev _) as [s1 ok]. cbn [fst] in *. eapply c_tr; [exact S0|]. eapply c_tr; [exact T|apply c_ev].
  Qed.

  Lemma c_run_tasks pl locals prev ts : NoDup (apply_ids pl) -> Forall pok ts ->
    forall s, cstep s (run_tasks sc pl locals prev s ts).
  Proof.
    intros N F. induction F as [|t rest Pt _ IH]; intros s; cbn [run_tasks]; [apply c_refl|].
    pose proof (c_run_task pl locals prev s t N Pt) as T.
    destruct (run_task sc pl locals prev s t) as [s1 ok]. cbn [fst] in T.
    destruct (negb ok); [eapply c_tr; [exact T|apply c_ev]|].
    destruct (r_abort s1); [eapply c_tr; [exact T|apply c_ev]|].
    eapply c_tr; [exact T|apply IH].
  Qed.

  Lemma apply_tasks_pok layers : forall ka kw, Forall pok (fst (apply_tasks sc ka kw layers)).
  Proof.
    induction layers as [|l t IH]; intros ka kw; cbn [apply_tasks]; [constructor|].
    destruct (is_dry _).
    - specialize (IH (S ka) kw). destruct (apply_tasks sc (S ka) kw t) as [ts kw']. cbn [fst] in *.
      constructor; [exact I|exact IH].
    - specialize (IH (S ka) (S kw)). destruct (apply_tasks sc (S ka) (S kw) t) as [ts kw']. cbn [fst] in *.
      constructor; [exact I|]. constructor; [exact I|exact IH].
  Qed.
  Lemma prune_tasks_pok layers : o_prune (sc_opts sc) = true -> forall kp kw, Forall pok (prune_tasks sc kp kw layers).
  Proof.
    intros P. induction layers as [|l t IH]; intros kp kw; cbn [prune_tasks]; [constructor|].
    destruct (is_dry _); constructor; try exact P; try apply IH. constructor; [exact I|apply IH].
  Qed.
  Lemma tasks_of_pok pl : Forall pok (tasks_of sc pl).
  Proof.
    unfold tasks_of.
    assert (A : Forall pok (fst (match pl_apply pl with [] => ([], 0) | _ => apply_tasks sc 0 0 (pl_apply_layers pl) end))).
    { destruct (pl_apply pl); [constructor|apply apply_tasks_pok]. }
    destruct (match pl_apply pl with [] => ([], 0) | _ => apply_tasks sc 0 0 (pl_apply_layers pl) end) as [at_ kw].
    cbn [fst] in A.
    apply Forall_app. split; [destruct (o_destroy _); repeat constructor|].
    apply Forall_app. split; [exact A|]. apply Forall_app. split; [|repeat constructor].
    destruct (o_prune (sc_opts sc)) eqn:P; [|constructor]. destruct (pl_prune pl); [constructor|].
    apply prune_tasks_pok. exact P.
  Qed.

  (* ---- the whole run ---------------------------------------------------------------------------- *)
  Variable c0 : cluster.
  Hypothesis HND : locals_nodup sc.
  Notation pl := (plan_of sc c0).

  Lemma plan_apply_ids_NoDup : NoDup (apply_ids pl).
  Proof.
    unfold apply_ids. rewrite plan_of_eq.
    destruct (bp_anatomy sc (live_crds sc c0) (locals_of sc) (found_in sc c0 (cand_of sc c0))) as [layers [cyc [_ [_ [E _]]]]].
    rewrite E. apply NoDup_map_filter_gen. rewrite applyA_ids. apply NoDup_map_filter_gen.
    apply locals_of_NoDup. exact HND.
  Qed.

  Theorem run_Cn : Cn c0 (r_cl (run_state sc c0)).
  Proof.
    destruct (run_state_shape sc c0) as [s C T|s C T _ _|s4 SO _ _|s4 prev SO _ _ _].
    - cbn [ev emit r_cl]. rewrite C. apply Cn_refl.
    - cbn [ev emit r_cl]. rewrite C. apply Cn_refl.
    - cbn [ev emit r_cl]. unfold pre_tasks. cbn [ev emit r_cl].
      assert (V : forall errs s, r_cl (fold_left (fun s e => ev s (EValidation (sortn e))) errs s) = r_cl s).
      { induction errs as [|e t IH]; intros s; cbn [fold_left]; [reflexivity|]. rewrite IH. reflexivity. }
      rewrite V, (so_cl _ _ _ SO). apply Cn_refl.
    - assert (P : r_cl (pre_tasks sc c0 s4) = c0).
      { unfold pre_tasks. cbn [ev emit r_cl].
        assert (V : forall errs s, r_cl (fold_left (fun s e => ev s (EValidation (sortn e))) errs s) = r_cl s).
        { induction errs as [|e t IH]; intros s; cbn [fold_left]; [reflexivity|]. rewrite IH. reflexivity. }
        rewrite V. exact (so_cl _ _ _ SO). }
      destruct (c_run_tasks pl (locals_of sc) prev (tasks_of sc pl) plan_apply_ids_NoDup (tasks_of_pok pl) (pre_tasks sc c0 s4)) as [X _].
      rewrite P in X. exact X.
  Qed.
End Trav1.
