(* mon_C11 (Corr/CorrPipeline.v) holds of every run of the model, without any
   hypothesis on the scenario:
   - no request targets an invalid object (from PipelineAuth.auth_run);
   - no stored-inventory snapshot holds an invalid id that was not tracked
     before the run (traversal of PipelineMonC11b);
   - exit-early: with an invalid object the run ends with the error event
     before any request; skip-invalid: every invalid object is named by a
     validation event (unless the run stopped before the plan), and a run
     that ends without error outside dry-run keeps every tracked invalid
     object in the stored inventory. *)
From Coq Require Import List Bool Arith NArith ZArith Lia.
From CliUtils Require Import Model.ObjSet Model.ActuationTable Model.PipelineTypes Model.Pipeline
     Proofs.ObjSetProofs Proofs.PipelineBase Proofs.PipelineAuth Proofs.PipelineEvents
     Corr.CorrLib Corr.CorrPipeline Proofs.PipelineOrphansPlan Proofs.PipelineMonBase Proofs.PipelineMonC13 Proofs.PipelineMonC10
     Proofs.PipelineMonC11b.
Import ListNotations.

Lemma match_nil {A} (l : list A) (b : bool) :
  (l <> [] -> b = true) -> match l with [] => true | _ :: _ => b end = true.
Proof. destruct l; [reflexivity|]. intros H. apply H. discriminate. Qed.

(* ---- state-level facts about the last task -------------------------------------------- *)
Section Last.
  Variable sc : scenario.

  Lemma tasks_of_last pl : exists ts, tasks_of sc pl = ts ++ [TInvSet].
  Proof.
    unfold tasks_of.
    destruct (match pl_apply pl with [] => ([], 0) | _ => apply_tasks sc 0 0 (pl_apply_layers pl) end) as [at_ kw].
    eexists. rewrite !app_assoc. reflexivity.
  Qed.

  (* a task list ending with the inventory-set task: the error event, or that task ran and succeeded *)
  Lemma run_tasks_last pl locals prev ts : forall s,
    In (IEv EError) (r_tr (run_tasks sc pl locals prev s (ts ++ [TInvSet]))) \/
    exists s', run_tasks sc pl locals prev s (ts ++ [TInvSet]) = fst (run_task sc pl locals prev s' TInvSet) /\
               snd (run_task sc pl locals prev s' TInvSet) = true.
  Proof.
    induction ts as [|t rest IH]; intros s; cbn [app run_tasks].
    - destruct (run_task sc pl locals prev s TInvSet) as [s1 ok] eqn:E. destruct ok; cbn [negb].
      + destruct (r_abort s1); [left; left; reflexivity|]. right. exists s. rewrite E. split; reflexivity.
      + left. left. reflexivity.
    - destruct (run_task sc pl locals prev s t) as [s1 ok].
      destruct (negb ok); [left; left; reflexivity|]. destruct (r_abort s1); [left; left; reflexivity|]. apply IH.
  Qed.

  Lemma run_task_inv_set pl locals prev s :
    r_cl (fst (run_task sc pl locals prev s TInvSet)) =
      r_cl (fst (inv_set_task sc pl prev (ev s (EStarted (GInvSet, 0))))) /\
    snd (run_task sc pl locals prev s TInvSet) = snd (inv_set_task sc pl prev (ev s (EStarted (GInvSet, 0)))).
  Proof.
    unfold run_task. cbv zeta. cbn [task_name].
    destruct (inv_set_task sc pl prev (ev s (EStarted (GInvSet, 0)))) as [s1 ok]. split; reflexivity.
  Qed.

  Lemma destroy_successful_no_invalid pl pv s :
    destroy_successful pl pv s = true -> intern pv (pl_invalid pl) = [].
  Proof.
    unfold destroy_successful.
    destruct (with_actuation (r_tbl s) SDelete AFailed); [|discriminate].
    destruct (with_reconcile (r_tbl s) RFailed); [|discriminate].
    destruct (with_reconcile (r_tbl s) RTimeout); [|discriminate].
    destruct (diffn _ _); [|discriminate].
    destruct (intern pv (pl_invalid pl)); [reflexivity|discriminate].
  Qed.

  Lemma replace_ok s ids :
    snd (replace sc s ids) = true -> is_dry (o_dry (sc_opts sc)) = false ->
    exists L, inv (r_cl (fst (replace sc s ids))) = Some L /\ forall j, In j ids -> In j L.
  Proof.
    intros OK ED. unfold replace in *. cbv zeta in *. rewrite ED in *.
    pose proof (same6_inv_list sc s) as L1.
    destruct (inv_list sc s) as [s1 r1]. cbn [fst] in L1.
    destruct r1 as [x|]; [|discriminate OK].
    pose proof (same6_inv_list sc s1) as L2. pose proof (inv_list_res sc s1) as R2.
    destruct (inv_list sc s1) as [s2 r2]. cbn [fst snd] in L2, R2.
    destruct r2 as [[cur|]|]; try discriminate OK.
    specialize (R2 _ eq_refl). destruct L2 as [C2 _].
    destruct (set_eqn ids cur && negb (o_status_policy_all (sc_opts sc))) eqn:EQ.
    - cbn [fst]. exists cur. split; [rewrite C2; symmetry; exact R2|].
      apply andb_true_iff in EQ. destruct EQ as [EQ _]. unfold set_eqn in EQ.
      intros j Hj. apply (proj1 (equal_spec nat Nat.eqb nat_eqb_spec ids cur) EQ). exact Hj.
    - unfold inv_update in *. cbv zeta in *.
      destruct (faulted sc (FInvWrite (r_nwrite s2))); [discriminate OK|].
      cbn [r_cl] in *. destruct (inv (r_cl s2)); [|discriminate OK].
      cbn. exists (sortn ids). split; [reflexivity|]. intros j Hj. apply sortn_In. exact Hj.
  Qed.

  Lemma inv_set_ok pl prev s :
    snd (inv_set_task sc pl prev s) = true -> is_dry (o_dry (sc_opts sc)) = false ->
    exists pv, prev = Some pv /\
      forall i, In i pv -> In i (pl_invalid pl) ->
        exists L, inv (r_cl (fst (inv_set_task sc pl prev s))) = Some L /\ In i L.
  Proof.
    intros OK ED. unfold inv_set_task in *. destruct prev as [pv|]; [|discriminate OK].
    exists pv. split; [reflexivity|]. intros i Hp Hi.
    destruct (o_destroy (sc_opts sc) && destroy_successful pl pv s) eqn:DS.
    - exfalso. apply andb_true_iff in DS. destruct DS as [_ DS].
      apply destroy_successful_no_invalid in DS.
      assert (X : In i (intern pv (pl_invalid pl))) by (apply intern_In; split; assumption).
      rewrite DS in X. destruct X.
    - destruct (replace_ok s (final_inventory pl pv s) OK ED) as [L [EL HL]].
      exists L. split; [exact EL|]. apply HL. apply final_inventory_keeps_invalid; assumption.
  Qed.
End Last.

Section Run.
  Variable sc : scenario.
  Variable c0 : cluster.

  Notation pl := (plan_of sc c0).
  Notation invd := (pl_invalid (plan_of sc c0)).
  Notation t := (out_trace (run sc c0)).

  (* ---- the plan of the run is the plan of the monitor ------------------------------------ *)
  Lemma run_plan_cases : run_plan sc c0 = None \/ run_plan sc c0 = Some (pl, locals_of sc).
  Proof.
    unfold run_plan. cbv zeta.
    pose proof (same6_inv_list sc (init_state sc c0)) as L1. pose proof (inv_list_res sc (init_state sc c0)) as R1.
    pose proof (known_inv_list sc (init_state sc c0)) as KN1.
    destruct (inv_list sc (init_state sc c0)) as [s1 r1]. cbn [fst snd] in *.
    destruct r1 as [st|]; [|left; reflexivity].
    specialize (R1 st eq_refl). cbn [init_state r_cl] in R1. subst st.
    fold (prev_of c0). fold (locals_of sc). fold (cand_of sc c0).
    pose proof (fetch_all_exact sc (cand_of sc c0) s1) as FE.
    pose proof (known_fetch_all sc (cand_of sc c0) s1) as KN2.
    destruct (fetch_all sc s1 (cand_of sc c0)) as [s2 r2]. cbn [fst snd] in FE, KN2.
    destruct r2 as [pobjs|]; [|left; reflexivity]. right.
    destruct L1 as [C1 _]. cbn [init_state r_cl r_known] in C1, KN1.
    assert (HK1 : r_known s1 = live_crds sc (r_cl s1)) by (rewrite KN1, C1; reflexivity).
    rewrite (FE pobjs HK1 eq_refl), C1, KN2, KN1.
    rewrite <- plan_of_eq. reflexivity.
  Qed.

  Lemma apply_valid_plan : forall i, In i (apply_ids pl) -> ~ In i invd.
  Proof. exact (bp_apply_valid sc (live_crds sc c0) (locals_of sc) (found_in sc c0 (cand_of sc c0))). Qed.

  (* ---- conjunct 1: invalid objects are never sent ----------------------------------------- *)
  Lemma c11_never_sent :
    forallb (fun x => match req_target (fst x) with Some i => negb (memn i invd) | None => true end) (reqs t) = true.
  Proof.
    apply forallb_forall. intros [r ok] H. apply reqs_In in H. destruct H as [m [st H]].
    pose proof (auth_run sc c0) as A.
    destruct run_plan_cases as [E|E]; rewrite E in A.
    - exfalso. exact (A r ok m st H).
    - rewrite Forall_forall in A. specialize (A _ H). cbn [Qa] in A. cbn [fst].
      assert (V : forall i, In i (apply_ids pl) -> negb (memn i invd) = true).
      { intros i Hi. destruct (memn i invd) eqn:M; [|reflexivity]. apply memn_In in M.
        exfalso. exact (apply_valid_plan i Hi M). }
      assert (P : forall c, In (pobj_of_live c) (pl_prune pl) -> negb (memn (c_id c) invd) = true).
      { intros c Hc. destruct (memn (c_id c) invd) eqn:M; [|reflexivity]. apply memn_In in M.
        exfalso. destruct (run_plan_prune sc c0 _ _ c E Hc) as [_ [_ [_ X]]]. exact (X M). }
      destruct r; cbn [req_target]; try reflexivity.
      + apply V. exact A.
      + apply V. exact A.
      + apply V. exact A.
      + destruct A as [c [Hc [<- _]]]. apply P. exact Hc.
      + destruct A as [c [uids [Hc [<- _]]]]. apply P. exact Hc.
  Qed.

  (* ---- conjunct 2: snapshots of the stored inventory ---------------------------------------- *)
  Notation Qs := (Qs pl (prev_of c0)).
  Notation Is := (Is pl (prev_of c0)).
  Notation sstep := (sstep pl (prev_of c0)).

  Lemma start_Is s4 : start_ok sc c0 s4 -> Is s4.
  Proof.
    intros [C _ _ _ _ [s2 [E2 ET]]]. split.
    - intros r Hr Hs. rewrite ET in Hr. destruct (register_facts sc pl s2) as [_ [_ RF]].
      destruct (RF r Hr Hs) as [H|H]; [rewrite E2 in H; destruct H|exact H].
    - rewrite C. intros l E i Hi _. unfold prev_of. rewrite E. exact Hi.
  Qed.

  Lemma s_pre_tasks s : sstep s (pre_tasks sc c0 s).
  Proof.
    unfold pre_tasks. eapply s_trans; [|apply s_ev]. apply s_fold. intros; apply s_ev.
  Qed.

  Lemma c11_snap_state : Forall Qs (r_tr (run_state sc c0)).
  Proof.
    assert (K : forall s sf, r_tr s = [] -> Is s -> sstep s sf -> Forall Qs (r_tr sf)).
    { intros s sf E I0 S. destruct (S I0) as [_ [l [El F]]]. rewrite El, E, app_nil_r. exact F. }
    destruct (run_state_shape sc c0) as [s C T|s C T _ _|s4 SO _ _|s4 prev SO _ _ PV].
    - cbn [ev emit r_tr]. rewrite T. constructor; [exact I|constructor].
    - cbn [ev emit r_tr]. rewrite T. constructor; [exact I|constructor].
    - apply (K s4); [apply SO|apply start_Is; exact SO|]. eapply s_trans; [apply s_pre_tasks|apply s_ev].
    - apply (K s4); [apply SO|apply start_Is; exact SO|]. eapply s_trans; [apply s_pre_tasks|].
      apply s_run_tasks.
      + exact apply_valid_plan.
      + exact (tasks_of_ok sc (live_crds sc c0) (locals_of sc) (found_in sc c0 (cand_of sc c0))).
      + intros pv E i Hi. destruct PV as [PV|PV]; rewrite PV in E; [discriminate|]. injection E as <-. exact Hi.
  Qed.

  Lemma c11_snaps :
    forallb (fun x => let '(_, _, _, s) := x in
                      match s with
                      | Some l => forallb (fun i => negb (memn i invd) || memn i (prev_of c0)) l
                      | None => true
                      end) (snaps t) = true.
  Proof.
    apply forallb_forall. intros [[[r ok] m] st] H. unfold snaps in H. apply in_flat_map in H.
    destruct H as [it [Hit H]]. destruct it as [r' ok' m' st'| | |]; cbn in H; try contradiction.
    destruct H as [[= <- <- <- <-]|[]].
    rewrite out_trace_run in Hit. apply in_app_or in Hit. destruct Hit as [Hit|[Hit|[]]]; [|discriminate].
    apply (proj2 (in_rev _ _)) in Hit.
    pose proof c11_snap_state as F. rewrite Forall_forall in F. specialize (F _ Hit). cbn [PipelineMonC11b.Qs] in F.
    destruct st' as [l|]; [|reflexivity]. apply forallb_forall. intros i Hi.
    destruct (memn i invd) eqn:M; [|reflexivity]. cbn [negb orb]. apply memn_In. apply (F i Hi). apply memn_In. exact M.
  Qed.

  (* ---- conjunct 3 ----------------------------------------------------------------------------- *)
  Lemma in_state_events e : In (IEv e) (r_tr (run_state sc c0)) -> In e (events t).
  Proof.
    intros H. rewrite out_trace_run. unfold events. apply in_flat_map. exists (IEv e).
    split; [|left; reflexivity]. apply in_or_app. left. apply (proj1 (in_rev _ _)). exact H.
  Qed.

  Lemma has_error_state : In (IEv EError) (r_tr (run_state sc c0)) -> has_error t = true.
  Proof.
    intros H. unfold has_error. apply existsb_exists. exists EError. split; [apply in_state_events; exact H|reflexivity].
  Qed.

  Lemma pre_tasks_tr s :
    r_tr (pre_tasks sc c0 s) =
      IEv (init_ev sc c0) :: rev (map (fun e => IEv (EValidation (sortn e))) (pl_valerrs pl)) ++ r_tr s.
  Proof.
    unfold pre_tasks. cbn [ev emit r_tr]. f_equal. generalize (pl_valerrs pl) as errs. intros errs. revert s.
    induction errs as [|e rest IH]; intros s; cbn [fold_left map rev]; [reflexivity|].
    rewrite IH. cbn [ev emit r_tr]. rewrite <- app_assoc. reflexivity.
  Qed.

  (* the shapes of the run, as needed here *)
  Lemma shape_cases :
    t = [IEv EError; IClosed] \/
    exists s4, start_ok sc c0 s4 /\ (o_valpol (sc_opts sc) = VExitEarly -> pl_valerrs pl = []) /\
      (run_state sc c0 = ev (pre_tasks sc c0 s4) EError \/
       exists prev, (prev = None \/ prev = Some (prev_of c0)) /\
         run_state sc c0 = run_tasks sc pl (locals_of sc) prev (pre_tasks sc c0 s4) (tasks_of sc pl)).
  Proof.
    rewrite out_trace_run.
    remember (run_state sc c0) as sf eqn:ESF. pose proof (run_state_shape sc c0) as SH. rewrite <- ESF in SH.
    destruct SH as [s C T|s C T _ _|s4 SO _ HV|s4 prev SO _ HV PV].
    - left. cbn [ev emit r_tr]. rewrite T. reflexivity.
    - left. cbn [ev emit r_tr]. rewrite T. reflexivity.
    - right. exists s4. split; [exact SO|]. split; [exact HV|]. left. reflexivity.
    - right. exists s4. split; [exact SO|]. split; [exact HV|]. right. exists prev. split; [exact PV|reflexivity].
  Qed.

  Lemma invalid_valerrs i : In i invd -> exists e, In e (pl_valerrs pl) /\ In i e.
  Proof. exact (invalid_named sc (live_crds sc c0) (locals_of sc) (found_in sc c0 (cand_of sc c0)) i). Qed.

  (* the trace of the run state extends the trace after the validation and plan events *)
  Lemma pre_tasks_prefix s4 :
    run_state sc c0 = ev (pre_tasks sc c0 s4) EError \/
    (exists prev, (prev = None \/ prev = Some (prev_of c0)) /\
       run_state sc c0 = run_tasks sc pl (locals_of sc) prev (pre_tasks sc c0 s4) (tasks_of sc pl)) ->
    forall it, In it (r_tr (pre_tasks sc c0 s4)) -> In it (r_tr (run_state sc c0)).
  Proof.
    intros [E|[prev [_ E]]] it Hit; rewrite E.
    - right. exact Hit.
    - destruct (n_run_tasks sc pl (locals_of sc) prev (tasks_of sc pl) (pre_tasks sc c0 s4)) as [_ [l [El _]]].
      rewrite El. apply in_or_app. right. exact Hit.
  Qed.

  Lemma c11_named :
    negb (existsb (fun e => match e with EInit _ => true | _ => false end) (events t)) ||
    forallb (fun i => existsb (fun e => match e with EValidation l => memn i l | _ => false end) (events t)) invd = true.
  Proof.
    destruct shape_cases as [E|[s4 [SO [_ SH]]]].
    - rewrite E. reflexivity.
    - apply orb_true_iff. right. apply forallb_forall. intros i Hi.
      destruct (invalid_valerrs i Hi) as [e [He Hie]].
      apply existsb_exists. exists (EValidation (sortn e)). split; [|apply memn_In, sortn_In; exact Hie].
      apply in_state_events. apply (pre_tasks_prefix s4 SH). rewrite pre_tasks_tr. right.
      apply in_or_app. left. apply (proj1 (in_rev _ _)).
      apply in_map_iff. exists e. split; [reflexivity|exact He].
  Qed.

  Lemma c11_kept :
    has_error t || is_dry (o_dry (sc_opts sc)) ||
    forallb (fun i => negb (memn i (prev_of c0)) || memn i (prev_of (out_final (run sc c0)))) invd = true.
  Proof.
    destruct (has_error t) eqn:HE; [reflexivity|]. destruct (is_dry (o_dry (sc_opts sc))) eqn:ED; [reflexivity|].
    cbn [orb].
    destruct shape_cases as [E|[s4 [SO [_ [E|[prev [PV E]]]]]]].
    - rewrite E in HE. discriminate HE.
    - rewrite has_error_state in HE; [discriminate HE|]. rewrite E. left. reflexivity.
    - destruct (tasks_of_last sc pl) as [ts ETS]. rewrite ETS in E.
      destruct (run_tasks_last sc pl (locals_of sc) prev ts (pre_tasks sc c0 s4)) as [HErr|[s' [E1 E2]]].
      + rewrite has_error_state in HE; [discriminate HE|]. rewrite E. exact HErr.
      + destruct (run_task_inv_set sc pl (locals_of sc) prev s') as [RC RS].
        rewrite RS in E2. destruct (inv_set_ok sc pl prev _ E2 ED) as [pv [EP KEEP]].
        assert (PVE : pv = prev_of c0) by (destruct PV as [PV|PV]; rewrite PV in EP; [discriminate|injection EP as <-; reflexivity]).
        subst pv.
        apply forallb_forall. intros i Hi. destruct (memn i (prev_of c0)) eqn:M; [|reflexivity]. cbn [negb orb].
        apply memn_In in M. destruct (KEEP i M Hi) as [L [EL HL]].
        rewrite out_final_run, E, E1, RC. unfold prev_of at 1. cbn [norm_cluster inv]. unfold stored. rewrite EL.
        cbn [option_map]. apply memn_In, sortn_In. exact HL.
  Qed.

  Lemma c11_third :
    match invd with
    | [] => true
    | _ :: _ =>
        match o_valpol (sc_opts sc) with
        | VExitEarly => match reqs t with [] => true | _ => false end && has_error t
        | VSkipInvalid =>
            (negb (existsb (fun e => match e with EInit _ => true | _ => false end) (events t)) ||
             forallb (fun i => existsb (fun e => match e with EValidation l => memn i l | _ => false end) (events t)) invd)
            && (has_error t || is_dry (o_dry (sc_opts sc)) ||
                forallb (fun i => negb (memn i (prev_of c0)) || memn i (prev_of (out_final (run sc c0)))) invd)
        end
    end = true.
  Proof.
    apply match_nil. intros NE. destruct (o_valpol (sc_opts sc)) eqn:EV.
    - assert (VE : pl_valerrs pl <> []).
      { destruct invd as [|i0 rest] eqn:EI; [congruence|].
        destruct (invalid_valerrs i0) as [e [He _]]; [rewrite EI; left; reflexivity|].
        intros X. rewrite X in He. destruct He. }
      destruct shape_cases as [E|[s4 [_ [HV _]]]].
      + rewrite E. reflexivity.
      + exfalso. apply VE. apply HV. exact EV.
    - rewrite c11_named, c11_kept. reflexivity.
  Qed.

  Theorem monitor_C11 : mon_C11 sc c0 (run sc c0) = true.
  Proof.
    unfold mon_C11. cbv zeta.
    apply andb_true_iff. split; [apply andb_true_iff; split|].
    - exact c11_never_sent.
    - exact c11_snaps.
    - exact c11_third.
  Qed.
End Run.

Print Assumptions monitor_C11.
