(* mon_C04_obs (Corr/CorrPipeline.v), part A: the invariant and what every
   operation other than the wait machine does to it.

   Outside dry-run, for the set `aids` of apply ids of the plan, the run state
   satisfies (o4_Inv):
   - V : the observation cache is exactly the list of delivered observations
         of the (reversed) trace, newest first;
   - G : every Successful wait event of an object e of `aids` in the trace is
         justified: the cache of that moment holds for e an observation that
         is Current, carries a body, generation >= 2, and whose UID (if not
         empty) is the UID of the live object e (if not empty) - the live
         object exists;
   - T1: every object of `aids` has a record with strategy Apply;
   - T2a: a successful-apply record of an object of `aids` carries the UID of
         the live object, which exists;
   - T2g: a successful-apply record carries generation 2.
   Objects of `aids` are never deleted and keep their UID (preorder o4_Cl), so
   G is stable.  Everything here is proved; nothing is assumed. *)
From Coq Require Import List Bool Arith NArith ZArith Lia.
From CliUtils Require Import Model.ObjSet Model.ActuationTable Model.PipelineTypes Model.Pipeline
     Proofs.ObjSetProofs Proofs.ActuationTableProofs Proofs.PipelineBase Proofs.PipelineAuth
     Corr.CorrPipeline Proofs.PipelineOrphansBase Proofs.PipelineOrphansSpec Proofs.PipelineMonBase.
Import ListNotations.

(* ---- lists --------------------------------------------------------------------------- *)
Definition o4_delivs (l : list item) : list sobs :=
  flat_map (fun it => match it with IDeliv o => [o] | _ => [] end) l.
Definition o4_nwok (it : item) : Prop := match it with IEv (EWait _ _ WOk) => False | _ => True end.
Definition o4_ndel (it : item) : Prop := match it with IDeliv _ => False | _ => True end.

Lemma o4_delivs_app a b : o4_delivs (a ++ b) = o4_delivs a ++ o4_delivs b.
Proof. unfold o4_delivs. apply flat_map_app. Qed.

Lemma o4_delivs_ndel l : Forall o4_ndel l -> o4_delivs l = [].
Proof.
  induction 1 as [|it l Hit _ IH]; [reflexivity|]. unfold o4_delivs in *. cbn [flat_map]. rewrite IH.
  destruct it; cbn in Hit; try contradiction; reflexivity.
Qed.

Lemma o4_split_ext {A} (l t l1 : list A) x l2 :
  l ++ t = l1 ++ x :: l2 -> ~ In x l -> exists l1', l1 = l ++ l1' /\ t = l1' ++ x :: l2.
Proof.
  revert l1. induction l as [|y l IH]; intros l1 E N.
  - exists l1. split; [reflexivity|exact E].
  - destruct l1 as [|z l1]; cbn [app] in E.
    + injection E as E1 _. exfalso. apply N. left. exact E1.
    + injection E as E1 E2. subst z. destruct (IH l1 E2) as [l1' [-> ->]].
      * intros H. apply N. right. exact H.
      * exists l1'. split; reflexivity.
Qed.

Lemma o4_nwok_notin l g e : Forall o4_nwok l -> ~ In (IEv (EWait g e WOk)) l.
Proof. intros F H. rewrite Forall_forall in F. exact (F _ H). Qed.

Lemma o4_snap_boring cl lt : Forall (snap_of cl) lt -> Forall o4_nwok lt /\ Forall o4_ndel lt.
Proof.
  induction 1 as [|it lt [r [ok [-> _]]] _ [IH1 IH2]]; [split; constructor|].
  split; constructor; try exact I; assumption.
Qed.

(* ---- the justification of a Successful wait event ---------------------------------------- *)
Definition o4_okobs (cl : cluster) (e : id) (o : sobs) : Prop :=
  s_st o = SCurrent /\ s_body o = true /\ (2 <= s_gen o)%Z /\
  exists c', fo cl e = Some c' /\ (s_uid o = 0%N \/ c_uid c' = 0%N \/ c_uid c' = s_uid o).

Section Inv.
  Variable aids : list id.

  (* objects of the apply set are never deleted and keep their UID *)
  Definition o4_Cl (cl cl' : cluster) : Prop :=
    forall i, In i aids -> forall c', fo cl i = Some c' -> exists c'', fo cl' i = Some c'' /\ c_uid c'' = c_uid c'.

  Lemma o4_Cl_refl cl : o4_Cl cl cl.
  Proof. intros i _ c' H. exists c'. split; [exact H|reflexivity]. Qed.
  Lemma o4_Cl_trans a b c : o4_Cl a b -> o4_Cl b c -> o4_Cl a c.
  Proof.
    intros H1 H2 i Hi c' F. destruct (H1 i Hi c' F) as [c1 [F1 U1]]. destruct (H2 i Hi c1 F1) as [c2 [F2 U2]].
    exists c2. split; [exact F2|congruence].
  Qed.
  Lemma o4_Cl_objs cl cl' : objs cl' = objs cl -> o4_Cl cl cl'.
  Proof. intros E i _ c' F. exists c'. unfold fo in *. rewrite E. split; [exact F|reflexivity]. Qed.
  Lemma o4_Cl_eq cl cl' : cl' = cl -> o4_Cl cl cl'.
  Proof. intros ->. apply o4_Cl_refl. Qed.

  Lemma o4_Cl_frame cl cl' i : frame cl cl' i -> ~ In i aids -> o4_Cl cl cl'.
  Proof.
    intros [_ [F _]] N j Hj c' Fj. exists c'. split; [|reflexivity]. rewrite F; [exact Fj|].
    intros ->. exact (N Hj).
  Qed.
  Lemma o4_Cl_applied cl cl' i u : applied cl cl' i u -> o4_Cl cl cl'.
  Proof.
    intros [[_ [F _]] [n [Fn [_ [Un D]]]]] j Hj c' Fj. destruct (Nat.eq_dec j i) as [->|NE].
    - exists n. split; [exact Fn|]. destruct D as [[c [Fc Uc]]|[Fc _]]; [|congruence].
      rewrite Fc in Fj. injection Fj as <-. congruence.
    - exists c'. split; [|reflexivity]. rewrite F; [exact Fj|exact NE].
  Qed.

  Lemma o4_okobs_mono cl cl' e o : o4_Cl cl cl' -> In e aids -> o4_okobs cl e o -> o4_okobs cl' e o.
  Proof.
    intros C He [A [B [D [c' [F U]]]]]. destruct (C e He c' F) as [c'' [F' U']].
    split; [exact A|]. split; [exact B|]. split; [exact D|]. exists c''. split; [exact F'|]. rewrite U'. exact U.
  Qed.

  Definition o4_V (s : rst) : Prop := r_cache s = o4_delivs (r_tr s).
  Definition o4_G (s : rst) : Prop :=
    forall l1 g e l2, r_tr s = l1 ++ IEv (EWait g e WOk) :: l2 -> In e aids ->
      o4_okobs (r_cl s) e (cache_get (o4_delivs l2) e).
  Definition o4_T1 (s : rst) : Prop := forall e, In e aids -> exists a u, tv s e = Some (SApply, a, u).
  Definition o4_T2a (s : rst) : Prop :=
    forall e st u, In e aids -> tv s e = Some (st, ASucceeded, u) ->
      exists c', fo (r_cl s) e = Some c' /\ c_uid c' = u.
  Definition o4_T2g (t : table id) : Prop :=
    forall e r, lookup Nat.eqb t e = Some r -> r_str r = SApply -> r_act r = ASucceeded -> r_gen r = harness_gen.

  Record o4_Inv (s : rst) : Prop := o4_mkInv {
    o4_iV : o4_V s; o4_iG : o4_G s; o4_iT1 : o4_T1 s; o4_iT2a : o4_T2a s; o4_iT2g : o4_T2g (r_tbl s)
  }.

  (* ---- the trace part: extension by items that are neither deliveries nor Successful wait events *)
  Lemma o4_V_ext s s' l : r_cache s' = r_cache s -> r_tr s' = l ++ r_tr s -> Forall o4_ndel l -> o4_V s -> o4_V s'.
  Proof.
    unfold o4_V. intros EC ET F H. rewrite EC, ET, o4_delivs_app, (o4_delivs_ndel l F). exact H.
  Qed.

  Lemma o4_G_ext s s' l : o4_Cl (r_cl s) (r_cl s') -> r_tr s' = l ++ r_tr s -> Forall o4_nwok l -> o4_G s -> o4_G s'.
  Proof.
    intros C ET F H l1 g e l2 E He. rewrite ET in E.
    destruct (o4_split_ext l (r_tr s) l1 _ l2 E (o4_nwok_notin l g e F)) as [l1' [_ E']].
    eapply o4_okobs_mono; [exact C|exact He|]. exact (H l1' g e l2 E' He).
  Qed.

  (* ---- the table part ------------------------------------------------------------------- *)
  Lemma o4_T_keep s s' : (forall j, In j aids -> tv s' j = tv s j) -> o4_Cl (r_cl s) (r_cl s') ->
    (o4_T1 s -> o4_T1 s') /\ (o4_T2a s -> o4_T2a s').
  Proof.
    intros ET C. split.
    - intros H e He. rewrite (ET e He). exact (H e He).
    - intros H e st u He E. rewrite (ET e He) in E. destruct (H e st u He E) as [c' [F U]].
      destruct (C e He c' F) as [c'' [F' U']]. exists c''. split; [exact F'|congruence].
  Qed.

  (* ---- steps that leave the justification of every recorded event intact ----------------------- *)
  Definition o4_gstep (s s' : rst) : Prop :=
    (forall j, In j aids -> tv s' j = tv s j) /\ (o4_T2g (r_tbl s) -> o4_T2g (r_tbl s')) /\
    r_cache s' = r_cache s /\ o4_Cl (r_cl s) (r_cl s') /\
    exists l, r_tr s' = l ++ r_tr s /\ Forall o4_nwok l /\ Forall o4_ndel l.

  Lemma o4_gstep_refl s : o4_gstep s s.
  Proof.
    split; [reflexivity|]. split; [exact (fun H => H)|]. split; [reflexivity|]. split; [apply o4_Cl_refl|].
    exists []. split; [reflexivity|split; constructor].
  Qed.
  Lemma o4_gstep_trans a b c : o4_gstep a b -> o4_gstep b c -> o4_gstep a c.
  Proof.
    intros [A1 [A2 [A3 [A4 [l1 [A5 [A6 A7]]]]]]] [B1 [B2 [B3 [B4 [l2 [B5 [B6 B7]]]]]]].
    split; [intros j Hj; rewrite (B1 j Hj); exact (A1 j Hj)|]. split; [intros H; exact (B2 (A2 H))|].
    split; [congruence|]. split; [eapply o4_Cl_trans; eassumption|].
    exists (l2 ++ l1). split; [rewrite B5, A5, app_assoc; reflexivity|].
    split; apply Forall_app; split; assumption.
  Qed.

  Lemma o4_inv_gstep s s' : o4_gstep s s' -> o4_Inv s -> o4_Inv s'.
  Proof.
    intros [A1 [A2 [A3 [A4 [l [A5 [A6 A7]]]]]]] [V G T1 T2a T2g].
    destruct (o4_T_keep s s' A1 A4) as [K1 K2]. constructor.
    - exact (o4_V_ext s s' l A3 A5 A7 V).
    - exact (o4_G_ext s s' l A4 A5 A6 G).
    - exact (K1 T1).
    - exact (K2 T2a).
    - exact (A2 T2g).
  Qed.

  (* the table is untouched *)
  Lemma o4_gstep_tbl s s' l : r_tbl s' = r_tbl s -> r_cache s' = r_cache s -> o4_Cl (r_cl s) (r_cl s') ->
    r_tr s' = l ++ r_tr s -> Forall o4_nwok l -> Forall o4_ndel l -> o4_gstep s s'.
  Proof.
    intros ET EC C E F1 F2. split; [intros j _; unfold tv; rewrite ET; reflexivity|].
    split; [rewrite ET; exact (fun H => H)|]. split; [exact EC|]. split; [exact C|]. exists l. auto.
  Qed.

  Lemma o4_gstep_ev s e : o4_nwok (IEv e) -> o4_gstep s (ev s e).
  Proof.
    intros H. apply (o4_gstep_tbl s (ev s e) [IEv e]); try reflexivity; [apply o4_Cl_refl| |];
      constructor; try exact H; try exact I; constructor.
  Qed.

  Lemma o4_gstep_fold {A} (f : rst -> A -> rst) (l : list A) :
    (forall s a, In a l -> o4_gstep s (f s a)) -> forall s, o4_gstep s (fold_left f l s).
  Proof.
    induction l as [|a l IH]; intros H s; cbn; [apply o4_gstep_refl|].
    eapply o4_gstep_trans; [apply H; left; reflexivity|]. apply IH. intros; apply H; right; assumption.
  Qed.

  (* ---- the table through the reconcile update of the wait machine ------------------------------- *)
  Lemma o4_T2g_set_status t n : (r_str n = SApply -> r_act n = ASucceeded -> r_gen n = harness_gen) ->
    o4_T2g t -> o4_T2g (set_status Nat.eqb t n).
  Proof.
    intros Hn H e r L. rewrite (lookup_set_status id Nat.eqb nat_eqb_spec) in L. unfold spec_set in L.
    match type of L with context [if ?b then _ else _] => destruct b end; [injection L as <-; exact Hn|exact (H e r L)].
  Qed.

  Lemma o4_T2g_rec_reconcile s i rc : o4_T2g (r_tbl s) -> o4_T2g (r_tbl (rec_reconcile s i rc)).
  Proof.
    intros H. unfold rec_reconcile.
    pose proof (set_reconcile_some id Nat.eqb nat_eqb_spec (r_tbl s) i rc) as S. unfold id in *.
    destruct (set_reconcile Nat.eqb (r_tbl s) i rc) as [t|]; [|exact H]. cbn [set_tbl r_tbl].
    destruct S as [_ [S _]]. intros e r L. rewrite S in L. unfold spec_set_rec in L.
    match type of L with context [if ?b then _ else _] => destruct b end; [|exact (H e r L)].
    destruct (lookup Nat.eqb (r_tbl s) i) as [r0|] eqn:L0; [|discriminate]. injection L as <-. cbn.
    exact (H i r0 L0).
  Qed.

  Lemma o4_rec_reconcile_fields s i rc :
    r_cl (rec_reconcile s i rc) = r_cl s /\ r_cache (rec_reconcile s i rc) = r_cache s /\
    r_tr (rec_reconcile s i rc) = r_tr s /\ forall j, tv (rec_reconcile s i rc) j = tv s j.
  Proof.
    unfold rec_reconcile. destruct (set_reconcile Nat.eqb (r_tbl s) i rc) as [t|] eqn:E; [|repeat split].
    repeat split. intros j. unfold tv. cbn [set_tbl r_tbl]. apply (tvl_set_reconcile _ _ _ _ E).
  Qed.

  (* a wait event with its reconcile update: Successful only with its justification *)
  Lemma o4_inv_wev s g i rc w :
    (w = WOk -> In i aids -> o4_okobs (r_cl s) i (cache_get (r_cache s) i)) ->
    o4_Inv s -> o4_Inv (ev (rec_reconcile s i rc) (EWait g i w)).
  Proof.
    intros J [V G T1 T2a T2g]. destruct (o4_rec_reconcile_fields s i rc) as [EC [EK [ET EV]]].
    assert (EV' : forall j, tv (ev (rec_reconcile s i rc) (EWait g i w)) j = tv s j) by (intros j; exact (EV j)).
    constructor.
    - unfold o4_V in *. cbn [ev emit r_cache r_tr]. rewrite EK, ET. exact V.
    - intros l1 g' e l2 E He. cbn [ev emit r_tr r_cl] in *. rewrite EC. rewrite ET in E.
      destruct l1 as [|y l1]; cbn [app] in E.
      + injection E as E1 E2 E3 E4. subst g' e w l2. unfold o4_V in V. rewrite <- V. exact (J eq_refl He).
      + injection E as _ E. exact (G l1 g' e l2 E He).
    - intros e He. rewrite EV'. exact (T1 e He).
    - intros e st u He E. rewrite EV' in E. cbn [ev emit r_cl]. rewrite EC. exact (T2a e st u He E).
    - cbn [ev emit r_tbl]. apply o4_T2g_rec_reconcile. exact T2g.
  Qed.

  (* one status delivery: the trace item(s) and the cache update *)
  Lemma o4_inv_deliv (b : bool) s d :
    let s2 := if b then ev (emit s (IDeliv d)) (EStatus (s_id d) (s_st d)) else emit s (IDeliv d) in
    o4_Inv s -> o4_Inv (set_cache s2 (d :: r_cache s2)).
  Proof.
    cbv zeta. intros [V G T1 T2a T2g].
    assert (EC : r_cl (set_cache (if b then ev (emit s (IDeliv d)) (EStatus (s_id d) (s_st d)) else emit s (IDeliv d))
                          (d :: r_cache (if b then ev (emit s (IDeliv d)) (EStatus (s_id d) (s_st d)) else emit s (IDeliv d)))) = r_cl s)
      by (destruct b; reflexivity).
    assert (EB : r_tbl (set_cache (if b then ev (emit s (IDeliv d)) (EStatus (s_id d) (s_st d)) else emit s (IDeliv d))
                          (d :: r_cache (if b then ev (emit s (IDeliv d)) (EStatus (s_id d) (s_st d)) else emit s (IDeliv d)))) = r_tbl s)
      by (destruct b; reflexivity).
    constructor.
    - unfold o4_V in *. destruct b; cbn [set_cache ev emit r_cache r_tr o4_delivs flat_map app]; rewrite V; reflexivity.
    - intros l1 g e l2 E He. rewrite EC.
      assert (X : exists l, r_tr (set_cache (if b then ev (emit s (IDeliv d)) (EStatus (s_id d) (s_st d)) else emit s (IDeliv d))
                          (d :: r_cache (if b then ev (emit s (IDeliv d)) (EStatus (s_id d) (s_st d)) else emit s (IDeliv d)))) = l ++ r_tr s /\
                          Forall o4_nwok l).
      { destruct b; [exists [IEv (EStatus (s_id d) (s_st d)); IDeliv d]|exists [IDeliv d]];
          (split; [reflexivity|repeat constructor]). }
      destruct X as [l [EL F]]. rewrite EL in E.
      destruct (o4_split_ext l (r_tr s) l1 _ l2 E (o4_nwok_notin l g e F)) as [l1' [_ E']].
      exact (G l1' g e l2 E' He).
    - intros e He. unfold tv. rewrite EB. exact (T1 e He).
    - intros e st u He E. unfold tv in E. rewrite EB in E. rewrite EC. exact (T2a e st u He E).
    - rewrite EB. exact T2g.
  Qed.
End Inv.
