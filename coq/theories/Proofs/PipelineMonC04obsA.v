(* mon_C04_obs (Corr/CorrPipeline.v), part A: the invariant and what every
   operation other than the wait machine does to it.

   Outside dry-run, for the set `aids` of apply ids of the plan, the run state
   satisfies (o4_Inv):
   - V : for every object outside the set Dn of objects whose wait task is over,
         the observation cache answers like the list of delivered observations
         of the (reversed) trace, newest first (the apply-time mutator Puts what it
         reads about its sources into the same cache; a source has passed the
         dependency filter, so its wait is over: R below);
   - G : every Successful wait event of an object e of `aids` in the trace is
         justified: the cache of that moment holds for e an observation that
         is Current, carries a body, generation >= 2, and whose UID (if not
         empty) is the UID of the live object e (if not empty) - the live
         object exists;
   - T1: every object of `aids` has a record with strategy Apply;
   - T2a: a successful-apply record of an object of `aids` carries the UID of
         the live object, which exists;
   - T2g: a successful-apply record carries generation 2.
   Objects of `aids` are never deleted and keep their UID (preorder o4_Cl), so
   G is stable.  Everything here is proved; nothing is assumed. *)
From Coq Require Import List Bool Arith NArith ZArith Lia.
From CliUtils Require Import Model.ObjSet Model.ActuationTable Model.PipelineTypes Model.Pipeline
     Proofs.ObjSetProofs Proofs.ActuationTableProofs Proofs.PipelineBase Proofs.PipelineAuth
     Corr.CorrPipeline Proofs.PipelineOrphansBase Proofs.PipelineOrphansSpec Proofs.PipelineMonBase.
Import ListNotations.

(* ---- lists --------------------------------------------------------------------------- *)
Definition o4_delivs (l : list item) : list sobs :=
  flat_map (fun it => match it with IDeliv o => [o] | _ => [] end) l.
Definition o4_nwok (it : item) : Prop := match it with IEv (EWait _ _ WOk) => False | _ => True end.
Definition o4_ndel (it : item) : Prop := match it with IDeliv _ => False | _ => True end.

Lemma o4_delivs_app a b : o4_delivs (a ++ b) = o4_delivs a ++ o4_delivs b.
Proof. unfold o4_delivs. apply flat_map_app. Qed.

Lemma o4_delivs_ndel l : Forall o4_ndel l -> o4_delivs l = [].
Proof.
  induction 1 as [|it l Hit _ IH]; [reflexivity|]. unfold o4_delivs in *. cbn [flat_map]. rewrite IH.
  destruct it; cbn in Hit; try contradiction; reflexivity.
Qed.

Lemma o4_split_ext {A} (l t l1 : list A) x l2 :
  l ++ t = l1 ++ x :: l2 -> ~ In x l -> exists l1', l1 = l ++ l1' /\ t = l1' ++ x :: l2.
Proof.
  revert l1. induction l as [|y l IH]; intros l1 E N.
  - exists l1. split; [reflexivity|exact E].
  - destruct l1 as [|z l1]; cbn [app] in E.
    + injection E as E1 _. exfalso. apply N. left. exact E1.
    + injection E as E1 E2. subst z. destruct (IH l1 E2) as [l1' [-> ->]].
      * intros H. apply N. right. exact H.
      * exists l1'. split; reflexivity.
Qed.

Lemma o4_nwok_notin l g e : Forall o4_nwok l -> ~ In (IEv (EWait g e WOk)) l.
Proof. intros F H. rewrite Forall_forall in F. exact (F _ H). Qed.

Lemma o4_snap_boring cl lt : Forall (snap_of cl) lt -> Forall o4_nwok lt /\ Forall o4_ndel lt.
Proof.
  induction 1 as [|it lt [r [ok [-> _]]] _ [IH1 IH2]]; [split; constructor|].
  split; constructor; try exact I; assumption.
Qed.
Lemma o4_snap2_boring cl cl' lt : Forall (snap2 cl cl') lt -> Forall o4_nwok lt /\ Forall o4_ndel lt.
Proof.
  induction 1 as [|it lt [[r [ok [-> _]]]|[r [ok [-> _]]]] _ [IH1 IH2]]; [split; constructor| |];
    (split; constructor; try exact I; assumption).
Qed.

(* ---- the justification of a Successful wait event ---------------------------------------- *)
Definition o4_okobs (cl : cluster) (e : id) (o : sobs) : Prop :=
  s_st o = SCurrent /\ s_body o = true /\ (2 <= s_gen o)%Z /\
  exists c', fo cl e = Some c' /\ (s_uid o = 0%N \/ c_uid c' = 0%N \/ c_uid c' = s_uid o).

Lemma o4_cache_get_skip (ex c : list sobs) i : (forall o, In o ex -> s_id o <> i) -> cache_get (ex ++ c) i = cache_get c i.
Proof.
  induction ex as [|x t IH]; intros H; [reflexivity|]. cbn [app cache_get].
  destruct (Nat.eqb (s_id x) i) eqn:E; [apply Nat.eqb_eq in E; exfalso; exact (H x (or_introl eq_refl) E)|].
  apply IH. intros o Ho. apply H. right. exact Ho.
Qed.

Section Inv.
  Variable aids : list id.
  (* objects whose wait task is over *)
  Variable Dn : list id.

  (* objects of the apply set are never deleted and keep their UID *)
  Definition o4_Cl (cl cl' : cluster) : Prop :=
    forall i, In i aids -> forall c', fo cl i = Some c' -> exists c'', fo cl' i = Some c'' /\ c_uid c'' = c_uid c'.

  Lemma o4_Cl_refl cl : o4_Cl cl cl.
  Proof. intros i _ c' H. exists c'. split; [exact H|reflexivity]. Qed.
  Lemma o4_Cl_trans a b c : o4_Cl a b -> o4_Cl b c -> o4_Cl a c.
  Proof.
    intros H1 H2 i Hi c' F. destruct (H1 i Hi c' F) as [c1 [F1 U1]]. destruct (H2 i Hi c1 F1) as [c2 [F2 U2]].
    exists c2. split; [exact F2|congruence].
  Qed.
  Lemma o4_Cl_objs cl cl' : objs cl' = objs cl -> o4_Cl cl cl'.
  Proof. intros E i _ c' F. exists c'. unfold fo in *. rewrite E. split; [exact F|reflexivity]. Qed.
  Lemma o4_Cl_eq cl cl' : cl' = cl -> o4_Cl cl cl'.
  Proof. intros ->. apply o4_Cl_refl. Qed.

  Lemma o4_Cl_frame cl cl' i : frame cl cl' i -> ~ In i aids -> o4_Cl cl cl'.
  Proof.
    intros [_ [F _]] N j Hj c' Fj. exists c'. split; [|reflexivity]. rewrite F; [exact Fj|].
    intros ->. exact (N Hj).
  Qed.
  Lemma o4_Cl_applied cl cl' i u : applied cl cl' i u -> o4_Cl cl cl'.
  Proof.
    intros [[_ [F _]] [n [Fn [_ [Un D]]]]] j Hj c' Fj. destruct (Nat.eq_dec j i) as [->|NE].
    - exists n. split; [exact Fn|]. destruct D as [[c [Fc Uc]]|[Fc _]]; [|congruence].
      rewrite Fc in Fj. injection Fj as <-. congruence.
    - exists c'. split; [|reflexivity]. rewrite F; [exact Fj|exact NE].
  Qed.

  Lemma o4_okobs_mono cl cl' e o : o4_Cl cl cl' -> In e aids -> o4_okobs cl e o -> o4_okobs cl' e o.
  Proof.
    intros C He [A [B [D [c' [F U]]]]]. destruct (C e He c' F) as [c'' [F' U']].
    split; [exact A|]. split; [exact B|]. split; [exact D|]. exists c''. split; [exact F'|]. rewrite U'. exact U.
  Qed.

  Definition o4_V (s : rst) : Prop :=
    forall i, ~ In i Dn -> cache_get (r_cache s) i = cache_get (o4_delivs (r_tr s)) i.
  Definition o4_G (s : rst) : Prop :=
    forall l1 g e l2, r_tr s = l1 ++ IEv (EWait g e WOk) :: l2 -> In e aids ->
      o4_okobs (r_cl s) e (cache_get (o4_delivs l2) e).
  Definition o4_T1 (s : rst) : Prop := forall e, In e aids -> exists a u, tv s e = Some (SApply, a, u).
  Definition o4_T2a (s : rst) : Prop :=
    forall e st u, In e aids -> tv s e = Some (st, ASucceeded, u) ->
      exists c', fo (r_cl s) e = Some c' /\ c_uid c' = u.
  Definition o4_T2g (t : table id) : Prop :=
    forall e r, lookup Nat.eqb t e = Some r -> r_str r = SApply -> r_act r = ASucceeded -> r_gen r = harness_gen.

  Record o4_Inv (s : rst) : Prop := o4_mkInv {
    o4_iV : o4_V s; o4_iG : o4_G s; o4_iT1 : o4_T1 s; o4_iT2a : o4_T2a s; o4_iT2g : o4_T2g (r_tbl s)
  }.

  (* ---- the trace part: extension by items that are neither deliveries nor Successful wait events *)
  Lemma o4_V_ext s s' l : r_cache s' = r_cache s -> r_tr s' = l ++ r_tr s -> Forall o4_ndel l -> o4_V s -> o4_V s'.
  Proof.
    unfold o4_V. intros EC ET F H i Hi. rewrite EC, ET, o4_delivs_app, (o4_delivs_ndel l F). exact (H i Hi).
  Qed.
  (* what the mutator Put on top of the cache is about objects of Dn only *)
  Lemma o4_V_ext_puts s s' ex l : r_cache s' = ex ++ r_cache s -> (forall o, In o ex -> In (s_id o) Dn) ->
    r_tr s' = l ++ r_tr s -> Forall o4_ndel l -> o4_V s -> o4_V s'.
  Proof.
    unfold o4_V. intros EC HX ET F H i Hi. rewrite EC, ET, o4_delivs_app, (o4_delivs_ndel l F). cbn [app].
    rewrite o4_cache_get_skip; [exact (H i Hi)|]. intros o Ho E. apply Hi. rewrite <- E. exact (HX o Ho).
  Qed.

  Lemma o4_G_ext s s' l : o4_Cl (r_cl s) (r_cl s') -> r_tr s' = l ++ r_tr s -> Forall o4_nwok l -> o4_G s -> o4_G s'.
  Proof.
    intros C ET F H l1 g e l2 E He. rewrite ET in E.
    destruct (o4_split_ext l (r_tr s) l1 _ l2 E (o4_nwok_notin l g e F)) as [l1' [_ E']].
    eapply o4_okobs_mono; [exact C|exact He|]. exact (H l1' g e l2 E' He).
  Qed.

  (* ---- the table part ------------------------------------------------------------------- *)
  Lemma o4_T_keep s s' : (forall j, In j aids -> tv s' j = tv s j) -> o4_Cl (r_cl s) (r_cl s') ->
    (o4_T1 s -> o4_T1 s') /\ (o4_T2a s -> o4_T2a s').
  Proof.
    intros ET C. split.
    - intros H e He. rewrite (ET e He). exact (H e He).
    - intros H e st u He E. rewrite (ET e He) in E. destruct (H e st u He E) as [c' [F U]].
      destruct (C e He c' F) as [c'' [F' U']]. exists c''. split; [exact F'|congruence].
  Qed.

  (* ---- steps that leave the justification of every recorded event intact ----------------------- *)
  Definition o4_gstep (s s' : rst) : Prop :=
    (forall j, In j aids -> tv s' j = tv s j) /\ (o4_T2g (r_tbl s) -> o4_T2g (r_tbl s')) /\
    r_cache s' = r_cache s /\ o4_Cl (r_cl s) (r_cl s') /\
    exists l, r_tr s' = l ++ r_tr s /\ Forall o4_nwok l /\ Forall o4_ndel l.

  Lemma o4_gstep_refl s : o4_gstep s s.
  Proof.
    split; [reflexivity|]. split; [exact (fun H => H)|]. split; [reflexivity|]. split; [apply o4_Cl_refl|].
    exists []. split; [reflexivity|split; constructor].
  Qed.
  Lemma o4_gstep_trans a b c : o4_gstep a b -> o4_gstep b c -> o4_gstep a c.
  Proof.
    intros [A1 [A2 [A3 [A4 [l1 [A5 [A6 A7]]]]]]] [B1 [B2 [B3 [B4 [l2 [B5 [B6 B7]]]]]]].
    split; [intros j Hj; rewrite (B1 j Hj); exact (A1 j Hj)|]. split; [intros H; exact (B2 (A2 H))|].
    split; [congruence|]. split; [eapply o4_Cl_trans; eassumption|].
    exists (l2 ++ l1). split; [rewrite B5, A5, app_assoc; reflexivity|].
    split; apply Forall_app; split; assumption.
  Qed.

  Lemma o4_inv_gstep s s' : o4_gstep s s' -> o4_Inv s -> o4_Inv s'.
  Proof.
    intros [A1 [A2 [A3 [A4 [l [A5 [A6 A7]]]]]]] [V G T1 T2a T2g].
    destruct (o4_T_keep s s' A1 A4) as [K1 K2]. constructor.
    - exact (o4_V_ext s s' l A3 A5 A7 V).
    - exact (o4_G_ext s s' l A4 A5 A6 G).
    - exact (K1 T1).
    - exact (K2 T2a).
    - exact (A2 T2g).
  Qed.

  (* the table is untouched *)
  Lemma o4_gstep_tbl s s' l : r_tbl s' = r_tbl s -> r_cache s' = r_cache s -> o4_Cl (r_cl s) (r_cl s') ->
    r_tr s' = l ++ r_tr s -> Forall o4_nwok l -> Forall o4_ndel l -> o4_gstep s s'.
  Proof.
    intros ET EC C E F1 F2. split; [intros j _; unfold tv; rewrite ET; reflexivity|].
    split; [rewrite ET; exact (fun H => H)|]. split; [exact EC|]. split; [exact C|]. exists l. auto.
  Qed.

  Lemma o4_gstep_ev s e : o4_nwok (IEv e) -> o4_gstep s (ev s e).
  Proof.
    intros H. apply (o4_gstep_tbl s (ev s e) [IEv e]); try reflexivity; [apply o4_Cl_refl| |];
      constructor; try exact H; try exact I; constructor.
  Qed.

  Lemma o4_gstep_fold {A} (f : rst -> A -> rst) (l : list A) :
    (forall s a, In a l -> o4_gstep s (f s a)) -> forall s, o4_gstep s (fold_left f l s).
  Proof.
    induction l as [|a l IH]; intros H s; cbn; [apply o4_gstep_refl|].
    eapply o4_gstep_trans; [apply H; left; reflexivity|]. apply IH. intros; apply H; right; assumption.
  Qed.

  (* ---- the table through the reconcile update of the wait machine ------------------------------- *)
  Lemma o4_T2g_set_status t n : (r_str n = SApply -> r_act n = ASucceeded -> r_gen n = harness_gen) ->
    o4_T2g t -> o4_T2g (set_status Nat.eqb t n).
  Proof.
    intros Hn H e r L. rewrite (lookup_set_status id Nat.eqb nat_eqb_spec) in L. unfold spec_set in L.
    match type of L with context [if ?b then _ else _] => destruct b end; [injection L as <-; exact Hn|exact (H e r L)].
  Qed.

  Lemma o4_T2g_rec_reconcile s i rc : o4_T2g (r_tbl s) -> o4_T2g (r_tbl (rec_reconcile s i rc)).
  Proof.
    intros H. unfold rec_reconcile.
    pose proof (set_reconcile_some id Nat.eqb nat_eqb_spec (r_tbl s) i rc) as S. unfold id in *.
    destruct (set_reconcile Nat.eqb (r_tbl s) i rc) as [t|]; [|exact H]. cbn [set_tbl r_tbl].
    destruct S as [_ [S _]]. intros e r L. rewrite S in L. unfold spec_set_rec in L.
    match type of L with context [if ?b then _ else _] => destruct b end; [|exact (H e r L)].
    destruct (lookup Nat.eqb (r_tbl s) i) as [r0|] eqn:L0; [|discriminate]. injection L as <-. cbn.
    exact (H i r0 L0).
  Qed.

  Lemma o4_rec_reconcile_fields s i rc :
    r_cl (rec_reconcile s i rc) = r_cl s /\ r_cache (rec_reconcile s i rc) = r_cache s /\
    r_tr (rec_reconcile s i rc) = r_tr s /\ forall j, tv (rec_reconcile s i rc) j = tv s j.
  Proof.
    unfold rec_reconcile. destruct (set_reconcile Nat.eqb (r_tbl s) i rc) as [t|] eqn:E; [|repeat split].
    repeat split. intros j. unfold tv. cbn [set_tbl r_tbl]. apply (tvl_set_reconcile _ _ _ _ E).
  Qed.

  (* a wait event with its reconcile update: Successful only with its justification *)
  Lemma o4_inv_wev s g i rc w :
    (w = WOk -> In i aids -> ~ In i Dn /\ o4_okobs (r_cl s) i (cache_get (r_cache s) i)) ->
    o4_Inv s -> o4_Inv (ev (rec_reconcile s i rc) (EWait g i w)).
  Proof.
    intros J [V G T1 T2a T2g]. destruct (o4_rec_reconcile_fields s i rc) as [EC [EK [ET EV]]].
    assert (EV' : forall j, tv (ev (rec_reconcile s i rc) (EWait g i w)) j = tv s j) by (intros j; exact (EV j)).
    constructor.
    - unfold o4_V in *. cbn [ev emit r_cache r_tr]. rewrite EK, ET. exact V.
    - intros l1 g' e l2 E He. cbn [ev emit r_tr r_cl] in *. rewrite EC. rewrite ET in E.
      destruct l1 as [|y l1]; cbn [app] in E.
      + injection E as E1 E2 E3 E4. subst g' e w l2. unfold o4_V in V. destruct (J eq_refl He) as [ND JO].
        rewrite <- (V i ND). exact JO.
      + injection E as _ E. exact (G l1 g' e l2 E He).
    - intros e He. rewrite EV'. exact (T1 e He).
    - intros e st u He E. rewrite EV' in E. cbn [ev emit r_cl]. rewrite EC. exact (T2a e st u He E).
    - cbn [ev emit r_tbl]. apply o4_T2g_rec_reconcile. exact T2g.
  Qed.

  (* one status delivery: the trace item(s) and the cache update *)
  Lemma o4_inv_deliv (b : bool) s d :
    let s2 := if b then ev (emit s (IDeliv d)) (EStatus (s_id d) (s_st d)) else emit s (IDeliv d) in
    o4_Inv s -> o4_Inv (set_cache s2 (d :: r_cache s2)).
  Proof.
    cbv zeta. intros [V G T1 T2a T2g].
    assert (EC : r_cl (set_cache (if b then ev (emit s (IDeliv d)) (EStatus (s_id d) (s_st d)) else emit s (IDeliv d))
                          (d :: r_cache (if b then ev (emit s (IDeliv d)) (EStatus (s_id d) (s_st d)) else emit s (IDeliv d)))) = r_cl s)
      by (destruct b; reflexivity).
    assert (EB : r_tbl (set_cache (if b then ev (emit s (IDeliv d)) (EStatus (s_id d) (s_st d)) else emit s (IDeliv d))
                          (d :: r_cache (if b then ev (emit s (IDeliv d)) (EStatus (s_id d) (s_st d)) else emit s (IDeliv d)))) = r_tbl s)
      by (destruct b; reflexivity).
    constructor.
    - unfold o4_V in *. intros i Hi.
      destruct b; cbn [set_cache ev emit r_cache r_tr o4_delivs flat_map app cache_get]; rewrite (V i Hi); reflexivity.
    - intros l1 g e l2 E He. rewrite EC.
      assert (X : exists l, r_tr (set_cache (if b then ev (emit s (IDeliv d)) (EStatus (s_id d) (s_st d)) else emit s (IDeliv d))
                          (d :: r_cache (if b then ev (emit s (IDeliv d)) (EStatus (s_id d) (s_st d)) else emit s (IDeliv d)))) = l ++ r_tr s /\
                          Forall o4_nwok l).
      { destruct b; [exists [IEv (EStatus (s_id d) (s_st d)); IDeliv d]|exists [IDeliv d]];
          (split; [reflexivity|repeat constructor]). }
      destruct X as [l [EL F]]. rewrite EL in E.
      destruct (o4_split_ext l (r_tr s) l1 _ l2 E (o4_nwok_notin l g e F)) as [l1' [_ E']].
      exact (G l1' g e l2 E' He).
    - intros e He. unfold tv. rewrite EB. exact (T1 e He).
    - intros e st u He E. unfold tv in E. rewrite EB in E. rewrite EC. exact (T2a e st u He E).
    - rewrite EB. exact T2g.
  Qed.
End Inv.

(* ---- operations of the model other than the wait machine -------------------------------------- *)
Section Ops.
  Variable sc : scenario.
  Variable aids : list id.
  Variable Dn : list id.
  Hypothesis HD : is_dry (o_dry (sc_opts sc)) = false.

  Notation Inv := (o4_Inv aids Dn).
  Notation gstep := (o4_gstep aids).

  (* R: an object whose wait task is still to come (or running) has no Successful reconcile status yet *)
  Definition o4_R (s : rst) : Prop := forall i, ~ In i Dn -> rc s i <> Some RSucceeded.

  (* why a Successful wait event of an AllCurrent wait task is justified *)
  Lemma o4_wok_just s i u : Inv s -> In i aids -> tv s i = Some (SApply, ASucceeded, u) ->
    changed_uid s i = false -> cond_met AllCurrent s i = true ->
    o4_okobs (r_cl s) i (cache_get (r_cache s) i).
  Proof.
    intros [V G T1 T2a T2g] Hi E CU CM.
    destruct (T2a i SApply u Hi E) as [c' [F U]].
    unfold tv, tvl in E. unfold o4_T2g in T2g. unfold cond_met, applied_gen in CM. unfold changed_uid in CU. unfold id in *.
    destruct (lookup Nat.eqb (r_tbl s) i) as [r|] eqn:L; [|discriminate]. cbn in E. unfold tcore in E. injection E as E1 E2 E3. unfold id in *.
    pose proof (T2g i r L E1 E2) as GEN. cbn [fst] in CM. rewrite GEN in CM.
    apply andb_true_iff in CM. destruct CM as [CM1 CM2].
    set (ob := cache_get (r_cache s) i) in *.
    assert (ST : s_st ob = SCurrent) by (destruct (s_st ob); try discriminate; reflexivity).
    destruct (s_body ob) eqn:B; [|discriminate CM2].
    apply Z.leb_le in CM2. split; [exact ST|]. split; [exact B|]. split; [exact CM2|].
    exists c'. split; [exact F|].
    destruct (N.eqb (r_uid r) 0) eqn:U0.
    - right; left. apply N.eqb_eq in U0. congruence.
    - cbn [negb] in CU. destruct (N.eqb (s_uid ob) 0) eqn:S0.
      + left. apply N.eqb_eq. exact S0.
      + right; right. apply negb_false_iff in CU. apply N.eqb_eq in CU. congruence.
  Qed.

  (* an object of the apply set whose record is neither pending nor skipped by the wait task has a successful apply *)
  Definition o4_npend (s : rst) (i : id) : Prop := forall st a u, tv s i = Some (st, a, u) -> a <> APending.
  Definition o4_srec (s : rst) (i : id) : Prop := In i aids -> exists u, tv s i = Some (SApply, ASucceeded, u).

  Lemma o4_nsk s i : o4_T1 aids s -> o4_npend s i -> w_skipped AllCurrent s i = false -> o4_srec s i.
  Proof.
    intros T1 NP WS Hi. destruct (T1 i Hi) as [a [u E]]. exists u. pose proof (NP _ _ _ E) as NA.
    pose proof E as E0. unfold tv, tvl in E0. unfold w_skipped, is_actuation in WS. unfold id in *.
    destruct (lookup Nat.eqb (r_tbl s) i) as [r|]; [|discriminate]. cbn in E0. unfold tcore in E0. injection E0 as E1 E2 E3. unfold id in *.
    rewrite E1, E2 in WS. rewrite E. destruct a; cbn in WS; try discriminate; [contradiction|reflexivity].
  Qed.

  Lemma o4_tv_same_npend s s' i : (forall j, tv s' j = tv s j) -> o4_npend s i -> o4_npend s' i.
  Proof. intros E H st a u X. rewrite E in X. exact (H st a u X). Qed.
  Lemma o4_tv_same_srec s s' i : (forall j, tv s' j = tv s j) -> o4_srec s i -> o4_srec s' i.
  Proof. intros E H Hi. rewrite E. exact (H Hi). Qed.

  (* ---- the observation cache is written by the delivery loop only ---------------------------------- *)
  Lemma o4_mc_cache s i : r_cache (maybe_cancel sc s i) = r_cache s.
  Proof.
    unfold maybe_cancel. destruct (e_cancel (sc_env sc)); try reflexivity. destruct (Nat.eqb _ _); reflexivity.
  Qed.
  Lemma o4_c_inv_list s : r_cache (fst (inv_list sc s)) = r_cache s.
  Proof. apply (same6_inv_list sc s). Qed.
  Lemma o4_c_get_obj s i : r_cache (fst (get_obj sc s i)) = r_cache s.
  Proof. apply (same6_get_obj sc s i). Qed.

  Ltac o4c := cbn [fst r_cache rec_add set_tbl ev emit log_req set_cl add_aband set_abort];
              rewrite ?o4_mc_cache; try reflexivity; try assumption.

  Lemma o4_c_policy_apply_filter s i : r_cache (fst (policy_apply_filter sc s i)) = r_cache s.
  Proof.
    unfold policy_apply_filter. destruct (o_policy (sc_opts sc)); cbn [fst]; try reflexivity.
    all: pose proof (o4_c_get_obj s i) as G; destruct (get_obj sc s i) as [s1 g]; cbn [fst] in G; destruct g; exact G.
  Qed.

  Lemma o4_c_kubectl_apply s l : r_cache (fst (kubectl_apply sc s l)) = r_cache s.
  Proof. apply cache_kubectl_apply. Qed.

  Lemma o4_c_inv_apply s ids : r_cache (fst (inv_apply sc s ids)) = r_cache s.
  Proof.
    unfold inv_apply. cbv zeta. destruct (faulted sc (FInvGet _)); [o4c|]. destruct (faulted sc (FInvWrite _)); o4c.
  Qed.
  Lemma o4_c_inv_update s ids : r_cache (fst (inv_update sc s ids)) = r_cache s.
  Proof.
    unfold inv_update. cbv zeta. destruct (faulted sc (FInvWrite _)); [o4c|].
    cbn [r_cl]. destruct (inv (r_cl s)); o4c.
  Qed.
  Lemma o4_c_merge s ids : r_cache (fst (merge sc s ids)) = r_cache s.
  Proof.
    unfold merge. cbv zeta.
    pose proof (o4_c_inv_list s) as L1. destruct (inv_list sc s) as [s1 r1]. cbn [fst] in L1.
    destruct r1 as [[l|]|]; cbn [fst]; try exact L1.
    - pose proof (o4_c_inv_list s1) as L2. destruct (inv_list sc s1) as [s2 r2]. cbn [fst] in L2.
      destruct r2 as [cur0|]; cbn [fst]; [|congruence].
      destruct (set_eqn _ _ && _); cbn [fst]; [congruence|].
      destruct (is_dry _); cbn [fst]; [congruence|]. rewrite o4_c_inv_apply. congruence.
    - destruct (is_dry _); cbn [fst]; [exact L1|]. rewrite o4_c_inv_apply. exact L1.
  Qed.
  Lemma o4_c_replace s ids : r_cache (fst (replace sc s ids)) = r_cache s.
  Proof.
    unfold replace. cbv zeta. destruct (is_dry _); cbn [fst]; [reflexivity|].
    pose proof (o4_c_inv_list s) as L1. destruct (inv_list sc s) as [s1 r1]. cbn [fst] in L1.
    destruct r1 as [x|]; cbn [fst]; [|exact L1].
    pose proof (o4_c_inv_list s1) as L2. destruct (inv_list sc s1) as [s2 r2]. cbn [fst] in L2.
    destruct r2 as [[cur|]|]; cbn [fst]; try congruence.
    destruct (set_eqn _ _ && _); cbn [fst]; [congruence|]. rewrite o4_c_inv_update. congruence.
  Qed.
  Lemma o4_c_delete_inventory s : r_cache (fst (delete_inventory sc s)) = r_cache s.
  Proof.
    unfold delete_inventory. cbv zeta.
    pose proof (o4_c_inv_list s) as L1. destruct (inv_list sc s) as [s1 r1]. cbn [fst] in L1.
    destruct r1 as [[l|]|]; cbn [fst]; try exact L1.
    destruct (is_dry _); cbn [fst]; [exact L1|]. destruct (faulted sc FInvDelete); o4c.
  Qed.
  Lemma o4_c_inv_set_task pl prev s : r_cache (fst (inv_set_task sc pl prev s)) = r_cache s.
  Proof.
    unfold inv_set_task. destruct prev as [pv|]; cbn [fst]; [|reflexivity].
    destruct (o_destroy (sc_opts sc) && destroy_successful pl pv s); [apply o4_c_delete_inventory|apply o4_c_replace].
  Qed.
  Lemma o4_c_inv_add_task pl s : r_cache (fst (inv_add_task sc pl s)) = r_cache s.
  Proof.
    unfold inv_add_task. cbv zeta.
    match goal with |- r_cache (fst (let '(s1, ok1) := ?X in _)) = _ =>
      assert (H : r_cache (fst X) = r_cache s); [|destruct X as [s1 ok1]; cbn [fst] in H] end.
    { destruct (match sc_inv_ns sc with Some n => _ | None => None end) as [p|]; [|reflexivity].
      destruct (p_local p); [|reflexivity].
      destruct (is_dry _); cbn [fst]; [reflexivity|].
      destruct (faulted sc FNsCreate); [o4c|].
      destruct (find_obj _ _); o4c. }
    destruct ok1; cbn [fst]; [|exact H]. rewrite o4_c_merge. exact H.
  Qed.
  Lemma o4_c_prune_one pl locals g uids s p : r_cache (prune_one sc pl locals g uids s p) = r_cache s.
  Proof.
    unfold prune_one. cbv zeta. destruct (p_live p) as [c|]; [|reflexivity].
    destruct (prune_filters sc pl locals (r_tbl s) uids c).
    all: repeat match goal with
                | |- context [if ?b then _ else _] => destruct b
                | |- context [match c_owner ?x with _ => _ end] => destruct (c_owner x)
                | |- context [match find_obj ?a ?b with _ => _ end] => destruct (find_obj a b)
                end.
    all: o4c.
  Qed.

  (* ---- one object of an apply task ------------------------------------------------------------------ *)
  Lemma o4_apply_one_spec pl g s p l : p_local p = Some l -> l_id l = p_id p ->
    let i := p_id p in
    let s' := apply_one sc pl g s p in
    exists a u gen lt,
      r_tbl s' = set_status Nat.eqb (r_tbl s) (mkRec i SApply a RPending u gen) /\
      a <> APending /\
      r_tr s' = IEv (EApply g i (ast_of a)) :: lt ++ r_tr s /\ Forall (snap2 (r_cl s) (r_cl s')) lt /\
      (a = ASucceeded -> gen = harness_gen /\ applied (r_cl s) (r_cl s') i u) /\
      (a <> ASucceeded -> r_cl s' = r_cl s).
  Proof.
    intros EL EI. cbv zeta. unfold apply_one. rewrite EL.
    destruct (negb (kind_known sc (r_known s) (p_id p))).
    { cbn [fst snd log_req emit ev rec_add set_tbl set_cl add_aband r_cl r_tbl r_aband r_tr r_cache].
      exists AFailed, 0%N, 0%Z, [].
      split; [reflexivity|]. split; [discriminate|]. split; [reflexivity|]. split; [constructor|].
      split; [discriminate|reflexivity]. }
    pose proof (same4_policy_apply_filter sc s (p_id p)) as P.
    destruct (policy_apply_filter sc s (p_id p)) as [s1 f1]. cbn [fst] in P. destruct P as [P1 [P2 [P3 P4]]].
    destruct (match f1 with FPass => _ | _ => _ end).
    - pose proof (same4_mutate sc s1 l) as M.
      destruct (mutate sc s1 l) as [sm okm]. cbn [fst] in M. destruct M as [M1 [M2 [M3 M4]]].
      destruct okm; cbn [negb].
      2:{ cbn [fst snd log_req emit ev rec_add set_tbl set_cl add_aband r_cl r_tbl r_aband r_tr r_cache].
          exists AFailed, 0%N, 0%Z, []. rewrite M1, M2, M4, P1, P2, P4.
          split; [reflexivity|]. split; [discriminate|]. split; [reflexivity|]. split; [constructor|].
          split; [discriminate|reflexivity]. }
      pose proof (kubectl_apply_spec sc sm l) as K. unfold ka_spec2 in K.
      destruct (kubectl_apply sc sm l) as [s2 r]. cbn [fst snd] in K.
      destruct K as [K1 [K2 [lt [K3 [K4 K5]]]]]. rewrite M1, P1 in K4.
      destruct r as [u|]; cbn [fst snd log_req emit ev rec_add set_tbl set_cl add_aband r_cl r_tbl r_aband r_tr r_cache].
      + exists ASucceeded, u, harness_gen, lt.
        split; [rewrite K1, M2, P2; reflexivity|]. split; [discriminate|].
        split; [rewrite K3, M4, P4; reflexivity|]. split; [exact K4|]. split; [|intros X; congruence].
        intros _. split; [reflexivity|]. rewrite <- EI, <- P1, <- M1.
        destruct K5 as [[DD _]|[_ C]]; [rewrite HD in DD; discriminate|exact C].
      + exists AFailed, 0%N, 0%Z, lt.
        split; [rewrite K1, M2, P2; reflexivity|]. split; [discriminate|].
        split; [rewrite K3, M4, P4; reflexivity|]. split; [exact K4|]. split; [discriminate|]. intros _. congruence.
    - cbn [fst snd log_req emit ev rec_add set_tbl set_cl add_aband r_cl r_tbl r_aband r_tr r_cache].
      exists ASkipped, 0%N, 0%Z, []. rewrite P1, P2, P4.
      split; [reflexivity|]. split; [discriminate|]. split; [reflexivity|]. split; [constructor|].
      split; [discriminate|reflexivity].
    - cbn [fst snd log_req emit ev rec_add set_tbl set_cl add_aband r_cl r_tbl r_aband r_tr r_cache].
      exists AFailed, 0%N, 0%Z, []. rewrite P1, P2, P4.
      split; [reflexivity|]. split; [discriminate|]. split; [reflexivity|]. split; [constructor|].
      split; [discriminate|reflexivity].
  Qed.

  (* an object of an apply layer as the plan builds it *)
  Definition o4_lok (pl : plan) (p : pobj) : Prop :=
    exists l, p_local p = Some l /\ l_id l = p_id p /\ In (p_id p) aids /\
              incl (l_deps l) (g_deps (pl_graph pl) (p_id p)).

  Lemma o4_apply_one_tv pl g s p j : o4_lok pl p ->
    exists a u, a <> APending /\
      tv (apply_one sc pl g s p) j = if Nat.eqb (p_id p) j then Some (SApply, a, u) else tv s j.
  Proof.
    intros [l [EL [EI _]]]. destruct (o4_apply_one_spec pl g s p l EL EI) as [a [u [gen [lt [ET [NA _]]]]]].
    cbv zeta in ET. exists a, u. split; [exact NA|]. unfold tv. rewrite ET, tvl_set_status. reflexivity.
  Qed.

  (* the reconcile field: the object applied is back to Pending, nothing else moves *)
  Lemma o4_R_apply_one pl g s p : o4_lok pl p -> o4_R s -> o4_R (apply_one sc pl g s p).
  Proof.
    intros [l [EL [EI _]]] R i Hi. destruct (o4_apply_one_spec pl g s p l EL EI) as [a [u [gen [lt [ET _]]]]].
    cbv zeta in ET. unfold rc. rewrite ET, rcl_set_status. cbn [r_id r_rec].
    destruct (Nat.eqb (p_id p) i); [discriminate|exact (R i Hi)].
  Qed.

  Lemma o4_inv_apply_one pl g s p : o4_lok pl p -> o4_R s -> Inv s -> Inv (apply_one sc pl g s p).
  Proof.
    intros [l [EL [EI [Hi HG]]]] R [V G T1 T2a T2g].
    destruct (o4_apply_one_spec pl g s p l EL EI) as [a [u [gen [lt [ET [NA [ETR [SF [SU NS]]]]]]]]].
    (* the sources the mutator Put into the cache passed the dependency filter: reconciled, hence in Dn *)
    destruct (cache_apply_one sc pl g s p) as [ex [EC HX]].
    assert (EXD : forall o, In o ex -> In (s_id o) Dn).
    { intros o Ho. destruct (HX o Ho) as [l0 [EL0 [_ [HS [_ DF]]]]]. rewrite EL in EL0. injection EL0 as <-.
      destruct (dep_filter_pass_rec sc pl _ _ _ DF (s_id o) (HG _ HS)) as [_ [r [Lr [_ [_ RS]]]]].
      destruct RS as [X|RS]; [rewrite HD in X; discriminate|].
      destruct (in_dec Nat.eq_dec (s_id o) Dn) as [Y|Y]; [exact Y|exfalso]. apply (R _ Y).
      unfold rc, rcl. unfold id in *. rewrite Lr. cbn [option_map]. unfold id in *. rewrite RS. reflexivity. }
    cbv zeta in *. destruct (o4_snap2_boring _ _ _ SF) as [F1 F2].
    assert (TV : forall j, tv (apply_one sc pl g s p) j = if Nat.eqb (p_id p) j then Some (SApply, a, u) else tv s j)
      by (intros j; unfold tv; rewrite ET, tvl_set_status; reflexivity).
    assert (C : o4_Cl aids (r_cl s) (r_cl (apply_one sc pl g s p))).
    { destruct (actuation_eqb a ASucceeded) eqn:EA.
      - apply actuation_eqb_eq in EA. destruct (SU EA) as [_ AP]. exact (o4_Cl_applied aids _ _ _ _ AP).
      - apply o4_Cl_eq. apply NS. intros X. subst a. discriminate EA. }
    constructor.
    - apply (o4_V_ext_puts Dn s _ ex (IEv (EApply g (p_id p) (ast_of a)) :: lt) EC EXD ETR); [constructor; [exact I|exact F2]|exact V].
    - apply (o4_G_ext aids s _ (IEv (EApply g (p_id p) (ast_of a)) :: lt) C ETR); [constructor; [exact I|exact F1]|exact G].
    - intros e He. rewrite TV. destruct (Nat.eqb (p_id p) e); [exists a, u; reflexivity|exact (T1 e He)].
    - intros e st u0 He E. rewrite TV in E. destruct (Nat.eqb (p_id p) e) eqn:EE.
      + apply Nat.eqb_eq in EE. subst e. injection E as _ E2 E3. subst a u0.
        destruct (SU eq_refl) as [_ [_ [n [Fn [_ [Un _]]]]]]. exists n. split; assumption.
      + destruct (T2a e st u0 He E) as [c' [F U]]. destruct (C e He c' F) as [c'' [F' U']].
        exists c''. split; [exact F'|congruence].
    - rewrite ET. apply o4_T2g_set_status; [|exact T2g]. cbn [r_str r_act r_gen]. intros _ EA. exact (proj1 (SU EA)).
  Qed.

  (* ---- one object of a prune task: an id outside the apply set ------------------------------------------ *)
  Lemma o4_g_prune_one pl locals g uids s c : ~ In (c_id c) aids ->
    gstep s (prune_one sc pl locals g uids s (pobj_of_live c)).
  Proof.
    intros N. destruct (prune_one_spec sc pl locals g uids s c) as [a [u [ab [lt [ET [_ [ETR [SF [_ CS]]]]]]]]].
    cbv zeta in *. destruct (o4_snap_boring _ _ SF) as [F1 F2].
    split.
    { intros j Hj. unfold tv. rewrite ET, tvl_set_status. cbn [r_id].
      destruct (Nat.eqb (c_id c) j) eqn:E; [|reflexivity]. apply Nat.eqb_eq in E. subst j. contradiction. }
    split.
    { intros H. rewrite ET. apply o4_T2g_set_status; [|exact H]. cbn [r_str]. discriminate. }
    split; [apply o4_c_prune_one|]. split.
    { destruct CS as [[_ [_ C]]|[[_ [_ [C _]]]|[[_ [_ [C _]]]|[[_ [_ [C _]]]|[[_ [_ [C _]]]|[_ [_ [C _]]]]]]]].
      - apply o4_Cl_eq. exact C.
      - apply o4_Cl_eq. exact C.
      - exact (o4_Cl_frame aids _ _ _ C N).
      - apply o4_Cl_eq. exact C.
      - exact (o4_Cl_frame aids _ _ _ C N).
      - apply o4_Cl_eq. exact C. }
    exists (IEv (EPrune g (c_id c) (ast_of a)) :: lt). split; [exact ETR|].
    split; constructor; try exact I; assumption.
  Qed.

  (* ---- the inventory tasks ----------------------------------------------------------------------------------- *)
  Lemma o4_g_inv_set_task pl prev s : gstep s (fst (inv_set_task sc pl prev s)).
  Proof.
    destruct (inv_set_task_spec sc pl prev s) as [ET [_ [[IC _] [lt [ETR CS]]]]]. cbv zeta in *.
    apply (o4_gstep_tbl aids s _ lt ET (o4_c_inv_set_task pl prev s) (o4_Cl_objs aids _ _ IC) ETR).
    - destruct CS as [[_ SF]|[[pv [_ [_ [_ [_ [_ ->]]]]]]|[pv [_ [_ [_ SF]]]]]];
        [exact (proj1 (o4_snap_boring _ _ SF))|repeat constructor|exact (proj1 (o4_snap_boring _ _ SF))].
    - destruct CS as [[_ SF]|[[pv [_ [_ [_ [_ [_ ->]]]]]]|[pv [_ [_ [_ SF]]]]]];
        [exact (proj2 (o4_snap_boring _ _ SF))|repeat constructor|exact (proj2 (o4_snap_boring _ _ SF))].
  Qed.

  Lemma o4_g_inv_add_task pl s :
    (forall p l, In p (pl_apply pl) -> p_local p = Some l -> l_id l = p_id p) ->
    gstep s (fst (inv_add_task sc pl s)).
  Proof.
    intros Hloc. destruct (inv_add_task_spec sc pl s Hloc) as [ET [_ [cl1 [lt1 [lt2 [ETR [C1 [[IC _] [SF2 _]]]]]]]]].
    apply (o4_gstep_tbl aids s _ (lt2 ++ lt1) ET (o4_c_inv_add_task pl s)).
    - apply (o4_Cl_trans aids _ cl1); [|exact (o4_Cl_objs aids _ _ IC)].
      destruct C1 as [[-> _]|[_ [n [u [_ [_ [_ [AP _]]]]]]]]; [apply o4_Cl_refl|exact (o4_Cl_applied aids _ _ _ _ AP)].
    - rewrite ETR, app_assoc. reflexivity.
    - apply Forall_app. split; [exact (proj1 (o4_snap_boring _ _ SF2))|].
      destruct C1 as [[_ SF]|[_ [n [u [_ [_ [_ [_ ->]]]]]]]]; [exact (proj1 (o4_snap_boring _ _ SF))|repeat constructor].
    - apply Forall_app. split; [exact (proj2 (o4_snap_boring _ _ SF2))|].
      destruct C1 as [[_ SF]|[_ [n [u [_ [_ [_ [_ ->]]]]]]]]; [exact (proj2 (o4_snap_boring _ _ SF))|repeat constructor].
  Qed.
End Ops.
