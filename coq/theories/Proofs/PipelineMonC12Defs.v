(* mon_C12 (Corr/CorrPipeline.v) split into its four conjuncts, so that each can
   be proved in its own file.  `mon_C12_split` is by computation. *)
From Coq Require Import List Bool Arith NArith ZArith.
From CliUtils Require Import Model.ObjSet Model.ActuationTable Model.PipelineTypes Model.Pipeline
     Corr.CorrLib Corr.CorrPipeline.
Import ListNotations.

(* every wait phase: Timeout exactly for what was pending, only with a timeout configured; a phase that
   ends with pending objects and no Timeout was cancelled, so the error event follows at once *)
Definition c12_wait_group (sc : scenario) (evs : list evt) (g : gname * list id) : bool :=
  let o := sc_opts sc in
  match fst (fst g) with
  | GWait =>
      let '(body, rest) := upto_finished (fst g) (after_started (fst g) evs) in
      let timed := flat_map (fun e => match e with EWait _ i WTimedOut => [i] | _ => [] end) body in
      let pre := before_first_timeout body in
      let pend_at_fire := filter (fun i => match last_wait_in pre i with Some WPending => true | _ => false end) (snd g) in
      match timed with
      | [] =>
          negb (existsb (fun e => match e with EStarted h => gn_eqb h (fst g) | _ => false end) evs)
          || negb (existsb (fun e => match e with EFinished h => gn_eqb h (fst g) | _ => false end) evs)
          || negb (existsb (fun i => match last_wait_in body i with Some WPending => true | _ => false end) (snd g))
          || match rest with EError :: _ => true | _ => false end
      | _ =>
          nl_eqb (sortn timed) (sortn pend_at_fire)
          && (o_rec_timeout o || o_prune_timeout o)
          && forallb (fun e => match e with EWait _ _ WTimedOut | EStatus _ _ => true | _ => false end)
                     (skipn (length pre) body)
      end
  | _ => true
  end.

Definition c12_timeouts (sc : scenario) (out : outcome) : bool :=
  let evs := events (out_trace out) in
  forallb (c12_wait_group sc evs) (flat_map (fun e => match e with EInit p => p | _ => [] end) evs).

Definition c12_hit (i : id) (it : item) : bool :=
  match it with
  | IReq (RCreate j _) _ _ _ | IReq (RPatch j _ _) _ _ _ | IReq (RDelete j _ _) _ _ _ => Nat.eqb i j
  | _ => false
  end.

(* cancellation: nothing is started after the cancellation point, one error event *)
Definition c12_cancel (sc : scenario) (out : outcome) : bool :=
  let t := out_trace out in
  let evs := events t in
  match e_cancel (sc_env sc) with
  | CNever => true
  | CBeforeSync => negb (existsb (fun e => match e with EStarted _ => true | _ => false end) evs) && has_error t
  | CDuringReq i => no_started_after false t (c12_hit i) && (negb (existsb (c12_hit i) t) || has_error t)
  end.

Lemma mon_C12_split sc c0 out :
  mon_C12 sc c0 out =
  c12_timeouts sc out && c12_cancel sc out && mon_C13_core (out_trace out) && mon_C01 sc c0 out.
Proof. reflexivity. Qed.
