(* The monitors of Corr/CorrPipeline.v as theorems about the model: packaging.
   The assumptions are those of Properties/C01.v (`WF`, `kf_free`) or weaker
   (`locals_nodup`: an apply set names each object once - the first clause of WF). *)
From Coq Require Import List Bool Arith NArith ZArith.
From CliUtils Require Import Model.ObjSet Model.ActuationTable Model.PipelineTypes Model.Pipeline
     Corr.CorrLib Corr.CorrPipeline Proofs.PipelineBase Proofs.PipelineOrphansRun
     Proofs.PipelineMonBase Proofs.PipelineMonC13 Proofs.PipelineMonC10 Proofs.PipelineMonC11
     Proofs.PipelineMonC12Defs Proofs.PipelineMonC12Cancel Proofs.PipelineMonC12Time.
Import ListNotations.

Lemma WF_locals_nodup sc c0 : WF sc c0 -> locals_nodup sc.
Proof. intros W. exact (proj1 W). Qed.

(* C12 without its inventory conjunct (which is mon_C01): timeouts exact, cancellation stops the run, grammar *)
Definition mon_C12_events (sc : scenario) (out : outcome) : bool :=
  c12_timeouts sc out && c12_cancel sc out && mon_C13_core (out_trace out).

Lemma mon_C12_events_split sc c0 out : mon_C12 sc c0 out = mon_C12_events sc out && mon_C01 sc c0 out.
Proof. reflexivity. Qed.

Theorem monitor_C12_events sc c0 : locals_nodup sc -> mon_C12_events sc (run sc c0) = true.
Proof.
  intros H. unfold mon_C12_events.
  rewrite (timeouts_clause sc c0 H), (cancel_clause sc c0). exact (monitor_C13 sc c0 H).
Qed.

Theorem monitor_C12 sc c0 : WF sc c0 -> kf_free sc c0 -> mon_C12 sc c0 (run sc c0) = true.
Proof.
  intros W K. rewrite mon_C12_events_split, (monitor_C12_events sc c0 (WF_locals_nodup sc c0 W)).
  exact (orphans_monitor sc c0 W K).
Qed.

(* Destroyer.Run needs no excluding hypothesis *)
Theorem monitor_C12_destroy sc c0 : WF sc c0 -> o_destroy (sc_opts sc) = true -> mon_C12 sc c0 (run sc c0) = true.
Proof.
  intros W D. rewrite mon_C12_events_split, (monitor_C12_events sc c0 (WF_locals_nodup sc c0 W)).
  exact (orphans_destroy sc c0 W D).
Qed.

(* the known finding C01-invns-apply-failed also falsifies mon_C12 (through its inventory conjunct) *)
Theorem monitor_C12_refuted : exists sc c0, WF sc c0 /\ mon_C12 sc c0 (run sc c0) = false.
Proof. exists kf_witness_sc, kf_witness_c0. split; [exact kf_witness_WF|vm_compute; reflexivity]. Qed.

(* the hypothesis `locals_nodup` is needed: with a manifest id given twice the apply
   task reports it twice and the "one result event per object" clause fails *)
Definition dup_sc : scenario :=
  mkSc [mkU KPlain None None] None [mkL 0 [] false false false 1; mkL 0 [] false false false 1]
       (mkO false true PMustMatch DClient VSkipInvalid false false false false PropBackground false)
       (mkE [] [] CNever None).
Definition dup_c0 : cluster := mkCl [] None 1%N.

Theorem monitor_dup_refuted :
  ~ locals_nodup dup_sc /\
  mon_C13 dup_sc dup_c0 (run dup_sc dup_c0) = false /\ mon_C10 dup_sc dup_c0 (run dup_sc dup_c0) = false.
Proof.
  split; [|split; vm_compute; reflexivity].
  intros H. specialize (H eq_refl). cbn in H. inversion H as [|? ? X _]; subst. apply X. left. reflexivity.
Qed.
