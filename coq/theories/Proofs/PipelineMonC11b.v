(* mon_C11, second conjunct: the stored-inventory snapshot taken after every
   request of the run never contains an invalid id that was not tracked before.
   One traversal of the run in the style of PipelineAuth.stepa: same state
   invariant (apply records of the table are valid apply objects; the stored
   inventory holds no untracked invalid id), per-item predicate on the
   SNAPSHOT of each logged request instead of on its argument. *)
From Coq Require Import List Bool Arith NArith ZArith Lia.
From CliUtils Require Import Model.ObjSet Model.ActuationTable Model.PipelineTypes Model.Pipeline
     Proofs.ObjSetProofs Proofs.PipelineBase Proofs.PipelineAuth.
Import ListNotations.

Section Snap.
  Variable sc : scenario.
  Variable pl : plan.
  Variable locals : list lobj.
  Variable prev0 : list id.          (* the inventory as stored before the run *)
  Hypothesis apply_valid : forall i, In i (apply_ids pl) -> ~ In i (pl_invalid pl).

  Notation keys_ok := (inv_keys_ok pl prev0).

  Definition Qs (it : item) : Prop :=
    match it with
    | IReq _ _ _ (Some l) => keys_ok l
    | _ => True
    end.

  Definition Is (s : rst) : Prop :=
    (forall r, In r (r_tbl s) -> r_str r = SApply -> In (r_id r) (apply_ids pl)) /\
    (forall l, inv (r_cl s) = Some l -> keys_ok l).

  Definition sstep (s s' : rst) : Prop :=
    Is s -> Is s' /\ exists l, r_tr s' = l ++ r_tr s /\ Forall Qs l.

  Lemma s_refl s : sstep s s.
  Proof. intros H. split; [exact H|]. exists []. split; [reflexivity|constructor]. Qed.
  Lemma s_trans a b c : sstep a b -> sstep b c -> sstep a c.
  Proof.
    intros H1 H2 I0. destruct (H1 I0) as [I1 [l1 [E1 F1]]]. destruct (H2 I1) as [I2 [l2 [E2 F2]]].
    split; [exact I2|]. exists (l2 ++ l1). split; [rewrite E2, E1, app_assoc; reflexivity|].
    apply Forall_app; split; assumption.
  Qed.
  Lemma s_same s s' : r_tbl s' = r_tbl s -> inv (r_cl s') = inv (r_cl s) -> r_tr s' = r_tr s -> sstep s s'.
  Proof.
    intros Ht Hi Htr [I1 I2]. split; [split|].
    - rewrite Ht. exact I1.
    - rewrite Hi. exact I2.
    - exists []. split; [exact Htr|constructor].
  Qed.
  Lemma s_ev s e : sstep s (ev s e).
  Proof.
    intros [I1 I2]. split; [split; assumption|]. exists [IEv e]. split; [reflexivity|]. constructor; [exact I|constructor].
  Qed.
  Lemma s_emit_deliv s d : sstep s (emit s (IDeliv d)).
  Proof.
    intros [I1 I2]. split; [split; assumption|]. exists [IDeliv d]. split; [reflexivity|]. constructor; [exact I|constructor].
  Qed.

  Lemma s_rec_add s i st a u g : (st = SApply -> In i (apply_ids pl)) -> sstep s (rec_add s i st a u g).
  Proof.
    intros Hi [I1 I2]. split; [split|].
    - intros r Hr Hs. cbn in Hr. apply set_status_In in Hr. destruct Hr as [->|Hr]; [cbn in *; auto|auto].
    - exact I2.
    - exists []. split; [reflexivity|constructor].
  Qed.
  Lemma s_rec_reconcile s i rc : sstep s (rec_reconcile s i rc).
  Proof.
    unfold rec_reconcile. destruct (set_reconcile Nat.eqb (r_tbl s) i rc) as [t|] eqn:E; [|apply s_refl].
    intros [I1 I2]. split; [split|].
    - intros r Hr Hs. cbn in Hr. destruct (set_reconcile_In _ _ _ _ _ E Hr) as [r0 [A [B C]]].
      unfold id in *. rewrite B. apply I1; [exact A|congruence].
    - exact I2.
    - exists []. split; [reflexivity|constructor].
  Qed.
  Lemma s_set_cache s c : sstep s (set_cache s c).
  Proof. apply s_same; reflexivity. Qed.
  Lemma s_add_aband s i : sstep s (add_aband s i).
  Proof. apply s_same; reflexivity. Qed.
  Lemma s_set_abort s : sstep s (set_abort s).
  Proof. apply s_same; reflexivity. Qed.
  Lemma s_maybe_cancel s i : sstep s (maybe_cancel sc s i).
  Proof.
    unfold maybe_cancel. destruct (e_cancel (sc_env sc)); try apply s_refl.
    destruct (Nat.eqb i i0); [apply s_set_abort|apply s_refl].
  Qed.
  Lemma s_inv_list s : sstep s (fst (inv_list sc s)).
  Proof. unfold inv_list. destruct (faulted sc _); cbn [fst]; apply s_same; reflexivity. Qed.
  Lemma s_get_obj s i : sstep s (fst (get_obj sc s i)).
  Proof.
    unfold get_obj. destruct (faulted sc _); cbn [fst]; [apply s_same; reflexivity|].
    destruct (find_obj _ _); cbn [fst]; apply s_same; reflexivity.
  Qed.

  (* a logged request on a cluster whose stored inventory is unchanged: the
     snapshot is the (sorted) inventory of the invariant *)
  Lemma s_req s s1 r ok :
    r_tbl s1 = r_tbl s -> inv (r_cl s1) = inv (r_cl s) -> r_tr s1 = r_tr s -> sstep s (log_req s1 r ok).
  Proof.
    intros Ht Hi Htr [I1 I2]. split; [split|].
    - cbn. rewrite Ht. exact I1.
    - cbn. rewrite Hi. exact I2.
    - exists [IReq r ok (managed (r_cl s1)) (stored (r_cl s1))]. split; [cbn; rewrite Htr; reflexivity|].
      constructor; [|constructor]. cbn [Qs]. unfold stored. rewrite Hi.
      destruct (inv (r_cl s)) as [l|] eqn:E; cbn [option_map]; [|exact I].
      apply inv_keys_sort. apply I2. reflexivity.
  Qed.

  Lemma s_fold {A} (f : rst -> A -> rst) (l : list A) :
    (forall s a, In a l -> sstep s (f s a)) -> forall s, sstep s (fold_left f l s).
  Proof.
    induction l as [|a l IH]; intros H s; cbn; [apply s_refl|].
    eapply s_trans; [apply H; left; reflexivity|]. apply IH. intros; apply H; right; assumption.
  Qed.

  (* goals "sstep s X" where X is built from s (or from a state reached by a
     hypothesis) by primitive operations; delete records only *)
  Ltac ss :=
    lazymatch goal with
    | |- sstep ?s ?s => apply s_refl
    | |- sstep ?s (rec_add ?x _ SDelete _ _ _) => apply (s_trans s x); [ss|apply s_rec_add; discriminate]
    | |- sstep ?s (ev ?x _) => apply (s_trans s x); [ss|apply s_ev]
    | |- sstep ?s (log_req (set_cl ?x ?c) ?r ?ok) =>
        apply (s_trans s x); [ss|apply (s_req x (set_cl x c) r ok); reflexivity]
    | |- sstep ?s (log_req ?x ?r ?ok) => apply (s_trans s x); [ss|apply (s_req x x r ok); reflexivity]
    | |- sstep ?s (add_aband ?x _) => apply (s_trans s x); [ss|apply s_add_aband]
    | |- sstep ?s (set_abort ?x) => apply (s_trans s x); [ss|apply s_set_abort]
    | |- sstep ?s (maybe_cancel _ ?x _) => apply (s_trans s x); [ss|apply s_maybe_cancel]
    | |- sstep ?s ?x => first [assumption | apply s_same; reflexivity]
    end.

  (* ---- inventory writes --------------------------------------------------- *)
  Lemma s_inv_apply s ids : keys_ok ids -> sstep s (fst (inv_apply sc s ids)).
  Proof.
    intros Hk. unfold inv_apply. cbv zeta.
    destruct (faulted sc (FInvGet _)); cbn [fst]; [apply s_same; reflexivity|].
    destruct (faulted sc (FInvWrite _)); cbn [fst].
    - apply s_req; reflexivity.
    - intros [I1 I2]. split; [split|].
      + exact I1.
      + cbn. intros l [= <-]. apply inv_keys_sort. exact Hk.
      + eexists [_]. split; [reflexivity|]. constructor; [|constructor].
        cbn. apply inv_keys_sort, inv_keys_sort. exact Hk.
  Qed.

  Lemma s_inv_update s ids : keys_ok ids -> sstep s (fst (inv_update sc s ids)).
  Proof.
    intros Hk. unfold inv_update. cbv zeta.
    destruct (faulted sc (FInvWrite _)); cbn [fst].
    - apply s_req; reflexivity.
    - cbn [r_cl]. destruct (inv (r_cl s)) eqn:EI; cbn [fst].
      + intros [I1 I2]. split; [split|].
        * exact I1.
        * cbn. intros l0 [= <-]. apply inv_keys_sort. exact Hk.
        * eexists [_]. split; [reflexivity|]. constructor; [|constructor]. cbn. apply inv_keys_sort, inv_keys_sort. exact Hk.
      + apply s_req; reflexivity.
  Qed.

  Lemma s_merge s : sstep s (fst (merge sc s (apply_ids pl))).
  Proof.
    unfold merge. cbv zeta. intros I0.
    pose proof (s_inv_list s I0) as L1.
    destruct (inv_list sc s) as [s1 r1] eqn:E1. cbn [fst] in L1.
    assert (R1 : r1 = None \/ r1 = Some (inv (r_cl s)) /\ r_cl s1 = r_cl s).
    { unfold inv_list in E1. destruct (faulted sc _); injection E1 as <- <-; auto. }
    destruct r1 as [[l|]|]; cbn [fst]; try exact L1.
    - destruct L1 as [I1 [l1 [T1 F1]]].
      pose proof (s_inv_list s1 I1) as L2.
      destruct (inv_list sc s1) as [s2 r2] eqn:E2. cbn [fst] in L2.
      assert (R2 : r2 = None \/ r2 = Some (inv (r_cl s1)) /\ r_cl s2 = r_cl s1).
      { unfold inv_list in E2. destruct (faulted sc _); injection E2 as <- <-; auto. }
      assert (S02 : sstep s s2) by (intros _; destruct L2 as [I2 [l2 [T2 F2]]]; split; [exact I2|];
                                    exists (l2 ++ l1); split; [rewrite T2, T1, app_assoc; reflexivity|apply Forall_app; split; assumption]).
      destruct r2 as [cur0|]; cbn [fst]; [|exact (S02 I0)].
      destruct (set_eqn _ _ && _); cbn [fst]; [exact (S02 I0)|].
      destruct (is_dry _); cbn [fst]; [exact (S02 I0)|].
      refine (s_trans _ _ _ S02 (s_inv_apply s2 _ _) I0).
      intros i Hi Hinv. apply unionn_In in Hi. destruct Hi as [Hi|Hi]; [|exfalso; exact (apply_valid i Hi Hinv)].
      destruct R2 as [R2|[R2 C2]]; [discriminate|]. injection R2 as ->.
      destruct L2 as [[_ I2b] _].
      destruct (inv (r_cl s1)) as [cur|] eqn:EC; [|destruct Hi].
      rewrite <- C2 in EC. exact (I2b cur EC i Hi Hinv).
    - destruct (is_dry _); cbn [fst]; [exact L1|].
      destruct L1 as [I1 [l1 [T1 F1]]].
      destruct (s_inv_apply s1 (apply_ids pl) (apply_ids_keys_ok pl prev0 apply_valid) I1) as [I2 [l2 [T2 F2]]].
      split; [exact I2|]. exists (l2 ++ l1). split; [rewrite T2, T1, app_assoc; reflexivity|apply Forall_app; split; assumption].
  Qed.

  Lemma s_replace s ids : keys_ok ids -> sstep s (fst (replace sc s ids)).
  Proof.
    intros Hk. unfold replace. cbv zeta. destruct (is_dry _); cbn [fst]; [apply s_refl|].
    intros I0. pose proof (s_inv_list s I0) as L1.
    destruct (inv_list sc s) as [s1 r1]. cbn [fst] in L1.
    destruct r1 as [x|]; cbn [fst]; [|exact L1].
    destruct L1 as [I1 [l1 [T1 F1]]].
    pose proof (s_inv_list s1 I1) as L2. destruct (inv_list sc s1) as [s2 r2]. cbn [fst] in L2.
    assert (S02 : sstep s s2) by (intros _; destruct L2 as [I2 [l2 [T2 F2]]]; split; [exact I2|];
                                  exists (l2 ++ l1); split; [rewrite T2, T1, app_assoc; reflexivity|apply Forall_app; split; assumption]).
    destruct r2 as [[cur|]|]; cbn [fst]; try exact (S02 I0).
    destruct (set_eqn _ _ && _); cbn [fst]; [exact (S02 I0)|].
    exact (s_trans _ _ _ S02 (s_inv_update s2 ids Hk) I0).
  Qed.

  (* ---- the wait machine: table reconcile fields and cache only -------------- *)
  Ltac tr := eapply s_trans.

  Lemma s_handle_changed_uid c g s i : sstep s (handle_changed_uid c g s i).
  Proof. unfold handle_changed_uid. destruct c; (tr; [apply s_rec_reconcile|apply s_ev]). Qed.

  Lemma s_wait_start c g ids s : sstep s (fst (wait_start c g ids s)).
  Proof.
    unfold wait_start.
    set (stepf := fun (acc : rst * list id) (i : id) => _).
    assert (H : forall l acc, sstep (fst acc) (fst (fold_left stepf l acc))).
    { induction l as [|i l IH]; intros acc; cbn [fold_left]; [apply s_refl|].
      tr; [|apply IH]. destruct acc as [s0 pend]. unfold stepf. cbn [fst].
      destruct (w_skipped c s0 i); cbn [fst]; [tr; [apply s_rec_reconcile|apply s_ev]|].
      destruct (changed_uid s0 i); cbn [fst]; [apply s_handle_changed_uid|].
      destruct (cond_met c s0 i); cbn [fst]; (tr; [apply s_rec_reconcile|apply s_ev]). }
    specialize (H ids (s, [])). destruct (fold_left stepf ids (s, [])) as [s' pend]. exact H.
  Qed.

  Lemma s_wait_update c g ids s w i : sstep s (fst (wait_update c g ids s w i)).
  Proof.
    unfold wait_update.
    assert (H1 : forall r st, sstep s (ev (rec_reconcile s i r) (EWait g i st)))
      by (intros; tr; [apply s_rec_reconcile|apply s_ev]).
    pose proof (s_handle_changed_uid c g s i) as H2.
    pose proof (s_refl s) as H0.
    repeat match goal with
           | |- context [if ?b then _ else _] => destruct b
           | |- context [match ?c with AllCurrent => _ | AllNotFound => _ end] => destruct c
           end; cbn [fst]; first [exact H0 | exact H2 | apply H1].
  Qed.

  Lemma s_wait_timeout g s w : sstep s (wait_timeout g s w).
  Proof.
    unfold wait_timeout. apply s_fold. intros s0 i _. tr; [apply s_rec_reconcile|apply s_ev].
  Qed.

  Lemma s_deliver c g ids ds : forall s w, sstep s (fst (deliver sc c g ids ds s w)).
  Proof.
    induction ds as [|d t IH]; intros s w; cbn [deliver]; [apply s_refl|].
    destruct (w_pending w); [apply s_refl|].
    set (s2 := if o_status_events (sc_opts sc) then ev (emit s (IDeliv d)) (EStatus (s_id d) (s_st d)) else emit s (IDeliv d)).
    set (s3 := set_cache s2 (d :: r_cache s2)).
    assert (S3 : sstep s s3).
    { unfold s3, s2. tr; [|apply s_set_cache]. destruct (o_status_events (sc_opts sc)).
      - tr; [apply s_emit_deliv|apply s_ev].
      - apply s_emit_deliv. }
    destruct (memn (s_id d) ids).
    - pose proof (s_wait_update c g ids s3 w (s_id d)) as U.
      destruct (wait_update c g ids s3 w (s_id d)) as [s4 w4]. cbn [fst] in U.
      tr; [exact S3|]. tr; [exact U|apply IH].
    - tr; [exact S3|apply IH].
  Qed.

  Lemma s_wait_reset c ids s : sstep s (wait_reset sc c ids s).
  Proof. apply s_same; [apply wait_reset_tbl|rewrite wait_reset_cl; reflexivity|apply wait_reset_tr]. Qed.

  Lemma s_wait_task c g ids s : sstep s (wait_task sc c g ids s).
  Proof.
    unfold wait_task. cbv zeta.
    pose proof (s_wait_start c g ids s) as S1.
    destruct (wait_start c g ids s) as [s1 w1]. cbn [fst] in S1.
    destruct (w_pending w1); [tr; [exact S1|apply s_wait_reset]|].
    destruct (match e_watch_err_at (sc_env sc) with Some n => Nat.eqb n (snd g) | None => false end);
      [tr; [exact S1|apply s_set_abort]|].
    pose proof (s_deliver c g ids (w_deliv (nth (snd g) (e_waits (sc_env sc)) (mkW [] WTimeout))) s1 w1) as S2.
    destruct (deliver sc c g ids _ s1 w1) as [s2 w2]. cbn [fst] in S2.
    tr; [exact S1|]. tr; [exact S2|].
    destruct (w_pending w2); [apply s_wait_reset|].
    destruct (w_end _).
    - destruct (match c with AllCurrent => _ | AllNotFound => _ end);
        [tr; [apply s_wait_timeout|apply s_wait_reset]|apply s_set_abort].
    - apply s_set_abort.
  Qed.

  (* ---- apply --------------------------------------------------------------- *)
  Lemma s_ssa_patch l s n : sstep s (fst (ssa_patch sc s l n)).
  Proof.
    unfold ssa_patch. cbv zeta.
    destruct (faulted sc (FStream _ _)); cbn [fst]; [ss|].
    destruct (faulted sc (FApply _)); cbn [fst]; [ss|].
    destruct (find_obj _ _); destruct (match o_dry (sc_opts sc) with DServer => true | _ => false end); cbn [fst]; ss.
  Qed.

  Lemma s_csa_apply l s : sstep s (fst (csa_apply sc s l)).
  Proof.
    unfold csa_apply. cbv zeta.
    pose proof (s_get_obj s (l_id l)) as G. destruct (get_obj sc s (l_id l)) as [s1 g]. cbn [fst] in G.
    destruct g; cbn [fst]; try exact G.
    + destruct (is_dry _); cbn [fst]; [exact G|]. destruct (faulted sc _); cbn [fst]; ss.
    + destruct (negb (patch_needed c l)); cbn [fst]; [exact G|].
      destruct (is_dry _); cbn [fst]; [exact G|]. destruct (faulted sc _); cbn [fst]; ss.
  Qed.

  Lemma s_kubectl_apply s l : sstep s (fst (kubectl_apply sc s l)).
  Proof. exact (kubectl_apply_step sc l sstep s_trans (s_ssa_patch l) (s_csa_apply l) s). Qed.

  Lemma s_policy_apply_filter s i : sstep s (fst (policy_apply_filter sc s i)).
  Proof.
    unfold policy_apply_filter. destruct (o_policy (sc_opts sc)); cbn [fst]; try apply s_refl.
    all: pose proof (s_get_obj s i) as G; destruct (get_obj sc s i) as [s1 g]; cbn [fst] in G;
      destruct g; cbn [fst]; exact G.
  Qed.

  Lemma s_mutate s l : sstep s (fst (mutate sc s l)).
  Proof. exact (mutate_step sc sstep s_refl s_trans s_get_obj s_set_cache s l). Qed.

  Lemma s_apply_one g s p : local_ok pl p -> sstep s (apply_one sc pl g s p).
  Proof.
    intros [Hin Hl]. unfold apply_one. destruct (p_local p) as [l|] eqn:EL; [|apply s_refl].
    assert (RA : forall s0 e a u gg, sstep s0 (rec_add (ev s0 e) (p_id p) SApply a u gg)).
    { intros. tr; [apply s_ev|]. apply s_rec_add. intros _. exact Hin. }
    destruct (negb (kind_known sc (r_known s) (p_id p))); [apply RA|].
    pose proof (s_policy_apply_filter s (p_id p)) as P.
    destruct (policy_apply_filter sc s (p_id p)) as [s1 f1]. cbn [fst] in P.
    destruct (match f1 with FPass => _ | _ => _ end).
    - pose proof (s_mutate s1 l) as M. destruct (mutate sc s1 l) as [sm okm]. cbn [fst] in M.
      destruct okm; cbn [negb]; [|tr; [exact P|]; tr; [exact M|apply RA]].
      pose proof (s_kubectl_apply sm l) as K.
      destruct (kubectl_apply sc sm l) as [s2 r]. cbn [fst] in K.
      destruct r; (tr; [exact P|]; tr; [exact M|]; tr; [exact K|apply RA]).
    - tr; [exact P|apply RA].
    - tr; [exact P|apply RA].
  Qed.

  Lemma s_apply_task g s layer : Forall (local_ok pl) layer -> sstep s (apply_task sc pl g s layer).
  Proof.
    intros F. unfold apply_task. apply s_fold. intros s0 p Hp. apply s_apply_one.
    rewrite Forall_forall in F. exact (F p Hp).
  Qed.

  (* ---- prune --------------------------------------------------------------- *)
  Lemma s_prune_one lcs g uids s p : sstep s (prune_one sc pl lcs g uids s p).
  Proof.
    unfold prune_one. cbv zeta. destruct (p_live p) as [c|]; [|apply s_refl].
    destruct (prune_filters sc pl lcs (r_tbl s) uids c).
    all: repeat match goal with
                | |- context [if ?b then _ else _] => destruct b
                | |- context [match c_owner ?x with _ => _ end] => destruct (c_owner x)
                | |- context [match find_obj ?a ?b with _ => _ end] => destruct (find_obj a b)
                end.
    all: ss.
  Qed.

  Lemma s_prune_task lcs g s layer : sstep s (prune_task sc pl lcs g s layer).
  Proof. unfold prune_task. apply s_fold. intros s0 p _. apply s_prune_one. Qed.

  (* ---- inventory tasks ------------------------------------------------------ *)
  Lemma s_inv_add_task s : sstep s (fst (inv_add_task sc pl s)).
  Proof.
    unfold inv_add_task. cbv zeta.
    match goal with |- sstep s (fst (let '(s1, ok1) := ?X in _)) =>
      assert (H : sstep s (fst X)); [|destruct X as [s1 ok1]; cbn [fst] in H] end.
    { destruct (match sc_inv_ns sc with Some n => _ | None => None end) as [p|]; [|apply s_refl].
      destruct (p_local p); [|apply s_refl].
      destruct (is_dry _); cbn [fst]; [apply s_refl|].
      destruct (faulted sc FNsCreate); cbn [fst]; [ss|].
      destruct (find_obj _ _); cbn [fst]; ss. }
    destruct ok1; cbn [fst]; [|exact H]. tr; [exact H|]. apply s_merge.
  Qed.

  Lemma s_delete_inventory s : sstep s (fst (delete_inventory sc s)).
  Proof.
    unfold delete_inventory. cbv zeta.
    pose proof (s_inv_list s) as L1.
    destruct (inv_list sc s) as [s1 r1]. cbn [fst] in L1.
    destruct r1 as [[l|]|]; cbn [fst]; try exact L1.
    destruct (is_dry _); cbn [fst]; [exact L1|].
    destruct (faulted sc FInvDelete); cbn [fst].
    - ss.
    - tr; [exact L1|]. intros [I1 I2]. split; [split|].
      + exact I1.
      + cbn. intros l0 [=].
      + eexists [_]. split; [reflexivity|]. constructor; [exact I|constructor].
  Qed.

  Lemma s_inv_set_task prev s : (forall pv, prev = Some pv -> forall i, In i pv -> In i prev0) ->
    sstep s (fst (inv_set_task sc pl prev s)).
  Proof.
    intros Hp. unfold inv_set_task. destruct prev as [pv|]; cbn [fst]; [|apply s_refl].
    destruct (o_destroy (sc_opts sc) && destroy_successful pl pv s); [apply s_delete_inventory|].
    intros I0. apply s_replace; [|exact I0].
    eapply final_inventory_keys; [exact apply_valid|exact I0|exact (Hp pv eq_refl)].
  Qed.

  Lemma s_run_task prev s t : task_ok pl t ->
    (forall pv, prev = Some pv -> forall i, In i pv -> In i prev0) ->
    sstep s (fst (run_task sc pl locals prev s t)).
  Proof.
    intros OK Hp. unfold run_task. cbv zeta.
    assert (S0 : sstep s (ev s (EStarted (task_name t)))) by apply s_ev.
    destruct t; cbn [task_ok] in OK.
    - pose proof (s_inv_add_task (ev s (EStarted (task_name TInvAdd)))) as T.
      destruct (inv_add_task sc pl _) as [s1 ok]. cbn [fst] in *. tr; [exact S0|]. tr; [exact T|apply s_ev].
    - cbn [fst]. tr; [exact S0|]. tr; [apply s_apply_task; exact OK|apply s_ev].
    - cbn [fst]. tr; [exact S0|]. tr; [apply s_wait_task|apply s_ev].
    - cbn [fst]. tr; [exact S0|]. tr; [apply s_prune_task|apply s_ev].
    - pose proof (s_inv_set_task prev (ev s (EStarted (task_name TInvSet))) Hp) as T.
      destruct (inv_set_task sc pl prev _) as [s1 ok]. cbn [fst] in *. tr; [exact S0|]. tr; [exact T|apply s_ev].
  Qed.

  Lemma s_run_tasks prev ts : Forall (task_ok pl) ts ->
    (forall pv, prev = Some pv -> forall i, In i pv -> In i prev0) ->
    forall s, sstep s (run_tasks sc pl locals prev s ts).
  Proof.
    intros OK Hp. induction ts as [|t rest IH]; intros s; cbn [run_tasks]; [apply s_refl|].
    inversion OK as [|? ? Ot Or]; subst.
    pose proof (s_run_task prev s t Ot Hp) as T.
    destruct (run_task sc pl locals prev s t) as [s1 ok]. cbn [fst] in T.
    destruct (negb ok); [tr; [exact T|apply s_ev]|].
    destruct (r_abort s1); [tr; [exact T|apply s_ev]|].
    tr; [exact T|apply IH; exact Or].
  Qed.
End Snap.
