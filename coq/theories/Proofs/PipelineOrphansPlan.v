(* C01 (no orphans), part 4: facts about the plan (solver) the run invariant
   relies on: every valid apply / prune object is in exactly one task
   (the topological sort is a permutation of the vertices, hydration keeps
   exactly the members), apply and prune ids are disjoint, every tracked live
   object is an apply object, an invalid object or a prune object, and what
   `register` records. *)
From Coq Require Import List Bool Arith NArith ZArith Lia Permutation.
From CliUtils Require Import Model.ObjSet Model.ActuationTable Model.PipelineTypes Model.Pipeline
     Proofs.ObjSetProofs Proofs.ActuationTableProofs Proofs.PipelineBase Proofs.PipelineAuth
     Corr.CorrPipeline Proofs.PipelineOrphansBase Proofs.PipelineOrphansSpec Proofs.PipelineOrphansInv.
Import ListNotations.

(* ---- lists ---------------------------------------------------------------------- *)
Lemma filter_partition_perm {A} (f : A -> bool) l :
  Permutation (filter f l ++ filter (fun x => negb (f x)) l) l.
Proof.
  induction l as [|a t IH]; cbn; [constructor|].
  destruct (f a); cbn.
  - apply perm_skip. exact IH.
  - eapply Permutation_trans; [apply Permutation_sym, Permutation_middle|]. apply perm_skip. exact IH.
Qed.

Lemma NoDup_map_filter_gen {A B} (f : A -> B) (p : A -> bool) l : NoDup (map f l) -> NoDup (map f (filter p l)).
Proof.
  induction l as [|a t IH]; cbn; intros ND; [constructor|].
  inversion ND as [|? ? Ha Ht]; subst. destruct (p a); cbn; [|apply IH; exact Ht].
  constructor; [|apply IH; exact Ht]. intros H. apply Ha.
  apply in_map_iff in H. destruct H as [x [E Hx]]. apply filter_In in Hx. apply in_map_iff. exists x. tauto.
Qed.

Lemma concat_filter_nonempty {A} (L : list (list A)) :
  concat (filter (fun l => match l with [] => false | _ => true end) L) = concat L.
Proof.
  induction L as [|l t IH]; cbn; [reflexivity|]. destruct l; cbn; [exact IH|]. rewrite IH. reflexivity.
Qed.

Lemma concat_rev_rev_perm {A} (L : list (list A)) :
  Permutation (concat (rev (map (@rev A) L))) (concat L).
Proof.
  induction L as [|l t IH]; cbn; [constructor|].
  rewrite concat_app. cbn. rewrite app_nil_r.
  eapply Permutation_trans; [apply Permutation_app_comm|].
  apply Permutation_app; [apply Permutation_sym, Permutation_rev|exact IH].
Qed.

Lemma NoDup_app_intro {A} (a b : list A) :
  NoDup a -> NoDup b -> (forall x, In x a -> ~ In x b) -> NoDup (a ++ b).
Proof.
  induction a as [|x t IH]; cbn; intros Na Nb D; [exact Nb|].
  inversion Na as [|? ? Hx Ht]; subst. constructor.
  - intros H. apply in_app_or in H. destruct H as [H|H]; [contradiction|]. apply (D x); auto.
  - apply IH; auto.
Qed.
Lemma NoDup_app_elim {A} (a b : list A) :
  NoDup (a ++ b) -> NoDup a /\ NoDup b /\ (forall x, In x a -> ~ In x b).
Proof.
  induction a as [|x t IH]; cbn; intros N.
  - split; [constructor|]. split; [exact N|]. intros x [].
  - inversion N as [|? ? Hx Ht]; subst. destruct (IH Ht) as [A1 [A2 A3]]. split; [|split; [exact A2|]].
    + constructor; [|exact A1]. intros H. apply Hx. apply in_or_app. left. exact H.
    + intros y [<-|Hy]; [|apply A3; exact Hy]. intros H. apply Hx. apply in_or_app. right. exact H.
Qed.

(* ---- the topological sort returns a permutation of its vertices ------------------- *)
Section Kahn.
  Variable sc : scenario.

  Lemma kahn_perm fuel g : forall rem,
    Permutation (concat (fst (kahn fuel g rem)) ++ snd (kahn fuel g rem)) rem.
  Proof.
    induction fuel as [|f IH]; intros rem; cbn [kahn]; [apply Permutation_refl|].
    destruct rem as [|a r]; [constructor|].
    set (rem := a :: r).
    set (P := fun v => forallb (fun d => negb (memn d rem)) (g_deps g v)).
    set (leaves := filter P rem).
    assert (EL : leaves = filter P rem) by reflexivity. clearbody leaves.
    destruct leaves as [|x xs]; [apply Permutation_refl|].
    specialize (IH (filter (fun v => negb (memn v (x :: xs))) rem)).
    destruct (kahn f g (filter (fun v => negb (memn v (x :: xs))) rem)) as [ls cyc]. cbn [fst snd] in *.
    cbn [concat]. rewrite <- app_assoc.
    eapply Permutation_trans; [apply Permutation_app_head; exact IH|].
    rewrite EL.
    assert (E : filter (fun v => negb (memn v (filter P rem))) rem = filter (fun v => negb (P v)) rem).
    { apply filter_ext_in. intros v Hv. f_equal.
      destruct (P v) eqn:EP.
      - apply memn_In. apply filter_In. auto.
      - destruct (memn v (filter P rem)) eqn:EM; [|reflexivity].
        apply memn_In in EM. apply filter_In in EM. destruct EM. congruence. }
    rewrite E. apply filter_partition_perm.
  Qed.

  (* ---- hydration keeps exactly the members of the layers -------------------------- *)
  Lemma filter_id_single objs i : NoDup (map p_id objs) -> In i (map p_id objs) ->
    map p_id (filter (fun p => Nat.eqb (p_id p) i) objs) = [i].
  Proof.
    induction objs as [|p t IH]; cbn; intros ND H; [destruct H|].
    inversion ND as [|? ? Hp Ht]; subst.
    destruct (Nat.eqb (p_id p) i) eqn:E; cbn.
    - apply Nat.eqb_eq in E. subst i. f_equal.
      assert (X : filter (fun q => Nat.eqb (p_id q) (p_id p)) t = []).
      { clear IH H ND Ht. induction t as [|q t IH]; cbn; [reflexivity|].
        destruct (Nat.eqb (p_id q) (p_id p)) eqn:E2.
        - apply Nat.eqb_eq in E2. exfalso. apply Hp. left. exact E2.
        - apply IH. intros X. apply Hp. right. exact X. }
      rewrite X. reflexivity.
    - apply Nat.eqb_neq in E. destruct H as [H|H]; [contradiction|]. apply IH; assumption.
  Qed.

  Lemma pick_ids objs l : NoDup (map p_id objs) ->
    map p_id (pick objs l) = sortn (filter (fun i => memn i (map p_id objs)) l).
  Proof.
    intros ND. unfold pick.
    set (L := sortn (filter (fun i => memn i (map p_id objs)) l)).
    assert (HL : forall i, In i L -> In i (map p_id objs)).
    { intros i Hi. unfold L in Hi. apply (proj1 (sortn_In _ _)) in Hi. apply filter_In in Hi. apply memn_In. tauto. }
    clearbody L. induction L as [|i t IH]; cbn; [reflexivity|].
    rewrite map_app, filter_id_single by (auto; apply HL; left; reflexivity).
    cbn. f_equal. apply IH. intros j Hj. apply HL. right. exact Hj.
  Qed.

  Lemma hydrate_ids_perm layers objs : NoDup (map p_id objs) ->
    Permutation (map p_id (concat (hydrate layers objs)))
                (filter (fun i => memn i (map p_id objs)) (concat layers)).
  Proof.
    intros ND. unfold hydrate. rewrite concat_filter_nonempty.
    induction layers as [|l t IH]; cbn; [constructor|].
    rewrite map_app, filter_app. apply Permutation_app; [|exact IH].
    rewrite pick_ids by exact ND. apply sortn_perm.
  Qed.

  Lemma hydrate_ids layers objs : NoDup (map p_id objs) -> NoDup (concat layers) ->
    NoDup (map p_id (concat (hydrate layers objs))) /\
    forall j, In j (map p_id (concat (hydrate layers objs))) <-> In j (concat layers) /\ In j (map p_id objs).
  Proof.
    intros ND NL. pose proof (hydrate_ids_perm layers objs ND) as P. split.
    - eapply Permutation_NoDup; [apply Permutation_sym; exact P|].
      apply (NoDup_filter nat). exact NL.
    - intros j. split.
      + intros H. apply (Permutation_in _ P) in H. apply filter_In in H. rewrite memn_In in H. exact H.
      + intros H. apply (Permutation_in _ (Permutation_sym P)). apply filter_In. rewrite memn_In. exact H.
  Qed.

  (* ---- the task list ------------------------------------------------------------------ *)
  Lemma todo_apply_tasks layers : forall ka kw,
    todo_of (fst (apply_tasks sc ka kw layers)) = map p_id (concat layers).
  Proof.
    induction layers as [|l t IH]; intros ka kw; cbn [apply_tasks]; [reflexivity|].
    destruct (is_dry (o_dry (sc_opts sc))).
    - specialize (IH (S ka) kw). destruct (apply_tasks sc (S ka) kw t) as [ts kw']. cbn [fst] in *.
      cbn. rewrite map_app. f_equal. exact IH.
    - specialize (IH (S ka) (S kw)). destruct (apply_tasks sc (S ka) (S kw) t) as [ts kw']. cbn [fst] in *.
      cbn. rewrite map_app. f_equal. exact IH.
  Qed.

  Lemma todo_prune_tasks layers : forall kp kw,
    todo_of (prune_tasks sc kp kw layers) = map p_id (concat layers).
  Proof.
    induction layers as [|l t IH]; intros kp kw; cbn [prune_tasks]; [reflexivity|].
    destruct (is_dry (o_dry (sc_opts sc))); cbn; rewrite map_app; f_equal; apply IH.
  Qed.
End Kahn.

(* ---- anatomy of build_plan -------------------------------------------------------------- *)
Section BuildPlan.
  Variable sc : scenario.
  Variable known : list id.
  Variable locals : list lobj.
  Variable pobjs : list cobj.
  Hypothesis HL : NoDup (map l_id locals).
  Hypothesis HP : NoDup (map c_id pobjs).
  Hypothesis HD : forall c, In c pobjs -> ~ In (c_id c) (map l_id locals).

  Notation pl := (build_plan sc known locals pobjs).
  Definition finv : list id := map l_id (filter (fun l => l_finv l || unknown_type sc known locals l) locals).
  Definition applyA : list pobj := map pobj_of_local (filter (fun l => negb (memn (l_id l) finv)) locals).
  Definition pruneA : list pobj := map pobj_of_live pobjs.
  Definition validp (p : pobj) : bool := negb (memn (p_id p) (pl_invalid pl)).

  Lemma bp_anatomy :
    exists layers cyc,
      (forall j, In j cyc -> In j (pl_invalid pl)) /\ (forall j, In j finv -> In j (pl_invalid pl)) /\
      pl_apply pl = filter validp applyA /\ pl_prune pl = filter validp pruneA /\ pl_prune_all pl = pruneA /\
      pl_apply_layers pl = hydrate layers (pl_apply pl) /\
      pl_prune_layers pl = rev (map (@rev pobj) (hydrate layers (pl_prune pl))) /\
      Permutation (concat layers ++ cyc) (map p_id (applyA ++ pruneA)).
  Proof.
    unfold validp. unfold build_plan. cbv zeta. fold finv. fold applyA. fold pruneA.
    match goal with |- context [kahn ?n ?g ?r] => pose proof (kahn_perm n g r) as KP; destruct (kahn n g r) as [layers cyc] end.
    cbn [fst snd] in KP. cbn [pl_invalid pl_apply pl_prune pl_prune_all pl_apply_layers pl_prune_layers].
    exists layers, cyc. split; [|split].
    - intros j Hj. apply dedupn_In. apply in_or_app. right. apply in_or_app. right. exact Hj.
    - intros j Hj. apply dedupn_In. apply in_or_app. left. exact Hj.
    - repeat (split; [reflexivity|]). exact KP.
  Qed.

  Lemma applyA_ids : map p_id applyA = map l_id (filter (fun l => negb (memn (l_id l) finv)) locals).
  Proof. unfold applyA. rewrite map_map. reflexivity. Qed.
  Lemma pruneA_ids : map p_id pruneA = map c_id pobjs.
  Proof. unfold pruneA. rewrite map_map. reflexivity. Qed.

  Lemma applyA_ids_local j : In j (map p_id applyA) -> In j (map l_id locals).
  Proof.
    rewrite applyA_ids. intros H. apply in_map_iff in H. destruct H as [l [<- Hl]]. apply filter_In in Hl.
    apply in_map. tauto.
  Qed.

  Lemma all_ids_NoDup : NoDup (map p_id (applyA ++ pruneA)).
  Proof.
    rewrite map_app. apply NoDup_app_intro.
    - rewrite applyA_ids. apply NoDup_map_filter_gen. exact HL.
    - rewrite pruneA_ids. exact HP.
    - intros j Ha Hp. rewrite pruneA_ids in Hp. apply in_map_iff in Hp. destruct Hp as [c [<- Hc]].
      exact (HD c Hc (applyA_ids_local _ Ha)).
  Qed.

  Lemma bp_apply_in_applyA p : In p (pl_apply pl) -> In p applyA /\ ~ In (p_id p) (pl_invalid pl).
  Proof.
    destruct bp_anatomy as [layers [cyc [_ [_ [E _]]]]]. rewrite E. intros H. apply filter_In in H.
    destruct H as [H1 H2]. split; [exact H1|]. unfold validp in H2. apply negb_true_iff in H2.
    intros X. apply memn_In in X. congruence.
  Qed.

  Lemma bp_apply_is_local p : In p (pl_apply pl) -> exists l, p = pobj_of_local l /\ In l locals.
  Proof.
    intros H. destruct (bp_apply_in_applyA p H) as [H1 _]. unfold applyA in H1.
    apply in_map_iff in H1. destruct H1 as [l [<- Hl]]. apply filter_In in Hl. exists l. tauto.
  Qed.

  (* ---- the references of a valid manifest are among its dependencies in the graph ----------------- *)
  Lemma g_deps_first (g : graph) v ds : NoDup (map fst g) -> In (v, ds) g -> g_deps g v = ds.
  Proof.
    induction g as [|[v' ds'] t IH]; intros N H; [destruct H|]. cbn [g_deps]. cbn [map fst] in N.
    inversion N as [|? ? Hn Nt]; subst. destruct H as [[= -> ->]|H]; [rewrite Nat.eqb_refl; reflexivity|].
    destruct (Nat.eqb v' v) eqn:EQ; [|exact (IH Nt H)].
    apply Nat.eqb_eq in EQ. subst v'. exfalso. apply Hn. apply in_map_iff. exists (v, ds). auto.
  Qed.

  Lemma dep_edges_clean ids : forall deps seen e, dep_edges ids seen deps = (e, false) -> e = deps.
  Proof.
    induction deps as [|d t IH]; intros seen e H; cbn [dep_edges] in H; [injection H as <-; reflexivity|].
    destruct (memn d seen); [destruct (dep_edges ids seen t); discriminate|].
    destruct (negb (memn d ids)); [destruct (dep_edges ids (d :: seen) t); discriminate|].
    destruct (dep_edges ids (d :: seen) t) as [e' b] eqn:E. injection H as <- ->. f_equal. exact (IH _ _ E).
  Qed.

  Lemma bp_graph_anatomy :
    let all := applyA ++ pruneA in
    let ids := map p_id all in
    pl_graph pl = map (fun p => (p_id p, fst (edges_of sc ids p))) all /\
    forall p, In p all -> snd (edges_of sc ids p) = true -> In (p_id p) (pl_invalid pl).
  Proof.
    cbv zeta. unfold build_plan. cbv zeta. fold finv. fold applyA. fold pruneA.
    match goal with |- context [kahn ?n ?g ?r] => destruct (kahn n g r) as [layers cyc] end.
    cbn [pl_graph pl_invalid]. split.
    - rewrite map_map. reflexivity.
    - intros p Hp Hb. apply (dedup_In nat Nat.eqb nat_eqb_spec). apply in_or_app. right. apply in_or_app. left.
      apply in_map_iff. exists (p_id p, edges_of sc (map p_id (applyA ++ pruneA)) p). split; [reflexivity|].
      apply filter_In. split; [|exact Hb]. apply in_map_iff. exists p. auto.
  Qed.

  Lemma bp_refs_in_graph p l : In p (pl_apply pl) -> p_local p = Some l ->
    incl (l_deps l) (g_deps (pl_graph pl) (p_id p)).
  Proof.
    intros Hp EL. destruct (bp_apply_in_applyA p Hp) as [HA NI].
    destruct bp_graph_anatomy as [EG BAD]. cbv zeta in EG, BAD.
    assert (Hall : In p (applyA ++ pruneA)) by (apply in_or_app; left; exact HA).
    set (ids := map p_id (applyA ++ pruneA)) in *.
    assert (NB : snd (edges_of sc ids p) = false).
    { destruct (snd (edges_of sc ids p)) eqn:E; [|reflexivity]. exfalso. exact (NI (BAD p Hall E)). }
    assert (GD : g_deps (pl_graph pl) (p_id p) = fst (edges_of sc ids p)).
    { rewrite EG. apply g_deps_first.
      - rewrite map_map. cbn [fst]. exact all_ids_NoDup.
      - apply in_map_iff. exists p. auto. }
    rewrite GD. unfold applyA in HA. apply in_map_iff in HA. destruct HA as [l0 [<- _]].
    cbn [p_local pobj_of_local] in EL. injection EL as ->.
    unfold edges_of in *. cbn [p_baddep p_deps p_id pobj_of_local] in *.
    destruct (l_baddep l); [cbn [snd] in NB; discriminate|].
    destruct (dep_edges ids [] (l_deps l)) as [e b] eqn:DE. cbn [fst snd] in *. subst b.
    rewrite (dep_edges_clean ids _ _ _ DE).
    intros x Hx. apply (dedup_In nat Nat.eqb nat_eqb_spec). apply in_or_app. right. apply in_or_app. right. exact Hx.
  Qed.

  Lemma bp_prune_all_eq : pl_prune_all pl = pruneA.
  Proof. destruct bp_anatomy as [layers [cyc [_ [_ [_ [_ [E _]]]]]]]. exact E. Qed.

  Lemma bp_prune_sub p : In p (pl_prune pl) -> In p (pl_prune_all pl).
  Proof.
    destruct bp_anatomy as [layers [cyc [_ [_ [_ [E [E2 _]]]]]]]. rewrite E, E2. intros H. apply filter_In in H. tauto.
  Qed.

  Lemma bp_disj j : In j (apply_ids pl) -> ~ In j (map p_id (pl_prune_all pl)).
  Proof.
    unfold apply_ids. intros H. apply in_map_iff in H. destruct H as [p [<- Hp]].
    destruct (bp_apply_in_applyA p Hp) as [H1 _]. rewrite bp_prune_all_eq.
    pose proof all_ids_NoDup as N. rewrite map_app in N. apply NoDup_app_elim in N. destruct N as [_ [_ D]].
    apply D. apply in_map. exact H1.
  Qed.

  Lemma bp_cover_local j : In j (map l_id locals) -> In j (apply_ids pl) \/ In j (pl_invalid pl).
  Proof.
    intros H. apply in_map_iff in H. destruct H as [l [<- Hl]].
    destruct bp_anatomy as [layers [cyc [_ [FI [E _]]]]].
    destruct (memn (l_id l) finv) eqn:EF.
    - right. apply FI. apply memn_In. exact EF.
    - destruct (memn (l_id l) (pl_invalid pl)) eqn:EV; [right; apply memn_In; exact EV|left].
      unfold apply_ids. rewrite E. apply in_map_iff. exists (pobj_of_local l). split; [reflexivity|].
      apply filter_In. split.
      + unfold applyA. apply in_map. apply filter_In. split; [exact Hl|]. rewrite EF. reflexivity.
      + unfold validp. cbn [p_id pobj_of_local]. rewrite EV. reflexivity.
  Qed.

  Lemma bp_cover_prune c : In c pobjs -> In (c_id c) (pl_invalid pl) \/ In (pobj_of_live c) (pl_prune pl).
  Proof.
    intros H. destruct bp_anatomy as [layers [cyc [_ [_ [_ [E _]]]]]].
    destruct (memn (c_id c) (pl_invalid pl)) eqn:EV; [left; apply memn_In; exact EV|right].
    rewrite E. apply filter_In. split; [unfold pruneA; apply in_map; exact H|].
    unfold validp. cbn [p_id pobj_of_live]. rewrite EV. reflexivity.
  Qed.

  (* every valid object is in exactly one layer *)
  Lemma bp_layers :
    NoDup (map p_id (concat (pl_apply_layers pl)) ++ map p_id (concat (pl_prune_layers pl))) /\
    (forall j, In j (map p_id (concat (pl_apply_layers pl))) <-> In j (apply_ids pl)) /\
    (forall j, In j (map p_id (concat (pl_prune_layers pl))) <-> In j (map p_id (pl_prune pl))).
  Proof.
    destruct bp_anatomy as [layers [cyc [CY [_ [EA [EP [_ [LA [LP KP]]]]]]]]].
    pose proof all_ids_NoDup as NA.
    assert (NL : NoDup (concat layers)).
    { apply (Permutation_NoDup (Permutation_sym KP)) in NA. apply NoDup_app_elim in NA. tauto. }
    assert (NAp : NoDup (map p_id (pl_apply pl))).
    { rewrite EA. apply NoDup_map_filter_gen. rewrite map_app in NA. apply NoDup_app_elim in NA. tauto. }
    assert (NPr : NoDup (map p_id (pl_prune pl))).
    { rewrite EP. apply NoDup_map_filter_gen. rewrite map_app in NA. apply NoDup_app_elim in NA. tauto. }
    (* valid ids are sorted into a layer *)
    assert (INL : forall j, In j (map p_id (applyA ++ pruneA)) -> ~ In j (pl_invalid pl) -> In j (concat layers)).
    { intros j Hj Hv. apply (Permutation_in _ (Permutation_sym KP)) in Hj. apply in_app_or in Hj.
      destruct Hj as [Hj|Hj]; [exact Hj|]. exfalso. apply Hv. apply CY. exact Hj. }
    destruct (hydrate_ids layers (pl_apply pl) NAp NL) as [H1 H2].
    destruct (hydrate_ids layers (pl_prune pl) NPr NL) as [H3 H4].
    assert (PP : Permutation (map p_id (concat (pl_prune_layers pl))) (map p_id (concat (hydrate layers (pl_prune pl))))).
    { rewrite LP. apply Permutation_map. apply concat_rev_rev_perm. }
    assert (A : forall j, In j (map p_id (concat (pl_apply_layers pl))) <-> In j (apply_ids pl)).
    { intros j. rewrite LA, H2. unfold apply_ids. split; [tauto|]. intros H. split; [|exact H].
      apply in_map_iff in H. destruct H as [p [<- Hp]]. destruct (bp_apply_in_applyA p Hp) as [X Y].
      apply INL; [|exact Y]. rewrite map_app. apply in_or_app. left. apply in_map. exact X. }
    assert (B : forall j, In j (map p_id (concat (pl_prune_layers pl))) <-> In j (map p_id (pl_prune pl))).
    { intros j. split.
      - intros H. apply (Permutation_in _ PP) in H. apply H4 in H. tauto.
      - intros H. apply (Permutation_in _ (Permutation_sym PP)). apply H4. split; [|exact H].
        apply in_map_iff in H. destruct H as [p [<- Hp]]. pose proof Hp as Hp'. rewrite EP in Hp'.
        apply filter_In in Hp'. destruct Hp' as [X Y]. apply INL.
        + rewrite map_app. apply in_or_app. right. apply in_map. exact X.
        + unfold validp in Y. apply negb_true_iff in Y. intros Z. apply memn_In in Z. congruence. }
    split; [|split; [exact A|exact B]].
    apply NoDup_app_intro.
    - rewrite LA. exact H1.
    - eapply Permutation_NoDup; [apply Permutation_sym; exact PP|exact H3].
    - intros j Ha Hb. apply A in Ha. apply B in Hb.
      apply (bp_disj j Ha). apply in_map_iff in Hb. destruct Hb as [p [<- Hp]]. apply in_map. apply bp_prune_sub. exact Hp.
  Qed.
End BuildPlan.

(* ---- the task list of the plan ------------------------------------------------------------ *)
Section Tasks.
  Variable sc : scenario.
  Variable known : list id.
  Variable locals : list lobj.
  Variable pobjs : list cobj.
  Hypothesis HL : NoDup (map l_id locals).
  Hypothesis HP : NoDup (map c_id pobjs).
  Hypothesis HD : forall c, In c pobjs -> ~ In (c_id c) (map l_id locals).
  Notation pl := (build_plan sc known locals pobjs).

  Lemma todo_tasks_of :
    todo_of (tasks_of sc pl) =
    (match pl_apply pl with [] => [] | _ => map p_id (concat (pl_apply_layers pl)) end) ++
    (if o_prune (sc_opts sc)
     then match pl_prune pl with [] => [] | _ => map p_id (concat (pl_prune_layers pl)) end
     else []).
  Proof.
    unfold tasks_of.
    assert (A : todo_of (fst (match pl_apply pl with [] => ([], 0) | _ => apply_tasks sc 0 0 (pl_apply_layers pl) end)) =
                match pl_apply pl with [] => [] | _ => map p_id (concat (pl_apply_layers pl)) end).
    { destruct (pl_apply pl); [reflexivity|]. apply todo_apply_tasks. }
    destruct (match pl_apply pl with [] => ([], 0) | _ => apply_tasks sc 0 0 (pl_apply_layers pl) end) as [at_ kw].
    cbn [fst] in A. unfold todo_of in *. rewrite !flat_map_app, A.
    assert (E0 : flat_map (fun t => match t with TApply _ l | TPrune _ l => map p_id l | _ => [] end)
                          (if o_destroy (sc_opts sc) then [] else [TInvAdd]) = [])
      by (destruct (o_destroy (sc_opts sc)); reflexivity).
    rewrite E0. cbn [app flat_map]. rewrite app_nil_r. f_equal.
    destruct (o_prune (sc_opts sc)); [|reflexivity]. destruct (pl_prune pl); [reflexivity|].
    apply (todo_prune_tasks sc).
  Qed.

  Lemma tasks_todo :
    NoDup (todo_of (tasks_of sc pl)) /\
    forall j, In j (todo_of (tasks_of sc pl)) <->
              In j (apply_ids pl) \/ (o_prune (sc_opts sc) = true /\ In j (pids pl)).
  Proof.
    rewrite todo_tasks_of. destruct (bp_layers sc known locals pobjs HL HP HD) as [N [A B]].
    apply NoDup_app_elim in N. destruct N as [N1 [N2 D]].
    assert (EA : forall j, In j (match pl_apply pl with [] => [] | _ => map p_id (concat (pl_apply_layers pl)) end) <-> In j (apply_ids pl)).
    { intros j. unfold apply_ids. destruct (pl_apply pl) eqn:E; [cbn; tauto|]. rewrite <- E. apply A. }
    assert (EB : forall j, In j (match pl_prune pl with [] => [] | _ => map p_id (concat (pl_prune_layers pl)) end) <-> In j (pids pl)).
    { intros j. unfold pids. destruct (pl_prune pl) eqn:E; [cbn; tauto|]. apply B. }
    split.
    - apply NoDup_app_intro.
      + destruct (pl_apply pl); [constructor|exact N1].
      + destruct (o_prune (sc_opts sc)); [|constructor]. destruct (pl_prune pl); [constructor|exact N2].
      + intros j Ha Hb. destruct (o_prune (sc_opts sc)); [|destruct Hb].
        apply EA in Ha. apply EB in Hb. apply A in Ha. apply B in Hb. exact (D j Ha Hb).
    - intros j. rewrite in_app_iff, EA. destruct (o_prune (sc_opts sc)).
      + rewrite EB. intuition.
      + cbn. intuition discriminate.
  Qed.

  Lemma sched_apply_tasks layers : (forall layer p, In layer layers -> In p layer -> local_ok' pl p) ->
    forall ka kw rest, sched sc pl P1 rest -> sched sc pl P1 (fst (apply_tasks sc ka kw layers) ++ rest).
  Proof.
    induction layers as [|l t IH]; intros H ka kw rest HR; cbn [apply_tasks]; [exact HR|].
    assert (Hl : Forall (local_ok' pl) l)
      by (apply Forall_forall; intros p Hp; eapply H; [left; reflexivity|exact Hp]).
    assert (Ht : forall layer p, In layer t -> In p layer -> local_ok' pl p)
      by (intros; eapply H; [right; eassumption|assumption]).
    assert (Hw : forall j, In j (map p_id l) -> In j (apply_ids pl)).
    { intros j Hj. apply in_map_iff in Hj. destruct Hj as [p [<- Hp]].
      rewrite Forall_forall in Hl. destruct (Hl p Hp) as [l0 [_ [_ [X _]]]]. exact X. }
    destruct (is_dry (o_dry (sc_opts sc))).
    - specialize (IH Ht (S ka) kw rest HR). destruct (apply_tasks sc (S ka) kw t) as [ts kw']. cbn [fst] in *.
      cbn. auto.
    - specialize (IH Ht (S ka) (S kw) rest HR). destruct (apply_tasks sc (S ka) (S kw) t) as [ts kw']. cbn [fst] in *.
      cbn. auto.
  Qed.

  Lemma sched_prune_tasks f layers : (forall layer p, In layer layers -> In p layer -> prune_ok pl p) ->
    forall kp kw rest, sched sc pl f rest -> sched sc pl f (prune_tasks sc kp kw layers ++ rest).
  Proof.
    induction layers as [|l t IH]; intros H kp kw rest HR; cbn [prune_tasks]; [exact HR|].
    assert (Hl : Forall (prune_ok pl) l)
      by (apply Forall_forall; intros p Hp; eapply H; [left; reflexivity|exact Hp]).
    assert (Ht : forall layer p, In layer t -> In p layer -> prune_ok pl p)
      by (intros; eapply H; [right; eassumption|assumption]).
    destruct (is_dry (o_dry (sc_opts sc))) eqn:ED; cbn [app sched].
    - rewrite ED. split; [exact Hl|]. split; [discriminate|]. apply IH; assumption.
    - rewrite ED. split; [exact Hl|]. split.
      + intros _ p Hp. cbn. apply in_or_app. left. apply in_map. exact Hp.
      + split; [discriminate|]. apply IH; assumption.
  Qed.

  Lemma bp_local_ok' layer p : In layer (pl_apply_layers pl) -> In p layer -> local_ok' pl p.
  Proof.
    intros HLy Hp. destruct (bp_anatomy sc known locals pobjs) as [layers [cyc [_ [_ [_ [_ [_ [LA _]]]]]]]].
    rewrite LA in HLy. pose proof (hydrate_In' _ _ _ _ HLy Hp) as Hin.
    pose proof (bp_refs_in_graph sc known locals pobjs HL HP HD p) as RG.
    destruct (bp_apply_is_local sc known locals pobjs p Hin) as [l [-> _]].
    exists l. split; [reflexivity|]. split; [reflexivity|]. split.
    - unfold apply_ids. apply in_map_iff. exists (pobj_of_local l). auto.
    - apply RG; [exact Hin|reflexivity].
  Qed.

  Lemma sched_tasks_of : (o_destroy (sc_opts sc) = true -> pl_apply pl = []) -> sched sc pl P0 (tasks_of sc pl).
  Proof.
    intros HDs. unfold tasks_of.
    assert (A : forall rest, sched sc pl P1 rest ->
              sched sc pl P1 (fst (match pl_apply pl with [] => ([], 0) | _ => apply_tasks sc 0 0 (pl_apply_layers pl) end) ++ rest)).
    { intros rest HR. destruct (pl_apply pl); [exact HR|]. apply sched_apply_tasks; [|exact HR].
      intros layer q. apply bp_local_ok'. }
    assert (A0 : o_destroy (sc_opts sc) = true ->
                 fst (match pl_apply pl with [] => ([], 0) | _ => apply_tasks sc 0 0 (pl_apply_layers pl) end) = [])
      by (intros D; rewrite (HDs D); reflexivity).
    destruct (match pl_apply pl with [] => ([], 0) | _ => apply_tasks sc 0 0 (pl_apply_layers pl) end) as [at_ kw].
    cbn [fst] in *.
    assert (B : forall f, sched sc pl f ((if o_prune (sc_opts sc) then match pl_prune pl with [] => [] | _ => prune_tasks sc 0 kw (pl_prune_layers pl) end else []) ++ [TInvSet])).
    { intros f. destruct (o_prune (sc_opts sc)); [|reflexivity]. destruct (pl_prune pl) eqn:E; [reflexivity|].
      apply sched_prune_tasks; [|reflexivity]. intros layer q. apply bp_prune_ok. }
    destruct (o_destroy (sc_opts sc)).
    - rewrite (A0 eq_refl). cbn [app]. apply B.
    - cbn [app sched]. split; [reflexivity|]. apply A. apply B.
  Qed.
End Tasks.

(* ---- what register records -------------------------------------------------------------------- *)
Section Register.
  Variable sc : scenario.

  Lemma fold_rec_add_spec (l : list pobj) st a : forall s,
    let s' := fold_left (fun s p => rec_add s (p_id p) st a 0%N 0%Z) l s in
    r_cl s' = r_cl s /\ r_aband s' = r_aband s /\ r_tr s' = r_tr s /\
    (NoDup (tkeys (r_tbl s)) -> NoDup (tkeys (r_tbl s'))) /\
    forall j, tv s' j = if memn j (map p_id l) then Some (st, a, 0%N) else tv s j.
  Proof.
    induction l as [|p t IH]; intros s; cbn [fold_left]; cbv zeta.
    - repeat (split; [reflexivity|]). split; [auto|]. intros j. reflexivity.
    - destruct (IH (rec_add s (p_id p) st a 0%N 0%Z)) as [A [B [C [D E]]]]. cbv zeta in *.
      split; [exact A|]. split; [exact B|]. split; [exact C|]. split.
      + intros N. apply D. cbn. apply (keys_set_status id Nat.eqb nat_eqb_spec). exact N.
      + intros j. rewrite E. cbn [map memn existsb]. fold (memn j (map p_id t)).
        destruct (memn j (map p_id t)); [rewrite orb_true_r; reflexivity|]. rewrite orb_false_r.
        unfold tv. cbn [rec_add set_tbl r_tbl]. rewrite tvl_set_status. cbn [r_id tcore r_str r_act r_uid].
        rewrite Nat.eqb_sym. destruct (Nat.eqb j (p_id p)); reflexivity.
  Qed.

  Lemma register_spec pl s : r_tbl s = [] ->
    let s' := register sc pl s in
    r_cl s' = r_cl s /\ r_aband s' = r_aband s /\ r_tr s' = r_tr s /\ NoDup (tkeys (r_tbl s')) /\
    forall j, tv s' j =
      if negb (o_destroy (sc_opts sc)) && negb (o_prune (sc_opts sc)) && memn j (map p_id (pl_prune_all pl))
      then Some (SDelete, ASkipped, 0%N)
      else if o_prune (sc_opts sc) && memn j (map p_id (pl_prune pl)) then Some (SDelete, APending, 0%N)
      else if memn j (apply_ids pl) then Some (SApply, APending, 0%N) else None.
  Proof.
    intros ET. cbv zeta. unfold register.
    destruct (fold_rec_add_spec (pl_apply pl) SApply APending s) as [A1 [B1 [C1 [D1 E1]]]]. cbv zeta in *.
    set (s1 := fold_left (fun s p => rec_add s (p_id p) SApply APending 0%N 0%Z) (pl_apply pl) s) in *.
    assert (N0 : NoDup (tkeys (r_tbl s))) by (rewrite ET; constructor).
    assert (T0 : forall j, tv s j = None) by (intros j; unfold tv; rewrite ET; reflexivity).
    destruct (fold_rec_add_spec (pl_prune pl) SDelete APending s1) as [A2 [B2 [C2 [D2 E2]]]]. cbv zeta in *.
    set (s2 := if o_prune (sc_opts sc) then fold_left (fun s p => rec_add s (p_id p) SDelete APending 0%N 0%Z) (pl_prune pl) s1 else s1).
    assert (S2 : r_cl s2 = r_cl s /\ r_aband s2 = r_aband s /\ r_tr s2 = r_tr s /\ NoDup (tkeys (r_tbl s2)) /\
                 forall j, tv s2 j = if o_prune (sc_opts sc) && memn j (map p_id (pl_prune pl)) then Some (SDelete, APending, 0%N)
                                     else if memn j (apply_ids pl) then Some (SApply, APending, 0%N) else None).
    { unfold s2. destruct (o_prune (sc_opts sc)); cbn [andb].
      - split; [congruence|]. split; [congruence|]. split; [congruence|]. split; [auto|].
        intros j. rewrite E2, E1, T0. reflexivity.
      - split; [exact A1|]. split; [exact B1|]. split; [exact C1|]. split; [auto|].
        intros j. rewrite E1, T0. reflexivity. }
    clearbody s2. destruct S2 as [A3 [B3 [C3 [D3 E3]]]].
    destruct (negb (o_destroy (sc_opts sc)) && negb (o_prune (sc_opts sc))); cbn [andb].
    - destruct (fold_rec_add_spec (pl_prune_all pl) SDelete ASkipped s2) as [A4 [B4 [C4 [D4 E4]]]]. cbv zeta in *.
      split; [congruence|]. split; [congruence|]. split; [congruence|]. split; [auto|].
      intros j. rewrite E4, E3. reflexivity.
    - split; [exact A3|]. split; [exact B3|]. split; [exact C3|]. split; [exact D3|exact E3].
  Qed.

  (* ---- fetching the prune candidates ---------------------------------------------------------- *)
  Lemma same4_fetch_all ids : forall s, same4 s (fst (fetch_all sc s ids)).
  Proof.
    induction ids as [|i t IH]; intros s; cbn [fetch_all]; [apply same4_refl|].
    destruct (negb (kind_known sc (r_known s) i)); [apply IH|].
    pose proof (same4_get_obj sc s i) as G. destruct (get_obj sc s i) as [s1 g]. cbn [fst] in G.
    destruct g; cbn [fst]; [exact G|eapply same4_trans; [exact G|apply IH]|].
    specialize (IH s1). destruct (fetch_all sc s1 t) as [s2 r]. cbn [fst] in *. eapply same4_trans; eassumption.
  Qed.

  Lemma known_get_obj s i : r_known (fst (get_obj sc s i)) = r_known s.
  Proof. unfold get_obj. destruct (faulted sc _); [reflexivity|]. destruct (find_obj _ _); reflexivity. Qed.
  Lemma known_inv_list s : r_known (fst (inv_list sc s)) = r_known s.
  Proof. unfold inv_list. destruct (faulted sc _); reflexivity. Qed.
  Lemma known_fetch_all ids : forall s, r_known (fst (fetch_all sc s ids)) = r_known s.
  Proof.
    induction ids as [|i t IH]; intros s; cbn [fetch_all]; [reflexivity|].
    destruct (negb (kind_known sc (r_known s) i)); [apply IH|].
    pose proof (known_get_obj s i) as G. destruct (get_obj sc s i) as [s1 g]. cbn [fst] in G.
    destruct g; cbn [fst]; [exact G|rewrite IH; exact G|].
    specialize (IH s1). destruct (fetch_all sc s1 t) as [s2 r]. cbn [fst] in *. congruence.
  Qed.

  (* every candidate whose kind the mapper knows and that is in the cluster is fetched *)
  Lemma fetch_all_complete ids : forall s found, snd (fetch_all sc s ids) = Some found ->
    forall i c, In i ids -> kind_known sc (r_known s) i = true -> find_obj (objs (r_cl s)) i = Some c -> In c found.
  Proof.
    induction ids as [|i0 t IH]; intros s found E i c Hi Hk Hc; [destruct Hi|].
    cbn [fetch_all] in E.
    destruct (negb (kind_known sc (r_known s) i0)) eqn:K0.
    { destruct Hi as [->|Hi]; [rewrite Hk in K0; discriminate|]. eapply IH; eassumption. }
    pose proof (same4_get_obj sc s i0) as G. pose proof (get_obj_found sc s i0) as GF.
    pose proof (get_obj_notfound sc s i0) as GN. pose proof (known_get_obj s i0) as GK.
    destruct (get_obj sc s i0) as [s1 g]. cbn [fst snd] in *. destruct G as [G1 _].
    destruct g as [| |c1].
    - cbn in E. discriminate.
    - destruct Hi as [->|Hi]; [specialize (GN eq_refl); unfold fo in GN; congruence|].
      eapply IH; [exact E|exact Hi|rewrite GK; exact Hk|rewrite G1; exact Hc].
    - destruct (fetch_all sc s1 t) as [s2 r] eqn:EF. cbn [snd] in E. destruct r as [r|]; [|discriminate].
      cbn in E. injection E as <-. destruct Hi as [->|Hi].
      + left. specialize (GF c1 eq_refl). congruence.
      + right. eapply (IH s1 r); [rewrite EF; reflexivity|exact Hi|rewrite GK; exact Hk|rewrite G1; exact Hc].
  Qed.

  Lemma fetch_all_NoDup ids : forall s found, NoDup ids -> snd (fetch_all sc s ids) = Some found ->
    NoDup (map c_id found).
  Proof.
    induction ids as [|i0 t IH]; intros s found ND E.
    - cbn in E. injection E as <-. constructor.
    - inversion ND as [|? ? Hi Ht]; subst. cbn [fetch_all] in E.
      destruct (negb (kind_known sc (r_known s) i0)); [eapply IH; eassumption|].
      pose proof (get_obj_found sc s i0) as GF.
      destruct (get_obj sc s i0) as [s1 g]. cbn [fst snd] in *.
      destruct g as [| |c1].
      + cbn in E. discriminate.
      + eapply IH; eassumption.
      + pose proof (fetch_all_cl sc t s1) as [_ [_ FC]].
        destruct (fetch_all sc s1 t) as [s2 r] eqn:EF. cbn [snd] in *. destruct r as [r|]; [|discriminate].
        cbn in E. injection E as <-. cbn [map]. constructor.
        * intros X. apply in_map_iff in X. destruct X as [c [Ec Hc]].
          destruct (FC r eq_refl c Hc) as [Y _]. rewrite Ec in Y.
          specialize (GF c1 eq_refl). apply find_obj_id in GF. congruence.
        * eapply (IH s1 r Ht). rewrite EF. reflexivity.
  Qed.
End Register.
