(* C04 / C05, end-of-run forms: the two trace facts left open in
   Proofs/PipelineOrder.v,
   U1: every object has at most one apply / delete result event in the trace,
   U2: no wait event of a dependency (dependent) occurs after the apply (delete)
       request of its dependent (dependency),
   from the plan: layers of the topological sort are ordered along the graph,
   every object is in exactly one task (Proofs/PipelineOrphansPlan.v), and a
   second traversal of the run with a trace-only invariant `J`. *)
From Coq Require Import List Bool Arith NArith ZArith Lia Permutation.
From CliUtils Require Import Model.ObjSet Model.ActuationTable Model.PipelineTypes Model.Pipeline
     Proofs.ObjSetProofs Proofs.ActuationTableProofs Proofs.PipelineBase Proofs.PipelineAuth
     Proofs.PipelineEvents Proofs.PipelineOrphansBase Proofs.PipelineOrphansInv Proofs.PipelineOrphansPlan
     Proofs.PipelineOrphansRun Proofs.PipelineOrder.
Import ListNotations.

(* ---- the topological sort orders the layers along the graph -------------------- *)
Section Topo.
  Variable sc : scenario.

  (* apply order: nothing in a layer depends on its own or a later layer *)
  Fixpoint topo (g : graph) (layers : list (list id)) : Prop :=
    match layers with
    | [] => True
    | L :: rest => (forall v e, In v L -> In e (g_deps g v) -> ~ In e (L ++ concat rest)) /\ topo g rest
    end.
  (* delete order: nothing in this or a later layer has a dependency ... in this layer reversed: no
     member of the layer is a dependency of a member of this or a later layer *)
  Fixpoint rtopo (g : graph) (layers : list (list id)) : Prop :=
    match layers with
    | [] => True
    | L :: rest => (forall d e, In d (L ++ concat rest) -> In e L -> ~ In e (g_deps g d)) /\ rtopo g rest
    end.

  Lemma kahn_sub fuel g rem x : In x (concat (fst (kahn fuel g rem))) -> In x rem.
  Proof.
    intros H. apply (Permutation_in x (kahn_perm fuel g rem)). apply in_or_app. left. exact H.
  Qed.

  Lemma kahn_topo fuel g : forall rem, topo g (fst (kahn fuel g rem)).
  Proof.
    induction fuel as [|f IH]; intros rem; cbn [kahn]; [exact I|].
    destruct rem as [|a r]; [exact I|].
    set (rem := a :: r).
    set (P := fun v => forallb (fun d => negb (memn d rem)) (g_deps g v)).
    destruct (filter P rem) as [|x xs] eqn:EL; [exact I|].
    pose proof (IH (filter (fun v => negb (memn v (x :: xs))) rem)) as T.
    pose proof (kahn_sub f g (filter (fun v => negb (memn v (x :: xs))) rem)) as S.
    destruct (kahn f g (filter (fun v => negb (memn v (x :: xs))) rem)) as [ls cyc]. cbn [fst] in *.
    split; [|exact T].
    intros v e Hv He Hin.
    assert (Pv : P v = true) by (rewrite <- EL in Hv; apply filter_In in Hv; tauto).
    unfold P in Pv. rewrite forallb_forall in Pv. specialize (Pv e He). apply negb_true_iff in Pv.
    assert (X : In e rem).
    { apply in_app_or in Hin. destruct Hin as [Hin|Hin].
      - rewrite <- EL in Hin. apply filter_In in Hin. tauto.
      - apply S in Hin. apply filter_In in Hin. tauto. }
    apply memn_In in X. congruence.
  Qed.

  Lemma pick_sub objs l p : In p (pick objs l) -> In (p_id p) l.
  Proof.
    unfold pick. intros H. apply in_flat_map in H. destruct H as [i [Hi H]]. apply filter_In in H.
    destruct H as [_ H]. apply Nat.eqb_eq in H. subst i. apply (proj1 (sortn_In _ _)) in Hi. apply filter_In in Hi. tauto.
  Qed.
  Lemma hydrate_cons L R objs :
    hydrate (L :: R) objs = (match pick objs L with [] => [] | _ => [pick objs L] end) ++ hydrate R objs.
  Proof. unfold hydrate. cbn. destruct (pick objs L); reflexivity. Qed.
  Lemma hydrate_sub layers objs x : In x (concat (map (map p_id) (hydrate layers objs))) -> In x (concat layers).
  Proof.
    induction layers as [|L R IH]; [intros []|]. rewrite hydrate_cons, map_app, concat_app. cbn [concat].
    intros H. apply in_app_or in H. apply in_or_app. destruct H as [H|H]; [left|right; exact (IH H)].
    pose proof (pick_sub objs L) as PS. destruct (pick objs L) as [|q t]; [destruct H|].
    change (In x (map p_id (q :: t) ++ [])) in H. rewrite app_nil_r in H.
    apply in_map_iff in H. destruct H as [p [<- Hp]]. exact (PS _ Hp).
  Qed.

  Lemma topo_hydrate g layers objs : topo g layers -> topo g (map (map p_id) (hydrate layers objs)).
  Proof.
    induction layers as [|L R IH]; [intros _; exact I|]. intros [H T]. rewrite hydrate_cons.
    pose proof (pick_sub objs L) as PS. destruct (pick objs L) as [|q t]; cbn [app]; [exact (IH T)|].
    change (topo g (map p_id (q :: t) :: map (map p_id) (hydrate R objs))). cbn [topo]. split; [|exact (IH T)].
    intros v e Hv He Hin. apply (H v e); [|exact He|].
    - apply (in_map_iff p_id (q :: t) v) in Hv. destruct Hv as [p [<- Hp]]. exact (PS _ Hp).
    - apply in_app_or in Hin. apply in_or_app. destruct Hin as [Hin|Hin].
      + left. apply (in_map_iff p_id (q :: t) e) in Hin. destruct Hin as [p [<- Hp]]. exact (PS _ Hp).
      + right. exact (hydrate_sub _ _ _ Hin).
  Qed.

  Lemma rtopo_snoc g X Y : rtopo g X ->
    (forall d e, In d Y -> In e (concat X ++ Y) -> ~ In e (g_deps g d)) -> rtopo g (X ++ [Y]).
  Proof.
    induction X as [|L R IH]; cbn [app rtopo concat]; intros HX HY.
    - split; [|exact I]. intros d e Hd He. rewrite app_nil_r in Hd. exact (HY d e Hd He).
    - destruct HX as [H T]. split.
      + intros d e Hd He. rewrite concat_app in Hd. cbn in Hd. rewrite app_nil_r in Hd.
        rewrite app_assoc in Hd. apply in_app_or in Hd. destruct Hd as [Hd|Hd]; [exact (H d e Hd He)|].
        apply (HY d e Hd). apply in_or_app. left. apply in_or_app. left. exact He.
      + apply IH; [exact T|]. intros d e Hd He. apply (HY d e Hd).
        apply in_app_or in He. apply in_or_app. destruct He as [He|He]; [left; apply in_or_app; right; exact He|right; exact He].
  Qed.

  Lemma concat_rev_In {A} (Ls : list (list A)) x : In x (concat (rev (map (@rev A) Ls))) <-> In x (concat Ls).
  Proof.
    split; intros H.
    - apply (Permutation_in x (concat_rev_rev_perm Ls)). exact H.
    - apply (Permutation_in x (Permutation_sym (concat_rev_rev_perm Ls))). exact H.
  Qed.

  Lemma rtopo_rev g (H : list (list pobj)) : topo g (map (map p_id) H) ->
    rtopo g (map (map p_id) (rev (map (@rev pobj) H))).
  Proof.
    induction H as [|L R IH]; [intros _; exact I|]. cbn [map topo rev]. intros [HL T].
    rewrite map_app. cbn [map]. apply rtopo_snoc; [exact (IH T)|].
    intros d e Hd He Hg. apply (HL d e); [|exact Hg|].
    - rewrite map_rev in Hd. apply in_rev in Hd. exact Hd.
    - apply in_app_or in He. apply in_or_app. destruct He as [He|He].
      + right. rewrite <- concat_map in He. rewrite <- concat_map.
        apply in_map_iff in He. destruct He as [p [<- Hp]]. apply in_map. exact (proj1 (concat_rev_In R p) Hp).
      + left. rewrite map_rev in He. apply in_rev in He. exact He.
  Qed.

  (* the layers of the plan *)
  Lemma bp_topo known locals pobjs :
    topo (pl_graph (build_plan sc known locals pobjs)) (map (map p_id) (pl_apply_layers (build_plan sc known locals pobjs))) /\
    rtopo (pl_graph (build_plan sc known locals pobjs)) (map (map p_id) (pl_prune_layers (build_plan sc known locals pobjs))).
  Proof.
    unfold build_plan. cbv zeta.
    match goal with |- context [kahn ?n ?g ?r] => pose proof (kahn_topo n g r) as KT; destruct (kahn n g r) as [layers cyc] end.
    cbn [fst] in KT. cbn [pl_graph pl_apply_layers pl_prune_layers].
    split; [apply topo_hydrate; exact KT|]. apply rtopo_rev. apply topo_hydrate. exact KT.
  Qed.
End Topo.

(* ---- a trace-only invariant ------------------------------------------------------------ *)
Definition rids (tr : list item) : list id :=
  flat_map (fun it => match it with IEv (EApply _ i _) | IEv (EPrune _ i _) => [i] | _ => [] end) tr.
Definition areq (d : id) (tr : list item) : Prop :=
  exists r ok m st, In (IReq r ok m st) tr /\ apply_req_for d r.
Definition dreq (e : id) (tr : list item) : Prop :=
  exists u p ok m st, In (IReq (RDelete e u p) ok m st) tr.

Lemma ext_inert_trans a b c : ext_inert a b -> ext_inert b c -> ext_inert a c.
Proof. intros H1 H2. induction H2 as [|it tr' Hi E IH]; [exact H1|]. constructor; assumption. Qed.

Section JInv.
  Variable pl : plan.

  (* a wait event of e: no apply request of a dependent of e, no delete request of a dependency of e, before it *)
  Definition Q2 (pre : list item) (it : item) : Prop :=
    match it with
    | IEv (EWait _ e _) =>
        (In e (apply_ids pl) -> forall d, In e (g_deps (pl_graph pl) d) -> ~ areq d pre) /\
        (In e (prune_ids pl) -> forall e', In e' (g_deps (pl_graph pl) e) -> ~ dreq e' pre)
    | _ => True
    end.
  Fixpoint good2 (l : list item) : Prop :=
    match l with [] => True | it :: pre => Q2 pre it /\ good2 pre end.

  (* Da / Dp: ids of the apply / prune tasks started so far; todo: ids of the objects still to be actuated *)
  Definition J (Da Dp todo : list id) (tr : list item) : Prop :=
    (forall d, areq d tr -> In d Da) /\ (forall e, dreq e tr -> In e Dp) /\
    NoDup (rids tr ++ todo) /\ good2 tr.

  Definition wc (Da Dp : list id) (i : id) : Prop :=
    (In i (apply_ids pl) -> forall d, In d Da -> ~ In i (g_deps (pl_graph pl) d)) /\
    (In i (prune_ids pl) -> forall e', In e' Dp -> ~ In e' (g_deps (pl_graph pl) i)).

  Lemma areq_cons d it tr : areq d (it :: tr) ->
    (exists r ok m st, it = IReq r ok m st /\ apply_req_for d r) \/ areq d tr.
  Proof.
    intros [r [ok [m [st [[H|H] A]]]]]; [left; exists r, ok, m, st; auto|right; exists r, ok, m, st; auto].
  Qed.
  Lemma dreq_cons e it tr : dreq e (it :: tr) ->
    (exists u p ok m st, it = IReq (RDelete e u p) ok m st) \/ dreq e tr.
  Proof.
    intros [u [p [ok [m [st [H|H]]]]]]; [left; exists u, p, ok, m, st; auto|right; exists u, p, ok, m, st; auto].
  Qed.

  Lemma J_inert Da Dp td it tr : inert it -> J Da Dp td tr -> J Da Dp td (it :: tr).
  Proof.
    intros Hi [A [D [N G]]]. split; [|split; [|split]].
    - intros d H. apply areq_cons in H. destruct H as [[r [ok [m [st [-> AR]]]]]|H]; [|exact (A d H)].
      destruct r; cbn in Hi, AR; contradiction.
    - intros e H. apply dreq_cons in H. destruct H as [[u [p [ok [m [st ->]]]]]|H]; [|exact (D e H)].
      cbn in Hi. contradiction.
    - assert (E : rids (it :: tr) = rids tr).
      { destruct it as [? ? ? ?|?|e|]; try reflexivity. destruct e; cbn in Hi; try contradiction; reflexivity. }
      rewrite E. exact N.
    - split; [|exact G]. destruct it as [? ? ? ?|?|e|]; try exact I. destruct e; cbn in Hi; try contradiction; exact I.
  Qed.

  Lemma J_ext_inert Da Dp td tr tr' : ext_inert tr tr' -> J Da Dp td tr -> J Da Dp td tr'.
  Proof. intros E H. induction E as [|it tr' Hi E IH]; [exact H|]. apply J_inert; assumption. Qed.

  Lemma J_areq Da Dp td tr r ok m st d : apply_req_for d r -> In d Da -> J Da Dp td tr -> J Da Dp td (IReq r ok m st :: tr).
  Proof.
    intros AR Hd [A [D [N G]]]. split; [|split; [|split]].
    - intros d' H. apply areq_cons in H. destruct H as [[r' [ok' [m' [st' [[= <- _ _ _] AR']]]]]|H]; [|exact (A d' H)].
      destruct r; cbn in AR, AR'; try contradiction; congruence.
    - intros e H. apply dreq_cons in H. destruct H as [[u [p [ok' [m' [st' [= -> _ _ _]]]]]]|H]; [|exact (D e H)].
      cbn in AR. contradiction.
    - exact N.
    - split; [exact I|exact G].
  Qed.

  Lemma J_dreq Da Dp td tr e u p ok m st : In e Dp -> J Da Dp td tr -> J Da Dp td (IReq (RDelete e u p) ok m st :: tr).
  Proof.
    intros He [A [D [N G]]]. split; [|split; [|split]].
    - intros d' H. apply areq_cons in H. destruct H as [[r' [ok' [m' [st' [[= <- _ _ _] AR']]]]]|H]; [|exact (A d' H)].
      cbn in AR'. contradiction.
    - intros e' H. apply dreq_cons in H. destruct H as [[u' [p' [ok' [m' [st' [= -> _ _ _ _ _]]]]]]|H]; [exact He|exact (D e' H)].
    - exact N.
    - split; [exact I|exact G].
  Qed.

  Lemma J_ureq Da Dp td tr i ok m st : J Da Dp td tr -> J Da Dp td (IReq (RUpdate i) ok m st :: tr).
  Proof. apply J_inert. exact I. Qed.

  Lemma NoDup_move (a : list id) i b : NoDup (a ++ i :: b) -> NoDup (i :: a ++ b).
  Proof. intros H. constructor; [apply NoDup_remove_2; exact H|apply NoDup_remove_1 with (a := i); exact H]. Qed.

  Lemma J_res_apply Da Dp td tr g i st : J Da Dp (i :: td) tr -> J Da Dp td (IEv (EApply g i st) :: tr).
  Proof.
    intros [A [D [N G]]]. split; [|split; [|split]].
    - intros d H. apply areq_cons in H. destruct H as [[r [ok [m [s0 [[=] _]]]]]|H]. exact (A d H).
    - intros e H. apply dreq_cons in H. destruct H as [[u [p [ok [m [s0 [=]]]]]]|H]. exact (D e H).
    - exact (NoDup_move _ _ _ N).
    - split; [exact I|exact G].
  Qed.
  Lemma J_res_prune Da Dp td tr g i st : J Da Dp (i :: td) tr -> J Da Dp td (IEv (EPrune g i st) :: tr).
  Proof.
    intros [A [D [N G]]]. split; [|split; [|split]].
    - intros d H. apply areq_cons in H. destruct H as [[r [ok [m [s0 [[=] _]]]]]|H]. exact (A d H).
    - intros e H. apply dreq_cons in H. destruct H as [[u [p [ok [m [s0 [=]]]]]]|H]. exact (D e H).
    - exact (NoDup_move _ _ _ N).
    - split; [exact I|exact G].
  Qed.
  Lemma J_drop Da Dp td tr i : J Da Dp (i :: td) tr -> J Da Dp td tr.
  Proof.
    intros [A [D [N G]]]. split; [exact A|]. split; [exact D|]. split; [|exact G].
    apply NoDup_remove_1 with (a := i). exact N.
  Qed.

  Lemma J_wait Da Dp td tr g i w : wc Da Dp i -> J Da Dp td tr -> J Da Dp td (IEv (EWait g i w) :: tr).
  Proof.
    intros [W1 W2] [A [D [N G]]]. split; [|split; [|split]].
    - intros d H. apply areq_cons in H. destruct H as [[r [ok [m [s0 [[=] _]]]]]|H]. exact (A d H).
    - intros e H. apply dreq_cons in H. destruct H as [[u [p [ok [m [s0 [=]]]]]]|H]. exact (D e H).
    - exact N.
    - split; [|exact G]. cbn. split.
      + intros Hi d Hg Hr. exact (W1 Hi d (A d Hr) Hg).
      + intros Hi e' Hg Hr. exact (W2 Hi e' (D e' Hr) Hg).
  Qed.

  Lemma J_mono Da Dp Da' Dp' td tr : incl Da Da' -> incl Dp Dp' -> J Da Dp td tr -> J Da' Dp' td tr.
  Proof.
    intros I1 I2 [A [D [N G]]]. split; [intros d H; exact (I1 _ (A d H))|]. split; [intros e H; exact (I2 _ (D e H))|].
    split; assumption.
  Qed.
End JInv.

(* ---- the second traversal ------------------------------------------------------------------ *)
Definition wait_item (ids : list id) (it : item) : Prop :=
  match it with
  | IDeliv _ | IEv (EStatus _ _) => True
  | IEv (EWait _ i _) => In i ids
  | _ => False
  end.

Section Trav.
  Variable sc : scenario.
  Variable pl : plan.
  Variable locals : list lobj.

  Notation J := (J pl).
  Definition sh (s s' : rst) : Prop := ext_inert (r_tr s) (r_tr s').
  Lemma sh_refl s : sh s s. Proof. constructor. Qed.
  Lemma sh_trans a b c : sh a b -> sh b c -> sh a c. Proof. apply ext_inert_trans. Qed.
  Lemma sh_same s s' : r_tr s' = r_tr s -> sh s s'. Proof. unfold sh. intros ->. constructor. Qed.
  Ltac trs := eapply sh_trans.

  (* ---- inventory tasks --------------------------------------------------------------------- *)
  Lemma sh_inv_list s : sh s (fst (inv_list sc s)).
  Proof. apply sh_same. apply inv_list_tr. Qed.
  Lemma sh_inv_apply s ids : sh s (fst (inv_apply sc s ids)).
  Proof. unfold sh, inv_apply, log_req; cbv zeta; dall; cbn; repeat constructor. Qed.
  Lemma sh_inv_update s ids : sh s (fst (inv_update sc s ids)).
  Proof. unfold sh, inv_update, log_req; cbv zeta; dall; cbn; repeat constructor. Qed.

  Lemma sh_merge s ids : sh s (fst (merge sc s ids)).
  Proof.
    unfold merge. cbv zeta.
    pose proof (sh_inv_list s) as L1. destruct (inv_list sc s) as [s1 r1]. cbn [fst] in L1.
    destruct r1 as [[l|]|]; cbn [fst]; try exact L1.
    - pose proof (sh_inv_list s1) as L2. destruct (inv_list sc s1) as [s2 r2]. cbn [fst] in L2.
      assert (S02 : sh s s2) by (trs; [exact L1|exact L2]).
      destruct r2 as [cur0|]; cbn [fst]; [|exact S02].
      destruct (set_eqn _ _ && _); cbn [fst]; [exact S02|].
      destruct (is_dry _); cbn [fst]; [exact S02|].
      trs; [exact S02|apply sh_inv_apply].
    - destruct (is_dry _); cbn [fst]; [exact L1|]. trs; [exact L1|apply sh_inv_apply].
  Qed.

  Lemma sh_replace s ids : sh s (fst (replace sc s ids)).
  Proof.
    unfold replace. cbv zeta. destruct (is_dry _); cbn [fst]; [apply sh_refl|].
    pose proof (sh_inv_list s) as L1. destruct (inv_list sc s) as [s1 r1]. cbn [fst] in L1.
    destruct r1 as [x|]; cbn [fst]; [|exact L1].
    pose proof (sh_inv_list s1) as L2. destruct (inv_list sc s1) as [s2 r2]. cbn [fst] in L2.
    assert (S02 : sh s s2) by (trs; [exact L1|exact L2]).
    destruct r2 as [[cur|]|]; cbn [fst]; try exact S02.
    destruct (set_eqn _ _ && _); cbn [fst]; [exact S02|].
    trs; [exact S02|apply sh_inv_update].
  Qed.

  Lemma sh_inv_add_task s : sh s (fst (inv_add_task sc pl s)).
  Proof.
    unfold inv_add_task. cbv zeta.
    match goal with |- sh s (fst (let '(s1, ok1) := ?X in _)) =>
      assert (H : sh s (fst X)); [|destruct X as [s1 ok1]; cbn [fst] in H] end.
    { unfold sh, log_req; dall; cbn; repeat constructor. }
    destruct ok1; cbn [fst]; [|exact H]. trs; [exact H|apply sh_merge].
  Qed.

  Lemma sh_delete_inventory s : sh s (fst (delete_inventory sc s)).
  Proof.
    unfold delete_inventory. cbv zeta.
    pose proof (sh_inv_list s) as L1. destruct (inv_list sc s) as [s1 r1]. cbn [fst] in L1.
    destruct r1 as [[l|]|]; cbn [fst]; try exact L1.
    destruct (is_dry _); cbn [fst]; [exact L1|].
    trs; [exact L1|]. unfold sh, log_req; dall; cbn; repeat constructor.
  Qed.

  Lemma sh_inv_set_task prev s : sh s (fst (inv_set_task sc pl prev s)).
  Proof.
    unfold inv_set_task. destruct prev as [pv|]; cbn [fst]; [|apply sh_refl].
    destruct (o_destroy (sc_opts sc) && destroy_successful pl pv s); [apply sh_delete_inventory|apply sh_replace].
  Qed.

  (* ---- apply ------------------------------------------------------------------------------- *)
  Lemma apply_one_tr g s p : local_ok pl p ->
    r_tr (apply_one sc pl g s p) = r_tr s \/
    exists st lt, r_tr (apply_one sc pl g s p) = IEv (EApply g (p_id p) st) :: lt ++ r_tr s /\
      apply_items (p_id p) lt.
  Proof.
    intros [_ Hl]. unfold apply_one. destruct (p_local p) as [l|] eqn:EL; [right|left; reflexivity].
    destruct (negb (kind_known sc (r_known s) (p_id p))).
    { eexists _, []. split; [reflexivity|constructor]. }
    pose proof (policy_apply_filter_same sc s (p_id p)) as [_ PR].
    destruct (policy_apply_filter sc s (p_id p)) as [s1 f1]. cbn [fst] in PR.
    destruct (match f1 with FPass => _ | _ => _ end).
    - pose proof (mutate_tr sc s1 l) as MR. destruct (mutate sc s1 l) as [sm okm]. cbn [fst] in MR.
      destruct okm; cbn [negb]; [|eexists _, []; split; [cbn; rewrite MR, PR; reflexivity|constructor]].
      pose proof (kubectl_apply_shape sc sm l) as [_ [lt [KR AL]]]. rewrite (Hl l eq_refl) in AL.
      destruct (kubectl_apply sc sm l) as [s2 r]. cbn [fst] in KR. rewrite MR, PR in KR.
      destruct r; eexists _, lt; (split; [cbn; rewrite KR; reflexivity|exact AL]).
    - eexists _, []. split; [cbn; rewrite PR; reflexivity|constructor].
    - eexists _, []. split; [cbn; rewrite PR; reflexivity|constructor].
  Qed.

  Lemma j_apply_one Da Dp td g s p : local_ok pl p -> In (p_id p) Da ->
    J Da Dp (p_id p :: td) (r_tr s) -> J Da Dp td (r_tr (apply_one sc pl g s p)).
  Proof.
    intros OK Hd H. destruct (apply_one_tr g s p OK) as [->|[st [lt [-> AL]]]]; [exact (J_drop pl _ _ _ _ _ H)|].
    apply J_res_apply. induction AL as [|it lt [r [ok [m [sto [-> AR]]]]] _ IH]; [exact H|].
    cbn [app]. exact (J_areq pl _ _ _ _ r ok m sto _ AR Hd IH).
  Qed.

  Lemma j_apply_task Da Dp td g layer : Forall (local_ok pl) layer -> incl (map p_id layer) Da ->
    forall s, J Da Dp (map p_id layer ++ td) (r_tr s) -> J Da Dp td (r_tr (apply_task sc pl g s layer)).
  Proof.
    unfold apply_task. induction layer as [|p t IH]; intros F HI s H; cbn [fold_left]; [exact H|].
    inversion F as [|? ? Fp Ft]; subst. apply IH; [exact Ft|intros x Hx; apply HI; right; exact Hx|].
    apply j_apply_one; [exact Fp|apply HI; left; reflexivity|exact H].
  Qed.

  (* ---- prune ------------------------------------------------------------------------------- *)
  Lemma j_prune_one Da Dp td g uids s p : prune_ok pl p -> In (p_id p) Dp ->
    J Da Dp (p_id p :: td) (r_tr s) -> J Da Dp td (r_tr (prune_one sc pl locals g uids s p)).
  Proof.
    intros [c [-> Hin]] Hd H. cbn [p_id pobj_of_live] in *.
    destruct (prune_one_shape sc pl locals g uids s c) as [X [st [a [u [gg [E [_ [_ TR]]]]]]]]. rewrite E.
    change (r_tr (rec_add (ev X (EPrune g (c_id c) st)) (c_id c) SDelete a u gg)) with (IEv (EPrune g (c_id c) st) :: r_tr X).
    apply J_res_prune.
    destruct TR as [->|[[ok [m [sto ->]]]|[_ [pre [p [ok [m [sto ->]]]]]]]]; [exact H|apply J_ureq; exact H|].
    apply J_dreq; assumption.
  Qed.

  Lemma j_prune_task Da Dp td g layer : Forall (prune_ok pl) layer -> incl (map p_id layer) Dp ->
    forall s, J Da Dp (map p_id layer ++ td) (r_tr s) -> J Da Dp td (r_tr (prune_task sc pl locals g s layer)).
  Proof.
    unfold prune_task. intros F HI s. generalize (applied_uids (r_tbl s)). intros uids. revert F HI s.
    induction layer as [|p t IH]; intros F HI s H; cbn [fold_left]; [exact H|].
    inversion F as [|? ? Fp Ft]; subst. apply IH; [exact Ft|intros x Hx; apply HI; right; exact Hx|].
    apply j_prune_one; [exact Fp|apply HI; left; reflexivity|exact H].
  Qed.

  (* ---- wait: only deliveries, status events and wait events of the task's ids ---------------- *)
  Definition Qnr (it : item) : Prop := match it with IReq _ _ _ _ | IClosed => False | _ => True end.

  Lemma wait_task_items c g ids s :
    exists l, r_tr (wait_task sc c g ids s) = l ++ r_tr s /\ Forall (wait_item ids) l.
  Proof.
    destruct (step_wait_task sc Qnr (fun _ _ => True) (fun _ => I) (fun _ _ _ _ _ => I)
                (fun _ => I) (fun _ => I) c g ids s) as [_ [l [E F]]].
    destruct (e_wait_task sc c g ids s) as [es [[l' [E' EV]] [WB _]]].
    exists l. split; [exact E|].
    assert (EL : l = rev l') by (rewrite E in E'; apply app_inv_tail in E'; exact E').
    rewrite Forall_forall in *. intros it Hit. specialize (F it Hit).
    destruct it as [? ? ? ?|d|e|]; cbn in F; try contradiction; [exact I|].
    assert (He : In e es).
    { rewrite <- EV. unfold evs. apply in_flat_map. exists (IEv e). split; [|left; reflexivity].
      rewrite EL in Hit. apply in_rev in Hit. exact Hit. }
    destruct (WB e He) as [[i [st [-> Hi]]]|[i [st ->]]]; cbn; auto.
  Qed.

  Lemma j_wait_task Da Dp td c g ids s : (forall i, In i ids -> wc pl Da Dp i) ->
    J Da Dp td (r_tr s) -> J Da Dp td (r_tr (wait_task sc c g ids s)).
  Proof.
    intros W H. destruct (wait_task_items c g ids s) as [l [-> F]].
    induction F as [|it l Hit F IH]; [exact H|]. cbn [app].
    destruct it as [? ? ? ?|d|e|]; cbn in Hit; try contradiction; [apply J_inert; [exact I|exact IH]|].
    destruct e; try contradiction; [apply J_wait; [apply W; exact Hit|exact IH]|apply J_inert; [exact I|exact IH]].
  Qed.

  (* ---- tasks ------------------------------------------------------------------------------- *)
  Fixpoint twf (Da Dp : list id) (ts : list task) : Prop :=
    match ts with
    | [] => True
    | TApply _ L :: r => Forall (local_ok pl) L /\ twf (map p_id L ++ Da) Dp r
    | TPrune _ L :: r => Forall (prune_ok pl) L /\ twf Da (map p_id L ++ Dp) r
    | TWait _ _ ids :: r => (forall i, In i ids -> wc pl Da Dp i) /\ twf Da Dp r
    | _ :: r => twf Da Dp r
    end.
  Definition Da_of (Da : list id) (t : task) := match t with TApply _ L => map p_id L ++ Da | _ => Da end.
  Definition Dp_of (Dp : list id) (t : task) := match t with TPrune _ L => map p_id L ++ Dp | _ => Dp end.

  Lemma j_run_task prev Da Dp s t rest : twf Da Dp (t :: rest) ->
    J Da Dp (todo_of (t :: rest)) (r_tr s) ->
    J (Da_of Da t) (Dp_of Dp t) (todo_of rest) (r_tr (fst (run_task sc pl locals prev s t))) /\
    twf (Da_of Da t) (Dp_of Dp t) rest.
  Proof.
    intros W H. unfold run_task. cbv zeta.
    assert (S0 : forall Da' Dp' td, J Da' Dp' td (r_tr s) -> J Da' Dp' td (r_tr (ev s (EStarted (task_name t)))))
      by (intros; apply J_inert; [exact I|assumption]).
    assert (FN : forall Da' Dp' td s1, J Da' Dp' td (r_tr s1) -> J Da' Dp' td (r_tr (ev s1 (EFinished (task_name t)))))
      by (intros; apply J_inert; [exact I|assumption]).
    destruct t; cbn [twf Da_of Dp_of] in *.
    - pose proof (sh_inv_add_task (ev s (EStarted (task_name TInvAdd)))) as T.
      destruct (inv_add_task sc pl _) as [s1 ok]. cbn [fst] in *. split; [|exact W].
      apply FN. eapply J_ext_inert; [exact T|]. apply S0. exact H.
    - destruct W as [WL W]. cbn [fst]. split; [|exact W]. apply FN.
      apply j_apply_task; [exact WL|intros x Hx; apply in_or_app; left; exact Hx|]. apply S0.
      eapply J_mono; [| |exact H]; [intros x Hx; apply in_or_app; right; exact Hx|apply incl_refl].
    - destruct W as [WW W]. cbn [fst]. split; [|exact W]. apply FN. apply j_wait_task; [exact WW|]. apply S0. exact H.
    - destruct W as [WL W]. cbn [fst]. split; [|exact W]. apply FN.
      apply j_prune_task; [exact WL|intros x Hx; apply in_or_app; left; exact Hx|]. apply S0.
      eapply J_mono; [| |exact H]; [apply incl_refl|intros x Hx; apply in_or_app; right; exact Hx].
    - pose proof (sh_inv_set_task prev (ev s (EStarted (task_name TInvSet)))) as T.
      destruct (inv_set_task sc pl prev _) as [s1 ok]. cbn [fst] in *. split; [|exact W].
      apply FN. eapply J_ext_inert; [exact T|]. apply S0. exact H.
  Qed.

  Lemma j_run_tasks prev ts : forall Da Dp s, twf Da Dp ts -> J Da Dp (todo_of ts) (r_tr s) ->
    exists Da' Dp' td', J Da' Dp' td' (r_tr (run_tasks sc pl locals prev s ts)).
  Proof.
    induction ts as [|t rest IH]; intros Da Dp s W H; cbn [run_tasks]; [exists Da, Dp, (todo_of []); exact H|].
    destruct (j_run_task prev Da Dp s t rest W H) as [H1 W1].
    destruct (run_task sc pl locals prev s t) as [s1 ok]. cbn [fst] in H1.
    assert (ER : exists Da' Dp' td', J Da' Dp' td' (r_tr (ev s1 EError)))
      by (eexists _, _, _; apply J_inert; [exact I|exact H1]).
    destruct (negb ok); [exact ER|]. destruct (r_abort s1); [exact ER|].
    exact (IH _ _ s1 W1 H1).
  Qed.
End Trav.

(* ---- the task list of the plan is well-formed for the traversal ------------------------------ *)
Section PlanTasks.
  Variable sc : scenario.
  Variable pl : plan.
  Hypothesis DISJ : forall j, In j (apply_ids pl) -> ~ In j (prune_ids pl).

  Lemma prune_ok_id p : prune_ok pl p -> In (p_id p) (prune_ids pl).
  Proof. intros [c [-> H]]. unfold prune_ids. apply in_map. exact H. Qed.

  Lemma twf_apply_tasks layers : forall ka kw Da Dp rest,
    (forall layer p, In layer layers -> In p layer -> local_ok pl p) ->
    topo (pl_graph pl) (map (map p_id) layers) ->
    (forall d e, In d Da -> In e (g_deps (pl_graph pl) d) -> ~ In e (map p_id (concat layers))) ->
    (forall Da', twf pl Da' Dp rest) ->
    twf pl Da Dp (fst (apply_tasks sc ka kw layers) ++ rest).
  Proof.
    induction layers as [|L R IH]; intros ka kw Da Dp rest OK T ACC K; cbn [apply_tasks]; [apply K|].
    cbn [map topo] in T. destruct T as [HL T].
    assert (OKL : Forall (local_ok pl) L)
      by (apply Forall_forall; intros p Hp; eapply OK; [left; reflexivity|exact Hp]).
    assert (OKR : forall layer p, In layer R -> In p layer -> local_ok pl p)
      by (intros; eapply OK; [right; eassumption|assumption]).
    assert (ACC' : forall d e, In d (map p_id L ++ Da) -> In e (g_deps (pl_graph pl) d) -> ~ In e (map p_id (concat R))).
    { intros d e Hd He Hin. apply in_app_or in Hd. destruct Hd as [Hd|Hd].
      - apply (HL d e Hd He). apply in_or_app. right. rewrite <- concat_map. exact Hin.
      - apply (ACC d e Hd He). cbn [concat]. rewrite map_app. apply in_or_app. right. exact Hin. }
    destruct (is_dry (o_dry (sc_opts sc))).
    - specialize (IH (S ka) kw (map p_id L ++ Da) Dp rest OKR T ACC' K).
      destruct (apply_tasks sc (S ka) kw R) as [ts kw']. cbn [fst app twf] in *. split; assumption.
    - specialize (IH (S ka) (S kw) (map p_id L ++ Da) Dp rest OKR T ACC' K).
      destruct (apply_tasks sc (S ka) (S kw) R) as [ts kw']. cbn [fst app twf] in *.
      split; [exact OKL|]. split; [|exact IH].
      intros i Hi. split.
      + intros _ d Hd Hg. apply in_app_or in Hd. destruct Hd as [Hd|Hd].
        * apply (HL d i Hd Hg). apply in_or_app. left. exact Hi.
        * apply (ACC d i Hd Hg). cbn [concat]. rewrite map_app. apply in_or_app. left. exact Hi.
      + intros Hp. exfalso. apply in_map_iff in Hi. destruct Hi as [p [<- Hp']].
        rewrite Forall_forall in OKL. destruct (OKL p Hp') as [Ha _]. exact (DISJ _ Ha Hp).
  Qed.

  Lemma twf_prune_tasks layers : forall kp kw Da Dp rest,
    (forall layer p, In layer layers -> In p layer -> prune_ok pl p) ->
    rtopo (pl_graph pl) (map (map p_id) layers) ->
    (forall d e, In d (map p_id (concat layers)) -> In e Dp -> ~ In e (g_deps (pl_graph pl) d)) ->
    (forall Dp', twf pl Da Dp' rest) ->
    twf pl Da Dp (prune_tasks sc kp kw layers ++ rest).
  Proof.
    induction layers as [|L R IH]; intros kp kw Da Dp rest OK T ACC K; cbn [prune_tasks]; [apply K|].
    cbn [map rtopo] in T. destruct T as [HL T].
    assert (OKL : Forall (prune_ok pl) L)
      by (apply Forall_forall; intros p Hp; eapply OK; [left; reflexivity|exact Hp]).
    assert (OKR : forall layer p, In layer R -> In p layer -> prune_ok pl p)
      by (intros; eapply OK; [right; eassumption|assumption]).
    assert (ACC' : forall d e, In d (map p_id (concat R)) -> In e (map p_id L ++ Dp) -> ~ In e (g_deps (pl_graph pl) d)).
    { intros d e Hd He. apply in_app_or in He. destruct He as [He|He].
      - apply (HL d e); [|exact He]. apply in_or_app. right. rewrite <- concat_map. exact Hd.
      - apply (ACC d e); [|exact He]. cbn [concat]. rewrite map_app. apply in_or_app. right. exact Hd. }
    assert (WC : forall i, In i (map p_id L) -> wc pl Da (map p_id L ++ Dp) i).
    { intros i Hi. split.
      - intros Ha. exfalso. apply in_map_iff in Hi. destruct Hi as [p [<- Hp']].
        rewrite Forall_forall in OKL. exact (DISJ _ Ha (prune_ok_id p (OKL p Hp'))).
      - intros _ e' He Hg. apply in_app_or in He. destruct He as [He|He].
        + apply (HL i e'); [apply in_or_app; left; exact Hi|exact He|exact Hg].
        + apply (ACC i e'); [cbn [concat]; rewrite map_app; apply in_or_app; left; exact Hi|exact He|exact Hg]. }
    specialize (IH (S kp)).
    destruct (is_dry (o_dry (sc_opts sc))); cbn [app twf].
    - split; [exact OKL|]. apply IH; assumption.
    - split; [exact OKL|]. split; [exact WC|]. apply IH; assumption.
  Qed.
End PlanTasks.

Section PlanTasks2.
  Variable sc : scenario.
  Variable known : list id.
  Variable locals : list lobj.
  Variable pobjs : list cobj.
  Notation pl := (build_plan sc known locals pobjs).
  Hypothesis DISJ : forall j, In j (apply_ids pl) -> ~ In j (prune_ids pl).

  Lemma twf_tasks_of : twf pl [] [] (tasks_of sc pl).
  Proof.
    unfold tasks_of. destruct (bp_topo sc known locals pobjs) as [TA TP].
    assert (LAST : forall Da Dp, twf pl Da Dp [TInvSet]) by (intros; exact I).
    assert (PT : forall kw Da, twf pl Da []
               ((if o_prune (sc_opts sc) then match pl_prune pl with [] => [] | _ => prune_tasks sc 0 kw (pl_prune_layers pl) end else [])
                ++ [TInvSet])).
    { intros kw Da. destruct (o_prune (sc_opts sc)); [|exact I]. destruct (pl_prune pl) eqn:E; [exact I|].
      apply twf_prune_tasks; [exact DISJ| |exact TP|intros d e _ []|intros; exact I].
      intros layer q. apply bp_prune_ok. }
    assert (AT : twf pl [] [] (fst (match pl_apply pl with [] => ([], 0) | _ => apply_tasks sc 0 0 (pl_apply_layers pl) end) ++
                 (if o_prune (sc_opts sc) then match pl_prune pl with [] => [] | _ =>
                    prune_tasks sc 0 (snd (match pl_apply pl with [] => ([], 0) | _ => apply_tasks sc 0 0 (pl_apply_layers pl) end)) (pl_prune_layers pl) end else [])
                 ++ [TInvSet])).
    { destruct (pl_apply pl) eqn:E; [apply PT|].
      apply twf_apply_tasks; [exact DISJ| |exact TA|intros d e []|intros; apply PT].
      intros layer q. apply bp_local_ok. }
    destruct (match pl_apply pl with [] => ([], 0) | _ => apply_tasks sc 0 0 (pl_apply_layers pl) end) as [at_ kw].
    cbn [fst snd] in AT. destruct (o_destroy (sc_opts sc)); cbn [app twf]; exact AT.
  Qed.
End PlanTasks2.

(* ---- the whole run --------------------------------------------------------------------------- *)
Definition res_of (it : item) : option id :=
  match it with IEv (EApply _ i _) | IEv (EPrune _ i _) => Some i | _ => None end.

Lemma rids_In tr x e : In x tr -> res_of x = Some e -> In e (rids tr).
Proof.
  intros H R. unfold rids. apply in_flat_map. exists x. split; [exact H|].
  destruct x as [? ? ? ?|?|ev|]; try discriminate. destruct ev; try discriminate; injection R as ->; left; reflexivity.
Qed.
Lemma rids_cons it tr : rids (it :: tr) = (match res_of it with Some i => [i] | None => [] end) ++ rids tr.
Proof. destruct it as [? ? ? ?|?|ev|]; try reflexivity. destruct ev; reflexivity. Qed.

Lemma rids_unique tr : NoDup (rids tr) -> forall x y e, In x tr -> In y tr -> res_of x = Some e -> res_of y = Some e -> x = y.
Proof.
  induction tr as [|it t IH]; intros N x y e Hx Hy Rx Ry; [destruct Hx|].
  rewrite rids_cons in N.
  assert (Nt : NoDup (rids t)) by (destruct (res_of it); [inversion N; assumption|exact N]).
  destruct Hx as [<-|Hx]; destruct Hy as [<-|Hy]; [reflexivity| | |exact (IH Nt x y e Hx Hy Rx Ry)].
  - rewrite Rx in N. inversion N as [|? ? Hn _]; subst. exfalso. apply Hn. exact (rids_In t y e Hy Ry).
  - rewrite Ry in N. inversion N as [|? ? Hn _]; subst. exfalso. apply Hn. exact (rids_In t x e Hx Rx).
Qed.

Section RunJ.
  Variable sc : scenario.

  Lemma good2_split pl l1 it l2 : good2 pl (l1 ++ it :: l2) -> Q2 pl l2 it.
  Proof. induction l1 as [|x l1 IH]; cbn [app good2]; [tauto|]. intros [_ H]. exact (IH H). Qed.

  Theorem plan_run_J c0 pl locals :
    (o_destroy (sc_opts sc) = false -> NoDup (map l_id (sc_local sc))) ->
    run_plan sc c0 = Some (pl, locals) ->
    exists Da Dp td, J pl Da Dp td (r_tr (run_state sc c0)).
  Proof.
    intros WFL. unfold run_plan, run_state. cbv zeta.
    pose proof (inv_list_tr sc (init_state sc c0)) as T1.
    destruct (inv_list sc (init_state sc c0)) as [s1 r1]. cbn [fst] in *.
    destruct r1 as [st|]; [|discriminate].
    set (locals0 := if o_destroy (sc_opts sc) then [] else sc_local sc) in *.
    match goal with |- context [fetch_all sc s1 ?c] => set (cand := c) in * end.
    pose proof (fetch_all_tr sc cand s1) as T2. pose proof (fetch_all_cl sc cand s1) as [_ [_ FC]].
    pose proof (fetch_all_NoDup sc cand s1) as FN.
    destruct (fetch_all sc s1 cand) as [s2 r2]. cbn [fst snd] in *.
    destruct r2 as [pobjs|]; [|discriminate]. intros [= <- <-].
    specialize (FC pobjs eq_refl).
    assert (HL : NoDup (map l_id locals0)).
    { unfold locals0. destruct (o_destroy (sc_opts sc)) eqn:ED; [constructor|]. exact (WFL eq_refl). }
    assert (NC : NoDup cand).
    { unfold cand. apply sortn_NoDup. apply (diff_NoDup nat Nat.eqb nat_eqb_spec). }
    assert (HP : NoDup (map c_id pobjs)) by (apply FN; [exact NC|reflexivity]).
    assert (HD : forall c, In c pobjs -> ~ In (c_id c) (map l_id locals0)).
    { intros c Hc. destruct (FC c Hc) as [X _]. unfold cand in X. apply (proj1 (sortn_In _ _)) in X.
      apply (proj1 (diffn_In _ _ _)) in X. exact (proj2 X). }
    set (known := r_known s2) in *.
    set (pl := build_plan sc known locals0 pobjs) in *.
    assert (DISJ : forall j, In j (apply_ids pl) -> ~ In j (prune_ids pl)).
    { intros j Ha Hp. apply (bp_disj sc known locals0 pobjs HL HP HD j Ha). unfold prune_ids in Hp.
      apply in_map_iff in Hp. destruct Hp as [q [<- Hq]]. apply in_map. apply bp_prune_sub. exact Hq. }
    pose proof (twf_tasks_of sc known locals0 pobjs DISJ) as TW. fold pl in TW.
    destruct (tasks_todo sc known locals0 pobjs HL HP HD) as [TD _]. fold pl in TD.
    pose proof (register_facts sc pl s2) as [_ [T3 _]].
    pose proof (inv_list_tr sc (register sc pl s2)) as T4.
    destruct (inv_list sc (register sc pl s2)) as [s4 r4]. cbn [fst] in *.
    assert (TR4 : r_tr s4 = []) by (rewrite T4, T3, T2, T1; reflexivity).
    assert (J4 : J pl [] [] (todo_of (tasks_of sc pl)) (r_tr s4)).
    { rewrite TR4. split; [intros d [r [ok [m [s0 [[] _]]]]]|]. split; [intros e [u [p [ok [m [s0 []]]]]]|].
      split; [exact TD|exact I]. }
    assert (EV : forall Da Dp td s e, inert (IEv e) -> J pl Da Dp td (r_tr s) -> J pl Da Dp td (r_tr (ev s e)))
      by (intros; apply J_inert; assumption).
    assert (V : forall errs s Da Dp td, J pl Da Dp td (r_tr s) ->
                J pl Da Dp td (r_tr (fold_left (fun s e => ev s (EValidation (sortn e))) errs s))).
    { induction errs as [|e t IHe]; intros s Da Dp td H; cbn [fold_left]; [exact H|]. apply IHe. apply EV; [exact I|exact H]. }
    assert (ERR : forall s, (exists Da Dp td, J pl Da Dp td (r_tr s)) -> exists Da Dp td, J pl Da Dp td (r_tr (ev s EError))).
    { intros s [Da [Dp [td H]]]. exists Da, Dp, td. apply EV; [exact I|exact H]. }
    assert (TASKS : forall errs prev, exists Da Dp td, J pl Da Dp td (r_tr
        (match e_cancel (sc_env sc) with
         | CBeforeSync => ev (ev (fold_left (fun s e => ev s (EValidation (sortn e))) errs s4)
                                 (EInit (map (fun t => (task_name t, task_ids pl t)) (tasks_of sc pl)))) EError
         | _ => run_tasks sc pl locals0 prev
                  (ev (fold_left (fun s e => ev s (EValidation (sortn e))) errs s4)
                      (EInit (map (fun t => (task_name t, task_ids pl t)) (tasks_of sc pl)))) (tasks_of sc pl)
         end))).
    { intros errs prev.
      assert (J6 : J pl [] [] (todo_of (tasks_of sc pl))
                     (r_tr (ev (fold_left (fun s e => ev s (EValidation (sortn e))) errs s4)
                               (EInit (map (fun t => (task_name t, task_ids pl t)) (tasks_of sc pl))))))
        by (apply EV; [exact I|]; apply V; exact J4).
      pose proof (j_run_tasks sc pl locals0 prev (tasks_of sc pl) [] [] _ TW J6) as RT.
      destruct (e_cancel (sc_env sc)); try exact RT. apply ERR. eexists _, _, _. exact J6. }
    destruct (o_valpol (sc_opts sc)); destruct (pl_valerrs pl) eqn:EVs; try apply TASKS.
    apply ERR. eexists _, _, _. exact J4.
  Qed.

  (* U1: one result event per object and kind *)
  Theorem run_unique_result c0 pl locals :
    (o_destroy (sc_opts sc) = false -> NoDup (map l_id (sc_local sc))) -> run_plan sc c0 = Some (pl, locals) ->
    forall x y e, In x (out_trace (run sc c0)) -> In y (out_trace (run sc c0)) ->
      res_of x = Some e -> res_of y = Some e -> x = y.
  Proof.
    intros WFL RP x y e Hx Hy Rx Ry. destruct (plan_run_J c0 pl locals WFL RP) as [Da [Dp [td [_ [_ [N _]]]]]].
    apply NoDup_app_elim in N. destruct N as [N _].
    apply in_out_trace in Hx. apply in_out_trace in Hy.
    destruct Hx as [->|Hx]; [discriminate|]. destruct Hy as [->|Hy]; [discriminate|].
    exact (rids_unique _ N x y e Hx Hy Rx Ry).
  Qed.

  (* U2: where a wait event stands relative to the requests *)
  Theorem run_wait_after_request c0 pl locals :
    (o_destroy (sc_opts sc) = false -> NoDup (map l_id (sc_local sc))) -> run_plan sc c0 = Some (pl, locals) ->
    forall pre it post g e w, out_trace (run sc c0) = pre ++ it :: post -> In (IEv (EWait g e w)) post ->
      Q2 pl (rev pre) (IEv (EWait g e w)) /\
      (In e (apply_ids pl) -> forall d, In e (g_deps (pl_graph pl) d) ->
         forall r ok m st, it = IReq r ok m st -> ~ apply_req_for d r) /\
      (In e (prune_ids pl) -> forall e', In e' (g_deps (pl_graph pl) e) ->
         forall u p ok m st, it <> IReq (RDelete e' u p) ok m st).
  Proof.
    intros WFL RP pre it post g e w E Hin.
    destruct (plan_run_J c0 pl locals WFL RP) as [Da [Dp [td [_ [_ [_ G]]]]]].
    rewrite (run_is_finish sc) in E. unfold finish in E. cbn [out_trace] in E.
    assert (E' : IClosed :: r_tr (run_state sc c0) = rev post ++ it :: rev pre).
    { rewrite <- (rev_involutive (IClosed :: _)), E, rev_app_distr. cbn [rev]. rewrite <- app_assoc. reflexivity. }
    assert (G' : good2 pl (IClosed :: r_tr (run_state sc c0))) by (split; [exact I|exact G]).
    rewrite E' in G'. apply in_rev in Hin. apply in_split in Hin. destruct Hin as [X [Y EP]].
    rewrite EP, <- app_assoc in G'. cbn [app] in G'. apply good2_split in G'. destruct G' as [G1 G2].
    split; [|split].
    - split.
      + intros Ha d Hg [r [ok [m [st [Hr AR]]]]]. apply (G1 Ha d Hg). exists r, ok, m, st. split; [|exact AR].
        apply in_or_app. right. right. exact Hr.
      + intros Hp e' Hg [u [p [ok [m [st Hr]]]]]. apply (G2 Hp e' Hg). exists u, p, ok, m, st.
        apply in_or_app. right. right. exact Hr.
    - intros Ha d Hg r ok m st -> AR. apply (G1 Ha d Hg). exists r, ok, m, st. split; [|exact AR].
      apply in_or_app. right. left. reflexivity.
    - intros Hp e' Hg u p ok m st ->. apply (G2 Hp e' Hg). exists u, p, ok, m, st.
      apply in_or_app. right. left. reflexivity.
  Qed.
End RunJ.

(* ---- C04_blocked / C05_blocked, end-of-run forms ------------------------------------------------- *)
Lemma g_deps_In (g : graph) v ds : NoDup (map fst g) -> In (v, ds) g -> g_deps g v = ds.
Proof.
  induction g as [|[v' ds'] t IH]; intros N H; [destruct H|]. cbn [g_deps]. cbn [map fst] in N.
  inversion N as [|? ? Hn Nt]; subst. destruct H as [[= -> ->]|H]; [rewrite Nat.eqb_refl; reflexivity|].
  destruct (Nat.eqb v' v) eqn:EQ; [|exact (IH Nt H)].
  apply Nat.eqb_eq in EQ. subst v'. exfalso. apply Hn. apply in_map_iff. exists (v, ds). auto.
Qed.
Lemma dependents_deps (g : graph) d e : NoDup (map fst g) -> In d (g_dependents g e) -> In e (g_deps g d).
Proof.
  intros N H. unfold g_dependents in H. apply in_map_iff in H. destruct H as [[v ds] [<- Hv]].
  apply filter_In in Hv. destruct Hv as [Hv M]. cbn [fst snd] in *. apply memn_In in M.
  rewrite (g_deps_In g v ds N Hv). exact M.
Qed.

Section Blocked.
  Variable sc : scenario.

  Lemma bp_graph_vertices known locals pobjs :
    map fst (pl_graph (build_plan sc known locals pobjs)) = map p_id (applyA sc known locals ++ pruneA pobjs).
  Proof.
    unfold build_plan. cbv zeta. fold (finv sc known locals). fold (applyA sc known locals). fold (pruneA pobjs).
    destruct (kahn _ _ _) as [layers cyc]. cbn [pl_graph]. rewrite !map_map. reflexivity.
  Qed.

  Lemma run_plan_graph_nodup c0 pl locals :
    (o_destroy (sc_opts sc) = false -> NoDup (map l_id (sc_local sc))) ->
    run_plan sc c0 = Some (pl, locals) -> NoDup (map fst (pl_graph pl)).
  Proof.
    intros WFL. unfold run_plan. cbv zeta.
    destruct (inv_list sc (init_state sc c0)) as [s1 r1]. destruct r1 as [st|]; [|discriminate].
    set (locals0 := if o_destroy (sc_opts sc) then [] else sc_local sc) in *.
    match goal with |- context [fetch_all sc s1 ?c] => set (cand := c) in * end.
    pose proof (fetch_all_cl sc cand s1) as [_ [_ FC]]. pose proof (fetch_all_NoDup sc cand s1) as FN.
    destruct (fetch_all sc s1 cand) as [s2 r2]. cbn [fst snd] in *.
    destruct r2 as [pobjs|]; [|discriminate]. intros [= <- <-]. specialize (FC pobjs eq_refl).
    rewrite bp_graph_vertices. apply all_ids_NoDup.
    - unfold locals0. destruct (o_destroy (sc_opts sc)) eqn:ED; [constructor|]. exact (WFL eq_refl).
    - apply FN; [|reflexivity]. unfold cand. apply sortn_NoDup. apply (diff_NoDup nat Nat.eqb nat_eqb_spec).
    - intros c Hc. destruct (FC c Hc) as [X _]. unfold cand in X. apply (proj1 (sortn_In _ _)) in X.
      apply (proj1 (diffn_In _ _ _)) in X. exact (proj2 X).
  Qed.

  Lemma apply_req_for_of d r : ((exists f, r = RCreate d f) \/ (exists a f, r = RPatch d a f)) -> apply_req_for d r.
  Proof. intros [[f ->]|[a [f ->]]]; reflexivity. Qed.

  Theorem apply_blocked c0 pl locals : WF sc c0 -> run_plan sc c0 = Some (pl, locals) ->
    forall d e, In e (g_deps (pl_graph pl) d) -> apply_bad_at_end sc pl (out_trace (run sc c0)) e ->
    forall r ok m st, In (IReq r ok m st) (out_trace (run sc c0)) ->
    ~ ((exists f, r = RCreate d f) \/ (exists a f, r = RPatch d a f)).
  Proof.
    intros [WFL _] RP. apply (apply_blocked_end_of_run sc c0 pl locals RP).
    - intros e g1 a1 g2 a2 H1 H2.
      pose proof (run_unique_result sc c0 pl locals WFL RP _ _ e H1 H2 eq_refl eq_refl) as X. congruence.
    - intros pre r ok m st post d e E Hr He g w Hin.
      destruct (order_apply_filter sc c0 pl locals RP pre r ok m st post d E Hr) as [tbl [_ F]].
      destruct (F e He) as [_ [AI _]].
      destruct (run_wait_after_request sc c0 pl locals WFL RP pre _ post g e w E Hin) as [_ [U _]].
      exact (U AI d He r ok m st eq_refl (apply_req_for_of d r Hr)).
  Qed.

  Theorem delete_blocked c0 pl locals : WF sc c0 -> run_plan sc c0 = Some (pl, locals) ->
    forall e d, In d (g_dependents (pl_graph pl) e) -> delete_bad_at_end sc pl (out_trace (run sc c0)) d ->
    forall u p ok m st, ~ In (IReq (RDelete e u p) ok m st) (out_trace (run sc c0)).
  Proof.
    intros [WFL _] RP. apply (delete_blocked_end_of_run sc c0 pl locals RP).
    - intros d g1 a1 g2 a2 H1 H2.
      pose proof (run_unique_result sc c0 pl locals WFL RP _ _ d H1 H2 eq_refl eq_refl) as X. congruence.
    - intros pre e u p ok m st post d E Hd g w Hin.
      destruct (order_delete_filter sc c0 pl locals RP pre e u p ok m st post E) as [tbl [_ F]].
      destruct (F d Hd) as [_ [PI _]].
      destruct (run_wait_after_request sc c0 pl locals WFL RP pre _ post g d w E Hin) as [_ [_ U]].
      apply (U PI e (dependents_deps _ _ _ (run_plan_graph_nodup c0 pl locals WFL RP) Hd) u p ok m st). reflexivity.
  Qed.
End Blocked.
