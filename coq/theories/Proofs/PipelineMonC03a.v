(* mon_C03 (convergence) as a theorem about the model, part 1: the link between
   the reconcile field of the actuation table and the LAST wait event of each
   object (`RL`), preserved by the whole wait machine; small facts about
   reversed traces, normalised clusters and the final inventory. *)
From Coq Require Import List Bool Arith NArith ZArith Lia Permutation.
From CliUtils Require Import Model.ObjSet Model.ActuationTable Model.PipelineTypes Model.Pipeline
     Proofs.ObjSetProofs Proofs.ActuationTableProofs Proofs.PipelineBase Proofs.PipelineAuth Proofs.PipelineEvents
     Corr.CorrPipeline Proofs.PipelineOrphansBase Proofs.PipelineOrphansSpec Proofs.PipelineMonBase.
Import ListNotations.

(* ---- the last wait event of an object, on a reversed trace ------------------------ *)
Definition rof (o : option wst) : reconcile :=
  match o with
  | None | Some WPending => RPending
  | Some WOk => RSucceeded
  | Some WSkipped => RSkipped
  | Some WFailed => RFailed
  | Some WTimedOut => RTimeout
  end.

Definition wsel (i : id) (it : item) : list wst :=
  match it with IEv (EWait _ j s) => if Nat.eqb i j then [s] else [] | _ => [] end.

Definition lw (tr : list item) (i : id) : option wst :=
  match flat_map (wsel i) tr with s :: _ => Some s | [] => None end.

Lemma rev_flat_map_rev {A B} (f : A -> list B) (l : list A) :
  rev (flat_map f (rev l)) = flat_map (fun x => rev (f x)) l.
Proof.
  induction l as [|a l IH]; [reflexivity|].
  cbn [rev flat_map]. rewrite flat_map_app, rev_app_distr. cbn [flat_map]. rewrite app_nil_r, IH. reflexivity.
Qed.

Lemma wsel_rev i it : rev (wsel i it) = wsel i it.
Proof.
  destruct it as [| |e|]; try reflexivity. destruct e; try reflexivity. cbn. destruct (Nat.eqb i i0); reflexivity.
Qed.

Lemma last_wait_rev tr i : last_wait (rev tr ++ [IClosed]) i = lw tr i.
Proof.
  unfold last_wait, lw. change (fun it : item => match it with
    | IEv (EWait _ j s) => if Nat.eqb i j then [s] else [] | _ => [] end) with (wsel i).
  rewrite flat_map_app. cbn [flat_map wsel]. rewrite !app_nil_r, rev_flat_map_rev.
  rewrite (flat_map_ext _ (wsel i)); [reflexivity|]. intros a. apply wsel_rev.
Qed.

Lemma lw_cons_other it tr j : wsel j it = [] -> lw (it :: tr) j = lw tr j.
Proof. intros H. unfold lw. cbn [flat_map]. rewrite H. reflexivity. Qed.

Lemma lw_cons_wait g j x tr : lw (IEv (EWait g j x) :: tr) j = Some x.
Proof. unfold lw. cbn [flat_map wsel]. rewrite Nat.eqb_refl. reflexivity. Qed.

Lemma lw_app_other l tr j : Forall (fun it => wsel j it = []) l -> lw (l ++ tr) j = lw tr j.
Proof.
  induction 1 as [|it l H _ IH]; [reflexivity|]. cbn [app]. rewrite lw_cons_other by exact H. exact IH.
Qed.

(* an item that is no wait event of object j *)
Definition nowait (j : id) (it : item) : Prop := forall g x, it <> IEv (EWait g j x).

Lemma nowait_wsel j it : nowait j it -> wsel j it = [].
Proof.
  intros H. destruct it as [| |e|]; try reflexivity. destruct e; try reflexivity. cbn.
  destruct (Nat.eqb j i) eqn:E; [|reflexivity]. apply Nat.eqb_eq in E. subst i. exfalso. eapply H. reflexivity.
Qed.

Lemma lw_none tr j : (forall g x, ~ In (IEv (EWait g j x)) tr) -> lw tr j = None.
Proof.
  induction tr as [|it tr IH]; intros H; [reflexivity|].
  rewrite lw_cons_other.
  - apply IH. intros g x Hin. apply (H g x). right. exact Hin.
  - apply nowait_wsel. intros g x ->. apply (H g x). left. reflexivity.
Qed.

Lemma lw_some tr j x : lw tr j = Some x -> exists g, In (IEv (EWait g j x)) tr.
Proof.
  induction tr as [|it tr IH]; [discriminate|].
  unfold lw. cbn [flat_map]. destruct (wsel j it) as [|y l] eqn:E.
  - cbn [app]. intros H. destruct (IH H) as [g Hg]. exists g. right. exact Hg.
  - cbn [app]. intros [= ->]. destruct it as [| |e|]; try discriminate. destruct e; try discriminate.
    cbn in E. destruct (Nat.eqb j i) eqn:Eji; [|discriminate]. apply Nat.eqb_eq in Eji. subst i.
    injection E as -> _. exists g. left. reflexivity.
Qed.

(* ---- the reconcile field follows the last wait event ----------------------------------- *)
Definition RL (s : rst) : Prop :=
  forall j r, lookup Nat.eqb (r_tbl s) j = Some r -> r_rec r = rof (lw (r_tr s) j).

Definition RLs (s s' : rst) : Prop := RL s -> RL s'.

Lemma RLs_refl s : RLs s s.
Proof. intros H. exact H. Qed.
Lemma RLs_trans a b c : RLs a b -> RLs b c -> RLs a c.
Proof. unfold RLs. auto. Qed.

Lemma RLs_same s s' : r_tbl s' = r_tbl s -> r_tr s' = r_tr s -> RLs s s'.
Proof. intros E1 E2 H j r. rewrite E1, E2. apply H. Qed.

Lemma RLs_emit s it : (forall j, wsel j it = []) -> RLs s (emit s it).
Proof.
  intros N H j r L. cbn [emit r_tbl r_tr] in *. rewrite lw_cons_other by apply N. apply H. exact L.
Qed.

Lemma RLs_wait s i rc g x : rof (Some x) = rc -> RLs s (ev (rec_reconcile s i rc) (EWait g i x)).
Proof.
  intros ER H j r L. unfold rec_reconcile in L |- *.
  pose proof (set_reconcile_some id Nat.eqb nat_eqb_spec (r_tbl s) i rc) as SR. unfold id in *.
  destruct (set_reconcile Nat.eqb (r_tbl s) i rc) as [t'|] eqn:E.
  - destruct SR as [_ [SR _]]. cbn [ev emit set_tbl r_tbl r_tr] in *. rewrite SR in L. unfold spec_set_rec in L.
    destruct (Nat.eqb i j) eqn:Eij.
    + apply Nat.eqb_eq in Eij. subst j. rewrite lw_cons_wait.
      destruct (lookup Nat.eqb (r_tbl s) i) as [r0|]; [|discriminate]. injection L as <-. cbn. symmetry. exact ER.
    + rewrite lw_cons_other; [apply H; exact L|]. cbn. rewrite Nat.eqb_sym, Eij. reflexivity.
  - cbn [ev emit r_tbl r_tr] in *. destruct (Nat.eqb i j) eqn:Eij.
    + apply Nat.eqb_eq in Eij. subst j. congruence.
    + rewrite lw_cons_other; [apply H; exact L|]. cbn. rewrite Nat.eqb_sym, Eij. reflexivity.
Qed.

Lemma RLs_fold {A} (f : rst -> A -> rst) (l : list A) :
  (forall s a, In a l -> RLs s (f s a)) -> forall s, RLs s (fold_left f l s).
Proof.
  induction l as [|a l IH]; intros H s; cbn; [apply RLs_refl|].
  eapply RLs_trans; [apply H; left; reflexivity|]. apply IH. intros; apply H; right; assumption.
Qed.

Section WaitRL.
  Variable sc : scenario.

  Ltac tr := eapply RLs_trans.

  Lemma rl_handle_changed_uid c g s i : RLs s (handle_changed_uid c g s i).
  Proof. unfold handle_changed_uid. destruct c; apply RLs_wait; reflexivity. Qed.

  Lemma rl_wait_start c g ids s : RLs s (fst (wait_start c g ids s)).
  Proof.
    unfold wait_start.
    set (stepf := fun (acc : rst * list id) (i : id) => _).
    assert (H : forall l acc, RLs (fst acc) (fst (fold_left stepf l acc))).
    { induction l as [|i l IH]; intros acc; cbn [fold_left]; [apply RLs_refl|].
      tr; [|apply IH]. destruct acc as [s0 pend]. unfold stepf. cbn [fst].
      destruct (w_skipped c s0 i); cbn [fst]; [apply RLs_wait; reflexivity|].
      destruct (changed_uid s0 i); cbn [fst]; [apply rl_handle_changed_uid|].
      destruct (cond_met c s0 i); cbn [fst]; apply RLs_wait; reflexivity. }
    specialize (H ids (s, [])). destruct (fold_left stepf ids (s, [])) as [s' pend]. exact H.
  Qed.

  Lemma rl_wait_update c g ids s w i : RLs s (fst (wait_update c g ids s w i)).
  Proof.
    unfold wait_update.
    pose proof (rl_handle_changed_uid c g s i) as H2.
    pose proof (RLs_refl s) as H0.
    repeat match goal with
           | |- context [if ?b then _ else _] => destruct b
           | |- context [match ?c with AllCurrent => _ | AllNotFound => _ end] => destruct c
           end; cbn [fst]; first [exact H0 | exact H2 | apply RLs_wait; reflexivity].
  Qed.

  Lemma rl_wait_timeout g s w : RLs s (wait_timeout g s w).
  Proof. unfold wait_timeout. apply RLs_fold. intros s0 i _. apply RLs_wait. reflexivity. Qed.

  Lemma rl_deliver c g ids ds : forall s w, RLs s (fst (deliver sc c g ids ds s w)).
  Proof.
    induction ds as [|d t IH]; intros s w; cbn [deliver]; [apply RLs_refl|].
    destruct (w_pending w); [apply RLs_refl|].
    set (s2 := if o_status_events (sc_opts sc) then ev (emit s (IDeliv d)) (EStatus (s_id d) (s_st d)) else emit s (IDeliv d)).
    set (s3 := set_cache s2 (d :: r_cache s2)).
    assert (S3 : RLs s s3).
    { unfold s3, s2. tr; [|apply RLs_same; reflexivity]. destruct (o_status_events (sc_opts sc)).
      - apply (RLs_trans _ (emit s (IDeliv d))); [apply RLs_emit; intros j; reflexivity|].
        unfold ev. apply RLs_emit; intros j; reflexivity.
      - apply RLs_emit; intros j; reflexivity. }
    destruct (memn (s_id d) ids).
    - pose proof (rl_wait_update c g ids s3 w (s_id d)) as U.
      destruct (wait_update c g ids s3 w (s_id d)) as [s4 w4]. cbn [fst] in U.
      tr; [exact S3|]. tr; [exact U|apply IH].
    - tr; [exact S3|apply IH].
  Qed.

  Lemma rl_wait_reset c ids s : RLs s (wait_reset sc c ids s).
  Proof. apply RLs_same; [apply wait_reset_tbl|apply wait_reset_tr]. Qed.

  Lemma rl_wait_task c g ids s : RLs s (wait_task sc c g ids s).
  Proof.
    unfold wait_task. cbv zeta.
    pose proof (rl_wait_start c g ids s) as S1.
    destruct (wait_start c g ids s) as [s1 w1]. cbn [fst] in S1.
    destruct (w_pending w1); [tr; [exact S1|apply rl_wait_reset]|].
    destruct (match e_watch_err_at (sc_env sc) with Some n => Nat.eqb n (snd g) | None => false end);
      [tr; [exact S1|apply RLs_same; reflexivity]|].
    pose proof (rl_deliver c g ids (w_deliv (nth (snd g) (e_waits (sc_env sc)) (mkW [] WTimeout))) s1 w1) as S2.
    destruct (deliver sc c g ids _ s1 w1) as [s2 w2]. cbn [fst] in S2.
    tr; [exact S1|]. tr; [exact S2|].
    destruct (w_pending w2); [apply rl_wait_reset|].
    destruct (w_end _).
    - destruct (match c with AllCurrent => _ | AllNotFound => _ end);
        [tr; [apply rl_wait_timeout|apply rl_wait_reset]|apply RLs_same; reflexivity].
    - apply RLs_same; reflexivity.
  Qed.
End WaitRL.

(* a result record resets the reconcile field: fine when the object has no wait event yet *)
Lemma RL_set_status s s' n lt :
  r_tbl s' = set_status Nat.eqb (r_tbl s) n -> r_rec n = RPending ->
  r_tr s' = lt ++ r_tr s -> (forall j, Forall (fun it => wsel j it = []) lt) ->
  lw (r_tr s) (r_id n) = None -> RL s -> RL s'.
Proof.
  intros ET ER ETR NW LN H j r L. rewrite ET in L. rewrite ETR, lw_app_other by apply NW.
  rewrite (lookup_set_status id Nat.eqb nat_eqb_spec) in L. unfold spec_set, id in *.
  destruct (Nat.eqb (r_id n) j) eqn:E.
  - apply Nat.eqb_eq in E. subst j. injection L as <-. rewrite LN. exact ER.
  - apply H. exact L.
Qed.

Lemma RL_frame s s' lt :
  r_tbl s' = r_tbl s -> r_tr s' = lt ++ r_tr s -> (forall j, Forall (fun it => wsel j it = []) lt) -> RL s -> RL s'.
Proof.
  intros ET ETR NW H j r L. rewrite ET in L. rewrite ETR, lw_app_other by apply NW. apply H. exact L.
Qed.

(* items that are not events carry no wait event *)
Lemma noreq_or_req_wsel j it : (forall e, it <> IEv e) -> wsel j it = [].
Proof. intros H. destruct it as [| |e|]; try reflexivity. exfalso. eapply H. reflexivity. Qed.

Lemma snap_wsel cl lt j : Forall (snap_of cl) lt -> Forall (fun it => wsel j it = []) lt.
Proof.
  intros F. eapply Forall_impl; [|exact F]. intros it [r [ok [-> _]]]. reflexivity.
Qed.

(* ---- normalised clusters -------------------------------------------------------------------- *)
Lemma sortn_dedupn_In l y : In y (dedupn (sortn l)) <-> In y l.
Proof.
  unfold dedupn. rewrite (dedup_In nat Nat.eqb nat_eqb_spec). apply sortn_In.
Qed.

Lemma find_obj_flat_first (l : list cobj) (ids : list id) i c :
  NoDup ids -> In i ids -> find_obj l i = Some c ->
  find_obj (flat_map (fun k => match find_obj l k with Some x => [x] | None => [] end) ids) i = Some c.
Proof.
  intros ND. induction ND as [|k t Hk Ht IH]; intros Hi F; [destruct Hi|].
  cbn [flat_map]. destruct Hi as [->|Hi].
  - rewrite F. cbn [app find_obj]. rewrite (find_obj_id _ _ _ F), Nat.eqb_refl. reflexivity.
  - destruct (find_obj l k) as [x|] eqn:Fk; cbn [app]; [|apply IH; assumption].
    cbn [find_obj]. rewrite (find_obj_id _ _ _ Fk).
    destruct (Nat.eqb k i) eqn:E; [apply Nat.eqb_eq in E; subst k; contradiction|apply IH; assumption].
Qed.

Lemma find_obj_flat_none (l : list cobj) (ids : list id) i :
  find_obj l i = None ->
  find_obj (flat_map (fun k => match find_obj l k with Some x => [x] | None => [] end) ids) i = None.
Proof.
  intros F. induction ids as [|k t IH]; [reflexivity|].
  cbn [flat_map]. destruct (find_obj l k) as [x|] eqn:Fk; cbn [app]; [|exact IH].
  cbn [find_obj]. rewrite (find_obj_id _ _ _ Fk).
  destruct (Nat.eqb k i) eqn:E; [apply Nat.eqb_eq in E; subst k; congruence|exact IH].
Qed.

Lemma fo_norm cl i : fo (norm_cluster cl) i = fo cl i.
Proof.
  unfold fo, norm_cluster. cbn [objs].
  destruct (find_obj (objs cl) i) as [c|] eqn:F.
  - apply find_obj_flat_first; [| |exact F].
    + unfold dedupn. apply (dedup_NoDup nat Nat.eqb nat_eqb_spec).
    + apply sortn_dedupn_In. pose proof (find_obj_In _ _ _ F) as H. rewrite <- (find_obj_id _ _ _ F).
      apply in_map. exact H.
  - apply find_obj_flat_none. exact F.
Qed.

Lemma inv_norm cl : inv (norm_cluster cl) = option_map sortn (inv cl).
Proof. reflexivity. Qed.

Lemma managed_norm_iff cl i : NoDup (ids_of cl) -> (In i (managed (norm_cluster cl)) <-> In i (managed cl)).
Proof.
  intros ND. split; [apply managed_norm|].
  intros H. destruct (managed_fo cl i ND H) as [c [Hc Ho]].
  apply (fo_managed (norm_cluster cl) i c); [rewrite fo_norm; exact Hc|exact Ho].
Qed.
