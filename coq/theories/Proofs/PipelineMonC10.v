(* mon_C10 (Corr/CorrPipeline.v) holds of every run of the model: under a
   dry-run strategy no request (client) / only dry-run patches (server), the
   cluster is unchanged, and - unless the run ends with an error - every object
   of every apply/prune group of the plan has exactly one result event. *)
From Coq Require Import List Bool Arith NArith ZArith Lia Permutation.
From CliUtils Require Import Model.ObjSet Model.ActuationTable Model.PipelineTypes Model.Pipeline
     Proofs.ObjSetProofs Proofs.PipelineBase Proofs.PipelineAuth Proofs.PipelineEvents Proofs.PipelineDry
     Corr.CorrLib Corr.CorrPipeline Proofs.PipelineOrphansBase Proofs.PipelineOrphansPlan
     Proofs.PipelineMonBase Proofs.PipelineMonC13.
Import ListNotations.

(* ---- reflexivity of the executable equalities ---------------------------------------- *)
Lemma list_eqb_refl {A} (eqb : A -> A -> bool) (l : list A) : (forall x, eqb x x = true) -> list_eqb eqb l l = true.
Proof. intros H. induction l as [|x t IH]; cbn; [reflexivity|]. rewrite H, IH. reflexivity. Qed.
Lemma nl_eqb_refl l : nl_eqb l l = true.
Proof. apply list_eqb_refl. apply Nat.eqb_refl. Qed.
Lemma optl_eqb_refl o : optl_eqb o o = true.
Proof. destruct o; cbn; [apply nl_eqb_refl|reflexivity]. Qed.
Lemma owner_eqb_refl o : owner_eqb o o = true.
Proof. destruct o; reflexivity. Qed.
Lemma cobj_eqb_refl c : cobj_eqb c c = true.
Proof.
  unfold cobj_eqb. rewrite Nat.eqb_refl, N.eqb_refl, owner_eqb_refl, !Bool.eqb_reflx, nl_eqb_refl, Nat.eqb_refl.
  cbn [andb]. destruct (c_last c) as [la|]; cbn; [|reflexivity].
  rewrite owner_eqb_refl, !Bool.eqb_reflx, nl_eqb_refl, Nat.eqb_refl. reflexivity.
Qed.
Lemma cluster_eqb_refl c : cluster_eqb c c = true.
Proof.
  unfold cluster_eqb. rewrite (list_eqb_refl cobj_eqb _ cobj_eqb_refl), optl_eqb_refl, N.eqb_refl. reflexivity.
Qed.

(* ---- requests of a trace ----------------------------------------------------------------- *)
Lemma reqs_In t r ok : In (r, ok) (reqs t) <-> exists m st, In (IReq r ok m st) t.
Proof.
  unfold reqs. rewrite in_flat_map. split.
  - intros [it [Hit H]]. destruct it as [r' ok' m st| | |]; cbn in H; try contradiction.
    destruct H as [[= <- <-]|[]]. eauto.
  - intros [m [st H]]. exists (IReq r ok m st). split; [exact H|left; reflexivity].
Qed.

Lemma has_error_false t : has_error t = false -> ~ In EError (evs t).
Proof.
  unfold has_error. rewrite events_evs. intros H Hin.
  assert (X : existsb (fun e => match e with EError => true | _ => false end) (evs t) = true)
    by (apply existsb_exists; exists EError; auto).
  congruence.
Qed.

(* ---- the stream of a run without error event: every task block is present ----------------- *)
Inductive tasks_full : list task -> list evt -> Prop :=
| tf_nil : tasks_full [] []
| tf_cons t rest body es :
    body_spec t body -> tasks_full rest es ->
    tasks_full (t :: rest) (EStarted (task_name t) :: body ++ EFinished (task_name t) :: es).

Lemma tasks_trace_full ts es : tasks_trace ts es -> ~ In EError es -> tasks_full ts es.
Proof.
  induction 1 as [|t rest body B|t rest body es B T IH]; intros N.
  - constructor.
  - exfalso. apply N. right. apply in_or_app. right. right. left. reflexivity.
  - constructor; [exact B|]. apply IH. intros H. apply N. right. apply in_or_app. right. right. exact H.
Qed.

Lemma tasks_full_body_ok ts es : tasks_full ts es ->
  forall e, In e es -> (exists g, e = EStarted g) \/ (exists g, e = EFinished g) \/ (exists g, body_ok g e = true).
Proof.
  induction 1 as [|t rest body es B T IH]; intros e He; [destruct He|].
  destruct He as [<-|He]; [left; eauto|]. apply in_app_or in He. destruct He as [He|[<-|He]].
  - right; right. exists (task_name t). pose proof (body_spec_ok t body B) as F. rewrite Forall_forall in F. exact (F e He).
  - right; left. eauto.
  - apply IH. exact He.
Qed.

Definition apply_idx (ts : list task) : list nat :=
  flat_map (fun t => match t with TApply k _ => [k] | _ => [] end) ts.
Definition prune_idx (ts : list task) : list nat :=
  flat_map (fun t => match t with TPrune k _ => [k] | _ => [] end) ts.

Definition fA (g : gname) (i : id) (e : evt) : bool :=
  match e with EApply h j _ => gn_eqb h g && Nat.eqb i j | _ => false end.
Definition fP (g : gname) (i : id) (e : evt) : bool :=
  match e with EPrune h j _ => gn_eqb h g && Nat.eqb i j | _ => false end.

Lemma gn_eqb_idx a k k' : k <> k' -> gn_eqb (a, k') (a, k) = false.
Proof. intros H. unfold gn_eqb. cbn. apply Nat.eqb_neq in H. rewrite Nat.eqb_sym, H. apply andb_false_r. Qed.

Lemma filter_nil {A} (f : A -> bool) l : (forall x, In x l -> f x = false) -> filter f l = [].
Proof.
  induction l as [|x t IH]; intros H; [reflexivity|]. cbn. rewrite (H x) by (left; reflexivity).
  apply IH. intros; apply H; right; assumption.
Qed.

(* a block of another task contributes no result event of group (GApply, k) *)
Lemma body_zero_apply t body k i : body_spec t body -> ~ In k (apply_idx [t]) -> filter (fA (GApply, k) i) body = [].
Proof.
  intros B N. apply filter_nil. intros e He.
  destruct t; cbn [body_spec] in B.
  - subst body. destruct He.
  - unfold apply_body in B. cbn in N. induction B as [|p e' l l' [st ->] _ IH]; [destruct He|].
    destruct He as [<-|He]; [|exact (IH He)]. cbn [fA]. rewrite gn_eqb_idx; [reflexivity|]. intros ->. apply N. left. reflexivity.
  - destruct B as [F _]. rewrite Forall_forall in F. destruct (F e He) as [[j [st [-> _]]]|[j [st ->]]]; reflexivity.
  - clear N. unfold prune_body in B. induction B as [|p e' l l' [st ->] _ IH]; [destruct He|].
    destruct He as [<-|He]; [reflexivity|exact (IH He)].
  - subst body. destruct He.
Qed.
Lemma body_zero_prune t body k i : body_spec t body -> ~ In k (prune_idx [t]) -> filter (fP (GPrune, k) i) body = [].
Proof.
  intros B N. apply filter_nil. intros e He.
  destruct t; cbn [body_spec] in B.
  - subst body. destruct He.
  - clear N. unfold apply_body in B. induction B as [|p e' l l' [st ->] _ IH]; [destruct He|].
    destruct He as [<-|He]; [reflexivity|exact (IH He)].
  - destruct B as [F _]. rewrite Forall_forall in F. destruct (F e He) as [[j [st [-> _]]]|[j [st ->]]]; reflexivity.
  - unfold prune_body in B. cbn in N. induction B as [|p e' l l' [st ->] _ IH]; [destruct He|].
    destruct He as [<-|He]; [|exact (IH He)]. cbn [fP]. rewrite gn_eqb_idx; [reflexivity|]. intros ->. apply N. left. reflexivity.
  - subst body. destruct He.
Qed.

Lemma full_zero_apply ts es k i : tasks_full ts es -> ~ In k (apply_idx ts) -> filter (fA (GApply, k) i) es = [].
Proof.
  induction 1 as [|t rest body es B T IH]; intros N; [reflexivity|].
  cbn [filter fA]. rewrite filter_app. cbn [filter fA].
  rewrite (body_zero_apply t body k i B), IH; [reflexivity| |].
  - intros H. apply N. unfold apply_idx. cbn [flat_map]. apply in_or_app. right. exact H.
  - intros H. apply N. unfold apply_idx in *. cbn [flat_map] in *. apply in_or_app. left. rewrite app_nil_r in H. exact H.
Qed.
Lemma full_zero_prune ts es k i : tasks_full ts es -> ~ In k (prune_idx ts) -> filter (fP (GPrune, k) i) es = [].
Proof.
  induction 1 as [|t rest body es B T IH]; intros N; [reflexivity|].
  cbn [filter fP]. rewrite filter_app. cbn [filter fP].
  rewrite (body_zero_prune t body k i B), IH; [reflexivity| |].
  - intros H. apply N. unfold prune_idx. cbn [flat_map]. apply in_or_app. right. exact H.
  - intros H. apply N. unfold prune_idx in *. cbn [flat_map] in *. apply in_or_app. left. rewrite app_nil_r in H. exact H.
Qed.

(* the block of the task itself contributes exactly one *)
Lemma body_one_apply k layer body i : NoDup (map p_id layer) -> In i (map p_id layer) ->
  apply_body (GApply, k) layer body -> length (filter (fA (GApply, k) i) body) = 1.
Proof.
  intros ND Hi F. rewrite <- (single_id layer i ND Hi). clear ND Hi. unfold apply_body in F.
  induction F as [|p e l l' [st ->] _ IH]; [reflexivity|].
  cbn [filter fA]. rewrite gn_eqb_refl. cbn [andb]. destruct (Nat.eqb i (p_id p)); cbn [length]; rewrite IH; reflexivity.
Qed.
Lemma body_one_prune k layer body i : NoDup (map p_id layer) -> In i (map p_id layer) ->
  prune_body (GPrune, k) layer body -> length (filter (fP (GPrune, k) i) body) = 1.
Proof.
  intros ND Hi F. rewrite <- (single_id layer i ND Hi). clear ND Hi. unfold prune_body in F.
  induction F as [|p e l l' [st ->] _ IH]; [reflexivity|].
  cbn [filter fP]. rewrite gn_eqb_refl. cbn [andb]. destruct (Nat.eqb i (p_id p)); cbn [length]; rewrite IH; reflexivity.
Qed.

Lemma cover_apply ts es : tasks_full ts es -> Forall task_nd ts -> NoDup (apply_idx ts) ->
  forall k l i, In (TApply k l) ts -> In i (map p_id l) -> length (filter (fA (GApply, k) i) es) = 1.
Proof.
  induction 1 as [|t rest body es B T IH]; intros ND NI k l i Hin Hi; [destruct Hin|].
  inversion ND as [|? ? Nt Nr]; subst.
  cbn [filter fA]. rewrite filter_app. cbn [filter fA]. rewrite app_length.
  destruct Hin as [->|Hin].
  - cbn [body_spec task_nd] in *. rewrite (body_one_apply k l body i Nt Hi B).
    rewrite (full_zero_apply rest es k i T); [reflexivity|].
    unfold apply_idx in NI. cbn [flat_map app] in NI. inversion NI; assumption.
  - assert (NI' : NoDup (apply_idx rest) /\ ~ In k (apply_idx [t])).
    { unfold apply_idx in *. cbn [flat_map] in *. rewrite app_nil_r.
      assert (Hk : In k (flat_map (fun t0 => match t0 with TApply k0 _ => [k0] | _ => [] end) rest)).
      { apply in_flat_map. exists (TApply k l). split; [exact Hin|left; reflexivity]. }
      destruct t; cbn [app] in *; try (split; [exact NI|intros []]).
      inversion NI as [|? ? Hx Hr]; subst. split; [exact Hr|]. intros [->|[]]. contradiction. }
    destruct NI' as [NI1 NI2].
    rewrite (body_zero_apply t body k i B NI2). cbn [length]. exact (IH Nr NI1 k l i Hin Hi).
Qed.
Lemma cover_prune ts es : tasks_full ts es -> Forall task_nd ts -> NoDup (prune_idx ts) ->
  forall k l i, In (TPrune k l) ts -> In i (map p_id l) -> length (filter (fP (GPrune, k) i) es) = 1.
Proof.
  induction 1 as [|t rest body es B T IH]; intros ND NI k l i Hin Hi; [destruct Hin|].
  inversion ND as [|? ? Nt Nr]; subst.
  cbn [filter fP]. rewrite filter_app. cbn [filter fP]. rewrite app_length.
  destruct Hin as [->|Hin].
  - cbn [body_spec task_nd] in *. rewrite (body_one_prune k l body i Nt Hi B).
    rewrite (full_zero_prune rest es k i T); [reflexivity|].
    unfold prune_idx in NI. cbn [flat_map app] in NI. inversion NI; assumption.
  - assert (NI' : NoDup (prune_idx rest) /\ ~ In k (prune_idx [t])).
    { unfold prune_idx in *. cbn [flat_map] in *. rewrite app_nil_r.
      assert (Hk : In k (flat_map (fun t0 => match t0 with TPrune k0 _ => [k0] | _ => [] end) rest)).
      { apply in_flat_map. exists (TPrune k l). split; [exact Hin|left; reflexivity]. }
      destruct t; cbn [app] in *; try (split; [exact NI|intros []]).
      inversion NI as [|? ? Hx Hr]; subst. split; [exact Hr|]. intros [->|[]]. contradiction. }
    destruct NI' as [NI1 NI2].
    rewrite (body_zero_prune t body k i B NI2). cbn [length]. exact (IH Nr NI1 k l i Hin Hi).
Qed.

(* ---- task indices of the task list ---------------------------------------------------------- *)
Section Idx.
  Variable sc : scenario.

  Lemma apply_idx_app a b : apply_idx (a ++ b) = apply_idx a ++ apply_idx b.
  Proof. apply flat_map_app. Qed.
  Lemma prune_idx_app a b : prune_idx (a ++ b) = prune_idx a ++ prune_idx b.
  Proof. apply flat_map_app. Qed.

  Lemma idx_apply_tasks layers : forall ka kw,
    apply_idx (fst (apply_tasks sc ka kw layers)) = seq ka (length layers) /\
    prune_idx (fst (apply_tasks sc ka kw layers)) = [].
  Proof.
    induction layers as [|l t IH]; intros ka kw; cbn [apply_tasks]; [split; reflexivity|].
    destruct (is_dry _).
    - specialize (IH (S ka) kw). destruct (apply_tasks sc (S ka) kw t) as [ts kw']. cbn [fst] in *.
      destruct IH as [A B]. unfold apply_idx, prune_idx in *. cbn. rewrite A, B. split; reflexivity.
    - specialize (IH (S ka) (S kw)). destruct (apply_tasks sc (S ka) (S kw) t) as [ts kw']. cbn [fst] in *.
      destruct IH as [A B]. unfold apply_idx, prune_idx in *. cbn. rewrite A, B. split; reflexivity.
  Qed.
  Lemma idx_prune_tasks layers : forall kp kw,
    prune_idx (prune_tasks sc kp kw layers) = seq kp (length layers) /\
    apply_idx (prune_tasks sc kp kw layers) = [].
  Proof.
    induction layers as [|l t IH]; intros kp kw; cbn [prune_tasks]; [split; reflexivity|].
    destruct (is_dry _).
    - destruct (IH (S kp) kw) as [A B]. unfold apply_idx, prune_idx in *. cbn. rewrite A, B. split; reflexivity.
    - destruct (IH (S kp) (S kw)) as [A B]. unfold apply_idx, prune_idx in *. cbn. rewrite A, B. split; reflexivity.
  Qed.

  Lemma tasks_of_idx pl : NoDup (apply_idx (tasks_of sc pl)) /\ NoDup (prune_idx (tasks_of sc pl)).
  Proof.
    unfold tasks_of.
    assert (A : exists n, apply_idx (fst (match pl_apply pl with [] => ([], 0) | _ => apply_tasks sc 0 0 (pl_apply_layers pl) end)) = seq 0 n /\
                          prune_idx (fst (match pl_apply pl with [] => ([], 0) | _ => apply_tasks sc 0 0 (pl_apply_layers pl) end)) = []).
    { destruct (pl_apply pl); [exists 0; split; reflexivity|]. eexists. apply idx_apply_tasks. }
    destruct (match pl_apply pl with [] => ([], 0) | _ => apply_tasks sc 0 0 (pl_apply_layers pl) end) as [at_ kw].
    cbn [fst] in A. destruct A as [n [A1 A2]].
    assert (P : exists m, prune_idx (if o_prune (sc_opts sc) then match pl_prune pl with [] => [] | _ => prune_tasks sc 0 kw (pl_prune_layers pl) end else []) = seq 0 m /\
                          apply_idx (if o_prune (sc_opts sc) then match pl_prune pl with [] => [] | _ => prune_tasks sc 0 kw (pl_prune_layers pl) end else []) = []).
    { destruct (o_prune _); [|exists 0; split; reflexivity]. destruct (pl_prune pl); [exists 0; split; reflexivity|].
      eexists. apply idx_prune_tasks. }
    destruct P as [m [P1 P2]].
    assert (E0 : apply_idx (if o_destroy (sc_opts sc) then [] else [TInvAdd]) = [] /\
                 prune_idx (if o_destroy (sc_opts sc) then [] else [TInvAdd]) = [])
      by (destruct (o_destroy _); split; reflexivity).
    destruct E0 as [E1 E2].
    rewrite !apply_idx_app, !prune_idx_app, A1, A2, P1, P2, E1, E2. cbn [app apply_idx prune_idx flat_map].
    rewrite !app_nil_r. split; apply seq_NoDup.
  Qed.
End Idx.

(* ---- the monitor ------------------------------------------------------------------------------ *)
Section Run.
  Variable sc : scenario.
  Variable c0 : cluster.
  Hypothesis HND : locals_nodup sc.

  Notation pl := (plan_of sc c0).

  Lemma cover_or_error : has_error (out_trace (run sc c0)) || result_events_cover (out_trace (run sc c0)) = true.
  Proof.
    destruct (has_error (out_trace (run sc c0))) eqn:HE; [reflexivity|]. cbn [orb].
    apply has_error_false in HE. unfold result_events_cover. rewrite events_evs.
    rewrite (evs_out_trace sc c0) in *.
    destruct (run_events_plan sc c0) as [E|[[vals [F E]]|[vals [es' [F [T E]]]]]]; rewrite E in *.
    - exfalso. apply HE. left. reflexivity.
    - exfalso. apply HE. apply in_or_app. right. right. left. reflexivity.
    - assert (NE : ~ In EError es') by (intros H; apply HE; apply in_or_app; right; right; exact H).
      pose proof (tasks_trace_full _ _ T NE) as TF.
      destruct (tasks_of_idx sc pl) as [NA NP]. pose proof (tasks_of_nd sc c0 HND) as ND.
      set (whole := vals ++ init_ev sc c0 :: es').
      assert (CA : forall k i, length (filter (fA (GApply, k) i) whole) = length (filter (fA (GApply, k) i) es')).
      { intros k i. unfold whole. rewrite filter_app. cbn [filter fA init_ev].
        rewrite (filter_nil _ vals); [reflexivity|]. intros x Hx. rewrite Forall_forall in F. destruct (F x Hx) as [l ->]. reflexivity. }
      assert (CP : forall k i, length (filter (fP (GPrune, k) i) whole) = length (filter (fP (GPrune, k) i) es')).
      { intros k i. unfold whole. rewrite filter_app. cbn [filter fP init_ev].
        rewrite (filter_nil _ vals); [reflexivity|]. intros x Hx. rewrite Forall_forall in F. destruct (F x Hx) as [l ->]. reflexivity. }
      apply forallb_forall. intros e He. destruct e as [| groups | | | | | | |]; try reflexivity.
      assert (EG : groups = map (fun t => (task_name t, task_ids pl t)) (tasks_of sc pl)).
      { apply in_app_or in He. destruct He as [He|[He|He]].
        - rewrite Forall_forall in F. destruct (F _ He) as [l X]. discriminate.
        - unfold init_ev in He. injection He as <-. reflexivity.
        - destruct (tasks_full_body_ok _ _ TF _ He) as [[g X]|[[g X]|[g X]]]; discriminate. }
      subst groups. apply forallb_forall. intros g Hg. apply in_map_iff in Hg. destruct Hg as [t [<- Ht]].
      destruct t as [|k l|k c ids|k l|]; cbn [task_name task_ids fst snd]; try reflexivity.
      + apply forallb_forall. intros i Hi. fold (fA (GApply, k) i). fold whole. rewrite CA.
        rewrite (cover_apply _ _ TF ND NA k l i Ht Hi). reflexivity.
      + apply forallb_forall. intros i Hi. fold (fP (GPrune, k) i). fold whole. rewrite CP.
        rewrite (cover_prune _ _ TF ND NP k l i Ht Hi). reflexivity.
  Qed.

  Theorem monitor_C10 : mon_C10 sc c0 (run sc c0) = true.
  Proof.
    unfold mon_C10. destruct (o_dry (sc_opts sc)) eqn:D; [reflexivity| |].
    - assert (R : reqs (out_trace (run sc c0)) = []).
      { destruct (reqs (out_trace (run sc c0))) as [|[r ok] t] eqn:E; [reflexivity|]. exfalso.
        assert (H : In (r, ok) (reqs (out_trace (run sc c0)))) by (rewrite E; left; reflexivity).
        apply reqs_In in H. destruct H as [m [st H]].
        exact (dry_client_no_request sc (is_dry_client sc D) c0 D r ok m st H). }
      rewrite R, (dry_cluster_unchanged sc (is_dry_client sc D) c0), cluster_eqb_refl, cover_or_error. reflexivity.
    - rewrite cover_or_error, andb_true_r. apply forallb_forall. intros [r ok] H.
      apply reqs_In in H. destruct H as [m [st H]].
      destruct (dry_requests sc (is_dry_server sc D) c0 r ok m st H) as [_ [i ->]]. reflexivity.
  Qed.
End Run.
